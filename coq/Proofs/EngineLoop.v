(* C05, parts B, D, E: facts about the main loop for an arbitrary selection function. *)
From Coq Require Import List ZArith Bool Lia ZifyBool.
From Lou Require Import Gen.GConst Gen.GChain Model.Table Model.Ref Model.Compile Model.Engine.
Import ListNotations.
Local Open Scope Z_scope.

(* ------------------------------------------------------------------ B: the loop only calls sel *)

Lemma step_ext t sel1 sel2 inp cap s :
  (forall i p, sel1 i p = sel2 i p) -> step t sel1 inp cap s = step t sel2 inp cap s.
Proof. intros H. unfold step. rewrite H. reflexivity. Qed.

Lemma loop_ext t sel1 sel2 inp cap :
  (forall i p, sel1 i p = sel2 i p) ->
  forall fuel s, loop t sel1 inp cap fuel s = loop t sel2 inp cap fuel s.
Proof.
  intros H. induction fuel as [|f IH]; intros s; cbn [loop]; [reflexivity|].
  rewrite (step_ext t sel1 sel2 inp cap s H).
  destruct (ts_pos s >=? n inp); [reflexivity|].
  destruct (step t sel2 inp cap s); [apply IH|reflexivity|reflexivity].
Qed.

Lemma run_ext t sel1 sel2 inp cap :
  (forall i p, sel1 i p = sel2 i p) -> run t sel1 inp cap = run t sel2 inp cap.
Proof. intros H. unfold run. apply loop_ext. exact H. Qed.

(* ------------------------------------------------------------------ step, in named pieces *)

Definition word_mark (t : table) (inp : list Z) (s : tstate) : tstate :=
  if (0 <? ts_pos s) && is_space_at t inp (ts_pos s - 1)
  then mkTS (ts_pos s) (ts_out s) (ts_pm s) (ts_pos s) (len (ts_out s)) (ts_trace s) else s.

Definition numsign_emit (t : table) (inp : list Z) (cap : Z) (pos : Z) (s0 : tstate) : option tstate :=
  match numsign t with
  | Some nd =>
      if has_attr (attrs t (nth_z inp pos)) CTC_Digit &&
         negb (has_attr (attrs t (before_char inp pos)) CTC_Digit)
      then emit inp cap s0 nd 0 else Some s0
  | None => Some s0
  end.

Definition with_trace (idx : Z) (s1 : tstate) : tstate :=
  mkTS (ts_pos s1) (ts_out s1) (ts_pm s1) (ts_lw_in s1) (ts_lw_out s1) (idx :: ts_trace s1).

Definition apply_rule (t : table) (inp : list Z) (cap : Z) (s2 : tstate) (e : entry) : step_result :=
  let l := len (e_chars e) in
  match e_dots e with
  | [] =>
      match put_chars t inp cap (Z.to_nat l) s2 with
      | None => Unsupported
      | Some None => Fail (put_chars_partial t inp cap (Z.to_nat l) s2)
      | Some (Some s3) => Next s3
      end
  | d =>
      match emit inp cap s2 d l with
      | None => Fail s2
      | Some s3 => Next (advance s3 l)
      end
  end.

Lemma step_unfold t sel inp cap s :
  step t sel inp cap s =
  match sel inp (ts_pos s) with
  | None => Unsupported
  | Some (idx, e) =>
      match numsign_emit t inp cap (ts_pos s) (word_mark t inp s) with
      | None => Fail (word_mark t inp s)
      | Some s1 => apply_rule t inp cap (with_trace idx s1) e
      end
  end.
Proof. reflexivity. Qed.

Lemma loop_unfold t sel inp cap f s :
  loop t sel inp cap (S f) s =
  if ts_pos s >=? n inp then finish t inp (word_mark t inp s)
  else match step t sel inp cap s with
       | Next s' => loop t sel inp cap f s'
       | Fail s' => finish t inp s'
       | Unsupported => TUnsupported
       end.
Proof. reflexivity. Qed.

(* ------------------------------------------------------------------ positions *)

Lemma word_mark_pos t inp s : ts_pos (word_mark t inp s) = ts_pos s.
Proof. unfold word_mark. destruct (_ && _); reflexivity. Qed.

Lemma emit_pos inp cap s d k s' : emit inp cap s d k = Some s' -> ts_pos s' = ts_pos s.
Proof.
  unfold emit. destruct (_ || _); [discriminate|]. intros H. injection H as <-. reflexivity.
Qed.

Lemma emit_bound inp cap s d k s' : emit inp cap s d k = Some s' -> ts_pos s + k <= n inp.
Proof.
  unfold emit. destruct (_ || _) eqn:E; [discriminate|]. intros _. lia.
Qed.

Lemma numsign_emit_pos t inp cap pos s0 s1 :
  numsign_emit t inp cap pos s0 = Some s1 -> ts_pos s1 = ts_pos s0.
Proof.
  unfold numsign_emit. destruct (numsign t) as [nd|].
  - destruct (_ && _).
    + apply emit_pos.
    + intros H. injection H as <-. reflexivity.
  - intros H. injection H as <-. reflexivity.
Qed.

Lemma put_chars_mono t inp cap k : forall s s',
  put_chars t inp cap k s = Some (Some s') -> ts_pos s <= ts_pos s'.
Proof.
  induction k as [|k IH]; intros s s'; cbn [put_chars].
  - intros H. injection H as <-. lia.
  - destruct (def_dots t (nth_z inp (ts_pos s))) as [d|]; [|discriminate].
    destruct (emit inp cap s d 1) as [s1|] eqn:Ee; [|discriminate].
    apply emit_pos in Ee.
    destruct (ts_pos (advance s1 1) >=? n inp).
    + intros H. injection H as <-. cbn [advance ts_pos]. lia.
    + intros H. apply IH in H. cbn [advance ts_pos] in H. lia.
Qed.

Lemma put_chars_progress t inp cap k s s' : (1 <= k)%nat ->
  put_chars t inp cap k s = Some (Some s') -> ts_pos s + 1 <= ts_pos s'.
Proof.
  destruct k as [|k]; [lia|]. intros _. cbn [put_chars].
  destruct (def_dots t (nth_z inp (ts_pos s))) as [d|]; [|discriminate].
  destruct (emit inp cap s d 1) as [s1|] eqn:Ee; [|discriminate].
  apply emit_pos in Ee.
  destruct (ts_pos (advance s1 1) >=? n inp).
  - intros H. injection H as <-. cbn [advance ts_pos]. lia.
  - intros H. apply put_chars_mono in H. cbn [advance ts_pos] in H. lia.
Qed.

Lemma apply_rule_progress t inp cap s2 e s' : 1 <= len (e_chars e) ->
  apply_rule t inp cap s2 e = Next s' -> ts_pos s2 + 1 <= ts_pos s'.
Proof.
  intros Hl. unfold apply_rule. destruct (e_dots e) as [|d0 dr].
  - destruct (put_chars t inp cap (Z.to_nat (len (e_chars e))) s2) as [[s3|]|] eqn:Ep; try discriminate.
    intros H. injection H as <-. apply put_chars_progress in Ep; [exact Ep|lia].
  - destruct (emit inp cap s2 (d0 :: dr) (len (e_chars e))) as [s3|] eqn:Ee; [|discriminate].
    intros H. injection H as <-. apply emit_pos in Ee. cbn [advance ts_pos]. lia.
Qed.

Definition sel_good (sel : list Z -> Z -> option crule) : Prop :=
  forall i p idx e, sel i p = Some (idx, e) -> 1 <= len (e_chars e).

Lemma step_progress t sel inp cap s s' : sel_good sel ->
  step t sel inp cap s = Next s' -> ts_pos s + 1 <= ts_pos s'.
Proof.
  intros Hg. rewrite step_unfold.
  destruct (sel inp (ts_pos s)) as [[idx e]|] eqn:Es; [|discriminate].
  destruct (numsign_emit t inp cap (ts_pos s) (word_mark t inp s)) as [s1|] eqn:En; [|discriminate].
  intros H. apply apply_rule_progress in H; [|exact (Hg _ _ _ _ Es)].
  apply numsign_emit_pos in En. rewrite word_mark_pos in En.
  cbn [with_trace ts_pos] in H. lia.
Qed.

(* ------------------------------------------------------------------ D: the fuel suffices *)

Lemma loop_total t sel inp cap : sel_good sel ->
  forall fuel s, (Z.to_nat (n inp - ts_pos s) < fuel)%nat ->
  loop t sel inp cap fuel s <> TOutOfFuel.
Proof.
  intros Hg. induction fuel as [|f IH]; intros s Hf; [lia|].
  rewrite loop_unfold. destruct (ts_pos s >=? n inp) eqn:Ep.
  - unfold finish. discriminate.
  - destruct (step t sel inp cap s) as [s'|s'|] eqn:Es.
    + apply IH. apply step_progress in Es; [|exact Hg]. lia.
    + unfold finish. discriminate.
    + discriminate.
Qed.

Lemma run_total t sel inp cap : sel_good sel -> run t sel inp cap <> TOutOfFuel.
Proof.
  intros Hg. unfold run. apply loop_total; [exact Hg|].
  cbn [ts_pos]. unfold n, len. lia.
Qed.

(* ------------------------------------------------------------------ E: the loop invariant *)

Definition Inv (inp : list Z) (cap : Z) (s : tstate) : Prop :=
  0 <= ts_pos s <= n inp /\
  0 <= ts_lw_in s <= ts_pos s /\
  0 <= ts_lw_out s <= len (ts_out s) /\
  len (ts_out s) <= cap /\
  length (ts_pm s) = length (ts_out s).

Lemma word_mark_inv t inp cap s : Inv inp cap s -> Inv inp cap (word_mark t inp s).
Proof.
  unfold word_mark, Inv. destruct (_ && _); [|tauto].
  cbn [ts_pos ts_out ts_pm ts_lw_in ts_lw_out]. unfold len. lia.
Qed.

Lemma emit_inv inp cap s d k s' : Inv inp cap s ->
  emit inp cap s d k = Some s' -> Inv inp cap s'.
Proof.
  unfold emit, Inv. destruct (_ || _) eqn:E; [discriminate|].
  intros H He. injection He as <-.
  cbn [ts_pos ts_out ts_pm ts_lw_in ts_lw_out].
  unfold len in *. rewrite !app_length, rev_length, repeat_length. lia.
Qed.

Lemma advance_inv inp cap s k : Inv inp cap s -> 0 <= k -> ts_pos s + k <= n inp ->
  Inv inp cap (advance s k).
Proof.
  unfold Inv, advance. cbn [ts_pos ts_out ts_pm ts_lw_in ts_lw_out]. lia.
Qed.

Lemma numsign_emit_inv t inp cap pos s0 s1 : Inv inp cap s0 ->
  numsign_emit t inp cap pos s0 = Some s1 -> Inv inp cap s1.
Proof.
  intros Hi. unfold numsign_emit. destruct (numsign t) as [nd|].
  - destruct (_ && _).
    + apply emit_inv. exact Hi.
    + intros H. injection H as <-. exact Hi.
  - intros H. injection H as <-. exact Hi.
Qed.

Lemma with_trace_inv inp cap idx s : Inv inp cap s -> Inv inp cap (with_trace idx s).
Proof. unfold Inv, with_trace. cbn [ts_pos ts_out ts_pm ts_lw_in ts_lw_out]. tauto. Qed.

Lemma put_chars_inv t inp cap k : forall s s', Inv inp cap s ->
  put_chars t inp cap k s = Some (Some s') -> Inv inp cap s'.
Proof.
  induction k as [|k IH]; intros s s' Hi; cbn [put_chars].
  - intros H. injection H as <-. exact Hi.
  - destruct (def_dots t (nth_z inp (ts_pos s))) as [d|]; [|discriminate].
    destruct (emit inp cap s d 1) as [s1|] eqn:Ee; [|discriminate].
    assert (Hi1 : Inv inp cap (advance s1 1)).
    { apply advance_inv; [exact (emit_inv _ _ _ _ _ _ Hi Ee)|lia|].
      rewrite (emit_pos _ _ _ _ _ _ Ee). exact (emit_bound _ _ _ _ _ _ Ee). }
    destruct (ts_pos (advance s1 1) >=? n inp).
    + intros H. injection H as <-. exact Hi1.
    + apply IH. exact Hi1.
Qed.

Lemma put_chars_partial_inv t inp cap k : forall s, Inv inp cap s ->
  Inv inp cap (put_chars_partial t inp cap k s).
Proof.
  induction k as [|k IH]; intros s Hi; cbn [put_chars_partial]; [exact Hi|].
  destruct (def_dots t (nth_z inp (ts_pos s))) as [d|]; [|exact Hi].
  destruct (emit inp cap s d 1) as [s1|] eqn:Ee; [|exact Hi].
  assert (Hi1 : Inv inp cap (advance s1 1)).
  { apply advance_inv; [exact (emit_inv _ _ _ _ _ _ Hi Ee)|lia|].
    rewrite (emit_pos _ _ _ _ _ _ Ee). exact (emit_bound _ _ _ _ _ _ Ee). }
  destruct (ts_pos (advance s1 1) >=? n inp); [exact Hi1|apply IH; exact Hi1].
Qed.

Lemma apply_rule_inv t inp cap s2 e : Inv inp cap s2 ->
  match apply_rule t inp cap s2 e with
  | Next s' => Inv inp cap s'
  | Fail s' => Inv inp cap s'
  | Unsupported => True
  end.
Proof.
  intros Hi. unfold apply_rule. destruct (e_dots e) as [|d0 dr].
  - destruct (put_chars t inp cap (Z.to_nat (len (e_chars e))) s2) as [[s3|]|] eqn:Ep.
    + exact (put_chars_inv _ _ _ _ _ _ Hi Ep).
    + apply put_chars_partial_inv. exact Hi.
    + exact I.
  - destruct (emit inp cap s2 (d0 :: dr) (len (e_chars e))) as [s3|] eqn:Ee; [|exact Hi].
    apply advance_inv; [exact (emit_inv _ _ _ _ _ _ Hi Ee)|unfold len; lia|].
    rewrite (emit_pos _ _ _ _ _ _ Ee). exact (emit_bound _ _ _ _ _ _ Ee).
Qed.

Lemma step_inv t sel inp cap s : Inv inp cap s ->
  match step t sel inp cap s with
  | Next s' => Inv inp cap s'
  | Fail s' => Inv inp cap s'
  | Unsupported => True
  end.
Proof.
  intros Hi. rewrite step_unfold.
  destruct (sel inp (ts_pos s)) as [[idx e]|]; [|exact I].
  assert (Hw := word_mark_inv t inp cap s Hi).
  destruct (numsign_emit t inp cap (ts_pos s) (word_mark t inp s)) as [s1|] eqn:En; [|exact Hw].
  apply apply_rule_inv. apply with_trace_inv. exact (numsign_emit_inv _ _ _ _ _ _ Hw En).
Qed.

Lemma skip_spaces_range t inp fuel : forall p, 0 <= p <= n inp ->
  p <= skip_spaces t inp fuel p <= n inp.
Proof.
  induction fuel as [|f IH]; intros p Hp; cbn [skip_spaces]; [lia|].
  destruct (p <? n inp) eqn:E; cbn [andb]; [|lia].
  destruct (is_space_at t inp p); [|lia].
  specialize (IH (p + 1)). lia.
Qed.

Definition res_ok (inp : list Z) (cap : Z) (r : tresult) : Prop :=
  match r with
  | TOk consumed cells pm _ =>
      0 <= consumed <= len inp /\ len cells <= cap /\ length pm = length cells
  | _ => True
  end.

Lemma finish_ok t inp cap s : Inv inp cap s -> res_ok inp cap (finish t inp s).
Proof.
  intros (Hp & Hl & Ho & Hc & Hpm). unfold finish, res_ok.
  set (b := negb (ts_lw_out s =? 0) && (ts_pos s <? n inp) && negb (is_space_at t inp (ts_pos s))).
  split; [|split].
  - assert (H : 0 <= (if b then ts_lw_in s else ts_pos s) <= n inp) by (destruct b; lia).
    pose proof (skip_spaces_range t inp (length inp) _ H) as H2. fold (n inp). lia.
  - unfold len in *. rewrite firstn_length, rev_length. lia.
  - rewrite !firstn_length, !rev_length, Hpm. reflexivity.
Qed.

Lemma loop_ok t sel inp cap : forall fuel s, Inv inp cap s ->
  res_ok inp cap (loop t sel inp cap fuel s).
Proof.
  induction fuel as [|f IH]; intros s Hi; [exact I|].
  rewrite loop_unfold. destruct (ts_pos s >=? n inp).
  - apply finish_ok. apply word_mark_inv. exact Hi.
  - pose proof (step_inv t sel inp cap s Hi) as Hs.
    destruct (step t sel inp cap s) as [s'|s'|].
    + apply IH. exact Hs.
    + apply finish_ok. exact Hs.
    + exact I.
Qed.

Lemma run_ok t sel inp cap : 0 <= cap -> res_ok inp cap (run t sel inp cap).
Proof.
  intros Hc. unfold run. apply loop_ok.
  unfold Inv, n, len. cbn [ts_pos ts_out ts_pm ts_lw_in ts_lw_out length]. lia.
Qed.
