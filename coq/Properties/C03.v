(* C03 — every translation, back-translation and hyphenation call terminates.  Statements only.
   All loops of the models run on explicit fuel; the theorems say the fuel never runs out and
   bound the number of loop iterations by a linear function of input length and capacity.   *)
From Coq Require Import List ZArith Bool NArith.
From Lou Require Import Gen.GConst Gen.GChain Model.Table Model.Ref Model.Compile Model.Engine Model.Pass Model.BackPass Model.Hyph Model.Back.
From Lou Require Import Proofs.EngineProofs Proofs.PassProofs Proofs.TermProofs.
Import ListNotations.
Local Open Scope Z_scope.

(* forward stage scanner (correct, pass2-4), ANY rules, ANY input, ANY capacity: after a rule
   that did not advance the next step copies one element, and no accepted match moves backwards *)
Theorem forward_stage_terminates : forall kind rules is_space inp cap,
  run_stage kind rules is_space inp cap <> SOutOfFuel.
Proof. exact TermProofs.stage_total_l. Qed.
Print Assumptions forward_stage_terminates.

(* the number of iterations is at most 2 * input length + 1 *)
Theorem forward_stage_step_bound : forall kind rules is_space inp cap,
  sloop kind (pass_chain rules) is_space inp cap (S (2 * length inp + 1)) (mkPS 0 [] [] true []) <> SOutOfFuel.
Proof. exact TermProofs.stage_bound_l. Qed.
Print Assumptions forward_stage_step_bound.

(* backward stage scanner: a match may move backwards there, but every step that does not advance
   is followed by a copy that emits one element, so capacity bounds the number of steps *)
Theorem backward_stage_terminates : forall kind rules is_space inp cap, 0 <= cap ->
  run_bstage kind rules is_space inp cap <> SOutOfFuel.
Proof. exact TermProofs.bstage_total_l. Qed.
Print Assumptions backward_stage_terminates.

(* main passes *)
Theorem forward_main_pass_terminates : forall t mode inp cap, translate_ref t mode inp cap <> TOutOfFuel.
Proof. exact EngineProofs.engine_total_l. Qed.

Theorem backward_main_pass_terminates : forall t inp cap, back_run t inp cap <> BOutOfFuel.
Proof. exact TermProofs.back_total_l. Qed.

(* the whole forward driver *)
Theorem forward_driver_terminates : forall pt mode inp cap, forward pt mode inp cap <> DOutOfFuel.
Proof. exact TermProofs.forward_total_l. Qed.
Print Assumptions forward_driver_terminates.

(* hyphenation: every fallback is a strictly shorter string, so the automaton step needs at most
   (state length + 1) fallbacks: the fuel given by walk_aux is never the reason for a reset *)
Theorem fallback_shortens : forall t s, s <> [] -> (length (fallback t s) < length s)%nat.
Proof. exact TermProofs.fallback_shorter_l. Qed.

Theorem automaton_step_fuel_suffices : forall t st ch fuel,
  (S (length st) < fuel)%nat ->
  next_state fuel t st ch = next_state (S (S (length st))) t st ch.
Proof. exact TermProofs.next_state_fuel_l. Qed.
Print Assumptions automaton_step_fuel_suffices.

(* non-vacuity / history: before the fix of pass_endTest the first shape below looped forever in
   the library; now its test is rejected *)
Example lookback_regress_is_rejected :
  pass_test [1; 1; 2] (mkPR 7 [TLook 1] AOmit) 1 = None /\
  pass_test [1; 1; 2] (mkPR 7 [TLit [1]; TOpen; TClose] (ALit [9])) 1 = Some (mkPM 1 2 2 2).
Proof. vm_compute. split; reflexivity. Qed.
