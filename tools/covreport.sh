#!/bin/bash
# tools/covreport.sh <dir with cov-*.profraw> [exe] : line/branch coverage of /repo/liblouis/*.c by the runs that wrote the profiles
d="$1"; exe="${2:-$(ls -t /verif/build/lib-asan-*/h_trans-* | head -1)}"
llvm-profdata merge -sparse "$d"/cov-*.profraw -o "$d/all.profdata" || exit 1
objs=""; for e in $(dirname "$exe")/h_*; do case "$e" in *.tmp) ;; *) objs="$objs -object $e";; esac; done
llvm-cov report $objs -instr-profile="$d/all.profdata" /repo/liblouis/*.c 2>/dev/null | cut -c1-200
llvm-cov show $objs -instr-profile="$d/all.profdata" /repo/liblouis/*.c -show-line-counts-or-regions 2>/dev/null > "$d/show.txt"
echo "annotated source: $d/show.txt"
