"""G11: candidate order of resolveSubtable, search path assembly, base rules."""
import cparse
from g_common import *
from g_log import show_stmt, flatten

NAME = "GResolve"


def bytes_list(s):
    return "[" + "; ".join("%d%%N" % b for b in s.encode()) + "]"


def generate(repo):
    _, body = func(repo, "compileTranslationTable.c", "resolveSubtable")
    prog = {"top": [], "loop": []}
    state = {"build": None}

    def scan(items, where, in_base):
        for st in items:
            k = st[0]
            if k == "block":
                scan(st[1], where, in_base)
            elif k == "expr":
                e = st[1]
                if e[0] == "call":
                    f = cparse.show_c(e[1])
                    args = [cparse.show_c(a) for a in e[2]]
                    if f == "strcpy" and args[0] == "tableFile":
                        state["build"] = [args[1]]
                    elif f == "strcat" and args[0] == "tableFile":
                        state["build"] = (state["build"] or []) + [args[1]]
                    elif f == "sprintf" and args[0] == "tableFile":
                        state["build"] = ["fmt"] + args[1:]
                if e[0] == "assign" and cparse.show_c(e[2]).startswith("tableFile["):
                    state["build"] = (state["build"] or []) + ["cut-after-last-separator"]
            elif k == "if":
                c = cparse.show_c(st[1])
                if c == "base":
                    scan([st[2]], where, True)
                elif "stat(tableFile" in c:
                    b = state["build"]
                    if b == ["base", "cut-after-last-separator", "table"] and in_base:
                        prog[where].append("CBaseDir")
                    elif b == ["table"] and not in_base:
                        prog[where].append("CAsGiven")
                    elif b and b[0] == "fmt" and b[1:] == ['"%s%c%s"', "dir", "DIR_SEP", "table"]:
                        prog[where].append("CDir")
                    elif b and b[0] == "fmt" and b[1] == '"%s%c%s%c%s%c%s"' and b[2] == "dir" and b[-1] == "table":
                        sub = "/".join(x.strip('"') for x in (b[4], b[6]))
                        prog[where].append("CDirSub " + bytes_list(sub))
                    else:
                        raise cparse.ParseError("unrecognised candidate construction: %s" % (b,))
                    # the then-branch must return tableFile
                    if "return tableFile;" not in show_stmt(st[2]):
                        raise cparse.ParseError("candidate test does not return the file")
                elif c == "last" and show_stmt(st[2]) in ("break;", "{ break; }"):
                    prog[where].append("CBreakIfLast")
                elif "searchPath[0]" in c:
                    scan([st[2]], where, in_base)
                elif c == "(dir == cp)" and show_stmt(st[2]) == 'dir = ".";':
                    state["empty_dir_is_dot"] = True
                else:
                    # length guards etc.: must only fail
                    txt = show_stmt(st[2])
                    if "goto failure;" not in txt and "return NULL;" not in txt:
                        raise cparse.ParseError("unexpected branch: if (%s) %s" % (c, txt[:80]))
            elif k == "for":
                if where == "loop":
                    if st[2] is None:
                        raise cparse.ParseError("nested loop")
                    continue  # the inner scan for the comma
                scan([st[4]], "loop", in_base)
            elif k in ("decl", "label", "return", "empty"):
                pass
            else:
                pass

    scan(body, "top", False)
    out = [HEADER.replace("From Coq Require Import ZArith List String Bool.", "From Coq Require Import ZArith NArith List String Bool.\nFrom Lou Require Import Model.ResolveDefs.")]
    out.append("(* resolveSubtable: file names tested with stat(), in order; the first that exists is returned *)\n")
    out.append("Definition resolve_top : list cand := [%s].\n" % "; ".join(prog["top"]))
    out.append("Definition resolve_loop : list cand := [%s].\n" % "; ".join(prog["loop"]))
    out.append("Definition empty_dir_is_dot : bool := %s.\n\n" % ("true" if state.get("empty_dir_is_dot") else "false"))
    # _lou_getTablePath
    _, body = func(repo, "compileTranslationTable.c", "_lou_getTablePath")
    parts = []
    txt = " ".join(show_stmt(s) for s in body)
    order = []
    i_env = txt.find('getenv("LOUIS_TABLEPATH")')
    i_data = txt.find("path = dataPathPtr;")
    i_def = txt.find("TABLESDIR")
    if min(i_env, i_data, i_def) < 0:
        raise cparse.ParseError("_lou_getTablePath shape")
    if 'if (((path != NULL) && (path[0] != 0))) { envset = 1; cp += sprintf(cp, ",%s", path); }' not in txt:
        raise cparse.ParseError("env part: " + txt[:200])
    if 'cp += sprintf(cp, ",%s%c%s%c%s", path, DIR_SEP, "liblouis", DIR_SEP, "tables");' not in txt:
        raise cparse.ParseError("data part")
    if 'if (!envset) { cp += sprintf(cp, ",%s", TABLESDIR); }' not in txt:
        raise cparse.ParseError("builtin part")
    for pos, name in sorted([(i_env, "PEnv"), (i_data, "PData " + bytes_list("liblouis/tables")), (i_def, "PBuiltinIfNoEnv")]):
        order.append(name)
    out.append("Definition searchpath_parts : list pathpart := [%s].\n\n" % "; ".join(order))
    # base rules
    _, body = func(repo, "compileTranslationTable.c", "_lou_defaultTableResolver")
    txt = " ".join(show_stmt(s) for s in body)
    out.append("Definition list_base_becomes_first_name_as_given : bool := %s.\n" % (
        "true" if "if ((k == 1)) base = subTable;" in txt and "resolveSubtable(subTable, base, searchPath)" in txt else "false"))
    _, body = func(repo, "compileTranslationTable.c", "includeFile")
    txt = " ".join(show_stmt(s) for s in body)
    out.append("Definition include_base_is_including_file : bool := %s.\n" % (
        "true" if "tableFiles = _lou_resolveTable(includeThis, file->fileName);" in txt else "false"))
    out.append("Definition include_failure_counts_error : bool := %s.\n" % (
        "true" if "if ((tableFiles == NULL)) { errorCount++; return 0; }" in txt else "false"))
    _, body = func(repo, "compileTranslationTable.c", "compileTable")
    txt = " ".join(show_stmt(s) for s in body)
    out.append("Definition toplevel_base_is_null : bool := %s.\n" % (
        "true" if txt.count("_lou_resolveTable(tableList, NULL)") + txt.count("_lou_resolveTable(displayTableList, NULL)") == txt.count("_lou_resolveTable(") else "false"))
    return "".join(out)
