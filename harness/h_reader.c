/* H6: the table reader.
 *   L <path>          all lines _lou_getALine delivers: "L n | hex hex .. | hex .. | ..."  (characters in hex)
 *   D <token>         _lou_extParseDots:  "D n c c c"   (n = 0: rejected)
 *   P <token>         _lou_extParseChars: "P n c c c"
 */
#include "tbl.h"
int
main(void) {
	lou_registerLogCallback(h_quietlog);
	while (fgets(h_line, H_LINE, stdin)) {
		size_t L = strlen(h_line);
		while (L && (h_line[L - 1] == '\n' || h_line[L - 1] == '\r')) h_line[--L] = 0;
		if (h_line[0] == 'L') {
			static FileInfo info;
			int n = 0, k;
			memset(&info, 0, sizeof info);
			info.fileName = h_line + 2;
			info.encoding = noEncoding;
			info.status = 0;
			info.lineNumber = 0;
			info.in = fopen(h_line + 2, "rb");
			if (!info.in) {
				printf("L -1\n");
				fflush(stdout);
				continue;
			}
			printf("L");
			while (_lou_getALine(&info)) {
				n++;
				printf(" |");
				for (k = 0; k < info.linelen; k++) printf(" %x", info.line[k]);
				if (n > 100000) break;
			}
			printf(" | lines=%d\n", n);
			fclose(info.in);
		} else if (h_line[0] == 'D' || h_line[0] == 'P') {
			static widechar out[2 * MAXSTRING];
			int n, k;
			memset(out, 0, sizeof out);
			/* the compiler's static error counter may still be set by an earlier failed parse (only _lou_extParseDots
			 * clears it): flush it, so that every token is judged on its own */
			(void)_lou_extParseDots("1", out);
			memset(out, 0, sizeof out);
			n = h_line[0] == 'D' ? _lou_extParseDots(h_line + 2, out) : _lou_extParseChars(h_line + 2, out);
			printf("%c %d", h_line[0], n);
			for (k = 0; k < n; k++) printf(" %d", out[k]);
			printf("\n");
		}
		fflush(stdout);
	}
	return 0;
}
