(* C11 — the lemmas used by Properties/C11.v: on a one-to-one table (single-cell character
   definitions, no character and no cell defined twice, the built-in segment mark included)
   forward translation is one cell per character, back-translation one character per cell, and
   the two invert each other; the display maps invert each other too.                          *)
From Coq Require Import List ZArith Bool Lia ZifyBool.
From Lou Require Import Gen.GConst Gen.GChain Model.Table Model.Ref Model.Compile Model.Engine Model.Back.
From Lou Require Import Proofs.EngineLoop Proofs.EngineRef Proofs.CompleteProofs.
Import ListNotations.
Local Open Scope Z_scope.

(* ------------------------------------------------------------------ lists *)

Lemma nodup_z_NoDup l : nodup_z l = true -> NoDup l.
Proof.
  induction l as [|a l IH]; cbn [nodup_z]; intros H; [constructor|].
  apply andb_prop in H. destruct H as [H1 H2]. constructor; [|apply IH; exact H2].
  intros Hin.
  assert (E : existsb (Z.eqb a) l = true).
  { apply existsb_exists. exists a. split; [exact Hin|apply Z.eqb_refl]. }
  rewrite E in H1. discriminate.
Qed.

Lemma NoDup_app_inv {A} (l1 l2 : list A) :
  NoDup (l1 ++ l2) -> NoDup l2 /\ forall x, In x l1 -> In x l2 -> False.
Proof.
  induction l1 as [|a l1 IH]; cbn [app]; intros H.
  - split; [exact H|]. intros x [].
  - inversion H as [|a' l' Hn Hd]; subst. destruct (IH Hd) as [Hn2 Hdis].
    split; [exact Hn2|]. intros x [->|Hx] Hx2.
    + apply Hn. apply in_or_app. right. exact Hx2.
    + exact (Hdis x Hx Hx2).
Qed.

Lemma flat_unique {A} (f : A -> list Z) (l : list A) : NoDup (flat_map f l) ->
  forall e1 e2 c, In e1 l -> In e2 l -> In c (f e1) -> In c (f e2) -> e1 = e2.
Proof.
  induction l as [|a l IH]; intros Hnd e1 e2 c H1 H2 Hc1 Hc2; [destruct H1|].
  cbn [flat_map] in Hnd. apply NoDup_app_inv in Hnd. destruct Hnd as [Hnd Hdis].
  destruct H1 as [<-|H1], H2 as [<-|H2].
  - reflexivity.
  - exfalso. apply (Hdis c Hc1). apply in_flat_map. exists e2. split; assumption.
  - exfalso. apply (Hdis c Hc2). apply in_flat_map. exists e1. split; assumption.
  - exact (IH Hnd e1 e2 c H1 H2 Hc1 Hc2).
Qed.

Lemma find_unique {A} (P : A -> bool) (l : list A) (e : A) :
  (forall e', In e' l -> P e' = true -> e' = e) -> In e l -> P e = true -> find P l = Some e.
Proof.
  intros Hu Hin HP. destruct (find P l) as [e'|] eqn:E.
  - apply find_some in E. destruct E as [Hin' HP']. rewrite (Hu e' Hin' HP'). reflexivity.
  - pose proof (find_none _ _ E e Hin) as Hn. congruence.
Qed.

Lemma single_match (l : list Z) (c : Z) :
  match l with [c'] => c =? c' | _ => false end = true -> l = [c].
Proof.
  destruct l as [|c' [|c'' l]]; try discriminate. intros H. apply Z.eqb_eq in H. subst. reflexivity.
Qed.

(* ------------------------------------------------------------------ the shape of a one-to-one table *)

Definition wf_entry (e : entry) : Prop :=
  exists c d, e_chars e = [c] /\ e_dots e = [d] /\ is_def_op (e_op e) = true /\
              e_nofor e = false /\ e_noback e = false.

Lemma cell_def_wf e : is_cell_def e = true -> wf_entry e.
Proof.
  intros H. unfold is_cell_def, is_chardef in H.
  apply andb_prop in H. destruct H as [H Hd].
  apply andb_prop in H. destruct H as [H Hb].
  apply andb_prop in H. destruct H as [H Hf].
  apply andb_prop in H. destruct H as [Ho Hc].
  destruct (e_chars e) as [|c [|c' cs]] eqn:Ec; try discriminate.
  destruct (e_dots e) as [|d [|d' ds]] eqn:Ed; try discriminate.
  exists c, d. split; [exact Ec|]. split; [exact Ed|]. split; [exact Ho|].
  split; [destruct (e_nofor e); [discriminate|reflexivity]|destruct (e_noback e); [discriminate|reflexivity]].
Qed.

Lemma builtin_wf : wf_entry builtin.
Proof. exists LOU_ENDSEGMENT, 65535. repeat split; reflexivity. Qed.

Record oto (t : table) : Prop := mkOto {
  oto_wf : forall e, In e (builtin :: t) -> wf_entry e;
  oto_uc : forall e1 e2 c, In e1 (builtin :: t) -> In e2 (builtin :: t) ->
                           In c (e_chars e1) -> In c (e_chars e2) -> e1 = e2;
  oto_ud : forall e1 e2 d, In e1 (builtin :: t) -> In e2 (builtin :: t) ->
                           In d (e_dots e1) -> In d (e_dots e2) -> e1 = e2
}.

Lemma one_to_one_oto t : one_to_one t = true -> oto t.
Proof.
  intros H. unfold one_to_one in H.
  apply andb_prop in H. destruct H as [H Hd]. apply andb_prop in H. destruct H as [Hdef Hc].
  constructor.
  - intros e [<-|Hin]; [exact builtin_wf|]. apply cell_def_wf.
    unfold defs_only in Hdef. rewrite forallb_forall in Hdef. apply Hdef. exact Hin.
  - apply flat_unique. apply nodup_z_NoDup. exact Hc.
  - apply flat_unique. apply nodup_z_NoDup. exact Hd.
Qed.

Lemma defs_only_numsign t : defs_only t = true -> numsign t = None.
Proof.
  intros H. unfold numsign. unfold defs_only in H. rewrite forallb_forall in H.
  assert (G : forall l acc, (forall e, In e l -> is_cell_def e = true) ->
            fold_left (fun acc e => if e_op e =? CTO_NumberSign then Some (e_dots e) else acc) l acc = acc).
  { induction l as [|a l IH]; intros acc Hl; cbn [fold_left]; [reflexivity|].
    rewrite IH; [|intros e He; apply Hl; right; exact He].
    pose proof (cell_def_wf a (Hl a (or_introl eq_refl))) as (c & d & _ & _ & Ho & _).
    unfold is_def_op in Ho. unfold CTO_NumberSign.
    destruct (e_op a =? 23) eqn:E; [lia|reflexivity]. }
  apply G. exact H.
Qed.

(* ------------------------------------------------------------------ lookups on a one-to-one table *)

Section Lookups.
  Variable t : table.
  Hypothesis Ht : oto t.

  Lemma wf_single e c : In e (builtin :: t) -> In c (e_chars e) -> e_chars e = [c].
  Proof.
    intros Hin Hc. destruct (oto_wf t Ht e Hin) as (c0 & d0 & Ec & _). rewrite Ec in *.
    destruct Hc as [->|[]]. reflexivity.
  Qed.

  Lemma wf_single_d e d : In e (builtin :: t) -> In d (e_dots e) -> e_dots e = [d].
  Proof.
    intros Hin Hd. destruct (oto_wf t Ht e Hin) as (c0 & d0 & _ & Ed & _). rewrite Ed in *.
    destruct Hd as [->|[]]. reflexivity.
  Qed.

  Lemma in_chars c : In c (table_chars t) -> exists e, In e (builtin :: t) /\ e_chars e = [c].
  Proof.
    unfold table_chars. intros H. apply in_flat_map in H. destruct H as (e & Hin & Hc).
    exists e. split; [exact Hin|apply wf_single; assumption].
  Qed.

  Lemma in_cells d : In d (table_cells t) -> exists e, In e (builtin :: t) /\ e_dots e = [d].
  Proof.
    unfold table_cells. intros H. apply in_flat_map in H. destruct H as (e & Hin & Hd).
    exists e. split; [exact Hin|apply wf_single_d; assumption].
  Qed.

  Lemma chars_in e c : In e (builtin :: t) -> e_chars e = [c] -> In c (table_chars t).
  Proof.
    intros Hin Hc. unfold table_chars. apply in_flat_map. exists e. split; [exact Hin|].
    rewrite Hc. left. reflexivity.
  Qed.

  Lemma cells_in e d : In e (builtin :: t) -> e_dots e = [d] -> In d (table_cells t).
  Proof.
    intros Hin Hd. unfold table_cells. apply in_flat_map. exists e. split; [exact Hin|].
    rewrite Hd. left. reflexivity.
  Qed.

  Lemma same_char e1 e2 c : In e1 (builtin :: t) -> In e2 (builtin :: t) ->
    e_chars e1 = [c] -> e_chars e2 = [c] -> e1 = e2.
  Proof.
    intros H1 H2 E1 E2. apply (oto_uc t Ht e1 e2 c H1 H2); [rewrite E1|rewrite E2]; left; reflexivity.
  Qed.

  Lemma same_cell e1 e2 d : In e1 (builtin :: t) -> In e2 (builtin :: t) ->
    e_dots e1 = [d] -> e_dots e2 = [d] -> e1 = e2.
  Proof.
    intros H1 H2 E1 E2. apply (oto_ud t Ht e1 e2 d H1 H2); [rewrite E1|rewrite E2]; left; reflexivity.
  Qed.

  Lemma chardef_in e : In e (builtin :: t) -> is_chardef e = true.
  Proof.
    intros Hin. destruct (oto_wf t Ht e Hin) as (c & d & Ec & _ & Eo & _).
    unfold is_chardef. rewrite Ec, Eo. reflexivity.
  Qed.

  Lemma find_defines e c : In e (builtin :: t) -> e_chars e = [c] ->
    find (defines c) (builtin :: t) = Some e.
  Proof.
    intros Hin Ec. apply find_unique; [|exact Hin|].
    - intros e' Hin' HP. unfold defines in HP. apply andb_prop in HP. destruct HP as [_ HP].
      apply single_match in HP. exact (same_char e' e c Hin' Hin HP Ec).
    - unfold defines. rewrite (chardef_in e Hin), Ec, Z.eqb_refl. reflexivity.
  Qed.

  Lemma find_defines_cell e d : In e (builtin :: t) -> e_dots e = [d] ->
    find (defines_cell d) (builtin :: t) = Some e.
  Proof.
    intros Hin Ed. apply find_unique; [|exact Hin|].
    - intros e' Hin' HP. unfold defines_cell in HP. apply andb_prop in HP. destruct HP as [_ HP].
      apply single_match in HP. exact (same_cell e' e d Hin' Hin HP Ed).
    - destruct (oto_wf t Ht e Hin) as (c0 & d0 & _ & _ & _ & _ & Eb).
      unfold defines_cell. rewrite (chardef_in e Hin), Ed, Eb, Z.eqb_refl. reflexivity.
  Qed.

  Lemma disp_c2d_entry e c d : In e (builtin :: t) -> e_chars e = [c] -> e_dots e = [d] ->
    disp_c2d t c = Some d.
  Proof.
    intros Hin Ec Ed. unfold disp_c2d. rewrite (find_unique _ _ e); [rewrite Ed; reflexivity| |exact Hin|].
    - intros e' Hin' HP. apply andb_prop in HP. destruct HP as [_ HP].
      apply single_match in HP. exact (same_char e' e c Hin' Hin HP Ec).
    - rewrite (chardef_in e Hin), Ec, Ed, Z.eqb_refl. reflexivity.
  Qed.

  Lemma disp_d2c_entry e c d : In e (builtin :: t) -> e_chars e = [c] -> e_dots e = [d] ->
    disp_d2c t d = Some c.
  Proof.
    intros Hin Ec Ed. unfold disp_d2c. rewrite (find_unique _ _ e); [rewrite Ec; reflexivity| |exact Hin|].
    - intros e' Hin' HP. apply andb_prop in HP. destruct HP as [_ HP].
      apply single_match in HP. exact (same_cell e' e d Hin' Hin HP Ed).
    - rewrite (chardef_in e Hin), Ed, Z.eqb_refl. reflexivity.
  Qed.

  Lemma cell_char_entry e c d : In e (builtin :: t) -> e_chars e = [c] -> e_dots e = [d] ->
    cell_char t d = Some c.
  Proof.
    intros Hin Ec Ed. unfold cell_char. rewrite (find_defines_cell e d Hin Ed), Ec. reflexivity.
  Qed.
End Lookups.

(* the cell of a character, the character of a cell *)
Definition fc (t : table) (c : Z) : Z := match disp_c2d t c with Some d => d | None => 0 end.
Definition bc (t : table) (d : Z) : Z := match disp_d2c t d with Some c => c | None => 0 end.

Lemma fc_entry t e c d : oto t -> In e (builtin :: t) -> e_chars e = [c] -> e_dots e = [d] -> fc t c = d.
Proof. intros Ht Hin Ec Ed. unfold fc. rewrite (disp_c2d_entry t Ht e c d Hin Ec Ed). reflexivity. Qed.

Lemma bc_entry t e c d : oto t -> In e (builtin :: t) -> e_chars e = [c] -> e_dots e = [d] -> bc t d = c.
Proof. intros Ht Hin Ec Ed. unfold bc. rewrite (disp_d2c_entry t Ht e c d Hin Ec Ed). reflexivity. Qed.

Lemma char_entry t c : oto t -> In c (table_chars t) ->
  exists e, In e (builtin :: t) /\ e_chars e = [c] /\ e_dots e = [fc t c].
Proof.
  intros Ht Hc. destruct (in_chars t Ht c Hc) as (e & Hin & Ec).
  destruct (oto_wf t Ht e Hin) as (c0 & d0 & _ & Ed & _).
  exists e. split; [exact Hin|]. split; [exact Ec|]. rewrite (fc_entry t e c d0 Ht Hin Ec Ed). exact Ed.
Qed.

Lemma cell_entry t d : oto t -> In d (table_cells t) ->
  exists e, In e (builtin :: t) /\ e_chars e = [bc t d] /\ e_dots e = [d].
Proof.
  intros Ht Hd. destruct (in_cells t Ht d Hd) as (e & Hin & Ed).
  destruct (oto_wf t Ht e Hin) as (c0 & d0 & Ec & _).
  exists e. split; [exact Hin|]. split; [|exact Ed]. rewrite (bc_entry t e c0 d Ht Hin Ec Ed). exact Ec.
Qed.

Lemma bc_fc t c : oto t -> In c (table_chars t) -> bc t (fc t c) = c /\ In (fc t c) (table_cells t).
Proof.
  intros Ht Hc. destruct (char_entry t c Ht Hc) as (e & Hin & Ec & Ed).
  split; [exact (bc_entry t e c _ Ht Hin Ec Ed)|exact (cells_in t e _ Hin Ed)].
Qed.

Lemma fc_bc t d : oto t -> In d (table_cells t) -> fc t (bc t d) = d /\ In (bc t d) (table_chars t).
Proof.
  intros Ht Hd. destruct (cell_entry t d Ht Hd) as (e & Hin & Ec & Ed).
  split; [exact (fc_entry t e _ d Ht Hin Ec Ed)|exact (chars_in t e _ Hin Ec)].
Qed.

(* ------------------------------------------------------------------ the display maps *)

Lemma display_char_l : forall t c, one_to_one t = true -> In c (table_chars t) ->
  exists d, disp_c2d t c = Some d /\ disp_d2c t d = Some c.
Proof.
  intros t c H Hc. apply one_to_one_oto in H.
  destruct (char_entry t c H Hc) as (e & Hin & Ec & Ed). exists (fc t c).
  split; [exact (disp_c2d_entry t H e c _ Hin Ec Ed)|exact (disp_d2c_entry t H e c _ Hin Ec Ed)].
Qed.

Lemma display_cell_l : forall t d, one_to_one t = true -> In d (table_cells t) ->
  exists c, disp_d2c t d = Some c /\ disp_c2d t c = Some d.
Proof.
  intros t d H Hd. apply one_to_one_oto in H.
  destruct (cell_entry t d H Hd) as (e & Hin & Ec & Ed). exists (bc t d).
  split; [exact (disp_d2c_entry t H e _ d Hin Ec Ed)|exact (disp_c2d_entry t H e _ d Hin Ec Ed)].
Qed.

(* ------------------------------------------------------------------ forward translation *)

Lemma number_from_has l : forall k e, In e l -> exists idx, In (idx, e) (number_from k l).
Proof.
  induction l as [|a l IH]; intros k e Hin; [destruct Hin|]. cbn [number_from].
  destruct Hin as [->|Hin].
  - exists k. left. reflexivity.
  - destruct (IH (k + 1) e Hin) as (idx & H). exists idx. right. exact H.
Qed.

Lemma nth_z_app pre c suf : nth_z (pre ++ c :: suf) (len pre) = c.
Proof.
  unfold nth_z, len. destruct (_ <? 0) eqn:E; [lia|]. rewrite Nat2Z.id.
  rewrite app_nth2; [|lia]. rewrite Nat.sub_diag. reflexivity.
Qed.

Lemma len_app a b : len (a ++ b) = len a + len b.
Proof. unfold len. rewrite app_length. lia. Qed.

Lemma word_mark_pm t inp s : ts_pm (word_mark t inp s) = ts_pm s.
Proof. unfold word_mark. destruct (_ && _); reflexivity. Qed.

Lemma word_mark_trace t inp s : ts_trace (word_mark t inp s) = ts_trace s.
Proof. unfold word_mark. destruct (_ && _); reflexivity. Qed.

Lemma finish_end t inp s : ts_pos s = n inp -> length (ts_pm s) = length (ts_out s) ->
  finish t inp s = TOk (n inp) (rev (ts_out s)) (rev (ts_pm s)) (rev (ts_trace s)).
Proof.
  intros Hp Hpm. unfold finish.
  assert (E : ts_pos s <? n inp = false) by lia.
  rewrite E, andb_false_r. cbn [andb]. cbv iota. rewrite Hp, skip_spaces_end.
  rewrite <- (rev_length (ts_out s)), firstn_all.
  rewrite rev_length, <- Hpm, <- (rev_length (ts_pm s)), firstn_all. reflexivity.
Qed.

Section Forward.
  Variable t : table.
  Variable mode : Z.
  Hypothesis Ht : oto t.
  Hypothesis Hns : numsign t = None.

  Lemma sel_oto inp pos e c : 0 <= pos < len inp -> nth_z inp pos = c ->
    In e (builtin :: t) -> e_chars e = [c] ->
    exists idx, select_ref t mode inp pos = Some (idx, e).
  Proof.
    intros Hp Hn Hin Ec.
    destruct (select_ref t mode inp pos) as [[idx' e']|] eqn:Es.
    - exists idx'. apply select_ref_qualifies_l in Es; [|exact Hp].
      destruct Es as (Hin' & _ & _ & Hshape). cbn [snd] in *. apply numbered_in in Hin'.
      destruct Hshape as [(Hm & _)|Hs].
      + destruct (oto_wf t Ht e' Hin') as (c' & d' & Ec' & _).
        unfold is_multi in Hm. rewrite Ec' in Hm. discriminate.
      + rewrite Hn in Hs. rewrite (same_char t Ht e' e c Hin' Hin Hs Ec). reflexivity.
    - exfalso. rewrite select_ref_none_iff_l in Es; [|exact Hp].
      destruct (number_from_has (builtin :: t) 0 e Hin) as (idx & Hnum).
      apply (Es (idx, e)). unfold qualifies. cbn [snd]. split; [exact Hnum|].
      destruct (oto_wf t Ht e Hin) as (c0 & d0 & _ & _ & Eo & Ef & _).
      split. { unfold is_fwd_rule. rewrite Ef, (chardef_in t Ht e Hin). reflexivity. }
      split. { unfold cand_ok, op_cond. rewrite Eo. reflexivity. }
      right. rewrite Ec, Hn. reflexivity.
  Qed.

  Lemma step_oto inp cap s e c d :
    0 <= ts_pos s < n inp -> nth_z inp (ts_pos s) = c ->
    In e (builtin :: t) -> e_chars e = [c] -> e_dots e = [d] -> len (ts_out s) + 1 <= cap ->
    exists idx lwi lwo, step t (select_ref t mode) inp cap s =
      Next (mkTS (ts_pos s + 1) (d :: ts_out s) (ts_pos s :: ts_pm s) lwi lwo (idx :: ts_trace s)).
  Proof.
    intros Hp Hn Hin Ec Ed Hcap. rewrite step_unfold.
    destruct (sel_oto inp (ts_pos s) e c Hp Hn Hin Ec) as (idx & Es). rewrite Es.
    unfold numsign_emit. rewrite Hns. unfold apply_rule. rewrite Ed, Ec.
    unfold emit. cbn [with_trace ts_pos ts_out ts_pm ts_lw_in ts_lw_out ts_trace].
    rewrite word_mark_pos, word_mark_out, word_mark_pm, word_mark_trace.
    assert (E : (len (ts_out s) + len [d] >? cap) || (ts_pos s + len [c] >? n inp) = false).
    { unfold len in *. cbn [length]. lia. }
    rewrite E. exists idx. eexists. eexists. reflexivity.
  Qed.

  Lemma loop_oto inp cap : len inp <= cap ->
    forall suf pre s fuel, inp = pre ++ suf -> Forall (fun c => In c (table_chars t)) suf ->
    ts_pos s = len pre -> len (ts_out s) = len pre -> length (ts_pm s) = length (ts_out s) ->
    (length suf < fuel)%nat ->
    exists tr, loop t (select_ref t mode) inp cap fuel s =
      TOk (len inp) (rev (ts_out s) ++ map (fc t) suf)
          (rev (ts_pm s) ++ map Z.of_nat (seq (length pre) (length suf))) tr.
  Proof.
    intros Hcap. induction suf as [|c suf IH]; intros pre s fuel Hinp Hall Hpos Hout Hpm Hfuel.
    - destruct fuel as [|f]; [cbn [length] in Hfuel; lia|]. rewrite loop_unfold.
      rewrite app_nil_r in Hinp. subst pre.
      assert (Eg : ts_pos s >=? n inp = true) by (unfold n; lia).
      rewrite Eg. rewrite finish_end.
      + rewrite word_mark_out, word_mark_pm. cbn [map length seq]. rewrite !app_nil_r.
        eexists. reflexivity.
      + rewrite word_mark_pos. exact Hpos.
      + rewrite word_mark_out, word_mark_pm. exact Hpm.
    - destruct fuel as [|f]; [lia|]. rewrite loop_unfold.
      assert (Hlen : len inp = len pre + 1 + len suf).
      { rewrite Hinp, len_app. unfold len. cbn [length]. lia. }
      assert (Hsuf : 0 <= len suf) by (unfold len; lia).
      assert (Hpre : 0 <= len pre) by (unfold len; lia).
      assert (Eg : ts_pos s >=? n inp = false) by (unfold n; lia).
      rewrite Eg.
      inversion Hall as [|c' suf' Hc Hall']; subst c' suf'.
      destruct (char_entry t c Ht Hc) as (e & Hin & Ec & Ed).
      destruct (step_oto inp cap s e c (fc t c)) as (idx & lwi & lwo & Es); try assumption.
      { unfold n. lia. }
      { rewrite Hpos, Hinp. apply nth_z_app. }
      { lia. }
      rewrite Es.
      destruct (IH (pre ++ [c]) (mkTS (ts_pos s + 1) (fc t c :: ts_out s) (ts_pos s :: ts_pm s) lwi lwo
                                      (idx :: ts_trace s)) f) as (tr & Hl).
      + rewrite <- app_assoc. exact Hinp.
      + exact Hall'.
      + cbn [ts_pos]. rewrite len_app. unfold len at 2. cbn [length]. lia.
      + cbn [ts_out]. rewrite len_app. unfold len in *. cbn [length]. lia.
      + cbn [ts_pm ts_out length]. rewrite Hpm. reflexivity.
      + cbn [length] in Hfuel. lia.
      + exists tr. rewrite Hl. cbn [ts_out ts_pm rev map length seq].
        rewrite <- !app_assoc. cbn [app]. rewrite app_length. cbn [length]. rewrite Nat.add_1_r.
        rewrite Hpos. reflexivity.
  Qed.

  Lemma run_oto inp cap : len inp <= cap -> Forall (fun c => In c (table_chars t)) inp ->
    exists tr, translate_ref t mode inp cap =
      TOk (len inp) (map (fc t) inp) (map Z.of_nat (seq 0 (length inp))) tr.
  Proof.
    intros Hcap Hall. unfold translate_ref, run.
    destruct (loop_oto inp cap Hcap inp [] (mkTS 0 [] [] 0 0 []) (S (length inp))) as (tr & H);
      try reflexivity; try assumption; [lia|].
    exists tr. exact H.
  Qed.
End Forward.

Lemma forward_oto t mode s cap : one_to_one t = true ->
  Forall (fun c => In c (table_chars t)) s -> len s <= cap ->
  exists tr, translate_ref t mode s cap =
    TOk (len s) (map (fc t) s) (map Z.of_nat (seq 0 (length s))) tr.
Proof.
  intros H Hall Hcap. apply run_oto; [exact (one_to_one_oto t H)| |exact Hcap|exact Hall].
  apply defs_only_numsign. unfold one_to_one in H.
  apply andb_prop in H. destruct H as [H _]. apply andb_prop in H. apply H.
Qed.

Lemma forward_defs_l : forall t mode s cap,
  one_to_one t = true -> Forall (fun c => In c (table_chars t)) s -> len s <= cap ->
  exists cells tr, translate_ref t mode s cap = TOk (len s) cells (map Z.of_nat (seq 0 (length s))) tr /\
                   length cells = length s /\ Forall (fun d => In d (table_cells t)) cells.
Proof.
  intros t mode s cap H Hall Hcap. destruct (forward_oto t mode s cap H Hall Hcap) as (tr & E).
  exists (map (fc t) s), tr. split; [exact E|]. split; [apply map_length|].
  apply one_to_one_oto in H. rewrite Forall_forall in *. intros d Hd.
  apply in_map_iff in Hd. destruct Hd as (c & <- & Hc). apply (bc_fc t c H). apply Hall. exact Hc.
Qed.

(* ------------------------------------------------------------------ back-translation *)

Lemma bskip_end t inp fuel : bskip t inp fuel (bn inp) = bn inp.
Proof. destruct fuel as [|f]; cbn [bskip]; [reflexivity|]. rewrite Z.ltb_irrefl. reflexivity. Qed.

Lemma bfinish_end t inp s : bs_pos s = bn inp ->
  bfinish t inp s = BOk (bn inp) (rev (bs_out s)) (rev (bs_pm s)).
Proof.
  intros Hp. unfold bfinish.
  assert (E : bs_pos s <? bn inp = false) by lia.
  rewrite E, andb_false_r. cbn [andb]. cbv iota. rewrite Hp, bskip_end.
  rewrite <- (rev_length (bs_out s)), firstn_all.
  rewrite Z.sub_diag. cbn [Z.to_nat repeat app]. rewrite firstn_skipn. reflexivity.
Qed.

Lemma bloop_oto t inp cap : oto t -> len inp <= cap ->
  forall suf pre s fuel, inp = pre ++ suf -> Forall (fun d => In d (table_cells t)) suf ->
  bs_pos s = len pre -> len (bs_out s) = len pre -> (length suf < fuel)%nat ->
  bloop t inp cap fuel s =
    BOk (len inp) (rev (bs_out s) ++ map (bc t) suf)
        (rev (bs_pm s) ++ map Z.of_nat (seq (length pre) (length suf))).
Proof.
  intros Ht Hcap. induction suf as [|d suf IH]; intros pre s fuel Hinp Hall Hpos Hout Hfuel.
  - destruct fuel as [|f]; [cbn [length] in Hfuel; lia|]. cbn [bloop].
    rewrite app_nil_r in Hinp. subst pre.
    assert (Eg : bs_pos s >=? bn inp = true) by (unfold bn; lia).
    rewrite Eg, bfinish_end; [|exact Hpos]. cbn [map length seq]. rewrite !app_nil_r. reflexivity.
  - destruct fuel as [|f]; [lia|]. cbn [bloop]. cbv zeta.
    assert (Hlen : len inp = len pre + 1 + len suf).
    { rewrite Hinp, len_app. unfold len. cbn [length]. lia. }
    assert (Hsuf : 0 <= len suf) by (unfold len; lia).
    assert (Hpre : 0 <= len pre) by (unfold len; lia).
    assert (Eg : bs_pos s >=? bn inp = false) by (unfold bn; lia).
    rewrite Eg.
    inversion Hall as [|d' suf' Hd Hall']; subst d' suf'.
    assert (Hn : nth_z inp (bs_pos s) = d) by (rewrite Hpos, Hinp; apply nth_z_app).
    rewrite Hn.
    destruct (cell_entry t d Ht Hd) as (e & Hin & Ec & Ed).
    rewrite (cell_char_entry t Ht e _ d Hin Ec Ed).
    assert (Ec' : len (bs_out s) + 1 >? cap = false) by lia.
    rewrite Ec'.
    rewrite (IH (pre ++ [d])).
    + cbn [bs_out bs_pm rev map length seq].
      rewrite <- !app_assoc. cbn [app]. rewrite app_length. cbn [length]. rewrite Nat.add_1_r.
      rewrite Hout. reflexivity.
    + rewrite <- app_assoc. exact Hinp.
    + exact Hall'.
    + cbn [bs_pos]. rewrite len_app. unfold len at 2. cbn [length]. lia.
    + cbn [bs_out]. rewrite len_app. unfold len in *. cbn [length]. lia.
    + cbn [length] in Hfuel. lia.
Qed.

Lemma back_oto t cells cap : one_to_one t = true ->
  Forall (fun d => In d (table_cells t)) cells -> len cells <= cap ->
  back_run t cells cap = BOk (len cells) (map (bc t) cells) (map Z.of_nat (seq 0 (length cells))).
Proof.
  intros H Hall Hcap. unfold back_run.
  rewrite (bloop_oto t cells cap (one_to_one_oto t H) Hcap cells []); try reflexivity; try assumption.
  lia.
Qed.

(* ------------------------------------------------------------------ the round trips *)

Lemma map_bc_fc t s : oto t -> Forall (fun c => In c (table_chars t)) s ->
  map (bc t) (map (fc t) s) = s /\ Forall (fun d => In d (table_cells t)) (map (fc t) s).
Proof.
  intros Ht. induction 1 as [|c s Hc Hs IH]; cbn [map]; [split; [reflexivity|constructor]|].
  destruct IH as [IH1 IH2]. destruct (bc_fc t c Ht Hc) as [E Hin].
  rewrite E, IH1. split; [reflexivity|constructor; assumption].
Qed.

Lemma map_fc_bc t cells : oto t -> Forall (fun d => In d (table_cells t)) cells ->
  map (fc t) (map (bc t) cells) = cells /\ Forall (fun c => In c (table_chars t)) (map (bc t) cells).
Proof.
  intros Ht. induction 1 as [|d s Hd Hs IH]; cbn [map]; [split; [reflexivity|constructor]|].
  destruct IH as [IH1 IH2]. destruct (fc_bc t d Ht Hd) as [E Hin].
  rewrite E, IH1. split; [reflexivity|constructor; assumption].
Qed.

Lemma text_round_trip_l : forall t mode s cap cells pm tr cap',
  one_to_one t = true -> Forall (fun c => In c (table_chars t)) s ->
  translate_ref t mode s cap = TOk (len s) cells pm tr -> len s <= cap -> len cells <= cap' ->
  back_run t cells cap' = BOk (len cells) s (map Z.of_nat (seq 0 (length cells))).
Proof.
  intros t mode s cap cells pm tr cap' H Hall Htr Hcap Hcap'.
  destruct (forward_oto t mode s cap H Hall Hcap) as (tr' & E).
  rewrite E in Htr. injection Htr as Hcells _ _. subst cells.
  destruct (map_bc_fc t s (one_to_one_oto t H) Hall) as [Eb Hin].
  rewrite (back_oto t _ cap' H Hin Hcap'), Eb. reflexivity.
Qed.

Lemma braille_round_trip_l : forall t mode cells cap,
  one_to_one t = true -> Forall (fun d => In d (table_cells t)) cells -> len cells <= cap ->
  exists s, back_run t cells cap = BOk (len cells) s (map Z.of_nat (seq 0 (length cells))) /\
            exists tr, translate_ref t mode s cap = TOk (len s) cells (map Z.of_nat (seq 0 (length s))) tr.
Proof.
  intros t mode cells cap H Hall Hcap. exists (map (bc t) cells).
  split; [exact (back_oto t cells cap H Hall Hcap)|].
  destruct (map_fc_bc t cells (one_to_one_oto t H) Hall) as [Ef Hin].
  destruct (forward_oto t mode (map (bc t) cells) cap H Hin) as (tr & E).
  { unfold len in *. rewrite map_length. exact Hcap. }
  exists tr. rewrite E, Ef. reflexivity.
Qed.

Print Assumptions forward_defs_l.
Print Assumptions text_round_trip_l.
Print Assumptions braille_round_trip_l.
Print Assumptions display_char_l.
Print Assumptions display_cell_l.
