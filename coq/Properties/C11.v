(* C11 — one-to-one tables round-trip exactly.  Statements only.
   one_to_one t: the table consists of single-cell character definitions, no character and no
   cell (the built-in segment mark included) is defined twice.                                *)
From Coq Require Import List ZArith Bool.
From Lou Require Import Gen.GConst Model.Table Model.Ref Model.Compile Model.Engine Model.Back.
From Lou Require Import Proofs.RoundTripProofs.
Import ListNotations.
Local Open Scope Z_scope.

Definition ident (n : nat) : list Z := map Z.of_nat (seq 0 n).

(* forward translation of any string over the table's characters: one cell per character, whole
   input consumed, identity position map *)
Theorem forward_one_cell_per_char : forall t mode s cap,
  one_to_one t = true -> Forall (fun c => In c (table_chars t)) s -> len s <= cap ->
  exists cells tr, translate_ref t mode s cap = TOk (len s) cells (ident (length s)) tr /\
                   length cells = length s /\ Forall (fun d => In d (table_cells t)) cells.
Proof. exact RoundTripProofs.forward_defs_l. Qed.
Print Assumptions forward_one_cell_per_char.

(* back-translating the forward translation returns the string *)
Theorem text_round_trip : forall t mode s cap cells pm tr cap',
  one_to_one t = true -> Forall (fun c => In c (table_chars t)) s ->
  translate_ref t mode s cap = TOk (len s) cells pm tr -> len s <= cap -> len cells <= cap' ->
  back_run t cells cap' = BOk (len cells) s (ident (length cells)).
Proof. exact RoundTripProofs.text_round_trip_l. Qed.
Print Assumptions text_round_trip.

(* forward-translating the back-translation of any string of the table's cells returns the cells *)
Theorem braille_round_trip : forall t mode cells cap,
  one_to_one t = true -> Forall (fun d => In d (table_cells t)) cells -> len cells <= cap ->
  exists s, back_run t cells cap = BOk (len cells) s (ident (length cells)) /\
            exists tr, translate_ref t mode s cap = TOk (len s) cells (ident (length s)) tr.
Proof. exact RoundTripProofs.braille_round_trip_l. Qed.
Print Assumptions braille_round_trip.

(* the display maps invert each other on a one-to-one table *)
Theorem display_round_trip : forall t c, one_to_one t = true -> In c (table_chars t) ->
  exists d, disp_c2d t c = Some d /\ disp_d2c t d = Some c.
Proof. exact RoundTripProofs.display_char_l. Qed.

Theorem display_round_trip_cells : forall t d, one_to_one t = true -> In d (table_cells t) ->
  exists c, disp_d2c t d = Some c /\ disp_c2d t c = Some d.
Proof. exact RoundTripProofs.display_cell_l. Qed.
Print Assumptions display_round_trip_cells.

(* non-vacuity *)
Example a_one_to_one_table :
  let t := [ mkEntry CTO_Letter [97] [32769] false false; mkEntry CTO_Space [32] [32768] false false;
             mkEntry CTO_Digit [49] [32770] false false ] in
  one_to_one t = true /\ translate_ref t 0 [97; 32; 49; 97] 10 = TOk 4 [32769; 32768; 32770; 32769] [0; 1; 2; 3] [1; 2; 3; 1]
  /\ back_run t [32769; 32768; 32770; 32769] 10 = BOk 4 [97; 32; 49; 97] [0; 1; 2; 3].
Proof. vm_compute. repeat split; reflexivity. Qed.
