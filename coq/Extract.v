(* Extraction of the executable models.  ExtrOcamlBasic only; no Extract Constant. *)
From Coq Require Extraction.
From Coq Require Import ExtrOcamlBasic.
From Lou Require Model.Hyph Model.HyphSpec Model.Log Model.Resolve Model.Meta Model.Engine Model.BufPlan Gen.GAlloc Model.Finish Model.Back Model.Pass Model.BackPass Model.Reader Model.Image.
Extraction Language OCaml.
Extraction "../ocaml/model.ml"
  Hyph.build Hyph.walk Hyph.hyphenate Hyph.split_token HyphSpec.Hyph_spec
  Log.lrun Log.linit
  Resolve.resolve_list Resolve.resolve_sub Resolve.search_path Resolve.candidates
  Meta.score Meta.find_table Meta.find_tables Meta.get_info
  Engine.translate_impl Engine.translate_ref Table.mkEntry
  BufPlan.provided GAlloc.size_typebuf GAlloc.size_wordBuffer GAlloc.size_emphasisBuffer GAlloc.size_destSpacing
  GAlloc.size_passbuf GAlloc.size_posMapping1 GAlloc.size_posMapping2 GAlloc.size_posMapping3
  Finish.finish_fwd Finish.finish_back Finish.cursor_out Finish.encode Finish.typeform_mark Finish.char_to_dots Finish.dots_to_char
  Back.back_run Back.one_to_one Back.defs_only Back.disp_c2d Back.disp_d2c
  Pass.forward Pass.run_stage Pass.mkPT Pass.mkPR BackPass.backward BackPass.run_bstage
  Reader.decode Reader.lines_of Reader.tokens Reader.parse_dots Reader.parse_chars
  Image.check_image Image.allocs_ok Image.ref_ok Image.bucket_ok Image.record_ok Image.pass_ok Image.fwd_before Image.back_before
  Image.single_before_e Image.fpass_before Image.bpass_before Image.nodup_offs Image.members_allocated Image.build_map Image.arena_alloc Image.arena_init Image.rules_linked Image.mkRI Image.bounds_ok.
