"""C20 — table names resolve by a fixed precedence.
PROVE: Properties/C20.v (arbitrary file-system predicate, candidate programs regenerated from the source).
CORRESPOND: exhaustively all presence patterns of a marker table in {including dir, as given, path dir 1,
 path dir 2} x {plain, relative, absolute} x {include, list member}: _lou_resolveTable and the active marker
 rule vs the extracted Resolve.resolve_list run over the same real directory tree."""
import itertools
import os
import shutil

import common
from common import Rng, REPO

PID = "C20"
DOTS = ["1", "2", "3", "4"]


def run(chk):
    gen = common.gen_stage()
    prove = common.prove_stage(PID)
    drv = common.model_driver()
    exe = common.build_harness("h_resolve")
    work = common.BUILD / ("work-c20-%d" % os.getpid())
    shutil.rmtree(work, ignore_errors=True)
    W = str(work)
    forms = {"plain": "m.utb", "relative": "sub/m.utb", "absolute": W + "/abs/m.utb"}
    path_variants = [("%s/p1,%s/p2" % (W, W), ["p1", "p2"])]
    if chk.tier == "thorough":
        path_variants += [("%s/p1/,%s/p2" % (W, W), ["p1", "p2"]), (",%s/p1,,%s/p2" % (W, W), ["p1", "p2"]),
                          ("%s/p2,%s/p1,%s/p2" % (W, W, W), ["p2", "p1"])]
    total = 0
    for envpath, pdirs in path_variants:
        for form, name in forms.items():
            # 0 = absent, 1 = a table file, 2 = a DIRECTORY of that name (never a match: the search goes on)
            for pattern in itertools.product([0, 1, 2] if (form == "plain" or chk.tier == "thorough") else [0, 1], repeat=4):
                shutil.rmtree(work, ignore_errors=True)
                for d in ("inc", "cwd", "p1", "p2", "abs"):
                    (work / d).mkdir(parents=True)
                (work / "inc" / "main.utb").write_text("space \\s 0\ninclude %s\n" % name)
                (work / "inc" / "main0.utb").write_text("space \\s 0\n")
                rel = name if form != "absolute" else name.lstrip("/")
                slots = [work / "inc" / rel, (work / "cwd" / rel) if form != "absolute" else work / "abs" / "m.utb",
                         work / pdirs[0] / rel, work / pdirs[1] / rel]
                marker_of = {}
                for k, (on, f) in enumerate(zip(pattern, slots)):
                    if on == 1:
                        f.parent.mkdir(parents=True, exist_ok=True)
                        f.write_text("letter a %s\n" % DOTS[k])
                        marker_of[os.path.realpath(f)] = 1 << k
                    elif on == 2:
                        f.mkdir(parents=True, exist_ok=True)
                inc_main = W + "/inc/main.utb"
                lst = W + "/inc/main0.utb," + name
                env = {"LOUIS_TABLEPATH": envpath}
                clines = ["P %s | %s" % (name, inc_main), "A %s" % inc_main, "P %s | -" % lst, "A %s" % lst,
                          # history: same queries again, other order, no lou_free in between
                          "A+ %s" % lst, "A+ %s" % inc_main,
                          # the translation part compiled alone (another entry point into the same resolution)
                          "E %s" % inc_main, "E %s" % lst,
                          # what a name denotes must not depend on what was loaded before: after the list, its first member
                          # alone and a name that exists nowhere (both are beginnings of the list string), then both fresh
                          "A %s" % lst, "A+ %s" % (W + "/inc/main0.utb"), "A+ %s" % (W + "/inc/main0"),
                          "A %s" % (W + "/inc/main0.utb"), "A %s" % (W + "/inc/main0")]
                mlines = ["RS %s | %s | %s | %s" % (name, inc_main, envpath, REPO / "tables"),
                          "RS %s | - | %s | %s" % (lst, envpath, REPO / "tables")]
                rc, out, err = common.sh([str(exe)], input="\n".join(clines) + "\n", env=dict(common.ASAN_ENV, **env), cwd=str(work / "cwd"))
                co = out.strip().split("\n")
                rc2, mo, err2 = common.sh([str(drv)], input="\n".join(mlines) + "\n", cwd=str(work / "cwd"))
                mo = mo.strip().split("\n")
                case = dict(form=form, name=name, present=dict(zip(["including_dir", "as_given", "path1", "path2"], pattern)),
                            LOUIS_TABLEPATH=envpath, cwd=W + "/cwd")
                if rc != 0 or len(co) != 13 or rc2 != 0 or len(mo) != 2:
                    chk.count(str(case))
                    chk.violation("crash", "resolver harness failed rc=%s/%s: %s %s" % (rc, rc2, common.asan_summary(err), err2[-300:]), case)
                    continue
                norm = lambda a: a.strip().replace(" errors=0", " errors=1")
                for what, after, fresh in (("the first member of a list loaded before", co[9], co[11]), ("a name that exists nowhere", co[10], co[12])):
                    chk.tally("name_after_list")
                    if norm(after) != norm(fresh):
                        chk.violation("denotation-depends-on-history:%s" % form, "%s resolves differently after the list was loaded (%s) and in a fresh state (%s)"
                                      % (what, after.strip(), fresh.strip()), dict(case, impl_after=after, impl_fresh=fresh, commands=clines[8:]))
                for kind, ce, mp in (("include", co[6], mo[0]), ("list", co[7], mo[1])):
                    want = "E 0" if mp == "P FAIL" else "E 1"
                    if ce.strip() != want:
                        chk.violation("translation-only-compile:%s/%s" % (form, kind),
                                      "compiling the translation part alone (lou_getEmphClasses) answers %s where the resolution says %s" % (ce.strip(), mp[:120]),
                                      dict(case, kind=kind, impl=ce, model_paths=mp))
                for kind, cp, ca, ca2, mp in (("include", co[0], co[1], co[5], mo[0]), ("list", co[2], co[3], co[4], mo[1])):
                    total += 1
                    key = (envpath, form, pattern, kind)
                    chk.count(key, nontrivial=any(x == 1 for x in pattern))
                    chk.tally("%s/%s" % (form, kind))
                    # expected marker from the model's path
                    if mp == "P FAIL":
                        expA = "A FAIL errors=1"
                    else:
                        last = mp[2:].split("|")[-1]
                        if not os.path.isabs(last):
                            last = os.path.join(W, "cwd", last)
                        expA = "A %d" % marker_of.get(os.path.realpath(last), -1)
                    ok = cp == mp and ca == expA and ca2.replace(" errors=0", " errors=1") == expA
                    c2 = dict(case, kind=kind, impl_paths=cp, model_paths=mp, impl_marker=ca, impl_marker_again=ca2, expected_marker=expA)
                    if ok:
                        chk.cov["traces_validated_against_impl"] += 1
                        if sum(1 for x in pattern if x) >= 2:
                            chk.sample(c2, cap=4)
                    else:
                        chk.violation("precedence-mismatch:%s/%s" % (form, kind),
                                      "resolution differs from Resolve.resolve_list: impl=%s / %s / %s model=%s expected marker %s" % (cp, ca, ca2, mp, expA), c2)
    shutil.rmtree(work, ignore_errors=True)
    chk.cov["exhaustive"] = True
    chk.cov["rule"] = ("all presence patterns (absent / file / for plain names also a directory of that name) of the marker table in {including file's directory, name as given, path dir 1, path dir 2} "
                       "x {plain, relative, absolute name} x {include, list member}; distinct = the tuple; non-trivial = at least one "
                       "copy present; each also re-queried without lou_free in another order")
    chk.cov["gen_status"] = gen
    chk.cov["checker_cmd"] = "make -C coq Properties/C20.vo (coqc 8.16.1)"
    chk.cov["trusted_base"] = common.TRUSTED_COMMON + [
        "tools/gen/g_resolve.py: reads the stat() candidate sequence of resolveSubtable, the parts of _lou_getTablePath and the base arguments",
        "the model is run with the real file system (OCaml Unix.stat) as its predicate; paths longer than the 4096-byte limit of resolveSubtable are not modelled"]
    if not prove["ok"] and not chk.violations:
        chk.violation("proof", "Properties/C20.v no longer checks: %s" % prove["failed"][:5],
                      dict(no_failing_input=True, broken=prove["failed"], log=prove["log"][-1500:], gen=gen))
    return chk.finish(prove)
