From Coq Require Import List ZArith Bool String Lia.
From Lou Require Import Gen.GConst Gen.GErrors Model.Reader Model.CompileCtl.
From Lou Require Import Proofs.ReaderProofs.
Import List ListNotations.
Local Open Scope Z_scope.

Lemma shape_l :
  forallb snd error_increments = true /\ compileError_logs_at_error_level_and_counts = true /\
  compileFile_returns_not_errorCount = true /\ failed_rule_without_message_gets_one = true /\
  unopenable_file_logs_and_counts = true /\ compileTable_resets_counters_at_entry = true /\
  compileTable_succeeds_iff_no_error_and_logs_on_failure = true /\
  compileTable_frees_partial_tables_on_failure = true.
Proof. repeat split; vm_compute; reflexivity. Qed.

(* ------------------------------------------------------------------ lines *)
Lemma lines_aux_bounded : forall cs cur n,
  n = Z.of_nat (length cur) -> n <= MAXSTRING - 1 ->
  forall l, In l (lines_aux cs cur n) -> Z.of_nat (length l) <= MAXSTRING - 1.
Proof.
  induction cs as [|c cs IH]; intros cur n Hn Hb l Hin.
  - cbn [lines_aux] in Hin. destruct cur as [|x cur'].
    + destruct Hin.
    + destruct Hin as [Hl|[]]. subst l. rewrite rev_length. lia.
  - cbn [lines_aux] in Hin.
    destruct (c =? 13).
    + eapply IH; eassumption.
    + destruct ((c =? 10) || (n >=? MAXSTRING - 1)) eqn:E.
      * destruct Hin as [Hl|Hin].
        -- subst l. rewrite rev_length. lia.
        -- apply (IH [] 0); [reflexivity|unfold MAXSTRING; lia|exact Hin].
      * apply orb_false_iff in E. destruct E as [_ E].
        rewrite Z.geb_leb in E. apply Z.leb_gt in E.
        apply (IH (c :: cur) (n + 1)); [cbn [length]; lia|lia|exact Hin].
Qed.

Lemma lines_bounded_l : forall cs l, In l (lines_of cs) -> Z.of_nat (length l) <= MAXSTRING - 1.
Proof.
  intros cs l Hin. unfold lines_of in Hin.
  apply (lines_aux_bounded cs [] 0); [reflexivity|unfold MAXSTRING; lia|exact Hin].
Qed.

(* ------------------------------------------------------------------ tokens *)
Lemma tokens_aux_wf : forall l cur, Forall (fun c => 32 < c) cur ->
  forall t, In t (tokens_aux l cur) ->
  t <> [] /\ Forall (fun c => 32 < c) t /\ (length t <= length cur + length l)%nat.
Proof.
  assert (Hemit : forall x cur', Forall (fun c => 32 < c) (x :: cur') ->
            rev (x :: cur') <> [] /\ Forall (fun c => 32 < c) (rev (x :: cur'))).
  { intros x cur' HF. split.
    - intros Habs. apply (f_equal (@length Z)) in Habs.
      rewrite rev_length in Habs. cbn [length] in Habs. lia.
    - apply Forall_rev. exact HF. }
  induction l as [|c l IH]; intros cur HF t Hin.
  - cbn [tokens_aux] in Hin. destruct cur as [|x cur'].
    + destruct Hin.
    + destruct Hin as [Ht|[]]. subst t.
      destruct (Hemit x cur' HF) as [Ha Hb].
      split; [exact Ha|split; [exact Hb|]]. rewrite rev_length. lia.
  - cbn [tokens_aux] in Hin. destruct (c <=? 32) eqn:E.
    + destruct cur as [|x cur'].
      * destruct (IH [] (Forall_nil _) t Hin) as [Ha [Hb Hc]].
        split; [exact Ha|split; [exact Hb|]]. cbn [length] in *. lia.
      * destruct Hin as [Ht|Hin].
        -- subst t. destruct (Hemit x cur' HF) as [Ha Hb].
           split; [exact Ha|split; [exact Hb|]]. rewrite rev_length. lia.
        -- destruct (IH [] (Forall_nil _) t Hin) as [Ha [Hb Hc]].
           split; [exact Ha|split; [exact Hb|]]. cbn [length] in *. lia.
    + apply Z.leb_gt in E.
      assert (HF' : Forall (fun c0 => 32 < c0) (c :: cur)) by (constructor; [lia|exact HF]).
      destruct (IH (c :: cur) HF' t Hin) as [Ha [Hb Hc]].
      split; [exact Ha|split; [exact Hb|]]. cbn [length] in *. lia.
Qed.

Lemma tokens_wf_l : forall l t, In t (tokens l) ->
  t <> [] /\ Forall (fun c => 32 < c) t /\ (length t <= length l)%nat.
Proof.
  intros l t Hin. unfold tokens in Hin.
  destruct (tokens_aux_wf l [] (Forall_nil _) t Hin) as [Ha [Hb Hc]].
  split; [exact Ha|split; [exact Hb|]]. cbn [length] in Hc. lia.
Qed.

(* ------------------------------------------------------------------ dots *)
Lemma land_lor_flag : forall c, Z.land (Z.lor c LOU_DOTS) LOU_DOTS = LOU_DOTS.
Proof.
  intros c. apply Z.bits_inj'. intros n Hn.
  rewrite Z.land_spec, Z.lor_spec.
  destruct (Z.testbit LOU_DOTS n); destruct (Z.testbit c n); reflexivity.
Qed.

Lemma pda_bounded : forall tok cell started acc cells,
  Forall (fun c => Z.land c LOU_DOTS = LOU_DOTS) acc ->
  parse_dots_aux tok cell started acc = Some cells ->
  (length cells + (if started then 0 else 1) <= length acc + length tok + 1)%nat /\
  Forall (fun c => Z.land c LOU_DOTS = LOU_DOTS) cells.
Proof.
  induction tok as [|c tok IH]; intros cell started acc cells HF H.
  - cbn [parse_dots_aux] in H. destruct started; [|discriminate].
    injection H as Hc; subst cells. change (rev acc ++ [Z.lor cell LOU_DOTS]) with (rev (Z.lor cell LOU_DOTS :: acc)). split.
    + rewrite rev_length. cbn [length]. lia.
    + apply Forall_rev. constructor; [apply land_lor_flag|exact HF].
  - cbn [parse_dots_aux] in H.
    destruct (dot_of c) as [d|].
    + destruct (started && (cell =? 0)); [discriminate|].
      destruct (negb (Z.land cell d =? 0)); [discriminate|].
      destruct (IH _ _ _ _ HF H) as [Ha Hb]. split; [|exact Hb].
      cbn [length]. destruct started; lia.
    + destruct (c =? 48).
      * destruct started; [discriminate|].
        destruct (IH _ _ _ _ HF H) as [Ha Hb]. split; [|exact Hb].
        cbn [length]. lia.
      * destruct (c =? 45); [|discriminate].
        destruct started; [|discriminate].
        assert (HF' : Forall (fun c0 => Z.land c0 LOU_DOTS = LOU_DOTS) (Z.lor cell LOU_DOTS :: acc))
          by (constructor; [apply land_lor_flag|exact HF]).
        destruct (IH _ _ _ _ HF' H) as [Ha Hb]. split; [|exact Hb].
        cbn [length] in *. lia.
Qed.

Lemma dots_bounded_l : forall tok cells, parse_dots tok = Some cells ->
  (length cells <= length tok)%nat /\ Forall (fun c => Z.land c LOU_DOTS = LOU_DOTS) cells.
Proof.
  intros tok cells H. unfold parse_dots in H.
  destruct (pda_bounded tok 0 false [] cells (Forall_nil _) H) as [Ha Hb].
  split; [|exact Hb]. cbn [length] in Ha. lia.
Qed.

(* ------------------------------------------------------------------ chars *)
Lemma pca_bounded : forall f tok acc cs, parse_chars_aux f tok acc = Some cs ->
  (length cs <= length acc + length tok)%nat.
Proof.
  induction f as [|f IH]; intros tok acc cs H; [discriminate|].
  rewrite pca_unfold in H. destruct tok as [|c r].
  - inversion H; subst cs. rewrite rev_length. lia.
  - destruct (step (c :: r)) as [[v r']|] eqn:Es; [|discriminate].
    apply step_length in Es. apply IH in H. cbn [length] in *. lia.
Qed.

Lemma chars_bounded_l : forall tok cs, parse_chars tok = Some cs -> (length cs <= length tok)%nat.
Proof.
  intros tok cs H. unfold parse_chars in H. apply pca_bounded in H. cbn [length] in H. lia.
Qed.

(* ------------------------------------------------------------------ outcome *)
Lemma cstep_inv : forall s e, 0 <= errors s -> errors s = logged s ->
  0 <= errors (cstep s e) /\ errors (cstep s e) = logged (cstep s e).
Proof.
  intros s e H0 Heq. unfold cstep.
  destruct (stopped s); [split; assumption|].
  destruct e as [|msgs| |]; cbn [errors logged].
  - split; assumption.
  - destruct ((errors s =? 0) && Nat.eqb msgs 0); lia.
  - lia.
  - lia.
Qed.

Lemma fold_cstep_inv : forall es s, 0 <= errors s -> errors s = logged s ->
  0 <= errors (fold_left cstep es s) /\ errors (fold_left cstep es s) = logged (fold_left cstep es s).
Proof.
  induction es as [|e es IH]; intros s H0 Heq.
  - cbn [fold_left]. split; assumption.
  - cbn [fold_left]. destruct (cstep_inv s e H0 Heq) as [Ha Hb]. apply IH; assumption.
Qed.

Lemma outcome_iff_l : forall es,
  (fst (outcome es) = true <-> snd (outcome es) = 0) /\ (fst (outcome es) = false -> 1 <= snd (outcome es)).
Proof.
  intros es. unfold outcome.
  assert (Hinv : 0 <= errors (crun es) /\ errors (crun es) = logged (crun es)).
  { unfold crun. apply fold_cstep_inv; cbn [cinit errors logged]; lia. }
  destruct Hinv as [H0 Heq].
  destruct (errors (crun es) =? 0) eqn:E; cbn [fst snd].
  - apply Z.eqb_eq in E. split; [split; intros _; [lia|reflexivity]|discriminate].
  - apply Z.eqb_neq in E. split; [split; [discriminate|intros Hs; lia]|intros _; lia].
Qed.
