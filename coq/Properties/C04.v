(* C04 — reported lengths are truthful and no input is silently dropped (fragment F).  Statements only. *)
From Coq Require Import List ZArith Bool.
From Lou Require Import Gen.GConst Model.Table Model.Ref Model.Compile Model.Engine Model.Finish.
From Lou Require Import Proofs.EngineProofs Proofs.CompleteProofs.
Import ListNotations.
Local Open Scope Z_scope.

(* the longest cell string any single entry (the built-in one included) can emit *)
Definition maxdots (t : table) : Z := fold_left (fun m e => Z.max m (len (e_dots e))) (builtin :: t) 0.

Theorem lengths_in_range : forall t mode inp cap consumed cells pm trace,
  0 <= cap ->
  translate_ref t mode inp cap = TOk consumed cells pm trace ->
  0 <= consumed <= len inp /\ len cells <= cap /\ length pm = length cells.
Proof. exact EngineProofs.lengths_in_range_l. Qed.

(* completeness: when the capacity is at least twice the longest emission per input character
   (number sign + rule), nothing is dropped: the whole input is consumed *)
Theorem generous_capacity_consumes_everything : forall t mode inp cap consumed cells pm trace,
  2 * maxdots t * len inp <= cap ->
  translate_ref t mode inp cap = TOk consumed cells pm trace ->
  consumed = len inp.
Proof. exact CompleteProofs.complete_l. Qed.
Print Assumptions generous_capacity_consumes_everything.

(* the translation itself never fails; the only failure of a call with a compiled table is a cell
   without display mapping, and only when the display table is consulted *)
Theorem encode_fails_only_on_unmapped_cell : forall mode d2c cells,
  encode mode d2c cells = None <->
  (Z.land mode mode_dotsIO = 0 /\ exists c, In c cells /\ d2c c = 0).
Proof. exact CompleteProofs.encode_none_iff_l. Qed.
Print Assumptions encode_fails_only_on_unmapped_cell.

Theorem encode_preserves_length : forall mode d2c cells out,
  encode mode d2c cells = Some out -> length out = length cells.
Proof. exact CompleteProofs.encode_length_l. Qed.

Example completeness_hypothesis_is_meaningful :
  let t := [ mkEntry CTO_Letter [97] [32769; 32770] false false ] in
  maxdots t = 2 /\ translate_ref t 0 [97; 97; 97] 12 = TOk 3 [32769; 32770; 32769; 32770; 32769; 32770] [0; 0; 1; 1; 2; 2] [1; 1; 1]
  /\ translate_ref t 0 [97; 97; 97] 5 = TOk 2 [32769; 32770; 32769; 32770] [0; 0; 1; 1] [1; 1; 1].
Proof. vm_compute. repeat split; reflexivity. Qed.
