(* The documented rule-choice algorithm written directly over the entry list (no hash buckets,
   no chains): the reference of C05.                                                          *)
From Coq Require Import List ZArith Bool.
From Lou Require Import Gen.GConst Gen.GChain Model.Table.
Import ListNotations.
Local Open Scope Z_scope.

Definition is_multi (e : entry) : bool := 2 <=? len (e_chars e).
Definition is_single (e : entry) : bool := len (e_chars e) =? 1.
Definition is_always (e : entry) : bool := e_op e =? CTO_Always.

(* "longest first; among equal lengths rules other than `always' first; otherwise table order":
   stable insertion sort of the multi-character rules by that key *)
Definition ref_before (a b : Z * entry) : bool :=
  let la := len (e_chars (snd a)) in
  let lb := len (e_chars (snd b)) in
  (lb <? la) || ((la =? lb) && negb (is_always (snd a)) && is_always (snd b)).

Fixpoint ref_insert (x : Z * entry) (l : list (Z * entry)) : list (Z * entry) :=
  match l with
  | [] => [x]
  | y :: l' => if ref_before x y then x :: l else y :: ref_insert x l'
  end.

(* inserting in table order, each new rule goes after the earlier rules of equal rank *)
Definition ref_sort (l : list (Z * entry)) : list (Z * entry) :=
  fold_left (fun acc x => ref_insert x acc) l [].

(* candidates at pos, in order of preference *)
Definition ref_candidates (t : table) (inp : list Z) (pos : Z) : list (Z * entry) :=
  let rules := filter (fun ie => is_fwd_rule (snd ie)) (numbered t) in
  let remaining := len inp - pos in
  let multi :=
    if 2 <=? remaining then
      filter (fun ie => (len (e_chars (snd ie)) <=? remaining) && valid_match t inp pos (e_chars (snd ie)))
             (ref_sort (filter (fun ie => is_multi (snd ie)) rules))
    else [] in
  let c := nth_z inp pos in
  let single := filter (fun ie => is_single (snd ie) && eqb_list (e_chars (snd ie)) [c]) rules in
  multi ++ filter (fun ie => negb (is_def_op (e_op (snd ie)))) single
        ++ filter (fun ie => is_def_op (e_op (snd ie))) single.

Definition select_ref (t : table) (mode : Z) (inp : list Z) (pos : Z) : option (Z * entry) :=
  find (fun ie => cand_ok t mode inp pos (snd ie)) (ref_candidates t inp pos).

(* The documented preference between two rules that both qualify at a position, stated over
   the entries themselves: multi-character rules before single-character ones; among
   multi-character rules the longer one, then a rule other than `always', then the one defined
   first; among single-character rules translation rules before character definitions, then the
   one defined first. *)
Definition rank (ie : Z * entry) : Z * Z * Z * Z :=
  let e := snd ie in
  if is_multi e then (0, - len (e_chars e), (if is_always e then 1 else 0), fst ie)
  else (1, (if is_def_op (e_op e) then 1 else 0), 0, fst ie).

Definition lex4_lt (a b : Z * Z * Z * Z) : Prop :=
  let '(a1, a2, a3, a4) := a in
  let '(b1, b2, b3, b4) := b in
  a1 < b1 \/ (a1 = b1 /\ (a2 < b2 \/ (a2 = b2 /\ (a3 < b3 \/ (a3 = b3 /\ a4 < b4))))).

(* a rule qualifies at pos: it is a forward rule of the table, its characters match there
   (validMatch for multi-character rules, the character itself for single ones) and its
   opcode condition holds *)
Definition qualifies (t : table) (mode : Z) (inp : list Z) (pos : Z) (ie : Z * entry) : Prop :=
  In ie (numbered t) /\ is_fwd_rule (snd ie) = true /\
  cand_ok t mode inp pos (snd ie) = true /\
  ((is_multi (snd ie) = true /\ len (e_chars (snd ie)) <= len inp - pos /\
    valid_match t inp pos (e_chars (snd ie)) = true) \/
   (e_chars (snd ie) = [nth_z inp pos])).
