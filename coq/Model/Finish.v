(* M3/Finish — the table-independent tail of _lou_translate and _lou_backTranslate: from the raw
   position map to inputPos / outputPos / cursor, and the re-encoding of cells (display, dotsIO,
   ucBrl, typeform marks).  Executable, no proofs.                                            *)
From Coq Require Import List ZArith Bool.
From Lou Require Import Gen.GConst.
Import ListNotations.
Local Open Scope Z_scope.

Definition nthz (l : list Z) (i : Z) (d : Z) : Z := if i <? 0 then d else nth (Z.to_nat i) l d.

Fixpoint set_nth (l : list Z) (i : nat) (v : Z) : list Z :=
  match l, i with
  | [], _ => []
  | _ :: l', O => v :: l'
  | x :: l', S i' => x :: set_nth l' i' v
  end.

(* the direct map: posMapping[k] clamped into [0, bound - 1]
   (forward: inputPos[k], bound = *inlen; backward: outputPos[k], bound = *outlen) *)
Definition clamp (bound x : Z) : Z :=
  if x <? 0 then 0 else if x >? bound - 1 then bound - 1 else x.

Definition direct_map (pm : list Z) (n : nat) (bound : Z) : list Z := map (clamp bound) (firstn n pm).

(* the inverse map, computed by the scan
     a = -1; b = -1;
     for (k = 0; k < n; k++) if (pm[k] > a) { while (a < pm[k]) { if (0 <= a < bound) arr[a] = b < 0 ? 0 : b; a++; } b = k; }
     if (a < 0) a = 0; while (a < bound) arr[a++] = b;
   (forward: outputPos over input positions, n = *outlen, bound = *inlen;
    backward: inputPos over output positions, n = *inlen, bound = *outlen) *)
Fixpoint fill (cnt : nat) (a v bound : Z) (arr : list Z) : list Z :=
  match cnt with
  | O => arr
  | S c =>
      fill c (a + 1) v bound
           (if (0 <=? a) && (a <? bound) then set_nth arr (Z.to_nat a) v else arr)
  end.

Fixpoint scan (pm : list Z) (k a b bound : Z) (arr : list Z) : Z * Z * list Z :=
  match pm with
  | [] => (a, b, arr)
  | p :: pm' =>
      if p >? a then
        scan pm' (k + 1) p k bound (fill (Z.to_nat (p - a)) a (if b <? 0 then 0 else b) bound arr)
      else scan pm' (k + 1) a b bound arr
  end.

Definition inverse_map (pm : list Z) (n : nat) (bound : Z) (arr0 : list Z) : list Z :=
  let '(a, b, arr) := scan (firstn n pm) 0 (-1) (-1) bound arr0 in
  let a' := if a <? 0 then 0 else a in
  fill (Z.to_nat (bound - a')) a' b bound arr.

(* forward: *inlen = pm[outlen]; inputPos; outputPos (initially -1 over the call's input length) *)
Definition finish_fwd (pm : list Z) (outlen : nat) (L : nat) : Z * list Z * list Z :=
  let inlen := nthz pm (Z.of_nat outlen) 0 in
  (inlen, direct_map pm outlen inlen, inverse_map pm outlen inlen (repeat (-1) L)).

(* backward: outputPos[k] for k < inlen (direct), inputPos over [0, outlen) (inverse) *)
Definition finish_back (pm : list Z) (inlen : nat) (outlen : Z) (L : nat) : list Z * list Z :=
  (inverse_map pm inlen outlen (repeat (-7777) (Z.to_nat outlen)), direct_map pm inlen outlen).

(* cursor on return when position arrays are supplied *)
Definition cursor_out (outputPos : list Z) (cursor : Z) : Z := nthz outputPos cursor (-1).

(* ---- re-encoding of cells *)
Definition enc_ucbrl (cell : Z) : Z := Z.lor (Z.land cell 255) LOU_ROW_BRAILLE.
Definition typeform_mark (cell : Z) : Z :=
  if Z.land cell (Z.lor LOU_DOT_7 LOU_DOT_8) =? 0 then 48 else 56.

Definition encode (mode : Z) (d2c : Z -> Z) (cells : list Z) : option (list Z) :=
  if Z.land mode mode_dotsIO =? 0 then
    let out := map d2c cells in
    if existsb (fun c => c =? 0) out then None else Some out
  else if Z.land mode mode_ucBrl =? 0 then Some cells
  else Some (map enc_ucbrl cells).

(* lou_charToDots / lou_dotsToChar *)
Definition char_to_dots (mode : Z) (c2d : Z -> Z) (s : list Z) : list Z :=
  if Z.land mode mode_ucBrl =? 0 then map c2d s else map (fun c => enc_ucbrl (c2d c)) s.

Definition dots_to_char (d2c : Z -> Z) (s : list Z) : list Z :=
  map (fun d =>
         let d' := if (Z.land d LOU_DOTS =? 0) && (Z.land d 65280 =? LOU_ROW_BRAILLE)
                   then Z.lor (Z.land d 255) LOU_DOTS else d in
         let c := d2c d' in if c =? 0 then 32 else c) s.
