(* C01 — forward translation memory safety: the part that is logic.  Statements only.
   L = input length of the call, O = *outlen; both arbitrary non-negative numbers; `exact' is the
   verification hook that skips the 1024 floor, so the same theorems cover the instrumented runs. *)
From Coq Require Import List ZArith Bool.
From Lou Require Import Gen.GAlloc Gen.GEmit Model.BufPlan Model.Emit Proofs.BufPlanProofs Proofs.EmitProofs.
Import ListNotations.
Local Open Scope Z_scope.

Theorem plan_typebuf : forall exact L O, 0 <= L -> 0 <= O ->
  demand_typebuf L O <= provided size_typebuf exact L O.
Proof. exact typebuf_ok. Qed.
Print Assumptions plan_typebuf.

Theorem plan_fwd_posmaps : forall exact L O, 0 <= L -> 0 <= O ->
  demand_fwd_posmap L O <= provided size_posMapping1 exact L O /\
  demand_fwd_posmap L O <= provided size_posMapping2 exact L O /\
  demand_fwd_posmap L O <= provided size_posMapping3 exact L O.
Proof. exact fwd_posmap_ok. Qed.

Theorem plan_destSpacing : forall exact L O, 0 <= L -> 0 <= O ->
  demand_destSpacing L O <= provided size_destSpacing exact L O.
Proof. exact destSpacing_ok. Qed.

Theorem plan_word_and_emphasis_buffers : forall exact L1 O, 0 <= L1 -> 0 <= O ->
  demand_wordbuf L1 <= provided size_wordBuffer exact L1 O /\
  demand_wordbuf L1 <= provided size_emphasisBuffer exact L1 O.
Proof. exact wordbuf_ok. Qed.

Theorem plan_fwd_passbuf : forall exact O, 0 <= O ->
  demand_fwd_passbuf O <= provided size_passbuf exact 0 O.
Proof. exact fwd_passbuf_ok. Qed.

Theorem call_sites_pass_input_length_and_capacity :
  passbuf_sized_by_requested_length = true /\ forward_buffers_sized_by_inlen_outlen = true /\
  backward_maps_sized_by_inlen_outlen = true /\ forward_pass_buffers_requested_with_outlen = true /\
  backward_pass_buffers_requested_with_inlen_then_outlen = true.
Proof. exact call_sites_ok. Qed.

(* every sequence of emissions through the choke point keeps the output length within maxlength and
   never touches a cell or map entry at or beyond maxlength (which the plan provides) *)
Theorem emit_invariant : forall maxlen in_len ops s,
  EInv maxlen in_len s -> Forall (wf_op in_len) ops ->
  EInv maxlen in_len (fold_left (estep maxlen in_len) ops s).
Proof. exact emit_inv_l. Qed.
Print Assumptions emit_invariant.

Theorem fwd_emit_all_or_nothing : forall maxlen in_len s out_n pos in_n,
  fwd_emit_rejects (out_len s) out_n maxlen pos in_n in_len = true ->
  estep maxlen in_len s (EFwd out_n pos in_n) = s.
Proof. exact fwd_reject_unchanged. Qed.

Theorem fwd_emit_accepted_fits : forall out_len0 out_n maxlen pos in_n in_len,
  fwd_emit_rejects out_len0 out_n maxlen pos in_n in_len = false ->
  out_len0 + out_n <= maxlen /\ pos + in_n <= in_len.
Proof. exact fwd_accept_fits. Qed.

(* the plain one-element copy of the forward stage loops (makeCorrections, translatePass): with the REGENERATED
   guard passed, the element is written below maxlength; the guard is the one the stage models use *)
Theorem fwd_stage_copy_fits : forall o m,
  (fwd_correct_copy_rejects o m = false -> o < m) /\ (fwd_pass_copy_rejects o m = false -> o < m) /\
  fwd_correct_copy_rejects o m = (o + 1 >? m) /\ fwd_pass_copy_rejects o m = (o + 1 >? m).
Proof. exact EmitProofs.fwd_stage_copy_l. Qed.
Print Assumptions fwd_stage_copy_fits.

Example plan_binds_somewhere : (* the typebuf plan is tight only through the slack: L = 3000, O = 10 *)
  demand_typebuf 3000 10 = 3000 /\ provided size_typebuf false 3000 10 = 3004.
Proof. split; reflexivity. Qed.
