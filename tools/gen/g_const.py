"""G1: enum orders and values, macros."""
import re
from pathlib import Path
import cparse
from g_common import *

NAME = "GConst"


def generate(repo):
    ih_raw = (Path(repo) / "liblouis" / "internal.h").read_text()
    ih = cparse.strip_comments(ih_raw)
    lh_raw = (Path(repo) / "liblouis" / "liblouis.h.in").read_text()
    lh = cparse.strip_comments(lh_raw)
    out = [HEADER]
    cto = enum_values(ih, "CTO_IncludeFile")
    cto = {k: v for k, v in cto.items() if k.startswith("CTO_")}
    if "CTO_Always" not in cto or "CTO_None" not in cto:
        raise cparse.ParseError("opcode enum")
    for k, v in sorted(cto.items(), key=lambda kv: kv[1]):
        out.append("Definition %s : Z := %d.\n" % (k, v))
    out.append("\n")
    ctc = enum_values(ih, "CTC_Space")
    ctc = {k: v for k, v in ctc.items() if k.startswith("CTC_")}
    for k, v in sorted(ctc.items(), key=lambda kv: kv[1]):
        out.append("Definition %s : Z := %d.\n" % (k, v))
    out.append("\n")
    modes = enum_values(lh, "noContractions")
    for k in ["noContractions", "compbrlAtCursor", "dotsIO", "compbrlLeftCursor", "ucBrl", "noUndefined", "partialTrans"]:
        if k not in modes:
            raise cparse.ParseError("mode " + k)
        out.append("Definition mode_%s : Z := %d.\n" % (k, modes[k]))
    out.append("\n")
    d = defines(ih_raw)
    d.update({k: v for k, v in defines(lh_raw).items() if k.startswith("LOU_")})
    d.update({k: v for k, v in enum_values(lh, "LOU_ROW_BRAILLE").items() if k.startswith("LOU_")})
    d.update({k: v for k, v in enum_values(lh, "LOU_DOT_7").items() if k.startswith("LOU_")})
    for k in ["HASHNUM", "MAXPASS", "MAXSTRING", "NUMVAR", "MAXPASSBUF", "LOU_DOTS", "LOU_ENDSEGMENT", "LOU_ROW_BRAILLE",
              "LOU_DOT_7", "LOU_DOT_8", "OFFSETSIZE", "DEFAULTRULESIZE", "CHARSIZE"]:
        if k in d:
            out.append("Definition %s : Z := %d.\n" % (k, d[k]))
        elif k in ("OFFSETSIZE", "CHARSIZE"):
            continue
        else:
            raise cparse.ParseError("macro " + k)
    return "".join(out)
