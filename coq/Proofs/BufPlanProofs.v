From Coq Require Import ZArith Bool Lia.
From Lou Require Import Gen.GAlloc Model.BufPlan.
Local Open Scope Z_scope.

Ltac plan :=
  intros; unfold provided, eff_src, eff_dest, alloc_floor_src, alloc_floor_dest,
    size_typebuf, size_wordBuffer, size_emphasisBuffer, size_destSpacing, size_passbuf,
    size_posMapping1, size_posMapping2, size_posMapping3,
    demand_typebuf, demand_fwd_posmap, demand_destSpacing, demand_wordbuf, demand_fwd_passbuf,
    demand_back_first_passbuf, demand_back_passbuf, demand_back_posmap in *;
  repeat match goal with
         | |- context [if ?b then _ else _] => destruct b eqn:?
         end; lia.

Lemma typebuf_ok : forall exact L O, 0 <= L -> 0 <= O ->
  demand_typebuf L O <= provided size_typebuf exact L O.
Proof. plan. Qed.

Lemma fwd_posmap_ok : forall exact L O, 0 <= L -> 0 <= O ->
  demand_fwd_posmap L O <= provided size_posMapping1 exact L O /\
  demand_fwd_posmap L O <= provided size_posMapping2 exact L O /\
  demand_fwd_posmap L O <= provided size_posMapping3 exact L O.
Proof. intros; repeat split; plan. Qed.

Lemma destSpacing_ok : forall exact L O, 0 <= L -> 0 <= O ->
  demand_destSpacing L O <= provided size_destSpacing exact L O.
Proof. plan. Qed.

Lemma wordbuf_ok : forall exact L1 O, 0 <= L1 -> 0 <= O ->
  demand_wordbuf L1 <= provided size_wordBuffer exact L1 O /\
  demand_wordbuf L1 <= provided size_emphasisBuffer exact L1 O.
Proof. intros; split; plan. Qed.

Lemma fwd_passbuf_ok : forall exact O, 0 <= O ->
  demand_fwd_passbuf O <= provided size_passbuf exact 0 O.
Proof. plan. Qed.

Lemma back_first_passbuf_ok : forall exact L, 0 <= L ->
  demand_back_first_passbuf L <= provided size_passbuf exact 0 L.
Proof. plan. Qed.

Lemma back_posmap_ok : forall exact L O, 0 <= L -> 0 <= O ->
  demand_back_posmap L O <= provided size_posMapping1 exact L O /\
  demand_back_posmap L O <= provided size_posMapping2 exact L O /\
  demand_back_posmap L O <= provided size_posMapping3 exact L O.
Proof. intros; repeat split; plan. Qed.

Lemma call_sites_ok :
  passbuf_sized_by_requested_length = true /\ forward_buffers_sized_by_inlen_outlen = true /\
  backward_maps_sized_by_inlen_outlen = true /\ forward_pass_buffers_requested_with_outlen = true /\
  backward_pass_buffers_requested_with_inlen_then_outlen = true.
Proof. repeat split; reflexivity. Qed.
