"""Finishing code of the position maps: the scan that builds the inverse array (forward: outputPos, backward: inputPos)
and the clamp of the direct array (forward: inputPos, backward: outputPos), as they are written in _lou_translate and
_lou_backTranslate.  Every comparison and value is printed as a Gallina definition."""
import re
import cparse
from g_common import *

NAME = "GPosMap"

# (prefix, file, function, inverse array, a (index into the inverse array), b (index of the scan), bound, loop bound, direct array)
SITES = [
    ("fwd", "lou_translateString.c", "_lou_translate", "outputPos", "inpos", "outpos", "*inlen", "*outlen", "inputPos"),
    ("back", "lou_backTranslateString.c", "_lou_backTranslate", "inputPos", "outpos", "inpos", "*outlen", "*inlen", "outputPos"),
]


def grab(flat, pattern, what):
    m = re.search(pattern, flat)
    if not m:
        raise cparse.ParseError("position map finishing code not recognised: " + what)
    return m


def site(repo, prefix, file, fn, inv, a, b, bound, count, direct):
    src = source(repo, file)
    body = cparse.find_function(src, fn)
    body = body if isinstance(body, str) else body[1]
    flat = " ".join(body.split())
    E = re.escape
    cond = r"((?:[^()]|\([^()]*\))*)"        # an expression with at most one level of parentheses
    pat = (r"if \(" + E(inv) + r" != NULL\) \{ int inpos = -1; int outpos = -1; for \(k = 0; k < " + cond + r"; k\+\+\) "
           r"if \(" + cond + r"\) \{ while \(" + cond + r"\) \{ if \(" + cond + r"\) " + E(inv) + r"\[" + E(a) + r"\] = ([^;]+); " + E(a) + r"\+\+; \} "
           + E(b) + r" = k; \} if \(" + cond + r"\) " + E(a) + r" = 0; while \(" + cond + r"\) " + E(inv) + r"\[" + E(a) + r"\+\+\] = " + E(b) + r"; \}")
    m = grab(flat, pat, "%s scan in %s" % (inv, fn))
    loopbound, enter, fillwhile, guard, value, tailreset, tailwhile = [x.strip() for x in m.groups()]
    if loopbound != count:
        raise cparse.ParseError("%s: the scan runs to %s (expected %s)" % (fn, loopbound, count))
    env = {"posMapping[k]": "p", a: "a", b: "b", bound: "bound"}
    to = cparse.ToZ(env)
    ex = lambda t: cparse.parse_expr(t)
    out = []
    out.append("Definition %s_scan_enter (p a : Z) : bool := %s.\n" % (prefix, to.b(ex(enter))))
    out.append("Definition %s_scan_fill_while (a p : Z) : bool := %s.\n" % (prefix, to.b(ex(fillwhile))))
    out.append("Definition %s_scan_store_guard (a bound : Z) : bool := %s.\n" % (prefix, to.b(ex(guard))))
    out.append("Definition %s_scan_store_value (b : Z) : Z := %s.\n" % (prefix, to.z(ex(value))))
    out.append("Definition %s_scan_tail_reset (a : Z) : bool := %s.\n" % (prefix, to.b(ex(tailreset))))
    out.append("Definition %s_scan_tail_while (a bound : Z) : bool := %s.\n" % (prefix, to.b(ex(tailwhile))))
    pat2 = (r"if \(" + E(direct) + r" != NULL\) \{ for \(k = 0; k < " + cond + r"; k\+\+\) if \(" + cond + r"\) " + E(direct) + r"\[k\] = ([^;]+); "
            r"else if \(" + cond + r"\) " + E(direct) + r"\[k\] = ([^;]+); else " + E(direct) + r"\[k\] = ([^;]+); \}")
    m = grab(flat, pat2, "%s clamp in %s" % (direct, fn))
    lb, c1, v1, c2, v2, v3 = [x.strip() for x in m.groups()]
    if lb != count:
        raise cparse.ParseError("%s: the clamp loop runs to %s (expected %s)" % (fn, lb, count))
    out.append("Definition %s_clamp (p bound : Z) : Z := if %s then %s else if %s then %s else %s.\n"
               % (prefix, to.b(ex(c1)), to.z(ex(v1)), to.b(ex(c2)), to.z(ex(v2)), to.z(ex(v3))))
    # the reported lengths
    if prefix == "fwd":
        grab(flat, r"\*inlen = posMapping\[output\.length\]; \*outlen = output\.length;", "forward lengths")
    else:
        grab(flat, r"\*outlen = output\.length;", "backward length")
    return "".join(out)


def generate(repo):
    out = [HEADER]
    out.append("(* p = posMapping[k]; a = running index into the inverse array; b = index of the last entry that moved a;\n"
               "   bound = the reported length on the side of the inverse array *)\n")
    for s in SITES:
        out.append("(* %s, %s *)\n" % (s[1], s[2]))
        out.append(site(repo, *s))
    return "".join(out)
