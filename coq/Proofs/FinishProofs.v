(* C07 proofs: the finishing code (Model/Finish.v) - direct and inverse position maps. *)
From Coq Require Import List ZArith Bool Lia ZifyBool.
From Lou Require Import Model.Finish.
Import ListNotations.
Local Open Scope Z_scope.

(* ------------------------------------------------------------------ set_nth, nthz, clamp *)

Lemma set_nth_length l : forall i v, length (set_nth l i v) = length l.
Proof.
  induction l as [|x l IH]; intros [|i] v; cbn [set_nth length]; try reflexivity.
  rewrite IH. reflexivity.
Qed.

Lemma set_nth_same l : forall i v d, (i < length l)%nat -> nth i (set_nth l i v) d = v.
Proof.
  induction l as [|x l IH]; intros [|i] v d Hi; cbn [set_nth length nth] in *;
    [lia|lia|reflexivity|].
  apply IH. lia.
Qed.

Lemma set_nth_other l : forall i j v d, i <> j -> nth j (set_nth l i v) d = nth j l d.
Proof.
  induction l as [|x l IH]; intros [|i] [|j] v d Hij; cbn [set_nth nth]; try reflexivity.
  - congruence.
  - apply IH. congruence.
Qed.

Lemma nthz_set_same l a v d : 0 <= a < Z.of_nat (length l) ->
  nthz (set_nth l (Z.to_nat a) v) a d = v.
Proof.
  intros Ha. unfold nthz. destruct (a <? 0) eqn:E; [lia|].
  apply set_nth_same. lia.
Qed.

Lemma nthz_set_other l a i v d : 0 <= a -> i <> a ->
  nthz (set_nth l (Z.to_nat a) v) i d = nthz l i d.
Proof.
  intros Ha Hi. unfold nthz. destruct (i <? 0) eqn:E; [reflexivity|].
  apply set_nth_other. lia.
Qed.

Lemma clamp_range bound x : 1 <= bound -> 0 <= clamp bound x <= bound - 1.
Proof.
  intros Hb. unfold clamp. destruct (x <? 0) eqn:E1; [lia|].
  destruct (x >? bound - 1) eqn:E2; lia.
Qed.

Lemma clamp_le bound x a : x <= a -> 0 <= a -> clamp bound x <= a.
Proof.
  intros Hx Ha. unfold clamp. destruct (x <? 0) eqn:E1; [lia|].
  destruct (x >? bound - 1) eqn:E2; lia.
Qed.

Lemma clamp_id bound x : 0 <= x <= bound - 1 -> clamp bound x = x.
Proof.
  intros Hx. unfold clamp. destruct (x <? 0) eqn:E1; [lia|].
  destruct (x >? bound - 1) eqn:E2; lia.
Qed.

(* ------------------------------------------------------------------ fill *)

Lemma fill_length cnt : forall a v bound arr, length (fill cnt a v bound arr) = length arr.
Proof.
  induction cnt as [|c IH]; intros a v bound arr; cbn [fill]; [reflexivity|].
  rewrite IH. destruct ((0 <=? a) && (a <? bound)); [apply set_nth_length|reflexivity].
Qed.

Lemma fill_other cnt : forall a v bound arr i d,
  ~ (a <= i < a + Z.of_nat cnt /\ 0 <= i < bound) ->
  nthz (fill cnt a v bound arr) i d = nthz arr i d.
Proof.
  induction cnt as [|c IH]; intros a v bound arr i d Hn; cbn [fill]; [reflexivity|].
  rewrite IH by lia.
  destruct ((0 <=? a) && (a <? bound)) eqn:E; [|reflexivity].
  apply nthz_set_other; lia.
Qed.

Lemma fill_in cnt : forall a v bound arr i d,
  a <= i < a + Z.of_nat cnt -> 0 <= i < bound -> i < Z.of_nat (length arr) ->
  nthz (fill cnt a v bound arr) i d = v.
Proof.
  induction cnt as [|c IH]; intros a v bound arr i d Hi Hb Hl; cbn [fill]; [lia|].
  destruct (Z.eq_dec i a) as [->|Hne].
  - rewrite fill_other by lia.
    destruct ((0 <=? a) && (a <? bound)) eqn:E; [|lia].
    apply nthz_set_same. lia.
  - apply IH; [lia|lia|].
    destruct ((0 <=? a) && (a <? bound)); [rewrite set_nth_length|]; exact Hl.
Qed.

Lemma fill_spec cnt a v bound arr i d :
  0 <= i < bound -> i < Z.of_nat (length arr) ->
  (a <= i < a + Z.of_nat cnt /\ nthz (fill cnt a v bound arr) i d = v) \/
  (~ (a <= i < a + Z.of_nat cnt) /\ nthz (fill cnt a v bound arr) i d = nthz arr i d).
Proof.
  intros Hi Hl.
  destruct (Z_le_dec a i) as [H1|H1]; [destruct (Z_lt_dec i (a + Z.of_nat cnt)) as [H2|H2]|].
  - left. split; [lia|]. apply fill_in; lia.
  - right. split; [lia|]. apply fill_other. lia.
  - right. split; [lia|]. apply fill_other. lia.
Qed.

(* ------------------------------------------------------------------ frame *)

Lemma scan_frame pm : forall k a b bound arr,
  length (snd (scan pm k a b bound arr)) = length arr /\
  forall i d, bound <= i -> nthz (snd (scan pm k a b bound arr)) i d = nthz arr i d.
Proof.
  induction pm as [|p pm IH]; intros k a b bound arr; cbn [scan].
  - cbn [snd]. split; [reflexivity|]. intros; reflexivity.
  - destruct (p >? a).
    + destruct (IH (k + 1) p k bound
                   (fill (Z.to_nat (p - a)) a (if b <? 0 then 0 else b) bound arr)) as [H1 H2].
      split.
      * rewrite H1. apply fill_length.
      * intros i d Hi. rewrite H2 by exact Hi. apply fill_other. lia.
    + apply IH.
Qed.

Lemma inverse_frame_l : forall pm n bound arr0 i,
  length (inverse_map pm n bound arr0) = length arr0 /\
  (bound <= i -> nthz (inverse_map pm n bound arr0) i (-1) = nthz arr0 i (-1)).
Proof.
  intros pm n bound arr0 i. unfold inverse_map.
  destruct (scan_frame (firstn n pm) 0 (-1) (-1) bound arr0) as [H1 H2].
  destruct (scan (firstn n pm) 0 (-1) (-1) bound arr0) as [[a b] arr]. cbn [snd] in H1, H2.
  split.
  - rewrite fill_length. exact H1.
  - intros Hi. rewrite fill_other by lia. apply H2. exact Hi.
Qed.

(* ------------------------------------------------------------------ direct map *)

Lemma direct_nth pm n bound k : 1 <= bound -> (k < length (firstn n pm))%nat ->
  nth k (direct_map pm n bound) 0 = clamp bound (nth k (firstn n pm) 0).
Proof.
  intros Hb Hk. unfold direct_map.
  rewrite (nth_indep _ 0 (clamp bound 0)) by (rewrite map_length; exact Hk).
  apply map_nth.
Qed.

Lemma direct_valid_l : forall pm n bound k, 1 <= bound -> (k < length (direct_map pm n bound))%nat ->
  0 <= nth k (direct_map pm n bound) 0 <= bound - 1.
Proof.
  intros pm n bound k Hb Hk.
  rewrite direct_nth; [apply clamp_range; exact Hb|exact Hb|].
  unfold direct_map in Hk. rewrite map_length in Hk. exact Hk.
Qed.

(* ------------------------------------------------------------------ the scan invariant *)

Section ScanInv.
  Variable bound : Z.
  Variable L : Z.
  Hypothesis Hb : 1 <= bound.
  Hypothesis HL : bound <= L.

  (* done = the entries processed so far (at least one); a = their maximum = value of the last
     record; b = index of the last record *)
  Definition SInv (done : list Z) (a b : Z) (arr : list Z) : Prop :=
    Z.of_nat (length arr) = L /\
    0 <= a /\
    0 <= b < Z.of_nat (length done) /\
    (forall i, 0 <= i < a -> i < bound -> 0 <= nthz arr i (-1) <= b) /\
    (forall i j, 0 <= i -> i <= j -> j < a -> j < bound -> nthz arr i (-1) <= nthz arr j (-1)) /\
    (forall j, (j < length done)%nat ->
       nth j done 0 <= a /\
       (clamp bound (nth j done 0) < a -> nthz arr (clamp bound (nth j done 0)) (-1) <= Z.of_nat j) /\
       (a <= clamp bound (nth j done 0) -> b <= Z.of_nat j)).

  Lemma sinv_step done a b arr p : SInv done a b arr ->
    if p >? a
    then SInv (done ++ [p]) p (Z.of_nat (length done))
              (fill (Z.to_nat (p - a)) a (if b <? 0 then 0 else b) bound arr)
    else SInv (done ++ [p]) a b arr.
  Proof.
    intros (Hlen & Ha & Hbk & Hval & Hmono & Hcons).
    destruct (p >? a) eqn:Ep.
    - assert (Hbv : (if b <? 0 then 0 else b) = b) by (destruct (b <? 0) eqn:E; lia).
      rewrite Hbv.
      set (arr' := fill (Z.to_nat (p - a)) a b bound arr).
      assert (Hspec : forall i, 0 <= i < bound ->
                (a <= i < p /\ nthz arr' i (-1) = b) \/
                (~ (a <= i < p) /\ nthz arr' i (-1) = nthz arr i (-1))).
      { intros i Hi.
        destruct (fill_spec (Z.to_nat (p - a)) a b bound arr i (-1) Hi) as [[H1 H2]|[H1 H2]];
          [lia| |]; [left|right]; (split; [lia|exact H2]). }
      unfold SInv. rewrite app_length. cbn [length].
      split; [unfold arr'; rewrite fill_length; exact Hlen|].
      split; [lia|]. split; [lia|].
      split; [|split].
      + intros i Hi1 Hi2.
        destruct (Hspec i) as [[H1 ->]|[H1 ->]]; [lia|lia|].
        specialize (Hval i). lia.
      + intros i j Hi Hij Hj1 Hj2.
        destruct (Hspec i) as [[H1 ->]|[H1 ->]]; [lia| |];
          (destruct (Hspec j) as [[H3 ->]|[H3 ->]]; [lia| |]).
        * lia.
        * lia.
        * specialize (Hval i). lia.
        * apply Hmono; lia.
      + intros j Hj.
        destruct (lt_dec j (length done)) as [Hjd|Hjd].
        * rewrite app_nth1 by exact Hjd.
          destruct (Hcons j Hjd) as (Hc1 & Hc2 & Hc3).
          pose proof (clamp_range bound (nth j done 0) Hb) as Hcr.
          pose proof (clamp_le bound (nth j done 0) a Hc1 Ha) as Hcl.
          set (c := clamp bound (nth j done 0)) in *.
          split; [lia|]. split.
          -- intros _. destruct (Hspec c) as [[H1 ->]|[H1 ->]]; [lia| |].
             ++ apply Hc3. lia.
             ++ apply Hc2. lia.
          -- intros Hpc. lia.
        * assert (Hje : j = length done) by lia. subst j.
          rewrite app_nth2 by lia. rewrite Nat.sub_diag. cbn [nth].
          pose proof (clamp_range bound p Hb) as Hcr.
          set (c := clamp bound p) in *.
          split; [lia|]. split.
          -- intros Hc. destruct (Hspec c) as [[H1 ->]|[H1 ->]]; [lia|lia|].
             specialize (Hval c). lia.
          -- lia.
    - unfold SInv. rewrite app_length. cbn [length].
      split; [exact Hlen|]. split; [lia|]. split; [lia|].
      split; [exact Hval|]. split; [exact Hmono|].
      intros j Hj.
      destruct (lt_dec j (length done)) as [Hjd|Hjd].
      + rewrite app_nth1 by exact Hjd. apply Hcons. exact Hjd.
      + assert (Hje : j = length done) by lia. subst j.
        rewrite app_nth2 by lia. rewrite Nat.sub_diag. cbn [nth].
        pose proof (clamp_range bound p Hb) as Hcr.
        set (c := clamp bound p) in *.
        split; [lia|]. split.
        * intros Hc. specialize (Hval c). lia.
        * lia.
  Qed.

  Lemma scan_sinv rest : forall done a b arr, SInv done a b arr ->
    let '(a', b', arr') := scan rest (Z.of_nat (length done)) a b bound arr in
    SInv (done ++ rest) a' b' arr'.
  Proof.
    induction rest as [|p rest IH]; intros done a b arr Hi; cbn [scan].
    - rewrite app_nil_r. exact Hi.
    - pose proof (sinv_step done a b arr p Hi) as Hs.
      change (p :: rest) with ([p] ++ rest). rewrite app_assoc.
      replace (Z.of_nat (length done) + 1) with (Z.of_nat (length (done ++ [p])))
        by (rewrite app_length; cbn [length]; lia).
      destruct (p >? a); apply IH; exact Hs.
  Qed.

  (* the first entry, p0 >= 0, is always a record *)
  Lemma sinv_first p0 arr0 : 0 <= p0 -> Z.of_nat (length arr0) = L ->
    SInv [p0] p0 0 (fill (Z.to_nat (p0 - -1)) (-1) 0 bound arr0).
  Proof.
    intros Hp Hl.
    set (arr' := fill (Z.to_nat (p0 - -1)) (-1) 0 bound arr0).
    assert (Hz : forall i, 0 <= i < p0 -> i < bound -> nthz arr' i (-1) = 0).
    { intros i Hi1 Hi2. apply fill_in; lia. }
    unfold SInv. cbn [length].
    split; [unfold arr'; rewrite fill_length; exact Hl|].
    split; [lia|]. split; [lia|]. split; [|split].
    - intros i Hi1 Hi2. rewrite Hz by lia. lia.
    - intros i j Hi Hij Hj1 Hj2. rewrite !Hz by lia. lia.
    - intros j Hj. assert (j = 0%nat) by lia. subst j. cbn [nth].
      pose proof (clamp_range bound p0 Hb) as Hcr.
      split; [lia|]. split.
      + intros Hc. rewrite Hz by lia. lia.
      + lia.
  Qed.
End ScanInv.

(* the result, characterised: a prefix below a holding the scan's values, then b *)
Lemma inverse_char pm n bound arr0 :
  ((1 <= n)%nat /\ (n <= length pm)%nat /\ 1 <= bound /\ 0 <= nth 0 pm 0 /\
   bound <= Z.of_nat (length arr0)) ->
  exists a b arr,
    SInv bound (Z.of_nat (length arr0)) (firstn n pm) a b arr /\
    forall i, 0 <= i < bound ->
      (i < a /\ nthz (inverse_map pm n bound arr0) i (-1) = nthz arr i (-1)) \/
      (a <= i /\ nthz (inverse_map pm n bound arr0) i (-1) = b).
Proof.
  intros (Hn & Hnl & Hb & Hp0 & HL).
  destruct pm as [|p0 pm']; [cbn [length] in Hnl; lia|].
  destruct n as [|n']; [lia|].
  cbn [nth] in Hp0.
  unfold inverse_map. rewrite firstn_cons. cbn [scan].
  assert (Ep : (p0 >? -1) = true) by lia. rewrite Ep.
  assert (Eb : (if -1 <? 0 then 0 else -1) = 0) by reflexivity. rewrite Eb.
  pose proof (sinv_first bound (Z.of_nat (length arr0)) Hb HL p0 arr0 Hp0 eq_refl) as H1.
  pose proof (scan_sinv bound (Z.of_nat (length arr0)) Hb HL (firstn n' pm') [p0] p0 0 _ H1) as H2.
  cbn [length] in H2. change (Z.of_nat 1) with (0 + 1) in H2.
  destruct (scan (firstn n' pm') (0 + 1) p0 0 bound
                 (fill (Z.to_nat (p0 - -1)) (-1) 0 bound arr0)) as [[a b] arr].
  cbn [app] in H2.
  exists a, b, arr. split; [exact H2|].
  destruct H2 as (Hlen & Ha & _).
  assert (Ea : (if a <? 0 then 0 else a) = a) by (destruct (a <? 0) eqn:E; lia).
  rewrite Ea.
  intros i Hi.
  destruct (fill_spec (Z.to_nat (bound - a)) a b bound arr i (-1) Hi) as [[H3 H4]|[H3 H4]];
    [lia| |].
  - right. split; [lia|exact H4].
  - left. split; [lia|exact H4].
Qed.

Lemma inverse_valid_l : forall pm n bound arr0 i,
  ((1 <= n)%nat /\ (n <= length pm)%nat /\ 1 <= bound /\ 0 <= nth 0 pm 0 /\
   bound <= Z.of_nat (length arr0)) ->
  0 <= i < bound ->
  0 <= nthz (inverse_map pm n bound arr0) i (-1) <= Z.of_nat n - 1.
Proof.
  intros pm n bound arr0 i HH Hi.
  destruct (inverse_char pm n bound arr0 HH) as (a & b & arr & Hinv & Hres).
  destruct HH as (Hn & Hnl & Hb & Hp0 & HL).
  destruct Hinv as (Hlen & Ha & Hbk & Hval & Hmono & Hcons).
  rewrite firstn_length_le in Hbk by exact Hnl.
  destruct (Hres i Hi) as [[H1 ->]|[H1 ->]]; [|lia].
  specialize (Hval i). lia.
Qed.

Lemma inverse_monotone_l : forall pm n bound arr0 i j,
  ((1 <= n)%nat /\ (n <= length pm)%nat /\ 1 <= bound /\ 0 <= nth 0 pm 0 /\
   bound <= Z.of_nat (length arr0)) ->
  0 <= i -> i <= j -> j < bound ->
  nthz (inverse_map pm n bound arr0) i (-1) <= nthz (inverse_map pm n bound arr0) j (-1).
Proof.
  intros pm n bound arr0 i j HH Hi Hij Hj.
  destruct (inverse_char pm n bound arr0 HH) as (a & b & arr & Hinv & Hres).
  destruct Hinv as (Hlen & Ha & Hbk & Hval & Hmono & Hcons).
  destruct (Hres i) as [[H1 ->]|[H1 ->]]; [lia| |];
    (destruct (Hres j) as [[H3 ->]|[H3 ->]]; [lia| |]).
  - apply Hmono; lia.
  - specialize (Hval i). lia.
  - lia.
  - lia.
Qed.

Lemma maps_consistent_l : forall pm n bound arr0 k,
  ((1 <= n)%nat /\ (n <= length pm)%nat /\ 1 <= bound /\ 0 <= nth 0 pm 0 /\
   bound <= Z.of_nat (length arr0)) ->
  (k < n)%nat ->
  nthz (inverse_map pm n bound arr0) (nth k (direct_map pm n bound) 0) (-1) <= Z.of_nat k.
Proof.
  intros pm n bound arr0 k HH Hk.
  destruct (inverse_char pm n bound arr0 HH) as (a & b & arr & Hinv & Hres).
  destruct HH as (Hn & Hnl & Hb & Hp0 & HL).
  destruct Hinv as (Hlen & Ha & Hbk & Hval & Hmono & Hcons).
  assert (Hkl : (k < length (firstn n pm))%nat) by (rewrite firstn_length_le; lia).
  rewrite direct_nth by assumption.
  destruct (Hcons k Hkl) as (Hc1 & Hc2 & Hc3).
  pose proof (clamp_range bound (nth k (firstn n pm) 0) Hb) as Hcr.
  set (c := clamp bound (nth k (firstn n pm) 0)) in *.
  destruct (Hres c) as [[H1 ->]|[H1 ->]]; [lia| |].
  - apply Hc2. exact H1.
  - apply Hc3. exact H1.
Qed.

(* ------------------------------------------------------------------ the counterexample *)

Lemma refuted_neg_l :
  exists pm n bound arr0 k, (k < n)%nat /\
    nthz (inverse_map pm n bound arr0) (nth k (direct_map pm n bound) 0) (-1) > Z.of_nat k.
Proof.
  exists [-1; 0], 2%nat, 1, [-1], 0%nat. split; [lia|]. vm_compute. reflexivity.
Qed.

(* ------------------------------------------------------------------ identity maps *)

Lemma firstn_app_len (l1 l2 : list Z) n : length l1 = n -> firstn n (l1 ++ l2) = l1.
Proof.
  intros <-. induction l1 as [|x l1 IH]; cbn [length app firstn]; [reflexivity|].
  rewrite IH. reflexivity.
Qed.

Lemma nth_firstn_lt (l : list Z) : forall n i d, (i < n)%nat -> nth i (firstn n l) d = nth i l d.
Proof.
  induction l as [|x l IH]; intros [|n] [|i] d Hi; cbn [firstn nth]; try reflexivity; try lia.
  apply IH. lia.
Qed.

Lemma id_scan bound m : forall (k : nat) kz a b arr,
  kz = Z.of_nat k -> 1 <= kz -> a = kz - 1 -> b = kz - 1 ->
  kz + Z.of_nat m <= bound -> bound <= Z.of_nat (length arr) ->
  exists a' b' arr', scan (map Z.of_nat (seq k m)) kz a b bound arr = (a', b', arr') /\
    a' = kz + Z.of_nat m - 1 /\ b' = a' /\ length arr' = length arr /\
    forall i, 0 <= i < bound ->
      nthz arr' i (-1) = if (kz - 1 <=? i) && (i <? kz + Z.of_nat m - 1) then i else nthz arr i (-1).
Proof.
  induction m as [|m IH]; intros k kz a b arr Hk Hk1 Ha Hb Hkm HL.
  - exists a, b, arr. cbn [seq map scan]. split; [reflexivity|].
    split; [lia|]. split; [lia|]. split; [reflexivity|].
    intros i Hi. destruct ((kz - 1 <=? i) && (i <? kz + Z.of_nat 0 - 1)) eqn:E; [lia|reflexivity].
  - cbn [seq map scan]. rewrite <- Hk.
    assert (Ep : (kz >? a) = true) by lia. rewrite Ep.
    set (arr1 := fill (Z.to_nat (kz - a)) a (if b <? 0 then 0 else b) bound arr).
    assert (Hl1 : length arr1 = length arr) by (unfold arr1; apply fill_length).
    destruct (IH (S k) (kz + 1) kz kz arr1) as (a' & b' & arr' & Hs & Ha' & Hb' & Hl' & Hv);
      try lia.
    exists a', b', arr'. split; [exact Hs|]. split; [lia|]. split; [exact Hb'|].
    split; [lia|].
    intros i Hi. rewrite Hv by exact Hi.
    assert (Hbv : (if b <? 0 then 0 else b) = b) by (destruct (b <? 0) eqn:E; lia).
    destruct (fill_spec (Z.to_nat (kz - a)) a (if b <? 0 then 0 else b) bound arr i (-1) Hi)
      as [[H1 H2]|[H1 H2]]; [lia| |]; fold arr1 in H2; rewrite H2.
    + destruct ((kz + 1 - 1 <=? i) && (i <? kz + 1 + Z.of_nat m - 1)) eqn:E1;
        destruct ((kz - 1 <=? i) && (i <? kz + Z.of_nat (S m) - 1)) eqn:E2; lia.
    + destruct ((kz + 1 - 1 <=? i) && (i <? kz + 1 + Z.of_nat m - 1)) eqn:E1;
        destruct ((kz - 1 <=? i) && (i <? kz + Z.of_nat (S m) - 1)) eqn:E2; try lia; reflexivity.
Qed.

Lemma identity_maps_l : forall n arr0, (1 <= n)%nat -> Z.of_nat n <= Z.of_nat (length arr0) ->
  let pm := map Z.of_nat (seq 0 n) ++ [Z.of_nat n] in
  direct_map pm n (Z.of_nat n) = map Z.of_nat (seq 0 n) /\
  firstn n (inverse_map pm n (Z.of_nat n) arr0) = map Z.of_nat (seq 0 n).
Proof.
  intros n arr0 Hn HL pm. subst pm.
  assert (Hlen : length (map Z.of_nat (seq 0 n)) = n) by (rewrite map_length, seq_length; reflexivity).
  split.
  - unfold direct_map. rewrite firstn_app_len by exact Hlen.
    rewrite map_map.
    apply map_ext_in. intros x Hx. apply in_seq in Hx. apply clamp_id. lia.
  - unfold inverse_map. rewrite firstn_app_len by exact Hlen.
    destruct n as [|n']; [lia|].
    remember (Z.of_nat (S n')) as N eqn:HN.
    assert (Hscan : exists a' b' arr',
              scan (map Z.of_nat (seq 0 (S n'))) 0 (-1) (-1) N arr0 = (a', b', arr') /\
              a' = Z.of_nat n' /\ b' = a' /\ length arr' = length arr0 /\
              forall i, 0 <= i < a' -> nthz arr' i (-1) = i).
    { cbn [seq map scan]. change (Z.of_nat 0) with 0.
      assert (E0 : (0 >? -1) = true) by reflexivity. rewrite E0.
      set (arr1 := fill (Z.to_nat (0 - -1)) (-1) (if -1 <? 0 then 0 else -1) N arr0).
      assert (Hl1 : length arr1 = length arr0) by (unfold arr1; apply fill_length).
      destruct (id_scan N n' 1 (0 + 1) 0 0 arr1) as (a' & b' & arr' & Hs & Ha' & Hb' & Hl' & Hv);
        try lia.
      exists a', b', arr'. split; [exact Hs|]. split; [lia|]. split; [exact Hb'|].
      split; [lia|].
      intros i Hi. rewrite Hv by lia.
      destruct ((0 + 1 - 1 <=? i) && (i <? 0 + 1 + Z.of_nat n' - 1)) eqn:E; lia. }
    destruct Hscan as (a' & b' & arr' & Hs & Ha' & Hb' & Hl' & Hv).
    rewrite Hs.
    assert (Ea : (if a' <? 0 then 0 else a') = a') by (destruct (a' <? 0) eqn:E; lia).
    rewrite Ea.
    apply (nth_ext _ _ (-1) (-1)).
    + rewrite Hlen, firstn_length, fill_length. lia.
    + intros i Hi.
      assert (Hi' : (i < S n')%nat).
      { rewrite firstn_length in Hi. lia. }
      rewrite nth_firstn_lt by exact Hi'.
      rewrite (nth_indep (map Z.of_nat (seq 0 (S n'))) (-1) (Z.of_nat 0)) by (rewrite Hlen; exact Hi').
      rewrite map_nth, seq_nth by exact Hi'.
      assert (Hz : forall l, nth i l (-1) = nthz l (Z.of_nat i) (-1)).
      { intros l. unfold nthz. destruct (Z.of_nat i <? 0) eqn:E; [lia|].
        rewrite Nat2Z.id. reflexivity. }
      rewrite Hz.
      assert (Hib : 0 <= Z.of_nat i < N) by lia.
      destruct (fill_spec (Z.to_nat (N - a')) a' b' N arr' (Z.of_nat i) (-1) Hib)
        as [[H1 H2]|[H1 H2]]; [lia| |]; rewrite H2.
      * lia.
      * rewrite Hv by lia. lia.
Qed.

(* ------------------------------------------------------------------ layer B: the engine's map *)

From Lou Require Import Gen.GConst Model.Table Model.Ref Model.Compile Model.Engine.
From Lou Require Proofs.FinishEngine.

Lemma engine_map_ok_l : forall t mode inp cap consumed cells pm trace,
  0 <= cap -> translate_ref t mode inp cap = TOk consumed cells pm trace ->
  Forall (fun x => 0 <= x < len inp) pm /\
  (forall i j, (i <= j)%nat -> (j < length pm)%nat -> nth i pm 0 <= nth j pm 0).
Proof.
  intros t mode inp cap consumed cells pm trace _ Hr.
  pose proof (FinishEngine.run_pm_ok t (select_ref t mode) inp cap) as Hok.
  unfold translate_ref in Hr. rewrite Hr in Hok. exact Hok.
Qed.
