(* C09 — dotsIO, ucBrl and the display table only re-encode cells.  Statements only; every
   definition mentioned is REGENERATED from the finishing/decoding statements of the C source. *)
From Coq Require Import List ZArith Bool String.
From Lou Require Import Gen.GConst Gen.GFinish Proofs.EncodeProofs.
Import ListNotations.
Local Open Scope Z_scope.

(* ucBrl output = the low eight dots of the cell placed in the Unicode braille block *)
Theorem ucbrl_is_low8_in_unicode_block : forall c, 0 <= c < 65536 -> out_ucbrl c = LOU_ROW_BRAILLE + c mod 256.
Proof. exact ucbrl_low8_l. Qed.
Print Assumptions ucbrl_is_low8_in_unicode_block.

Theorem dotsIO_output_is_the_cell : forall c, out_dots c = c.
Proof. exact dots_raw_l. Qed.

(* the typeform array holds '8' exactly at cells with dot 7 or 8, '0' elsewhere *)
Theorem typeform_mark_iff_dot7_or_8 : forall c, 0 <= c < 65536 ->
  typeform_has_dot78 c = (Z.testbit c 6 || Z.testbit c 7).
Proof. exact typeform_iff_l. Qed.
Theorem typeform_marks : typeform_mark_set = 56 /\ typeform_mark_clear = 48.
Proof. exact marks_l. Qed.

(* lou_dotsToChar accepts a Unicode-braille cell in place of the flagged pattern *)
Theorem dotsToChar_accepts_unicode : forall low, 0 <= low < 256 ->
  d2c_is_unicode (LOU_ROW_BRAILLE + low) = true /\ d2c_from_unicode (LOU_ROW_BRAILLE + low) = LOU_DOTS + low.
Proof. exact d2c_unicode_l. Qed.

(* ... and so does back-translation in dotsIO mode *)
Theorem backTranslate_accepts_unicode : forall low, 0 <= low < 256 ->
  back_decode_dots (LOU_ROW_BRAILLE + low) = LOU_DOTS + low /\ back_decode_dots (LOU_DOTS + low) = LOU_DOTS + low.
Proof. exact back_unicode_l. Qed.
Print Assumptions backTranslate_accepts_unicode.

(* the two encoding bits are tested only in the finishing / decoding functions: the engine
   proper cannot depend on them *)
Theorem encoding_bits_only_in_finishing_code :
  forallb (fun site => let '(_, fn, mask) := site in
             negb (mentions_encoding_bit mask) || existsb (String.eqb fn) encoding_functions) mode_tests = true.
Proof. exact mode_tests_ok_l. Qed.
Print Assumptions encoding_bits_only_in_finishing_code.

Theorem finishing_code_shape :
  out_default_is_display_lookup = true /\ unmapped_cell_logs_error_and_returns_0 = true /\
  back_decode_default_is_display_lookup = true /\ c2d_ucbrl_is_low8_in_row = true.
Proof. exact shape_l. Qed.
