(* The pattern-matching semantics of a hyphenation dictionary, written directly over the
   list of pattern tokens (no automaton): the reference of C17. *)
From Coq Require Import List NArith ZArith Bool.
From Lou Require Import Model.Hyph.
Import ListNotations.
Local Open Scope N_scope.

Definition entries (d : list (list char)) : list (list char * list N) := map split_token d.

Fixpoint eqb_chars (a b : list char) : bool :=
  match a, b with
  | [], [] => true
  | x :: a', y :: b' => (x =? y) && eqb_chars a' b'
  | _, _ => false
  end.

(* s is a prefix of w *)
Fixpoint prefixb (s w : list char) : bool :=
  match s, w with
  | [], _ => true
  | x :: s', y :: w' => (x =? y) && prefixb s' w'
  | _ :: _, [] => false
  end.

(* s (non-empty) is a prefix of the word of some dictionary pattern *)
Definition is_pat_prefix (d : list (list char)) (s : list char) : bool :=
  existsb (fun e => prefixb s (fst e)) (entries d).

(* the digit string of the pattern whose word is s; when a word occurs more than once the
   last occurrence counts (the compiler overwrites) *)
Definition pat_of (d : list (list char)) (s : list char) : option (list N) :=
  fold_left (fun acc e => if eqb_chars s (fst e) then Some (snd e) else acc) (entries d) None.

(* non-empty suffixes, longest first *)
Fixpoint suffixes (l : list char) : list (list char) :=
  match l with
  | [] => []
  | _ :: t => l :: suffixes t
  end.

(* raise hyphens[off + m] to digit m of p, for indices inside [0, n) *)
Fixpoint apply_digits (h : list N) (off : Z) (p : list N) (n : Z) : list N :=
  match p with
  | [] => h
  | v :: p' =>
      apply_digits (if ((0 <=? off) && (off <? n))%Z then bump h (Z.to_nat off) v else h)
                   (off + 1)%Z p' n
  end.

(* contribution after reading text[0..i] *)
Definition contrib (d : list (list char)) (n : Z) (txt : list char) (h : list N) (i : nat) : list N :=
  match find (is_pat_prefix d) (suffixes (firstn (S i) txt)) with
  | Some s =>
      match pat_of d s with
      | Some p => apply_digits h (Z.of_nat i - Z.of_nat (length s))%Z p n
      | None => h
      end
  | None => h
  end.

(* digits per letter of an (already lower-cased) word *)
Definition Hyph_spec (d : list (list char)) (w : list char) : list N :=
  let txt := dot :: w ++ [dot] in
  fold_left (contrib d (Z.of_nat (length w)) txt) (seq 0 (length txt)) (repeat 0 (length w)).
