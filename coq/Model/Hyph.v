(* M1 — hyphenation: dictionary compilation (compileHyphenation), automaton walk
   (hyphenateWord) and the wrapper (lou_hyphenate, text mode).  Executable, no proofs.

   Characters are N.  A dictionary is the list of its pattern tokens in file order
   (comment and empty tokens removed by the reader, see Model/Reader.v / tools).      *)
From Coq Require Import List NArith ZArith Bool.
Import ListNotations.
Local Open Scope N_scope.

Definition char := N.

(* ---------------------------------------------------------------- pattern tokens *)

Definition is_digit (c : char) : bool := (48 <=? c) && (c <=? 57).

(* compileHyphenation: j = 0; pattern[0] = '0'; for each character: a digit overwrites
   pattern[j]; any other character is appended to the word and pattern[++j] = '0'.
   We keep digits as values 0..9.  [cur] is pattern[j], [rpat] the earlier digits reversed. *)
Fixpoint split_token_aux (s : list char) (rword : list char) (rpat : list N) (cur : N)
  : list char * list N :=
  match s with
  | [] => (rev rword, rev (cur :: rpat))
  | c :: s' =>
      if is_digit c then split_token_aux s' rword rpat (c - 48)
      else split_token_aux s' (c :: rword) (cur :: rpat) 0
  end.

Definition split_token (s : list char) : list char * list N := split_token_aux s [] [] 0.

(* the stored pattern string: digits from the first non-'0' one *)
Fixpoint strip0 (p : list N) : list N :=
  match p with
  | 0 :: p' => strip0 p'
  | _ => p
  end.

(* ---------------------------------------------------------------- the state set: a trie *)

(* first-child / next-sibling trie: [Edge c pat down next] is an edge labelled c to a
   node carrying [pat] (stored pattern, if the word ending here is a dictionary word)
   with children [down]; [next] are the other edges of the same parent.               *)
Inductive trie : Type :=
| Nil : trie
| Edge : char -> option (list N) -> trie -> trie -> trie.

Fixpoint t_find (t : trie) (c : char) : option (option (list N) * trie) :=
  match t with
  | Nil => None
  | Edge c' p d n => if c =? c' then Some (p, d) else t_find n c
  end.

(* Some p = the string is a state (p its pattern, if any); None = not a state.  The
   empty string (root) is handled by the callers. *)
Fixpoint t_lookup (t : trie) (s : list char) : option (option (list N)) :=
  match s with
  | [] => None
  | c :: rest =>
      match t_find t c with
      | None => None
      | Some (p, d) => match rest with [] => Some p | _ => t_lookup d rest end
      end
  end.

(* set the pattern of word s (creating the states of all its prefixes); a word seen
   again overwrites the pattern (C: memcpy into a fresh allocation, offset replaced)  *)
Fixpoint t_insert (s : list char) (p : list N) (t : trie) {struct s} : trie :=
  match s with
  | [] => t
  | c :: rest =>
      (fix ins (t : trie) : trie :=
         match t with
         | Nil => Edge c (match rest with [] => Some p | _ => None end) (t_insert rest p Nil) Nil
         | Edge c' p' d n =>
             if c =? c' then
               Edge c' (match rest with [] => Some p | _ => p' end) (t_insert rest p d) n
             else Edge c' p' d (ins n)
         end) t
  end.

Definition add_token (t : trie) (tok : list char) : trie :=
  let '(w, p) := split_token tok in t_insert w (strip0 p) t.

Definition build (d : list (list char)) : trie := fold_left add_token d Nil.

(* is the (possibly empty) string a state, and its pattern *)
Definition state_of (t : trie) (s : list char) : option (option (list N)) :=
  match s with [] => Some None | _ => t_lookup t s end.

Definition is_state (t : trie) (s : list char) : bool :=
  match state_of t s with Some _ => true | None => false end.

(* compileHyphenation, "put in the fallback states": for j = 1 .. length, the first j
   such that key[j..] is a state (the empty suffix is the root). *)
Fixpoint fallback (t : trie) (s : list char) : list char :=
  match s with
  | [] => []
  | _ :: s' => if is_state t s' then s' else fallback t s'
  end.

(* ---------------------------------------------------------------- the walk *)

(* one letter: follow transitions, falling back until one exists; [None] = the 0xffff
   sentinel was reached (C: stateNum = 0; goto nextLetter, no pattern applied).        *)
Fixpoint next_state (fuel : nat) (t : trie) (st : list char) (ch : char) : option (list char) :=
  match fuel with
  | O => None
  | S f =>
      if is_state t (st ++ [ch]) then Some (st ++ [ch])
      else match st with
           | [] => None
           | _ => next_state f t (fallback t st) ch
           end
  end.

(* hyphens[idx] = max(hyphens[idx], v) for 0 <= idx < length *)
Fixpoint bump (h : list N) (idx : nat) (v : N) : list N :=
  match h, idx with
  | [], _ => []
  | x :: h', O => (if x <? v then v else x) :: h'
  | x :: h', S i => x :: bump h' i v
  end.

(* apply a stored pattern at prepWord index i: patternOffset = i + 1 - strlen(pat);
   limit = min(strlen, wordSize - patternOffset); the low end is NOT clamped in the C
   code: an index < 0 is reported as out-of-bounds ([oob] = true) and skipped here.   *)
Fixpoint apply_pat (h : list N) (off : Z) (pat : list N) (wordSize : Z) (oob : bool)
  : list N * bool :=
  match pat with
  | [] => (h, oob)
  | v :: pat' =>
      if (off <? wordSize)%Z then
        if (off <? 0)%Z then apply_pat h (off + 1)%Z pat' wordSize true
        else apply_pat (bump h (Z.to_nat off) v) (off + 1)%Z pat' wordSize oob
      else (h, oob)
  end.

Fixpoint walk_aux (t : trie) (text : list char) (i : Z) (st : list char) (wordSize : Z)
         (h : list N) (oob : bool) : list N * bool :=
  match text with
  | [] => (h, oob)
  | ch :: text' =>
      match next_state (S (S (length st))) t st ch with
      | None => walk_aux t text' (i + 1)%Z [] wordSize h oob
      | Some st' =>
          let '(h', oob') :=
            match state_of t st' with
            | Some (Some pat) =>
                apply_pat h (i + 1 - Z.of_nat (length pat))%Z pat wordSize oob
            | _ => (h, oob)
            end in
          walk_aux t text' (i + 1)%Z st' wordSize h' oob'
      end
  end.

Definition dot : char := 46.

(* hyphenateWord on an already lower-cased word: digits 0..9 per letter *)
Definition walk (t : trie) (w : list char) : list N * bool :=
  walk_aux t (dot :: w ++ [dot]) 0%Z [] (Z.of_nat (length w)) (repeat 0 (length w)) false.

(* ---------------------------------------------------------------- lou_hyphenate, text mode *)

Section Wrapper.
  Variable is_letter : char -> bool.     (* CTC_Letter attribute of the table *)
  Variable lower : char -> char.         (* toLowercase of the table *)
  Variable is_hyphen : char -> bool.     (* isHyphen of the table *)
  Variable t : trie.

  (* split off the maximal run of letters *)
  Fixpoint span_letters (s : list char) : list char * list char :=
    match s with
    | [] => ([], [])
    | c :: s' => if is_letter c then let '(a, b) := span_letters s' in (c :: a, b) else ([], s)
    end.

  Definition norm (v : N) : N := if N.odd v then 49 else 48.

  (* output characters for one word: first position '0' or '2', others by parity *)
  Definition word_marks (prev2 prev1 : option char) (w : list char) : list N * bool :=
    let '(h, oob) := walk t (map lower w) in
    let first :=
      match prev2, prev1 with
      | Some p2, Some p1 => if is_hyphen p1 && is_letter p2 then 50 else 48
      | _, _ => 48
      end in
    (match h with [] => [] | _ :: h' => first :: map norm h' end, oob).

  (* fuel = length of the text; each round consumes at least one character *)
  Fixpoint hyph_text (fuel : nat) (prev2 prev1 : option char) (s : list char) : list N * bool :=
    match fuel with
    | O => ([], false)
    | S f =>
        match s with
        | [] => ([], false)
        | c :: s' =>
            if is_letter c then
              let '(w, rest) := span_letters s in
              let '(m, oob) := word_marks prev2 prev1 w in
              let '(m', oob') := hyph_text f prev1 (Some (last w c)) rest in
              (m ++ m', oob || oob')
            else
              let '(m', oob') := hyph_text f prev1 (Some c) s' in
              (48 :: m', oob')
        end
    end.

  Definition HYPHSTRING : nat := 100.

  (* result of lou_hyphenate(table, s, |s|, hyphens, 0) once the table is known to have a
     dictionary: None = returns 0; Some (marks, oob) = returns 1 with hyphens = marks ++ [NUL] *)
  Definition hyphenate (s : list char) : option (list N * bool) :=
    if Nat.leb HYPHSTRING (length s) then None
    else Some (hyph_text (length s) None None s).
End Wrapper.
