(* C17 — hyphenation equals the pattern-matching semantics of its dictionary.
   Only statements, `exact`, Print Assumptions and non-vacuity examples live here. *)
From Coq Require Import List NArith ZArith Bool.
From Lou Require Import Model.Hyph Model.HyphSpec Proofs.HyphProofs.
Import ListNotations.
Local Open Scope N_scope.

(* The automaton built from ANY dictionary (any list of tokens), walked over ANY word, raises
   exactly the digits the declarative pattern semantics prescribes. *)
Theorem hyph_refines :
  forall (d : list (list char)) (w : list char), fst (walk (build d) w) = Hyph_spec d w.
Proof. exact HyphProofs.walk_build_spec. Qed.
Print Assumptions hyph_refines.
