"""G10: scoring weights and comparison directions of metadata.c."""
import re
import cparse
from g_common import *
from g_log import show_stmt

NAME = "GMeta"


def generate(repo):
    src = source(repo, "metadata.c")
    _, body = func(repo, "metadata.c", "matchFeatureLists")
    consts = {}
    for st in body:
        if st[0] == "decl" and "static const int" in st[1] or (st[0] == "decl" and st[1].endswith("const int")):
            for name, dims, init in st[2]:
                consts[name] = eval_const(init, consts)
    need = ["POS_MATCH", "NEG_MATCH", "UNDEFINED", "EXTRA"]
    for n in need:
        if n not in consts:
            raise cparse.ParseError("weight %s not found" % n)
    out = [HEADER]
    for n in need:
        out.append("Definition W_%s : Z := %s.\n" % (n, "%d" % consts[n] if consts[n] >= 0 else "(%d)" % consts[n]))
    txt = " ".join(show_stmt(s) for s in body)
    # the non-fuzzy branch assigns the plain weights
    ok = "if (!fuzzy) { posMatch = POS_MATCH; negMatch = NEG_MATCH; undefined = UNDEFINED; extra = EXTRA; }" in txt
    out.append("Definition nonfuzzy_uses_plain_weights : bool := %s.\n" % ("true" if ok else "false"))
    ok = "if ((strcasecmp(v1, v) == 0)) best = posMatch;" in txt and "int best = negMatch;" in txt.replace("decl int best=negMatch;", "int best = negMatch;")
    out.append("Definition same_value_scores_pos_else_neg : bool := %s.\n" % ("true" if ok else "false"))
    ur = 'if (((strcasecmp(v1, "ucs4") == 0) && (strcasecmp(v, "ucs2") == 0))) { best = posMatch; best--; }' in txt
    out.append("Definition ucs2_table_matches_ucs4_query_minus_one : bool := %s.\n" % ("true" if ur else "false"))
    # language tags: matchLanguageTags and the language branch of matchFeatureLists
    ltxt = txt
    _, lbody = func(repo, "metadata.c", "matchLanguageTags")
    lconsts = {}
    for st in lbody:
        if st[0] == "decl" and "const int" in st[1]:
            for name, dims, init in st[2]:
                lconsts[name] = eval_const(init, lconsts)
    for n in ("POS_MATCH", "EXTRA"):
        if n not in lconsts:
            raise cparse.ParseError("language weight %s not found" % n)
        out.append("Definition L_%s : Z := %s.\n" % (n, "%d" % lconsts[n] if lconsts[n] >= 0 else "(%d)" % lconsts[n]))
    mt = " ".join(show_stmt(s) for s in lbody)
    head = "decl int q=POS_MATCH; if ((*range->head == 42)) q += EXTRA; else if ((strcasecmp(tag->head, range->head) != 0)) return 0; range = range->tail; tag = tag->tail;"
    walk = ("while (range) { if (!tag) return 0; if ((strcasecmp(tag->head, range->head) == 0)) { range = range->tail; tag = tag->tail; continue; } "
            "else if ((strlen(tag->head) == 1)) return 0; else q += EXTRA; tag = tag->tail; } while (tag) { q += EXTRA; tag = tag->tail; } return q;")
    out.append("(* matchLanguageTags: a wildcard head of the range costs EXTRA, other heads must be equal *)\n")
    out.append("Definition lang_head_is_reference : bool := %s.\n" % ("true" if head in mt else "false"))
    out.append("(* ... then the two loops: equal subtags advance both, a one-character subtag of the tag stops, others cost EXTRA *)\n")
    out.append("Definition lang_walk_is_reference : bool := %s.\n" % ("true" if mt.endswith(walk) else "false"))
    m = re.search(r"decl int q=matchLanguageTags\(v1, v\); if \((.*?)\) best = q; else if \((.*?)\) extraLanguages \+= extra;", ltxt)
    if not m:
        raise cparse.ParseError("language branch of matchFeatureLists")
    pr = cparse.ToZ({"q": "q", "best": "best"})
    out.append("Definition src_lang_keeps (q best : Z) : bool := %s.\n" % pr.b(cparse.parse_expr(m.group(1))))
    out.append("Definition src_lang_counts_extra (q : Z) : bool := %s.\n" % pr.b(cparse.parse_expr(m.group(2))))
    m = re.search(r"if \(\((best [<>=!]+ -?\d+)\)\) best \+= (\(.*?\)); \} else \{ while", ltxt)
    if not m:
        raise cparse.ParseError("language penalty")
    pr = cparse.ToZ({"best": "best", "extraLanguages": "e"})
    out.append("Definition src_lang_penalty_applies (best : Z) : bool := %s.\n" % pr.b(cparse.parse_expr(m.group(1))))
    out.append("Definition src_lang_penalty (e : Z) : Z := %s.\n" % pr.z(cparse.parse_expr(m.group(2))))
    out.append("Definition lang_branch_tests_every_entry : bool := %s.\n" % ("true" if "decl int extraLanguages=0; while (1) { decl List * v=l->head->val; decl List * v1=l1->head->val; decl int q=matchLanguageTags(v1, v);" in ltxt else "false"))
    # lou_findTable
    _, body = func(repo, "metadata.c", "lou_findTable")
    txt = " ".join(show_stmt(s) for s in body)
    m = re.search(r"decl int bestQuotient=(-?\d+);", txt)
    if not m:
        raise cparse.ParseError("bestQuotient init")
    out.append("Definition find_initial_best : Z := %s.\n" % m.group(1))
    m = re.search(r"if \(\((q [<>=!]+ bestQuotient)\)\) \{ bestQuotient = q;", txt)
    if not m:
        raise cparse.ParseError("findTable comparison")
    pr = cparse.ToZ({"q": "q", "bestQuotient": "best"})
    out.append("Definition find_better (q best : Z) : bool := %s.\n" % pr.b(cparse.parse_expr(m.group(1))))
    if "matchFeatureLists(queryFeatures, table->features, 0)" not in txt:
        raise cparse.ParseError("findTable scoring call")
    # lou_findTables
    _, body = func(repo, "metadata.c", "lou_findTables")
    txt = " ".join(show_stmt(s) for s in body)
    m = re.search(r"if \(\((quotient [<>=!]+ -?\d+)\)\) \{", txt)
    if not m:
        raise cparse.ParseError("findTables threshold")
    pr = cparse.ToZ({"quotient": "q"})
    out.append("Definition tables_keep (q : Z) : bool := %s.\n" % pr.b(cparse.parse_expr(m.group(1))))
    _, body = func(repo, "metadata.c", "cmpMatches")
    txt = " ".join(show_stmt(s) for s in body)
    m = re.match(r"if \(\((m1->matchQuotient [<>=!]+ m2->matchQuotient)\)\) return -1; else return 1;", txt)
    if not m:
        raise cparse.ParseError("cmpMatches: " + txt)
    pr = cparse.ToZ({"m1->matchQuotient": "existing", "m2->matchQuotient": "new"})
    out.append("(* list_conj walks past an existing element while cmp(existing, new) < 0 *)\n")
    out.append("Definition match_stays_before (existing new : Z) : bool := %s.\n" % pr.b(cparse.parse_expr(m.group(1))))
    # lou_getTableInfo: first occurrence by line number
    _, body = func(repo, "metadata.c", "lou_getTableInfo")
    txt = " ".join(show_stmt(s) for s in body)
    m = re.search(r"if \(\(\(lineNumber < 0\) \|\| \((lineNumber [<>=!]+ f->lineNumber)\)\)\)", txt)
    if not m:
        raise cparse.ParseError("getTableInfo")
    pr = cparse.ToZ({"lineNumber": "cur", "f->lineNumber": "line"})
    out.append("Definition info_replaces (cur line : Z) : bool := (cur <? 0) || %s.\n" % pr.b(cparse.parse_expr(m.group(1))))
    # index is built by prepending
    _, body = func(repo, "metadata.c", "lou_indexTables")
    txt = " ".join(show_stmt(s) for s in body)
    out.append("Definition index_prepends : bool := %s.\n" % ("true" if "tableIndex = list_conj(tableIndex, memcpy(malloc(sizeof(m)), &m, sizeof(m)), NULL, NULL, free);" in txt else "false"))
    return "".join(out)
