/* H9: table name resolution on real directory arrangements.
 *  P <list> | <base or ->     _lou_resolveTable(list, base): prints "P path|path.." or "P FAIL"
 *  A <list>                   lou_free(); translate "a" in dotsIO mode: prints "A <cell>" or "A FAIL errors=<0|1>"
 *  A+ <list>                  same without the lou_free()
 *  E <list>                   lou_free(); lou_getEmphClasses(list) compiles the translation part alone: prints "E <0|1>"
 */
#include "tbl.h"
int
main(void) {
	lou_registerLogCallback(h_quietlog);
	while (fgets(h_line, H_LINE, stdin)) {
		size_t L = strlen(h_line);
		while (L && (h_line[L - 1] == '\n' || h_line[L - 1] == '\r')) h_line[--L] = 0;
		if (h_line[0] == 'P') {
			char *bar = strchr(h_line, '|');
			char *list = h_line + 2, *base = NULL;
			char **r;
			if (bar) {
				char *e = bar;
				while (e > list && e[-1] == ' ') e--;
				*e = 0;
				base = bar + 1;
				while (*base == ' ') base++;
				if (!strcmp(base, "-")) base = NULL;
			}
			r = _lou_resolveTable(list, base);
			if (!r)
				printf("P FAIL\n");
			else {
				int k;
				printf("P ");
				for (k = 0; r[k]; k++) {
					printf("%s%s", k ? "|" : "", r[k]);
					free(r[k]);
				}
				free(r);
				printf("\n");
			}
		} else if (h_line[0] == 'E') { /* E <list>: lou_free(); compile the translation part only (lou_getEmphClasses) */
			char const **cl;
			lou_free();
			cl = lou_getEmphClasses(h_line + 2);
			printf("E %d\n", cl != NULL);
			if (cl) free((void *)cl);
		} else if (h_line[0] == 'A') {
			widechar in[2] = { 'a', 0 }, out[8];
			int il = 1, ol = 8;
			int e0 = h_logcount[4];
			if (h_line[1] != '+') lou_free();
			if (lou_translateString(h_line + (h_line[1] == '+' ? 3 : 2), in, &il, out, &ol, NULL, NULL, dotsIO) && ol >= 1)
				printf("A %d\n", out[0] & 0xff);
			else
				printf("A FAIL errors=%d\n", h_logcount[4] - e0 > 0);
		}
		fflush(stdout);
	}
	return 0;
}
