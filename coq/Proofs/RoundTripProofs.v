From Lou Require Import Model.Back.
