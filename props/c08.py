"""C08 — results are a pure function of table sources and arguments.
PROVE: Properties/C08.v — every persistent (static / file-scope) variable of the library, inventoried from the current
 sources, is classified into a class whose members cannot carry information between calls; the API state machine model
 gives the same result for a call after ANY history as in the initial state.
CORRESPOND: random histories over a pool of tables/inputs/modes/capacities (with lou_free anywhere) in one process, every
 call's full result compared with the same call made first in a fresh process; with and without the exact-scratch hook
 (without it the scratch buffers keep stale contents between calls)."""
import os
import shutil

import common
import safety
import tablegen
import trans
from common import Rng, REPO

PID = "C08"


def sig(line):
    """everything a caller can observe: return value, lengths, cursor, output, position arrays, typeform, spacing"""
    if isinstance(line, tuple):
        return ("CRASH", line[1][:80])
    parts = [p.strip() for p in line.split("|")]
    if parts[0].startswith("R"):
        return tuple(parts[:6])
    return line.strip()


def make_pool(rng, work):
    """table lists designed so that persistent state could leak: same cells with different attributes, different pass
    structure, hyphenation, display tables"""
    lists = []
    # A: cell 1 is a space, B: cell 1 is a letter (the dots attribute cache of the backward matcher)
    (work / "A.utb").write_text("space \\s 1\nletter a 12\nletter b 2\npunctuation . 256\n")
    (work / "B.utb").write_text("space \\s 0\nletter a 1\nletter b 12\npunctuation . 256\nalways ab 1-1\n")
    (work / "C.utb").write_text("space \\s 0\nletter a 1\nletter b 12\nnoback pass2 @1-12 @12-1\nnofor pass2 @12-1 @1-12\nnoback correct \"ba\" \"ab\"\nnofor correct \"ab\" \"ba\"\n")
    (work / "D.utb").write_text("space \\s 0\nletter a 1\nletter b 12\ndigit 1 2\nnumsign 3456\nnoback context \"a\"[] @12\nnofor pass3 []@1 ?\nnofor context @12-1 \"abab\"\nnofor context @1-1 \"bbbbbb\"\n")
    # V: multipass variables, indices spread over the whole array (0, the last one, and others): a variable left set by
    # one call must not be seen by the next (they are reset at the start of every stage)
    nv = int(tablegen.consts().get("NUMVAR", 50))
    idx = [nv - 1, rng.range(12, 16), rng.range(1, nv - 2), rng.range(nv // 2, nv - 1), 0, rng.range(16, nv - 1), rng.range(2, nv - 1), nv - 2]
    v = idx
    (work / "V.utb").write_text(
        "space \\s 0\nletter a 1\nletter b 12\nletter c 14\nletter d 145\n"
        "noback pass2 #%d=0@1 @1#%d=1\nnoback pass2 #%d=1@1 @1-1\n" % (v[0], v[0], v[0]) +
        "noback pass3 #%d=0@12 @12#%d=1\nnoback pass3 #%d=1@12 @12-12\n" % (v[1], v[1], v[1]) +
        "nofor pass2 #%d=0@14 @14#%d=1\nnofor pass2 #%d=1@14 @14-14\n" % (v[2], v[2], v[2]) +
        "nofor pass3 #%d=0@145 @145#%d=1\nnofor pass3 #%d=1@145 @145-145\n" % (v[3], v[3], v[3]) +
        "noback correct #%d=0\"d\" \"d\"#%d=1\nnoback correct #%d=1\"d\" \"dd\"\n" % (v[4], v[4], v[4]) +
        "nofor correct #%d=0\"a\" \"a\"#%d=1\nnofor correct #%d=1\"a\" \"aa\"\n" % (v[5], v[5], v[5]) +
        "noback context #%d=0\"c\" @14#%d=1\nnoback context #%d=1\"c\" @14-14\n" % (v[6], v[6], v[6]) +
        "nofor pass4 #%d=0@1 @1#%d=1\nnofor pass4 #%d=1@1 @1-1\n" % (v[7], v[7], v[7]))
    # W: counters (comparison, increment, decrement): the third and later occurrence in ONE call is treated differently; a count
    # that survives a call would shift that
    w = [rng.range(0, nv - 1), nv - 1, rng.range(0, nv - 1)]
    (work / "W.utb").write_text(
        "space \\s 0\nletter a 1\nletter b 12\nletter c 14\nletter d 145\n"
        "noback pass2 #%d<2@1 @1#%d+\nnoback pass2 #%d>=2@1 @1-1\n" % (w[0], w[0], w[0]) +
        "nofor pass2 #%d<=1@14 @14#%d+\nnofor pass2 #%d>1@14 @14-14#%d-\n" % (w[1], w[1], w[1], w[1]) +
        "noback correct #%d<1\"d\" \"d\"#%d+\nnoback correct #%d>0\"d\" \"dd\"\n" % (w[2], w[2], w[2]))
    # G: characters that get their display mapping from a `grouping' rule only: whether the display part of a list is
    # compiled alone (lou_charToDots / lou_dotsToChar first) or together with the translation part must not matter
    (work / "G.utb").write_text("space \\s 0\nlowercase a 1\nlowercase b 12\ngrouping paren () 126,345\nsign - 36\n")
    lists += [str(work / n) for n in ("A.utb", "B.utb", "C.utb", "D.utb", "V.utb", "V.utb", "W.utb", "W.utb", "G.utb", "G.utb")]
    # a list and a longer list that begins with the same name and translates differently: which one a name denotes must not
    # depend on which was loaded first
    lists += [str(work / "A.utb") + "," + str(work / "C.utb"), str(work / "A.utb")]
    for i in range(2):
        r = rng.fork(("emph", i))
        text, _al = tablegen.gen_emphasis_table(r)
        p = work / ("e%d.utb" % i)
        p.write_text(text)
        lists.append("unicode.dis," + str(p))
    for i in range(4):
        r = rng.fork(("gt", i))
        entries, rules, letters = tablegen.gen_c06_table(r, directions=("noback", "nofor"))
        p = work / ("g%d.utb" % i)
        p.write_text(tablegen.pass_table_text(entries, rules))
        lists.append(str(p))
    lists += ["en-us-g1.ctb", "en-us-g2.ctb", "en-ueb-g2.ctb", "de-g2.ctb", "unicode.dis,en-us-g2.ctb", "en-us-g1.ctb,hyph_en_US.dic", "cs-g1.ctb,hyph_cs_CZ.dic"]
    return lists


def make_calls(rng, lists, n):
    calls = []
    for _ in range(n):
        tl = rng.choice(lists)
        k = rng.below(10)
        generated = "/work-" in tl
        if generated:
            inp = [rng.choice([97, 98, 99, 100, 32, 46, 49, 40, 41, 65, 66, 67]) for _ in range(rng.range(1, 12))]
        else:
            inp = [c for c in safety.gen_input(rng, 24) if c] or [97]
        mode = rng.choice([0, 0, 4, 1, 128, 256, 4 | 64])
        pres = rng.choice([0, 12, 15, 31, 3])
        cur = rng.range(0, len(inp) - 1) if pres & 16 else -2
        if k < 4:
            fn = rng.choice("TTSR")
            outlen = rng.choice([4 * len(inp) + 8, rng.range(0, len(inp) + 1), len(inp)])
            x = trans.case_line(fn, mode, inp, outlen, cursor=cur, presence=pres, typeform=safety.gen_typeform(rng, len(inp)) if pres & 1 else None)
        elif k < 8:
            if mode & 4 or generated:
                cells = [0x8000 | rng.choice([1, 2, 3, 0, 50, 63, 255, 17, 9, 25]) for _ in range(rng.range(1, 12))]
                mode |= 4
            else:
                cells = inp
            outlen = rng.choice([4 * len(cells) + 8, rng.range(0, len(cells) + 1), 0, 3])
            x = trans.case_line(rng.choice("BBU"), mode & ~64, cells, outlen, cursor=min(cur, len(cells) - 1) if pres & 16 else -2, presence=pres)
        elif k == 8:
            x = trans.case_line(rng.choice("CD"), rng.choice([0, 64]), inp, len(inp))
        else:
            w = [rng.choice([97, 98, 99, 100, 101, 104, 110, 116, 32, 45]) for _ in range(rng.range(1, 20))]
            x = trans.case_line("H", rng.choice([0, 0, 1]), w, len(w) + 1)
        calls.append("Y %s ;; %s" % (tl, x))
    return calls


def run(chk):
    rng = Rng(chk.seed).fork(PID)
    gen = common.gen_stage()
    prove = common.prove_stage(PID)
    common.model_driver()
    exe = common.build_harness("h_trans")
    env = {"LOUIS_TABLEPATH": str(REPO / "tables")}
    quick = chk.tier == "quick"
    work = common.BUILD / ("work-c08-%d" % os.getpid())
    shutil.rmtree(work, ignore_errors=True)
    work.mkdir(parents=True)
    lists = make_pool(rng, work)
    pool = make_calls(rng.fork("pool"), lists, 70 if quick else 400)
    # back-translation of REAL forward output (it contains the tables' indicator cells: capitals, emphasis, computer braille,
    # numbers) with position arrays and a cursor: map entries of cells that produce no text must not be left over from
    # earlier calls
    for tl in [l for l in lists if "/work-" in l and os.path.basename(l).startswith("e")] + ["en-us-g2.ctb", "en-ueb-g2.ctb", "de-g2.ctb"]:
        r = rng.fork(("realback", tl))
        fw = []
        for _ in range(3 if quick else 12):
            if "/work-" in tl:
                inp = [r.choice([97, 98, 99, 65, 66, 67, 32, 32, 46, 49]) for _ in range(r.range(3, 14))]
            else:
                inp = safety.capitalise(r, [c for c in safety.gen_sentence(r, 24) if c] or [97])
            fw.append(trans.case_line("T", 0, inp, 6 * len(inp) + 8, presence=1, typeform=safety.gen_typeform(r, len(inp))))
        for res in trans.run_cases(exe, tl, fw, exact=1, env=env, timeout=300):
            if res.crash or res.ret != 1 or res.outlen <= 0:
                continue
            cells = res.out[:res.outlen]
            pres = r.choice([12, 12, 28, 31, 4, 8])
            pool.append("Y %s ;; %s" % (tl, trans.case_line("B", 0, cells, r.choice([4 * len(cells) + 8, len(cells), r.range(1, len(cells))]),
                                                             cursor=r.range(0, len(cells) - 1) if pres & 16 else -2, presence=pres)))
    # targeted pairs for the known mechanisms
    a, b = str(work / "A.utb"), str(work / "B.utb")
    targeted = ["Y %s ;; %s" % (a, trans.case_line("B", 4, [0x8001], 5)),
                "Y %s ;; %s" % (b, trans.case_line("B", 4, [0x8001] * 6, 3, presence=12)),
                "Y %s ;; %s" % (b, trans.case_line("B", 4, [0x8001, 0x8001, 0x8003, 0x8001], 2, presence=12)),
                "Y en-us-g2.ctb ;; " + trans.case_line("B", 128, [0x20, 0x20, 0x66, 0x6d, 0x32, 0x20, 0x3b, 0x6e, 0x23, 0x62], 0, presence=12)]
    pool += targeted
    # scenarios: short fixed sequences whose order matters (a call that fails on an early-exit path, then a call that would
    # see what the first one left behind)
    dd = str(work / "D.utb")
    match_text = [ord(c) for c in "this/that could/should just_for_good.org (as) e.g."]
    scenarios = [
        ["Y %s ;; %s" % (dd, trans.case_line("B", 4, [0x8003, 0x8001], 2)),          # nofor context @12-1 "abab" does not fit: early return
         "Y en-ueb-g2.ctb ;; " + trans.case_line("T", 0, match_text, 200, presence=12)],
        ["Y %s ;; %s" % (dd, trans.case_line("B", 4, [0x8001, 0x8001, 0x8003], 3)),
         "Y en-us-g2.ctb ;; " + trans.case_line("T", 0, match_text, 200, presence=12)],
        ["Y en-ueb-g2.ctb ;; " + trans.case_line("T", 0, match_text, 3), "Y en-ueb-g2.ctb ;; " + trans.case_line("B", 0, [ord(c) for c in ",! _4 ?is"], 4),
         "Y en-ueb-g2.ctb ;; " + trans.case_line("T", 0, match_text, 200, presence=12)],
    ]
    # display part of a list compiled alone first (lou_charToDots / lou_dotsToChar), then the translation part, and the
    # other way round, each from an empty cache: the mappings a rule contributes must not depend on which came first
    gg = str(work / "G.utb")
    paren = [40, 97, 41, 45, 98, 40, 41]
    for disp in (trans.case_line("C", 0, paren, len(paren)), trans.case_line("D", 0, [0x8000 | 0x23, 0x8001, 0x8000 | 0x1c], 3)):
        for tr in (trans.case_line("T", 0, paren, 40), trans.case_line("B", 0, [ord(c) for c in "(a)-b"], 40, presence=12)):
            scenarios.append(["F", "Y %s ;; %s" % (gg, disp), "Y %s ;; %s" % (gg, tr)])
            scenarios.append(["F", "Y %s ;; %s" % (gg, tr), "Y %s ;; %s" % (gg, disp)])
    ac, aa = str(work / "A.utb") + "," + str(work / "C.utb"), str(work / "A.utb")
    for cells_ in ([0x8001, 0x8003, 0x8001], [0x8003, 0x8001]):
        scenarios.append(["F", "Y %s ;; %s" % (ac, trans.case_line("B", 4, cells_, 12)), "Y %s ;; %s" % (aa, trans.case_line("B", 4, cells_, 12))])
        scenarios.append(["F", "Y %s ;; %s" % (ac, trans.case_line("T", 4, [97, 98, 97], 12)), "Y %s ;; %s" % (aa, trans.case_line("T", 4, [97, 98, 97], 12))])
    for sc in scenarios:
        pool += [c for c in sc if c != "F"]
    fresh = {}
    for exact in (1, 0):
        for c in pool:
            out = common.run_stream(exe, ["e %d" % exact, "b 4000000"], [c], env=env, timeout=120)
            fresh[(exact, c)] = sig(out[0])
    nh = 200 if quick else 4000
    for hi in range(nh):
        r = rng.fork(("h", hi))
        exact = r.choice([0, 0, 1])
        L = r.range(3, 30 if quick else 120)
        hist = []
        for _ in range(L):
            if r.chance(0.08):
                hist.append("F")
            elif r.chance(0.15):
                hist.append(r.choice(targeted))
            elif r.chance(0.12):
                hist += r.choice(scenarios)
            else:
                hist.append(r.choice(pool))
        outs = common.run_stream(exe, ["e %d" % exact, "b 4000000"], hist, env=env, timeout=600)
        chk.tally("histories_exact_%d" % exact)
        for k, (c, o) in enumerate(zip(hist, outs)):
            if c == "F":
                continue
            key = (exact, c, tuple(hist[:k][-3:]))
            s = sig(o)
            f = fresh[(exact, c)]
            chk.count(key, nontrivial=isinstance(s, tuple) and len(s) > 1 and s[0].split()[1:2] == ["1"] and k > 0)
            if s == f:
                chk.cov["traces_validated_against_impl"] += 1
                continue
            if s[0] == "CRASH" or f[0] == "CRASH":
                chk.violation("crash-in-history", "call crashes (%s) / fresh (%s)" % (s[:2], f[:2]), dict(history=hist[:k + 1], exact=exact))
                break
            # minimise: shortest suffix of the history before k that still changes the result
            culprit = None
            for start in range(k - 1, -1, -1):
                sub = hist[start:k + 1]
                o2 = common.run_stream(exe, ["e %d" % exact, "b 4000000"], sub, env=env, timeout=300)
                if sig(o2[-1]) != f:
                    culprit = sub
                    break
            what = "the result of a call depends on earlier calls: after the history it is %s, first in a fresh process %s" % (str(s)[:300], str(f)[:300])
            fnkey = c.split(";;")[1].split()[1]
            chk.violation("history-dependence:%s:exact%d" % (fnkey, exact), what,
                          dict(history=culprit or hist[:k + 1], exact=exact, call=c, after_history=list(s) if isinstance(s, tuple) else s,
                               fresh=list(f) if isinstance(f, tuple) else f, tables={os.path.basename(p.split(",")[-1]): open(p.split(",")[-1]).read() for p in lists if "/work-" in p}))
            break
    shutil.rmtree(work, ignore_errors=True)
    chk.cov["rule"] = ("histories of 3-30 (thorough: -120) API calls drawn from a pool of ~75 (thorough ~400) distinct calls (translate / "
                       "translateString / _lou_translate, backTranslate(String), charToDots/dotsToChar, hyphenate text and braille mode) over "
                       "15 table lists incl. pairs that give the same cell different attributes, with lou_free inserted anywhere; with and "
                       "without the exact-scratch hook; each call compared with the same call first in a fresh process; distinct = (mode, call, "
                       "3 preceding calls); non-trivial = returned 1 and not first")
    chk.cov["gen_status"] = gen
    chk.cov["checker_cmd"] = "make -C coq Properties/C08.vo (coqc 8.16.1)"
    chk.cov["trusted_base"] = common.TRUSTED_COMMON + ["tools/gen/g_statics.py (inventory of persistent variables); their classification in Model/Statics.v is by reading the code"]
    if not prove["ok"] and not chk.violations:
        chk.violation("proof", "Properties/%s.v no longer checks: %s" % (PID, prove["failed"][:5]),
                      dict(no_failing_input=True, broken=prove["failed"], log=prove["log"][-1500:], gen=gen))
    return chk.finish(prove)
