From Coq Require Import List ZArith Bool.
From Lou Require Import Gen.GConst Gen.GChain Model.Table Model.Compile Model.Ref Model.Engine Model.EngineObs.
Import ListNotations.
Local Open Scope Z_scope.

Section P.
  Variable Ob : Type.
  Variable upd : tstate -> list Z -> Z -> Ob -> Ob.
  Variable t : table.
  Variable sel : list Z -> Z -> option crule.
  Variable inp : list Z.
  Variable cap : Z.

  Lemma emit_o_fst : forall s o d k,
    option_map fst (emit_o Ob upd inp cap s o d k) = emit inp cap s d k.
  Proof. intros. unfold emit_o. destruct (emit inp cap s d k); reflexivity. Qed.

  Lemma put_chars_o_fst : forall k s o,
    option_map (option_map fst) (put_chars_o Ob upd t inp cap k s o) = put_chars t inp cap k s.
  Proof.
    induction k as [|k IH]; intros s o; cbn [put_chars_o put_chars]; [reflexivity|].
    destruct (def_dots t (nth_z inp (ts_pos s))) as [d|]; [|reflexivity].
    pose proof (emit_o_fst s o d 1) as E. unfold emit_o in *.
    destruct (emit inp cap s d 1) as [s'|]; [|reflexivity]. cbn [option_map fst] in *.
    destruct (ts_pos (advance s' 1) >=? n inp); [reflexivity|]. apply IH.
  Qed.

  Definition strip (r : step_result_o Ob) : step_result :=
    match r with NextO _ s _ => Next s | FailO _ s => Fail s | UnsupportedO _ => Unsupported end.

  Lemma step_o_strip : forall s o, strip (step_o Ob upd t sel inp cap s o) = step t sel inp cap s.
  Proof.
    intros s o. unfold step_o, step.
    destruct (sel inp (ts_pos s)) as [[idx e]|]; [|reflexivity].
    set (s0 := if (0 <? ts_pos s) && is_space_at t inp (ts_pos s - 1) then _ else s).
    destruct (numsign t) as [nd|].
    - destruct (has_attr (attrs t (nth_z inp (ts_pos s))) CTC_Digit && negb (has_attr (attrs t (before_char inp (ts_pos s))) CTC_Digit)).
      + unfold emit_o. destruct (emit inp cap s0 nd 0) as [s1|]; [|reflexivity].
        destruct (e_dots e) as [|d0 dr].
        * pose proof (put_chars_o_fst (Z.to_nat (len (e_chars e)))
            (mkTS (ts_pos s1) (ts_out s1) (ts_pm s1) (ts_lw_in s1) (ts_lw_out s1) (idx :: ts_trace s1)) (upd s0 nd 0 o)) as P.
          destruct (put_chars_o Ob upd t inp cap _ _ _) as [[[s3 o3]|]|]; cbn [option_map fst] in P; rewrite <- P; reflexivity.
        * destruct (emit inp cap _ (d0 :: dr) (len (e_chars e))) as [s3|]; reflexivity.
      + destruct (e_dots e) as [|d0 dr].
        * pose proof (put_chars_o_fst (Z.to_nat (len (e_chars e)))
            (mkTS (ts_pos s0) (ts_out s0) (ts_pm s0) (ts_lw_in s0) (ts_lw_out s0) (idx :: ts_trace s0)) o) as P.
          destruct (put_chars_o Ob upd t inp cap _ _ _) as [[[s3 o3]|]|]; cbn [option_map fst] in P; rewrite <- P; reflexivity.
        * unfold emit_o. destruct (emit inp cap _ (d0 :: dr) (len (e_chars e))) as [s3|]; reflexivity.
    - destruct (e_dots e) as [|d0 dr].
      + pose proof (put_chars_o_fst (Z.to_nat (len (e_chars e)))
          (mkTS (ts_pos s0) (ts_out s0) (ts_pm s0) (ts_lw_in s0) (ts_lw_out s0) (idx :: ts_trace s0)) o) as P.
        destruct (put_chars_o Ob upd t inp cap _ _ _) as [[[s3 o3]|]|]; cbn [option_map fst] in P; rewrite <- P; reflexivity.
      + unfold emit_o. destruct (emit inp cap _ (d0 :: dr) (len (e_chars e))) as [s3|]; reflexivity.
  Qed.

  Lemma loop_o_eq : forall fuel s o, loop_o Ob upd t sel inp cap fuel s o = loop t sel inp cap fuel s.
  Proof.
    induction fuel as [|f IH]; intros s o; cbn [loop_o loop]; [reflexivity|].
    destruct (ts_pos s >=? n inp); [reflexivity|].
    pose proof (step_o_strip s o) as E.
    destruct (step_o Ob upd t sel inp cap s o) as [s' o'|s'|]; cbn [strip] in E; rewrite <- E; [apply IH|reflexivity|reflexivity].
  Qed.

  Lemma run_o_eq : forall o0, run_o Ob upd t sel inp cap o0 = run t sel inp cap.
  Proof. intros o0. unfold run_o, run. apply loop_o_eq. Qed.
End P.
