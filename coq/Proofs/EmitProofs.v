From Coq Require Import List ZArith Bool Lia.
From Lou Require Import Gen.GEmit Model.Emit.
Import ListNotations.
Local Open Scope Z_scope.

Lemma estep_inv : forall maxlen in_len s o,
  EInv maxlen in_len s -> wf_op in_len o -> EInv maxlen in_len (estep maxlen in_len s o).
Proof.
  intros maxlen in_len s o [[H0 H1] [H2 H3]] Hw. unfold EInv.
  destruct o as [out_n pos in_n|out_n pos in_n|buflen pos]; cbn [estep wf_op] in *.
  - unfold fwd_emit_rejects.
    destruct (out_len s + out_n >? maxlen) eqn:E1; destruct (pos + in_n >? in_len) eqn:E2;
      cbn [orb out_len hi_out hi_in]; lia.
  - unfold back_emit_rejects, back_putchars_rejects.
    destruct (out_len s + out_n >? maxlen) eqn:E1; destruct (pos + in_n >? in_len) eqn:E2;
      cbn [orb out_len hi_out hi_in]; try lia.
    destruct (out_n =? 0) eqn:E3; cbn [negb orb out_len hi_out hi_in]; lia.
  - unfold back_undefined_rejects.
    destruct (out_len s + buflen >? maxlen) eqn:E1; cbn [out_len hi_out hi_in]; lia.
Qed.

Lemma emit_inv_l : forall maxlen in_len ops s,
  EInv maxlen in_len s -> Forall (wf_op in_len) ops ->
  EInv maxlen in_len (fold_left (estep maxlen in_len) ops s).
Proof.
  intros maxlen in_len ops. induction ops as [|o ops IH]; intros s Hs Hw; [exact Hs|].
  cbn [fold_left]. inversion Hw as [|? ? Ho Hr]; subst. apply IH; [apply estep_inv; assumption|exact Hr].
Qed.

(* a rejected emission leaves everything unchanged (all or nothing) *)
Lemma fwd_reject_unchanged : forall maxlen in_len s out_n pos in_n,
  fwd_emit_rejects (out_len s) out_n maxlen pos in_n in_len = true ->
  estep maxlen in_len s (EFwd out_n pos in_n) = s.
Proof. intros. cbn [estep]. rewrite H. reflexivity. Qed.

(* an accepted forward emission fits: cells and map entries [out_len, out_len + out_n) lie below
   maxlength and the consumed characters inside the input *)
Lemma fwd_accept_fits : forall out_len0 out_n maxlen pos in_n in_len,
  fwd_emit_rejects out_len0 out_n maxlen pos in_n in_len = false ->
  out_len0 + out_n <= maxlen /\ pos + in_n <= in_len.
Proof.
  intros. unfold fwd_emit_rejects in H.
  destruct (out_len0 + out_n >? maxlen) eqn:E1; destruct (pos + in_n >? in_len) eqn:E2; cbn in H; try discriminate; lia.
Qed.

Lemma back_accept_fits : forall out_len0 out_n maxlen pos in_n in_len,
  back_emit_rejects out_len0 out_n maxlen pos in_n in_len = false ->
  out_len0 + out_n <= maxlen /\ pos + in_n <= in_len.
Proof.
  intros. unfold back_emit_rejects in H.
  destruct (out_len0 + out_n >? maxlen) eqn:E1; destruct (pos + in_n >? in_len) eqn:E2; cbn in H; try discriminate; lia.
Qed.

Lemma source_shape_emit : fwd_emit_writes_at_out_len = true /\ back_emit_maps_input_positions = true.
Proof. split; reflexivity. Qed.

(* ------------------------------------------------------------------ the one-element copy of the stage loops *)
(* REGENERATED guards (Gen/GEmit.v): when the guard lets the copy through, the element written at index out_len is
   below maxlength, and each guard is the test `out_len + 1 > maxlength' that Model/Pass.v and Model/BackPass.v use *)
Require Import ZifyBool.
Lemma fwd_stage_copy_l : forall o m,
  (fwd_correct_copy_rejects o m = false -> o < m) /\ (fwd_pass_copy_rejects o m = false -> o < m) /\
  fwd_correct_copy_rejects o m = (o + 1 >? m) /\ fwd_pass_copy_rejects o m = (o + 1 >? m).
Proof. intros o m. unfold fwd_correct_copy_rejects, fwd_pass_copy_rejects. repeat split; lia. Qed.

Lemma back_stage_copy_l : forall o m,
  (back_correct_copy_rejects o m = false -> o < m) /\ (back_pass_copy_rejects o m = false -> o < m) /\
  back_correct_copy_rejects o m = (o + 1 >? m) /\ back_pass_copy_rejects o m = (o + 1 >? m).
Proof. intros o m. unfold back_correct_copy_rejects, back_pass_copy_rejects. repeat split; lia. Qed.
