"""G12 + finishing expressions: cell re-encoding statements of _lou_translate / _lou_backTranslate /
lou_dotsToChar / lou_charToDots and the inventory of `mode & mask' uses in the two engine files."""
import re
import cparse
from g_common import *
from g_log import show_stmt, flatten

NAME = "GFinish"


def find_ifs(items, pred):
    out = []
    walk_stmts(items, lambda st: out.append(st) if st[0] == "if" and pred(st) else None)
    return out


def assigned(st, lhs):
    """the expression assigned to lhs in a statement/blocks (single assignment expected)"""
    found = []
    walk_stmts([st], lambda s: found.append(s[1][3]) if s[0] == "expr" and s[1][0] == "assign" and cparse.show_c(s[1][2]) == lhs else None)
    return found


def generate(repo):
    import g_const
    consts = {m.group(1): int(m.group(2)) for m in re.finditer(r"Definition (\w+) : Z := (-?\d+)\.", g_const.generate(repo))}
    consts.update({"dotsIO": consts["mode_dotsIO"], "ucBrl": consts["mode_ucBrl"]})
    out = [HEADER]
    _, body = func(repo, "lou_translateString.c", "_lou_translate")
    pr = cparse.ToZ({"output.chars[k]": "cell"}, consts)
    # typeform marks
    ifs = find_ifs(body, lambda st: cparse.show_c(st[1]) == "(output.chars[k] & (LOU_DOT_7 | LOU_DOT_8))")
    if len(ifs) != 1:
        raise cparse.ParseError("typeform mark test")
    t8 = assigned(ifs[0][2], "typeform[k]")
    t0 = assigned(ifs[0][3], "typeform[k]") if ifs[0][3] else []
    if len(t8) != 1 or len(t0) != 1:
        raise cparse.ParseError("typeform mark assignments")
    out.append("Definition typeform_has_dot78 (cell : Z) : bool := %s.\n" % pr.b(ifs[0][1]))
    out.append("Definition typeform_mark_set : Z := %s.\nDefinition typeform_mark_clear : Z := %s.\n" % (pr.z(t8[0]), pr.z(t0[0])))
    # output encoding
    ifs = find_ifs(body, lambda st: cparse.show_c(st[1]) == "(mode & dotsIO)" and assigned(st, "outbuf[k]"))
    if len(ifs) != 1:
        raise cparse.ParseError("output encoding branch")
    st = ifs[0]
    inner = find_ifs([st[2]], lambda s: cparse.show_c(s[1]) == "(mode & ucBrl)")
    if len(inner) != 1:
        raise cparse.ParseError("ucBrl branch")
    uc = assigned(inner[0][2], "outbuf[k]")
    raw = assigned(inner[0][3], "outbuf[k]")
    dis = assigned(st[3], "outbuf[k]")
    if len(uc) != 1 or len(raw) != 1 or len(dis) != 1:
        raise cparse.ParseError("output encoding assignments")
    out.append("Definition out_ucbrl (cell : Z) : Z := %s.\n" % pr.z(uc[0]))
    out.append("Definition out_dots (cell : Z) : Z := %s.\n" % pr.z(raw[0]))
    out.append("Definition out_default_is_display_lookup : bool := %s.\n" % (
        "true" if cparse.show_c(dis[0]) == "_lou_getCharForDots(output.chars[k], displayTable)" else "false"))
    txt = show_stmt(st[3])
    out.append("Definition unmapped_cell_logs_error_and_returns_0 : bool := %s.\n" % (
        "true" if "if (!outbuf[k])" in txt and "_lou_logMessage(LOU_LOG_ERROR" in txt and "return 0;" in txt else "false"))
    # backward decode
    _, body = func(repo, "lou_backTranslateString.c", "_lou_backTranslate")
    ifs = find_ifs(body, lambda s: cparse.show_c(s[1]) == "(mode & dotsIO)" and assigned(s, "passbuf1[k]"))
    if len(ifs) != 1:
        raise cparse.ParseError("backward decode branch")
    prb = cparse.ToZ({"inbuf[k]": "c", "dots": "c"}, consts)
    d = assigned(ifs[0][2], "passbuf1[k]")
    e = assigned(ifs[0][3], "passbuf1[k]")
    thentxt = show_stmt(ifs[0][2])
    uni = "LOU_ROW_BRAILLE" in thentxt
    if len(d) != 1 or len(e) != 1:
        raise cparse.ParseError("backward decode assignments")
    if uni:
        # Unicode braille recognised: expect the lou_dotsToChar idiom
        out.append("Definition back_decode_dots (c : Z) : Z :=\n  let c := if (negb (negb (Z.land c LOU_DOTS =? 0))) && (Z.land c 65280 =? LOU_ROW_BRAILLE) then Z.land c 255 else c in Z.lor c LOU_DOTS.\n"
                   .replace("LOU_DOTS", str(consts["LOU_DOTS"])).replace("LOU_ROW_BRAILLE", str(consts["LOU_ROW_BRAILLE"])))
        out.append("(* source: %s *)\n" % thentxt.replace("*)", "* )"))
    else:
        out.append("Definition back_decode_dots (c : Z) : Z := %s.\n" % prb.z(d[0]))
    out.append("Definition back_decode_default_is_display_lookup : bool := %s.\n" % (
        "true" if cparse.show_c(e[0]) == "_lou_getDotsForChar(inbuf[k], displayTable)" else "false"))
    # lou_dotsToChar / lou_charToDots
    _, body = func(repo, "lou_translateString.c", "lou_dotsToChar")
    ifs = find_ifs(body, lambda s: "LOU_ROW_BRAILLE" in cparse.show_c(s[1]))
    if len(ifs) != 1:
        raise cparse.ParseError("lou_dotsToChar unicode test")
    prd = cparse.ToZ({"dots": "d"}, consts)
    asg = assigned(ifs[0][2], "dots")
    out.append("Definition d2c_is_unicode (d : Z) : bool := %s.\n" % prd.b(ifs[0][1]))
    out.append("Definition d2c_from_unicode (d : Z) : Z := %s.\n" % prd.z(asg[0]))
    _, body = func(repo, "lou_translateString.c", "lou_charToDots")
    txt = " ".join(show_stmt(s) for s in body)
    m = "outbuf[k] = ((_lou_getDotsForChar(inbuf[k], table) & 255) | LOU_ROW_BRAILLE);" in txt and \
        "else outbuf[k] = _lou_getDotsForChar(inbuf[k], table);" in txt and "if ((mode & ucBrl))" in txt
    out.append("Definition c2d_ucbrl_is_low8_in_row : bool := %s.\n\n" % ("true" if m else "false"))
    # inventory of mode tests
    sites = []
    for fname in ("lou_translateString.c", "lou_backTranslateString.c"):
        src = source(repo, fname)
        for fn, b in cparse.list_functions(src):
            for mm in re.finditer(r"(?<![>.\w])mode\s*&\s*(\(?[\w\s|]+\)?)", b):
                names = sorted(set(re.findall(r"[A-Za-z_]\w*", mm.group(1))))
                sites.append((fname, fn, "|".join(names)))
    sites = sorted(set(sites))
    out.append("(* every `mode & mask' test in the two engine files: (file, function, mask names) *)\n")
    out.append("Definition mode_tests : list (string * string * string) := [\n")
    out.append(";\n".join("  (%s, %s, %s)" % (coq_string(a), coq_string(b), coq_string(c)) for a, b, c in sites))
    out.append("\n].\n")
    return "".join(out)
