"""G14: the progress bookkeeping of the six stage loops: how `posIncremented' is recomputed after a rule has been
applied.  One Gallina function per loop: new value as a function of the position before and after the rule (and, where
the source uses them, the output length before and after)."""
import re
import cparse
from g_common import *

NAME = "GProgress"

SITES = [
    ("fwd_correct_inc", "lou_translateString.c", "makeCorrections"),
    ("fwd_pass_inc", "lou_translateString.c", "translatePass"),
    ("fwd_main_inc", "lou_translateString.c", "translateString"),
    ("back_correct_inc", "lou_backTranslateString.c", "makeCorrections"),
    ("back_main_inc", "lou_backTranslateString.c", "backTranslateString"),
    ("back_pass_inc", "lou_backTranslateString.c", "translatePass"),
]

ENV = {"pos": "pos", "posBefore": "posBefore", "output->length": "out_len", "lengthBefore": "len_before"}


def site(repo, file, fn):
    src = source(repo, file)
    body = cparse.find_function(src, fn)
    if body is None:
        raise cparse.ParseError("function %s not found in %s" % (fn, file))
    body = body if isinstance(body, str) else body[1]
    flat = " ".join(body.split())
    if not re.search(r"\bint posIncremented = 1;", flat):
        raise cparse.ParseError("%s: posIncremented is not initialised to 1" % fn)
    updates = []
    for m in re.finditer(r"posIncremented = ([^;]+);", flat):
        rhs = m.group(1).strip()
        if rhs == "1":
            continue
        if rhs == "0":
            pre = flat[:m.start()].rstrip()
            mm = re.search(r"if \((.*)\)$", pre)
            if not mm:
                raise cparse.ParseError("%s: unconditional posIncremented = 0" % fn)
            # the condition is the last balanced parenthesis group
            depth = 0
            i = len(pre) - 1
            while i >= 0:
                if pre[i] == ")":
                    depth += 1
                elif pre[i] == "(":
                    depth -= 1
                    if depth == 0:
                        break
                i -= 1
            cond = pre[i + 1:-1]
            if not pre[:i].rstrip().endswith("if"):
                raise cparse.ParseError("%s: posIncremented = 0 not directly under an if" % fn)
            updates.append(("clear_if", cond))
        else:
            updates.append(("assign", rhs))
    if len(updates) != 1:
        raise cparse.ParseError("%s: %d updates of posIncremented recognised (expected 1)" % (fn, len(updates)))
    to = cparse.ToZ(ENV)
    kind, text = updates[0]
    e = cparse.parse_expr(text)
    if kind == "clear_if":
        return "if %s then false else true" % to.b(e)
    return to.b(e)


def generate(repo):
    out = [HEADER]
    out.append("(* value of posIncremented after a rule has been applied in each stage loop (it is 1 after a plain copy) *)\n")
    for name, file, fn in SITES:
        out.append("Definition %s (pos posBefore out_len len_before : Z) : bool := %s.  (* %s, %s *)\n" % (name, site(repo, file, fn), file, fn))
    return "".join(out)
