(* M2/Image — the compiled table image as dumped by the walker (harness/h_image.c) and the
   executable consistency checker.  Offsets are in 8-byte units inside the rule area, sizes in
   bytes.  Executable, no proofs.                                                             *)
From Coq Require Import List ZArith Bool FMapPositive.
From Lou Require Import Gen.GConst Gen.GChain.
Import ListNotations.
Local Open Scope Z_scope.

Record alloc := mkA { a_off : Z; a_size : Z }.
Record cref := mkR { r_target : Z; r_need : Z; r_nullok : bool }.
(* a chain member: offset, rule index, opcode, ordering length, raw hash and case-folded hash of its
   first two characters / cells (99999 when it has fewer than two) *)
Record celem := mkCEl { c_off : Z; c_idx : Z; c_op : Z; c_len : Z; c_raw : Z; c_low : Z }.

Record image := mkI {
  i_used : Z;                                  (* bytes of the rule area in use *)
  i_allocs : list alloc;                       (* in allocation order *)
  i_refs : list cref;
  i_fwd : list (Z * list celem);               (* forRules[hash] chains *)
  i_back : list (Z * list celem);              (* backRules[hash] chains *)
  i_chars : list (Z * Z * list celem);         (* character records: value, bucket (or < 0 if misplaced), otherRules *)
  i_cells : list (Z * Z * list celem);         (* cell records likewise (dots chain) *)
  i_fpass : list (Z * list celem);             (* forPassRules[n] *)
  i_bpass : list (Z * list celem)
}.

Definition units (bytes : Z) : Z := (bytes + 7) / 8.

(* allocations: offset 0 is reserved, each lies inside the used part, in allocation order they do
   not overlap (the next one starts at or after the end of the previous one, in 8-byte units) *)
Fixpoint allocs_ok (used : Z) (prev_end : Z) (l : list alloc) : bool :=
  match l with
  | [] => true
  | a :: l' =>
      (0 <? a_off a) && (0 <=? a_size a) && (prev_end <=? a_off a) &&
      (a_off a * 8 + a_size a <=? used) && allocs_ok used (a_off a + units (a_size a)) l'
  end.

(* offset -> size of the allocation that starts there (a balanced map: the images of the big tables
   have tens of thousands of allocations and references) *)
Definition amap := PositiveMap.t Z.
Definition build_map (l : list alloc) : amap :=
  fold_left (fun m a => if 0 <? a_off a then PositiveMap.add (Z.to_pos (a_off a)) (a_size a) m else m) l (PositiveMap.empty Z).

Definition find_alloc (m : amap) (off : Z) : option Z :=
  if 0 <? off then PositiveMap.find (Z.to_pos off) m else None.

Definition ref_ok (m : amap) (r : cref) : bool :=
  if r_target r =? 0 then r_nullok r
  else match find_alloc m (r_target r) with Some sz => r_need r <=? sz | None => false end.

Fixpoint nodup_offs (l : list celem) : bool :=
  match l with
  | [] => true
  | x :: l' => negb (existsb (fun y => c_off y =? c_off x) l') && nodup_offs l'
  end.

Definition members_allocated (m : amap) (l : list celem) : bool :=
  forallb (fun x => match find_alloc m (c_off x) with Some _ => true | None => false end) l.

(* pairwise order: no later member would have been linked in before an earlier one *)
Fixpoint ordered (before : celem -> celem -> bool) (l : list celem) : bool :=
  match l with
  | [] => true
  | x :: l' => forallb (fun y => negb (before y x)) l' && ordered before l'
  end.

Definition fwd_before (new r : celem) : bool := fwd_multi_before (c_len new) (c_op new) (c_len r) (c_op r).
Definition back_before (new r : celem) : bool := back_multi_before (c_len new) (c_op new) (c_len r) (c_op r).
Definition single_before_e (new r : celem) : bool := fwd_single_before (c_op new) (c_len r) (c_op r).
Definition fpass_before (new r : celem) : bool := fwd_pass_before (c_len new) (c_len r).
Definition bpass_before (new r : celem) : bool := back_pass_before (c_len new) (c_len r).

(* bucket membership: a rule sits in the bucket of its first two characters (cells); context rules
   in the bucket of the case-folded characters *)
Definition in_bucket (h : Z) (x : celem) : bool :=
  if c_op x =? CTO_Context then c_low x =? h else c_raw x =? h.

Definition bucket_ok (allocs : amap) (before : celem -> celem -> bool) (b : Z * list celem) : bool :=
  let '(h, l) := b in
  nodup_offs l && members_allocated allocs l && forallb (in_bucket h) l && ordered before l.

Definition record_ok (allocs : amap) (before : celem -> celem -> bool) (r : Z * Z * list celem) : bool :=
  let '(v, bucket, l) := r in
  (0 <=? bucket) && (bucket =? char_hash v) && nodup_offs l && members_allocated allocs l && ordered before l.

Definition pass_ok (allocs : amap) (before : celem -> celem -> bool) (b : Z * list celem) : bool :=
  let '(_, l) := b in nodup_offs l && members_allocated allocs l && ordered before l.

Definition check_image (i : image) : bool :=
  let m := build_map (i_allocs i) in
  allocs_ok (i_used i) 1 (i_allocs i) &&
  forallb (ref_ok m) (i_refs i) &&
  forallb (bucket_ok m fwd_before) (i_fwd i) &&
  (* the property orders forward chains only: a context rule is measured differently as a new and as an
     existing member of a backward chain, so no order is checked there *)
  forallb (bucket_ok m (fun _ _ => false)) (i_back i) &&
  forallb (record_ok m single_before_e) (i_chars i) &&
  forallb (record_ok m (fun _ _ => false)) (i_cells i) &&
  forallb (pass_ok m fpass_before) (i_fpass i) &&
  forallb (pass_ok m bpass_before) (i_bpass i).

(* ---- completeness: every rule object that addRule created is linked where lookups search for it.
   The rule objects come from the rule hook (offset, direction flags) and are read back from the image
   (opcode, lengths); `expected places' mirrors the dispatch at the end of addRule. *)
Record rinfo := mkRI { ri_off : Z; ri_op : Z; ri_chars : Z; ri_dots : Z; ri_nofor : bool; ri_noback : bool }.

Definition is_swap (op : Z) : bool := (op =? CTO_SwapCc) || (op =? CTO_SwapCd) || (op =? CTO_SwapDd).
Definition is_passrule (r : rinfo) : bool :=
  (CTO_Context <=? ri_op r) && (ri_op r <=? CTO_Pass4) && negb ((ri_op r =? CTO_Context) && (0 <? ri_chars r)).
Definition plain (r : rinfo) : bool := negb (is_swap (ri_op r)) && negb (is_passrule r).
Definition back_len (r : rinfo) : Z := if ri_op r =? CTO_Context then ri_chars r else ri_dots r.

Definition exp_fpass (r : rinfo) : bool := negb (is_swap (ri_op r)) && is_passrule r && negb (ri_nofor r).
Definition exp_bpass (r : rinfo) : bool := negb (is_swap (ri_op r)) && is_passrule r && negb (ri_noback r).
Definition exp_fwd (r : rinfo) : bool := plain r && negb (ri_nofor r) && (1 <? ri_chars r).
Definition exp_char (r : rinfo) : bool :=
  plain r && negb (ri_nofor r) && (ri_chars r =? 1) && negb ((ri_op r =? CTO_CompDots) || (ri_op r =? CTO_Comp6)).
Definition exp_back (r : rinfo) : bool := plain r && negb (ri_noback r) && (1 <? back_len r).
Definition exp_cell (r : rinfo) : bool := plain r && negb (ri_noback r) && (back_len r =? 1) && negb (ri_op r =? CTO_Repeated).

Definition member_map (chains : list (list celem)) : amap :=
  build_map (map (fun x => mkA (c_off x) 1) (concat chains)).
Definition is_member (m : amap) (off : Z) : bool :=
  match find_alloc m off with Some _ => true | None => false end.

Definition rule_linked (mf mb mc md mp mq : amap) (r : rinfo) : bool :=
  (0 <=? ri_op r) &&
  (if exp_fwd r then is_member mf (ri_off r) else true) &&
  (if exp_back r then is_member mb (ri_off r) else true) &&
  (if exp_char r then is_member mc (ri_off r) else true) &&
  (if exp_cell r then is_member md (ri_off r) else true) &&
  (if exp_fpass r then is_member mp (ri_off r) else true) &&
  (if exp_bpass r then is_member mq (ri_off r) else true).

Definition rules_linked (i : image) (rules : list rinfo) : bool :=
  let mf := member_map (map snd (i_fwd i)) in
  let mb := member_map (map snd (i_back i)) in
  let mc := member_map (map snd (i_chars i)) in
  let md := member_map (map snd (i_cells i)) in
  let mp := member_map (map snd (i_fpass i)) in
  let mq := member_map (map snd (i_bpass i)) in
  forallb (rule_linked mf mb mc md mp mq) rules.

(* ---- bounds reported by the walker of the multipass byte code: every instruction ends inside its part of the rule,
   every variable number is below NUMVAR, the test part is terminated and no unknown instruction was met (0 < 1) *)
Definition bounds_ok (l : list (Z * Z)) : bool := forallb (fun vb => (0 <=? fst vb) && (fst vb <? snd vb)) l.

(* ---- the bump allocator (allocateSpaceInTranslationTable): offsets only ever grow *)
Record arena := mkAr { ar_used : Z; ar_size : Z; ar_allocs : list alloc }.   (* ar_allocs newest first *)

Definition arena_init (hdr : Z) : arena := mkAr (hdr + 8) (2 * hdr) [].

Definition arena_alloc (hdr : Z) (ar : arena) (size : Z) : arena * Z :=
  let need := units size * 8 in
  let newsize := if ar_used ar + need >? ar_size ar then (ar_used ar + need) + (ar_used ar + need) / 8 else ar_size ar in
  let off := (ar_used ar - hdr) / 8 in
  (mkAr (ar_used ar + need) newsize (mkA off size :: ar_allocs ar), off).
