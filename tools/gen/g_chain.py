"""G4 + G5: hash functions and the insertion conditions of the rule chains."""
import cparse
from g_common import *
from g_log import show_stmt

NAME = "GChain"

ENV = {
    "rule->charslen": "new_chars", "r->charslen": "r_chars",
    "rule->dotslen": "new_dots", "r->dotslen": "r_dots",
    "rule->opcode": "new_op", "r->opcode": "r_op",
    "ruleLength": "new_len", "rLength": "r_len",
}


def break_cond(stmts, pr):
    """Disjunction of the conditions under which the scan loop breaks (stops before r)."""
    terms = []

    def go(st, ctx):
        k = st[0]
        if k == "block":
            for x in st[1]:
                go(x, ctx)
        elif k == "if":
            if st[3] is not None:
                raise cparse.ParseError("else in scan loop")
            go(st[2], ctx + [pr.b(st[1])])
        elif k == "break":
            terms.append(" && ".join(ctx) if ctx else "true")
        elif k == "expr":
            # the advance statement `x = &r->charsnext;` ends the body
            pass
        elif k == "decl":
            pass
        else:
            raise cparse.ParseError("unexpected statement in scan loop: %s" % k)

    for st in stmts:
        go(st, [])
    return "(" + ") || (".join(terms) + ")" if terms else "false"


def scan_loop(body):
    loops = [st for st in body if st[0] == "while"]
    if len(loops) != 1:
        raise cparse.ParseError("expected one scan loop")
    w = loops[0]
    inner = w[2][1] if w[2][0] == "block" else [w[2]]
    return inner


def generate(repo):
    consts = {}
    import g_const
    import re
    for m in re.finditer(r"Definition (\w+) : Z := (-?\d+)\.", g_const.generate(repo)):
        consts[m.group(1)] = int(m.group(2))
    pr = cparse.ToZ(dict(ENV), consts)
    out = [HEADER]
    out.append("(* _lou_charHash, _lou_stringHash (utils.c) *)\n")
    _, body = func(repo, "utils.c", "_lou_charHash")
    if len(body) != 1 or body[0][0] != "return":
        raise cparse.ParseError("_lou_charHash")
    prh = cparse.ToZ({"c": "c"}, consts)
    out.append("Definition char_hash (c : Z) : Z := %s.\n" % prh.z(body[0][1]))
    _, body = func(repo, "utils.c", "_lou_stringHash")
    txt = " ".join(show_stmt(s) for s in body)
    st = body[0]
    if st[0] != "if" or cparse.show_c(st[1]) != "!lowercase":
        raise cparse.ParseError("_lou_stringHash shape: " + txt[:100])
    prs = cparse.ToZ({"c[0]": "c0", "c[1]": "c1", "toLowercase(c[0], table)": "(lower c0)", "toLowercase(c[1], table)": "(lower c1)"}, consts)
    raw = st[2] if st[2][0] == "return" else st[2][1][0]
    low = st[3] if st[3][0] == "return" else st[3][1][0]
    out.append("Definition string_hash_raw (c0 c1 : Z) : Z := %s.\n" % prs.z(raw[1]))
    out.append("Definition string_hash_lower (lower : Z -> Z) (c0 c1 : Z) : Z := %s.\n\n" % prs.z(low[1]))
    out.append("Definition is_def_op (op : Z) : bool := (op >=? CTO_Space) && (op <? CTO_UpLow).\n\n".replace("CTO_Space", str(consts["CTO_Space"])).replace("CTO_UpLow", str(consts["CTO_UpLow"])))

    def emit(name, fn, comment, args):
        _, body = func(repo, "compileTranslationTable.c", fn)
        cond = break_cond(scan_loop(body), pr)
        out.append("(* %s: the new rule is linked in before chain member r when this holds *)\n" % comment)
        out.append("Definition %s %s : bool :=\n  %s.\n\n" % (name, args, cond))

    emit("fwd_multi_before", "addForwardRuleWithMultipleChars", "addForwardRuleWithMultipleChars",
         "(new_chars new_op r_chars r_op : Z)")
    emit("fwd_single_before", "addForwardRuleWithSingleChar", "addForwardRuleWithSingleChar",
         "(new_op r_chars r_op : Z)")
    emit("back_single_before", "addBackwardRuleWithSingleCell", "addBackwardRuleWithSingleCell",
         "(new_chars new_op r_chars r_dots r_op : Z)")
    emit("back_multi_before", "addBackwardRuleWithMultipleCells", "addBackwardRuleWithMultipleCells",
         "(new_len new_op r_len r_op : Z)")
    emit("fwd_pass_before", "addForwardPassRule", "addForwardPassRule", "(new_chars r_chars : Z)")
    emit("back_pass_before", "addBackwardPassRule", "addBackwardPassRule", "(new_chars r_chars : Z)")
    # lengths used by the multi-cell backward chain
    _, body = func(repo, "compileTranslationTable.c", "addBackwardRuleWithMultipleCells")
    txt = " ".join(show_stmt(s) for s in body)
    ok = "decl int ruleLength=(dotslen + rule->charslen);" in txt and "decl int rLength=(r->dotslen + r->charslen);" in txt
    out.append("Definition back_multi_len_is_dots_plus_chars : bool := %s.\n" % ("true" if ok else "false"))
    # definitionRule: first definition wins (forward), last wins (backward)
    _, body = func(repo, "compileTranslationTable.c", "addForwardRuleWithSingleChar")
    txt = " ".join(show_stmt(s) for s in body)
    ok = "if (character->definitionRule)" in txt and "else { character->definitionRule = ruleOffset; }" in txt
    out.append("Definition fwd_first_definition_wins : bool := %s.\n" % ("true" if ok else "false"))
    _, body = func(repo, "compileTranslationTable.c", "addBackwardRuleWithSingleCell")
    txt = " ".join(show_stmt(s) for s in body)
    ok = "if (((rule->opcode >= CTO_Space) && (rule->opcode < CTO_UpLow))) dots->definitionRule = ruleOffset;" in txt
    out.append("Definition back_last_definition_wins : bool := %s.\n" % ("true" if ok else "false"))
    out.append(passfind_facts(repo))
    out.append(rebucket_facts(repo, consts))
    return "".join(out)


def passfind_facts(repo):
    """passFindCharacters: which literal of a multipass test a rule is chained by (its length orders the pass chains)"""
    import re
    src = source(repo, "compileTranslationTable.c")
    body = cparse.find_function(src, "passFindCharacters")
    body = body if isinstance(body, str) else body[1]
    flat = " ".join(body.split())
    m = re.search(r"case pass_string: case pass_dots: \{ int count = instructions\[IC \+ 1\]; IC \+= 2; if \(([^()]*)\) \{ "
                  r"\*characters = &instructions\[IC \+ lookback\]; \*length = ([^;]*); return 1; \} else \{ lookback -= count; \} "
                  r"IC \+= count; continue; \}", flat)
    if not m:
        raise cparse.ParseError("passFindCharacters: literal case not recognised")
    m2 = re.search(r"case pass_lookback: lookback \+= instructions\[IC \+ 1\]; IC \+= 2; continue;", flat)
    if not m2:
        raise cparse.ParseError("passFindCharacters: look-back case not recognised")
    to = cparse.ToZ({"count": "count", "lookback": "lookback"})
    out = ["\n(* passFindCharacters: a literal of `count' elements is taken when this holds, with this length; otherwise the\n"
           "   pending look-back shrinks by count; a look-back instruction adds its operand to the pending look-back *)\n"]
    out.append("Definition passfind_takes (count lookback : Z) : bool := %s.\n" % to.b(cparse.parse_expr(m.group(1))))
    out.append("Definition passfind_length (count lookback : Z) : Z := %s.\n" % to.z(cparse.parse_expr(m.group(2))))
    return "".join(out)


def rebucket_facts(repo, consts):
    """finalizeTable: a case-sensitive (context) rule is moved to the bucket of its case-folded characters and linked in
    before the member r of that chain for which this holds"""
    import re
    src = source(repo, "compileTranslationTable.c")
    body = cparse.find_function(src, "finalizeTable")
    body = body if isinstance(body, str) else body[1]
    flat = " ".join(body.split())
    m = re.search(r"while \(\*insert_at\) \{ TranslationTableRule \*r = \(TranslationTableRule \*\)&table->ruleArea\[\*insert_at\]; "
                  r"if \(((?:[^()]|\([^()]*\))*)\) break; else if \(((?:[^()]|\([^()]*\))*)\) break; insert_at = &r->charsnext; \}", flat)
    if not m:
        raise cparse.ParseError("finalizeTable: rebucketing loop not recognised")
    if not re.search(r"if \(rule->opcode == CTO_Context\) \{ unsigned long int hash = _lou_stringHash\(&rule->charsdots\[0\], 1, table\);", flat):
        raise cparse.ParseError("finalizeTable: only context rules are expected to be moved")
    to = cparse.ToZ({"rule->charslen": "new_len", "r->charslen": "r_len", "rule->opcode": "new_op", "r->opcode": "r_op"}, consts)
    c1, c2 = to.b(cparse.parse_expr(m.group(1))), to.b(cparse.parse_expr(m.group(2)))
    return ("\n(* finalizeTable: a context rule moved to the bucket of its case-folded characters is linked in before chain member r\n"
            "   when this holds *)\nDefinition rebucket_before (new_len new_op r_len r_op : Z) : bool :=\n  (%s) || (%s).\n" % (c1, c2))
