From Coq Require Import List ZArith Bool Lia String.
From Lou Require Import Gen.GConst Gen.GFinish.
Import ListNotations.
Local Open Scope Z_scope.

(* finite sweeps over all values below a bound, lifted to universally quantified statements *)
Fixpoint below_aux (fuel : nat) (c : Z) (p : Z -> bool) : bool :=
  match fuel with
  | O => true
  | S f => p c && below_aux f (c + 1) p
  end.
Definition allbelow (n : Z) (p : Z -> bool) : bool := below_aux (Z.to_nat n) 0 p.

Lemma below_aux_spec : forall fuel c p, below_aux fuel c p = true ->
  forall k, c <= k < c + Z.of_nat fuel -> p k = true.
Proof.
  induction fuel as [|f IH]; intros c p H k Hk; [lia|].
  cbn [below_aux] in H. apply andb_prop in H. destruct H as [H1 H2].
  destruct (Z.eq_dec k c) as [->|Hne]; [exact H1|].
  apply (IH (c + 1) p H2). lia.
Qed.

Lemma allbelow_spec : forall n p, allbelow n p = true -> forall c, 0 <= c < n -> p c = true.
Proof.
  intros n p H c Hc. apply (below_aux_spec _ _ _ H). rewrite Z2Nat.id by lia. lia.
Qed.

Notation all16 := (allbelow 65536).
Lemma all16_spec : forall p, all16 p = true -> forall c, 0 <= c < 65536 -> p c = true.
Proof. intros p H. apply allbelow_spec. exact H. Qed.

Lemma ucbrl_sweep : all16 (fun c => out_ucbrl c =? 10240 + c mod 256) = true.
Proof. vm_compute. reflexivity. Qed.

Lemma ucbrl_low8_l : forall c, 0 <= c < 65536 -> out_ucbrl c = LOU_ROW_BRAILLE + c mod 256.
Proof. intros c Hc. apply Z.eqb_eq. exact (all16_spec _ ucbrl_sweep c Hc). Qed.

Lemma dots_raw_l : forall c, out_dots c = c.
Proof. reflexivity. Qed.

Lemma tf_sweep : all16 (fun c => Bool.eqb (typeform_has_dot78 c) (Z.testbit c 6 || Z.testbit c 7)) = true.
Proof. vm_compute. reflexivity. Qed.

Lemma typeform_iff_l : forall c, 0 <= c < 65536 ->
  typeform_has_dot78 c = (Z.testbit c 6 || Z.testbit c 7).
Proof. intros c Hc. apply Bool.eqb_prop. exact (all16_spec _ tf_sweep c Hc). Qed.

Lemma marks_l : typeform_mark_set = 56 /\ typeform_mark_clear = 48.
Proof. split; reflexivity. Qed.

Lemma d2c_sweep : allbelow 256 (fun low =>
    d2c_is_unicode (LOU_ROW_BRAILLE + low) && (d2c_from_unicode (LOU_ROW_BRAILLE + low) =? LOU_DOTS + low)) = true.
Proof. vm_compute. reflexivity. Qed.

Lemma d2c_unicode_l : forall low, 0 <= low < 256 ->
  d2c_is_unicode (LOU_ROW_BRAILLE + low) = true /\ d2c_from_unicode (LOU_ROW_BRAILLE + low) = LOU_DOTS + low.
Proof.
  intros low H. pose proof (allbelow_spec 256 _ d2c_sweep low H) as S. cbv beta in S.
  apply andb_prop in S. destruct S as [S1 S2]. split; [exact S1|apply Z.eqb_eq; exact S2].
Qed.

Lemma flagged_not_unicode_sweep : all16 (fun c => negb (negb (Z.land c LOU_DOTS =? 0)) || negb (d2c_is_unicode c)) = true.
Proof. vm_compute. reflexivity. Qed.

Lemma back_sweep : allbelow 256 (fun low =>
    (back_decode_dots (LOU_ROW_BRAILLE + low) =? LOU_DOTS + low) && (back_decode_dots (LOU_DOTS + low) =? LOU_DOTS + low)) = true.
Proof. vm_compute. reflexivity. Qed.

Lemma back_unicode_l : forall low, 0 <= low < 256 ->
  back_decode_dots (LOU_ROW_BRAILLE + low) = LOU_DOTS + low /\ back_decode_dots (LOU_DOTS + low) = LOU_DOTS + low.
Proof.
  intros low H. pose proof (allbelow_spec 256 _ back_sweep low H) as S. cbv beta in S.
  apply andb_prop in S. destruct S as [S1 S2]. split; apply Z.eqb_eq; assumption.
Qed.

Local Open Scope string_scope.
Definition encoding_functions : list string :=
  ["_lou_translate"; "_lou_backTranslate"; "lou_charToDots"; "lou_dotsToChar"].

Fixpoint contains (sub s : string) : bool :=
  match s with
  | EmptyString => match sub with EmptyString => true | _ => false end
  | String _ s' => if prefix sub s then true else contains sub s'
  end.

Definition mentions_encoding_bit (mask : string) : bool := contains "dotsIO" mask || contains "ucBrl" mask.

Lemma mode_tests_ok_l :
  forallb (fun site => let '(_, fn, mask) := site in
             negb (mentions_encoding_bit mask) || existsb (String.eqb fn) encoding_functions) mode_tests = true.
Proof. vm_compute. reflexivity. Qed.

Lemma shape_l :
  out_default_is_display_lookup = true /\ unmapped_cell_logs_error_and_returns_0 = true /\
  back_decode_default_is_display_lookup = true /\ c2d_ucbrl_is_low8_in_row = true.
Proof. repeat split; reflexivity. Qed.
