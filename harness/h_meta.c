/* H7: metadata queries.
 *  I <path> <path> ...     lou_indexTables (silent)
 *  Q <query>               prints "Q <findTable or -> | <findTables...>"
 *  G <table> <key>         prints "G <value or ->"
 */
#include "tbl.h"
int
main(void) {
	lou_registerLogCallback(h_quietlog);
	while (fgets(h_line, H_LINE, stdin)) {
		size_t L = strlen(h_line);
		while (L && (h_line[L - 1] == '\n' || h_line[L - 1] == '\r')) h_line[--L] = 0;
		if (h_line[0] == 'I') {
			const char *t[4096];
			int n = 0;
			char *p = strtok(h_line + 1, " ");
			while (p && n < 4095) {
				t[n++] = p;
				p = strtok(NULL, " ");
			}
			t[n] = NULL;
			lou_indexTables(t);
		} else if (h_line[0] == 'Q') {
			char *one = lou_findTable(h_line + 2);
			char **all = lou_findTables(h_line + 2);
			printf("Q %s |", one ? one : "-");
			if (one) free(one);
			if (all) {
				int k;
				for (k = 0; all[k]; k++) {
					printf(" %s", all[k]);
					free(all[k]);
				}
				free(all);
			}
			printf("\n");
		} else if (h_line[0] == 'G') {
			char *sp = strrchr(h_line, ' ');
			char *v;
			*sp = 0;
			v = lou_getTableInfo(h_line + 2, sp + 1);
			printf("G %s\n", v ? v : "-");
			if (v) free(v);
		}
		fflush(stdout);
	}
	return 0;
}
