"""G8: log filtering facts (logging.c) and the inventory of formatted-message call sites."""
import re
from pathlib import Path
import cparse
from g_common import *

NAME = "GLog"


def generate(repo):
    src = source(repo, "logging.c")
    hdr = (Path(repo) / "liblouis" / "liblouis.h.in").read_text()
    levels = enum_values(cparse.strip_comments(hdr), "LOU_LOG_")
    want = ["LOU_LOG_ALL", "LOU_LOG_DEBUG", "LOU_LOG_INFO", "LOU_LOG_WARN", "LOU_LOG_ERROR", "LOU_LOG_FATAL", "LOU_LOG_OFF"]
    for w in want:
        if w not in levels:
            raise cparse.ParseError("missing " + w)
    out = [HEADER]
    for w in want:
        out.append("Definition %s : Z := %d.\n" % (w, levels[w]))
    out.append("Definition log_levels : list Z := [%s].\n\n" % "; ".join(want))
    # _lou_logMessage: leading early returns
    _, body = func(repo, "logging.c", "_lou_logMessage")
    conds = []
    rest = None
    for i, st in enumerate(body):
        if st[0] == "if" and st[3] is None and st[2] in (("return", None), ("block", [("return", None)])):
            conds.append(st[1])
        else:
            rest = body[i:]
            break
    lvl_conds = [c for c in conds if "level" in cparse.show_c(c)]
    other = [c for c in conds if c not in lvl_conds]
    pr = cparse.ToZ({"level": "level", "logLevel": "threshold"})
    if not lvl_conds:
        sup = "false"
    else:
        sup = " || ".join(pr.b(c) for c in lvl_conds)
    out.append("(* _lou_logMessage returns early, before the sink is called, when this holds *)\n")
    out.append("Definition log_suppressed (level threshold : Z) : bool := %s.\n" % sup)
    out.append("(* other early returns: %s *)\n" % "; ".join(cparse.show_c(c) for c in other))
    # the sink call passes level and the formatted text
    calls = []
    walk_stmts(rest or [], lambda st: [walk_expr(e, lambda x: calls.append(x) if x[0] == "call" and cparse.show_c(x[1]) == "logCallbackFunction" else None) for e in stmt_exprs(st)])
    ok_call = len(calls) == 1 and len(calls[0][2]) == 2 and cparse.show_c(calls[0][2][0]) == "level"
    out.append("Definition log_sink_called_once_with_level : bool := %s.\n" % ("true" if ok_call else "false"))
    # the formatting: vsnprintf(s, len + 1, format, argp)
    fmt_ok = "vsnprintf(s, (len + 1), format, argp)" in " ".join(cparse.show_c(e) for st in flatten(rest or []) for e in stmt_exprs(st))
    out.append("Definition log_text_is_vsnprintf_of_format : bool := %s.\n" % ("true" if fmt_ok else "false"))
    # default level / sink
    m = re.search(r"static\s+logLevels\s+logLevel\s*=\s*(\w+)\s*;", src)
    if not m:
        raise cparse.ParseError("logLevel initialiser")
    out.append("Definition log_default_level : Z := %s.\n" % m.group(1))
    m = re.search(r"static\s+logcallback\s+logCallbackFunction\s*=\s*(\w+)\s*;", src)
    out.append("Definition log_initial_sink_is_default : bool := %s.\n" % ("true" if m and m.group(1) == "defaultLogCallback" else "false"))
    _, body = func(repo, "logging.c", "lou_registerLogCallback")
    txt = " ".join(show_stmt(st) for st in body)
    reg_ok = txt == "if ((callback == NULL)) logCallbackFunction = defaultLogCallback; else logCallbackFunction = callback;"
    out.append("Definition log_register_null_restores_default : bool := %s.\n" % ("true" if reg_ok else "false"))
    out.append("(* lou_registerLogCallback: %s *)\n" % txt)
    _, body = func(repo, "logging.c", "lou_setLogLevel")
    txt = " ".join(show_stmt(st) for st in body)
    out.append("Definition log_setlevel_assigns : bool := %s.\n" % ("true" if txt == "logLevel = level;" else "false"))
    _, body = func(repo, "logging.c", "defaultLogCallback")
    txt = " ".join(show_stmt(st) for st in body)
    out.append("Definition log_default_sink_passes_message_as_argument : bool := %s.\n" % ("true" if txt == 'lou_logPrint("%s", message);' else "false"))
    out.append("(* defaultLogCallback: %s *)\n\n" % txt.replace("*)", "* )"))
    # call sites of the formatting entry points: is the format argument a string literal?
    sites = []
    fmt_arg = {"_lou_logMessage": 1, "compileError": 1, "compileWarning": 1, "lou_logPrint": 0}
    for f in sorted((Path(repo) / "liblouis").glob("*.c")):
        if f.name == "maketable.c":
            continue
        s = source(repo, f.name)
        for fn, ai in fmt_arg.items():
            for m in re.finditer(r"\b%s\s*\(" % fn, s):
                p0 = s.index("(", m.start())
                p1 = cparse.match_brace(s, p0, "(", ")")
                # skip definitions/prototypes
                if re.search(r"const\s+char\s*\*\s*format", s[p0:p1]):
                    continue
                try:
                    e = cparse.parse_expr(s[m.start():p1 + 1], TYPENAMES)
                except cparse.ParseError:
                    sites.append((f.name, fn, s.count("\n", 0, m.start()) + 1, False, "unparsed"))
                    continue
                if e[0] != "call" or len(e[2]) <= ai:
                    continue
                a = e[2][ai]
                lit = a[0] == "str" or (a[0] == "cond" and a[2][0] == "str" and a[3][0] == "str")
                sites.append((f.name, fn, s.count("\n", 0, m.start()) + 1, lit, cparse.show_c(a)[:60]))
    out.append("(* every call of a printf-style logging entry point: (file, function, format-is-a-literal) *)\n")
    out.append("Definition log_call_sites : list (string * string * bool) := [\n")
    out.append(";\n".join("  (%s, %s, %s)" % (coq_string(f), coq_string(fn), "true" if lit else "false") for f, fn, ln, lit, a in sites))
    out.append("\n].\n")
    bad = [x for x in sites if not x[3]]
    out.append("(* non-literal formats: %s *)\n" % ("; ".join("%s:%s %s" % (x[0], x[1], x[4]) for x in bad).replace("*)", "* )") or "none"))
    return "".join(out)


def flatten(items):
    acc = []
    walk_stmts(items, acc.append)
    return acc


def show_stmt(st):
    k = st[0]
    if k == "expr":
        return cparse.show_c(st[1]) + ";"
    if k == "if":
        return "if (%s) %s%s" % (cparse.show_c(st[1]), show_stmt(st[2]), (" else " + show_stmt(st[3])) if st[3] else "")
    if k == "block":
        return "{ " + " ".join(show_stmt(x) for x in st[1]) + " }"
    if k == "return":
        return "return%s;" % ((" " + cparse.show_c(st[1])) if st[1] is not None else "")
    if k == "decl":
        return "decl %s %s;" % (st[1], ",".join(d[0] + ("=" + cparse.show_c(d[2]) if d[2] and d[2][0] != "initlist" else "") for d in st[2]))
    if k == "for":
        return "for (%s; %s; %s) %s" % (show_stmt(st[1]) if st[1] else "", cparse.show_c(st[2]) if st[2] else "", cparse.show_c(st[3]) if st[3] else "", show_stmt(st[4]))
    if k == "while":
        return "while (%s) %s" % (cparse.show_c(st[1]), show_stmt(st[2]))
    if k == "dowhile":
        return "do %s while (%s);" % (show_stmt(st[2]), cparse.show_c(st[1]))
    if k == "switch":
        return "switch (%s) { %s }" % (cparse.show_c(st[1]), " ".join("case %s: %s" % ("/".join(l if isinstance(l, str) else cparse.show_c(l) for l in labs), " ".join(show_stmt(b) for b in body)) for labs, body in st[2]))
    if k in ("break", "continue", "empty"):
        return k + ";" if k != "empty" else ";"
    if k == "goto":
        return "goto %s;" % st[1]
    if k == "label":
        return st[1] + ":"
    return str(st)
