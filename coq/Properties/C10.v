(* C10 — optional output arguments do not perturb the translation (fragment F).  Statements only. *)
From Coq Require Import List ZArith Bool.
From Lou Require Import Gen.GConst Gen.GEmit Model.Table Model.Ref Model.Compile Model.Engine Model.EngineObs Proofs.ObsProofs.
Import ListNotations.
Local Open Scope Z_scope.

(* whatever is carried along and updated at the emissions - of ANY type, with ANY update function
   and ANY initial value - the cells, positions, consumed length and rule trace are the same *)
Theorem observers_are_inert : forall (Ob : Type) (upd : tstate -> list Z -> Z -> Ob -> Ob) t sel inp cap o0,
  run_o Ob upd t sel inp cap o0 = run t sel inp cap.
Proof. exact run_o_eq. Qed.
Print Assumptions observers_are_inert.

(* in particular the cursor bookkeeping of for_updatePositions, from any cursor and status *)
Theorem cursor_is_inert : forall t mode inp cap cursor status,
  run_o (Z * Z) (cursor_upd inp) t (select_ref t mode) inp cap (cursor, status) = translate_ref t mode inp cap.
Proof. intros. apply run_o_eq. Qed.
Print Assumptions cursor_is_inert.

(* the regenerated emission guard is a function of lengths and positions only (no cursor): it is
   literally the capacity and input-length test *)
Theorem emission_guard_ignores_cursor : forall out_len out_n maxlen pos in_n in_len,
  fwd_emit_rejects out_len out_n maxlen pos in_n in_len = ((out_len + out_n >? maxlen) || (pos + in_n >? in_len)).
Proof. reflexivity. Qed.

(* non-vacuity: the observer really changes along the way *)
Example cursor_moves :
  let t := [ mkEntry CTO_Letter [97] [32769; 32770] false false ] in
  run_o (Z * Z) (fun s d k c => cursor_upd [97; 97] s d k c) t (select_ref t 0) [97; 97] 10 (1, 0)
  = translate_ref t 0 [97; 97] 10.
Proof. vm_compute. reflexivity. Qed.
