"""G9: error accounting of the table compiler."""
import re
import cparse
from g_common import *
from g_log import show_stmt

NAME = "GErrors"


def generate(repo):
    src = source(repo, "compileTranslationTable.c")
    out = [HEADER]
    sites = []
    for fn, body in cparse.list_functions(src):
        for m in re.finditer(r"errorCount\s*\+\+|\+\+\s*errorCount|errorCount\s*\+=", body):
            before = body[max(0, m.start() - 700):m.start()]
            # the statements of the same block before the increment
            cut = max(before.rfind("{"), before.rfind("}"))
            ctx = before[cut + 1:] if cut >= 0 else before
            whole = before[-700:]
            paired = (fn == "compileError") or ("LOU_LOG_ERROR" in ctx) or \
                     ("_lou_resolveTable" in whole[-260:])   # the resolver logs "Cannot resolve table" itself
            sites.append((fn, paired))
    out.append("(* every increment of the compiler's error counter: (function, an error-level message is logged with it) *)\n")
    out.append("Definition error_increments : list (string * bool) := [\n")
    out.append(";\n".join("  (%s, %s)" % (coq_string(f), "true" if p else "false") for f, p in sites))
    out.append("\n].\n\n")
    _, body = func(repo, "compileTranslationTable.c", "compileError")
    txt = " ".join(show_stmt(s) for s in body)
    out.append("Definition compileError_logs_at_error_level_and_counts : bool := %s.\n" % (
        "true" if "_lou_logMessage(LOU_LOG_ERROR" in txt and "errorCount++;" in txt else "false"))
    _, body = func(repo, "compileTranslationTable.c", "compileFile")
    txt = " ".join(show_stmt(s) for s in body)
    out.append("Definition compileFile_returns_not_errorCount : bool := %s.\n" % ("true" if txt.rstrip().endswith("return !errorCount;") else "false"))
    out.append("Definition failed_rule_without_message_gets_one : bool := %s.\n" % (
        "true" if 'if (!compileRule(&file, table, displayTable, &inscopeMacros)) { if (!errorCount) compileError(&file, "Rule could not be compiled"); break; }' in txt else "false"))
    out.append("Definition unopenable_file_logs_and_counts : bool := %s.\n" % (
        "true" if '_lou_logMessage(LOU_LOG_ERROR, "Cannot open table \'%s\'", file.fileName); errorCount++;' in txt else "false"))
    _, body = func(repo, "compileTranslationTable.c", "compileTable")
    txt = " ".join(show_stmt(s) for s in body)
    out.append("Definition compileTable_resets_counters_at_entry : bool := %s.\n" % ("true" if "errorCount = warningCount = fileCount = 0;" in txt else "false"))
    ok = re.search(r"if \(!errorCount\) \{ if \(translationTable\) setDefaults\(\*translationTable\); return 1; \} else \{ _lou_logMessage\(LOU_LOG_ERROR, \"%d errors found\.\", errorCount\);", txt) is not None
    out.append("Definition compileTable_succeeds_iff_no_error_and_logs_on_failure : bool := %s.\n" % ("true" if ok else "false"))
    free_ok = "if (*translationTable) freeTranslationTable(*translationTable); *translationTable = NULL;" in txt and \
        "if (*displayTable) freeDisplayTable(*displayTable); *displayTable = NULL;" in txt and txt.rstrip().endswith("return 0; }")
    out.append("Definition compileTable_frees_partial_tables_on_failure : bool := %s.\n" % ("true" if free_ok else "false"))
    return "".join(out)
