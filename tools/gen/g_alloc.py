"""G2: the scratch-buffer sizing plan of _lou_allocMem and the arguments of its call sites."""
import re
import cparse
from g_common import *
from g_log import show_stmt

NAME = "GAlloc"

KINDS = ["alloc_typebuf", "alloc_wordBuffer", "alloc_emphasisBuffer", "alloc_destSpacing", "alloc_passbuf",
         "alloc_posMapping1", "alloc_posMapping2", "alloc_posMapping3"]


def find_alloc(stmts, env):
    """Symbolically walk the statements of one switch arm; returns (size_expr_in_elements, grow_only_cond)."""
    found = []

    def subst(e):
        k = e[0]
        if k == "var" and e[1] in env:
            return env[e[1]]
        if k in ("bin",):
            return (k, e[1], subst(e[2]), subst(e[3]))
        if k == "un":
            return (k, e[1], subst(e[2]))
        if k == "cond":
            return (k, subst(e[1]), subst(e[2]), subst(e[3]))
        if k == "cast":
            return subst(e[2])
        return e

    def go(items, cond):
        for st in items:
            k = st[0]
            if k == "block":
                go(st[1], cond)
            elif k == "decl":
                for name, dims, init in st[2]:
                    if init is not None and init[0] != "initlist":
                        env[name] = subst(init)
            elif k == "expr":
                e = st[1]
                if e[0] == "assign" and e[1] == "=" and e[2][0] == "var" and e[2][1] in ("mapSize", "size"):
                    env[e[2][1]] = subst(e[3])
                    continue
                calls = []
                walk_expr(e, lambda x: calls.append(x) if x[0] == "call" and cparse.show_c(x[1]) in ("malloc", "calloc") else None)
                for c in calls:
                    if cparse.show_c(c[1]) == "calloc":
                        n = subst(c[2][0])
                    else:
                        a = c[2][0]
                        # (X + 4) * sizeof(T)  or  X + 4
                        if a[0] == "bin" and a[1] == "*" and (a[3][0] == "sizeof" or cparse.show_c(a[3]) == "CHARSIZE"):
                            n = subst(a[2])
                        else:
                            n = subst(a)
                    found.append((n, cond))
            elif k == "if":
                c = st[1]
                # if/else assigning the same variable -> conditional expression
                if st[3] is not None:
                    a, b = st[2], st[3]
                    sa = a[1][0] if a[0] == "block" and len(a[1]) == 1 else a
                    sb = b[1][0] if b[0] == "block" and len(b[1]) == 1 else b
                    if sa[0] == "expr" and sb[0] == "expr" and sa[1][0] == "assign" and sb[1][0] == "assign" and \
                            cparse.show_c(sa[1][2]) == cparse.show_c(sb[1][2]):
                        env[cparse.show_c(sa[1][2])] = ("cond", subst(c), subst(sa[1][3]), subst(sb[1][3]))
                        continue
                go([st[2]], subst(c) if cond is None else cond)
                if st[3] is not None:
                    go([st[3]], cond)
    go(stmts, None)
    return found


def generate(repo):
    _, body = func(repo, "compileTranslationTable.c", "_lou_allocMem")
    out = [HEADER]
    floors = {}
    sw = None
    for st in body:
        if st[0] == "if" and st[3] is None and st[2][0] == "expr" and st[2][1][0] == "assign":
            c, a = st[1], st[2][1]
            m = re.match(r"\((\w+) < (\d+)\)", cparse.show_c(c))
            if m and cparse.show_c(a[2]) == m.group(1) and cparse.show_c(a[3]) == m.group(2):
                floors[m.group(1)] = int(m.group(2))
                continue
            raise cparse.ParseError("unexpected leading statement: " + show_stmt(st))
        elif st[0] == "switch":
            sw = st
        elif st[0] in ("decl", "empty"):
            continue
        else:
            raise cparse.ParseError("unexpected statement in _lou_allocMem: " + show_stmt(st)[:80])
    if sw is None or set(floors) != {"srcmax", "destmax"}:
        raise cparse.ParseError("_lou_allocMem shape")
    out.append("Definition alloc_floor_src : Z := %d.\nDefinition alloc_floor_dest : Z := %d.\n\n" % (floors["srcmax"], floors["destmax"]))
    pr = cparse.ToZ({"srcmax": "srcmax", "destmax": "destmax"})
    sizes = {}
    for labs, stmts in sw[2]:
        for lab in labs:
            if lab == "default":
                continue
            name = cparse.show_c(lab)
            if name not in KINDS:
                raise cparse.ParseError("unknown buffer kind " + name)
            found = find_alloc(stmts, {})
            if len(found) != 1:
                raise cparse.ParseError("%s: expected one allocation, found %d" % (name, len(found)))
            n, cond = found[0]
            sizes[name] = (pr.z(n), None if cond is None else cparse.show_c(cond))
    for k in KINDS:
        if k not in sizes:
            raise cparse.ParseError("no arm for " + k)
        out.append("(* %s: elements allocated (after the floors)%s *)\n" % (k, "; reallocated only when %s" % sizes[k][1] if sizes[k][1] else "; reallocated on every request"))
        out.append("Definition size_%s (srcmax destmax : Z) : Z := %s.\n" % (k[6:], sizes[k][0]))
    out.append("\n")
    # call sites
    sites = []
    for fname in ("lou_translateString.c", "lou_backTranslateString.c"):
        src = source(repo, fname)
        for m in re.finditer(r"_lou_allocMem\s*\(", src):
            p0 = src.index("(", m.start())
            p1 = cparse.match_brace(src, p0, "(", ")")
            e = cparse.parse_expr(src[m.start():p1 + 1], TYPENAMES)
            args = [cparse.show_c(a) for a in e[2]]
            sites.append((fname, args))
    out.append("(* call sites: (file, buffer, index, srcmax argument, destmax argument) *)\n")
    out.append("Definition alloc_call_sites : list (string * string * string * string * string) := [\n")
    out.append(";\n".join("  (%s, %s, %s, %s, %s)" % tuple(coq_string(x) for x in [f] + a) for f, a in sites))
    out.append("\n].\n\n")
    # the two getStringBuffer/allocStringBuffer wrappers must pass (index, 0, length)
    ok = all(a[0] != "alloc_passbuf" or a[1:] == ["index", "0", "length"] for f, a in sites)
    out.append("Definition passbuf_sized_by_requested_length : bool := %s.\n" % ("true" if ok else "false"))

    def has(f, a):
        return (f, a) in sites
    fw = "lou_translateString.c"
    bw = "lou_backTranslateString.c"
    exp_fw = [["alloc_typebuf", "0", "input.length", "*outlen"], ["alloc_posMapping1", "0", "input.length", "*outlen"],
              ["alloc_posMapping2", "0", "input.length", "*outlen"], ["alloc_posMapping3", "0", "input.length", "*outlen"],
              ["alloc_destSpacing", "0", "input.length", "*outlen"], ["alloc_wordBuffer", "0", "input.length", "*outlen"],
              ["alloc_emphasisBuffer", "0", "input.length", "*outlen"]]
    exp_bw = [["alloc_posMapping1", "0", "input.length", "*outlen"], ["alloc_posMapping2", "0", "input.length", "*outlen"],
              ["alloc_posMapping3", "0", "input.length", "*outlen"]]
    out.append("Definition forward_buffers_sized_by_inlen_outlen : bool := %s.\n" % ("true" if all(has(fw, a) for a in exp_fw) else "false"))
    out.append("Definition backward_maps_sized_by_inlen_outlen : bool := %s.\n" % ("true" if all(has(bw, a) for a in exp_bw) else "false"))
    # string buffer requests
    reqs = []
    for fname in (fw, bw):
        src = source(repo, fname)
        for m in re.finditer(r"getStringBuffer\s*\(([^()]*)\)\s*;", src):
            reqs.append((fname, m.group(1).strip()))
    out.append("(* getStringBuffer requests: %s *)\n" % "; ".join("%s:%s" % r for r in reqs))
    okf = all(a == "*outlen" for f, a in reqs if f == fw)
    okb = sorted(a for f, a in reqs if f == bw) == sorted(["srcmax", "*outlen", "*outlen"])
    out.append("Definition forward_pass_buffers_requested_with_outlen : bool := %s.\n" % ("true" if okf else "false"))
    out.append("Definition backward_pass_buffers_requested_with_inlen_then_outlen : bool := %s.\n" % ("true" if okb else "false"))
    return "".join(out)
