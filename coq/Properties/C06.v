(* C06 — passes run in the documented order and compose (literal rules).  Statements only. *)
From Coq Require Import List ZArith Bool Permutation.
From Lou Require Import Gen.GConst Gen.GChain Model.Table Model.Ref Model.Compile Model.Engine Model.Pass Model.BackPass.
From Lou Require Import Proofs.PassProofs.
Import ListNotations.
Local Open Scope Z_scope.

(* the pass chain built with the insertion condition REGENERATED from addForwardPassRule is the
   rule list ordered by decreasing literal length, then definition order *)
Theorem chain_is_a_permutation : forall rules, Permutation (pass_chain rules) rules.
Proof. exact PassProofs.chain_perm_l. Qed.

Theorem chain_order : forall rules i j,
  (forall a b, (a < b < length rules)%nat -> p_idx (nth a rules (mkPR 0 [] AOmit)) < p_idx (nth b rules (mkPR 0 [] AOmit))) ->
  (i < j < length (pass_chain rules))%nat ->
  let ri := nth i (pass_chain rules) (mkPR 0 [] AOmit) in
  let rj := nth j (pass_chain rules) (mkPR 0 [] AOmit) in
  litlen ri > litlen rj \/ (litlen ri = litlen rj /\ p_idx ri < p_idx rj).
Proof. exact PassProofs.chain_order_l. Qed.
Print Assumptions chain_order.

(* the scanner applies the FIRST rule of the chain whose test matches at the position *)
Theorem first_matching_rule : forall inp chain pos r m,
  find_rule inp chain pos = Some (r, m) ->
  exists pre post, chain = pre ++ r :: post /\ pass_test inp r pos = Some m /\
                   forall r', In r' pre -> pass_test inp r' pos = None.
Proof. exact PassProofs.find_rule_first_l. Qed.
Print Assumptions first_matching_rule.

Theorem no_rule_matches : forall inp chain pos,
  find_rule inp chain pos = None -> forall r, In r chain -> pass_test inp r pos = None.
Proof. exact PassProofs.find_rule_none_l. Qed.

(* an accepted match never lies before the position and its three ranges are nested in order *)
Theorem match_shape : forall inp r pos m, pass_test inp r pos = Some m ->
  m_start m = pos /\ pos <= m_sr m /\ m_sr m <= m_er m /\ m_er m <= len inp /\ 0 <= m_end m <= len inp.
Proof. exact PassProofs.match_shape_l. Qed.
Print Assumptions match_shape.

(* only the bracketed part is replaced: with enough room, a literal action emits the matched
   prefix verbatim, then the replacement, and continues right after the bracketed part *)
Theorem literal_action_replaces_only_the_bracketed_part : forall inp cap r m out pm cs,
  p_act r = ALit cs -> 0 <= m_start m -> m_start m <= m_sr m -> m_sr m <= len inp ->
  len out + (m_sr m - m_start m) + len cs <= cap ->
  do_action inp cap r m out pm =
    (out ++ slice inp (m_start m) (m_sr m) ++ cs,
     pm ++ zrange (m_start m) (m_sr m) ++ repeat (m_sr m) (length cs),
     Some (m_er m)).
Proof. exact PassProofs.literal_action_l. Qed.

(* position-map composition is composition: entry k of the composed map is the previous map at
   the stage's entry k *)
Theorem composition_is_composition : forall prev stage k, (k < length stage)%nat -> 0 <= nth k stage 0 ->
  nth k (compose_fwd prev stage) 0 = nth_z prev (nth k stage 0).
Proof. exact PassProofs.compose_nth_l. Qed.

(* stage order of the forward driver: without correct rules and without pass2-4 rules the driver
   is the main pass alone; stages that the table does not have are not run *)
Theorem driver_main_only : forall t mode inp cap,
  forward (mkPT t [] [] [] [] false 1) mode inp cap =
  match translate_ref t mode inp cap with
  | TOk consumed cells pm tr => DOk consumed cells pm tr
  | TUnsupported => DUnsupported
  | TOutOfFuel => DOutOfFuel
  end.
Proof. exact PassProofs.driver_main_only_l. Qed.
Print Assumptions driver_main_only.

(* a stage with no rules is the identity on what fits: it copies elements one by one *)
Theorem empty_stage_copies : forall kind is_space inp cap, len inp <= cap -> 0 <= cap ->
  run_stage kind [] is_space inp cap = SOk (len inp) inp (zrange 0 (len inp)) [].
Proof. exact PassProofs.empty_stage_l. Qed.
Print Assumptions empty_stage_copies.

(* which literal orders the chains: the REGENERATED selection of passFindCharacters is the reference's (the first literal
   that is longer than the look-back pending in front of it, counted from behind that look-back) *)
Theorem chaining_literal_is_the_reference : forall count lookback,
  passfind_takes count lookback = (count >? lookback) /\ passfind_length count lookback = count - lookback.
Proof. exact PassProofs.passfind_is_the_reference_l. Qed.
Print Assumptions chaining_literal_is_the_reference.
