From Coq Require Import List NArith Bool.
From Lou Require Import Model.ResolveDefs Gen.GResolve Model.Resolve.
Import ListNotations.
Local Open Scope N_scope.

Section P.
  Variable ex : path -> bool.

  Lemma resolve_first_existing : forall t b sp, t <> [] ->
    resolve_sub ex t b sp = find ex (candidates t b sp).
  Proof. intros t b sp H. destruct t; [contradiction|reflexivity]. Qed.

  (* the order of the candidates, as generated from the current source *)
  Lemma candidates_shape : forall t b sp,
    candidates t (Some b) sp =
      (dirpart b ++ t) :: t :: match sp with [] => [] | _ => path_cands (split_commas sp) t end.
  Proof. reflexivity. Qed.

  Lemma candidates_shape_nobase : forall t sp,
    candidates t None sp = t :: match sp with [] => [] | _ => path_cands (split_commas sp) t end.
  Proof. reflexivity. Qed.

  Lemma base_dir_first_l : forall t b sp, t <> [] ->
    ex (dirpart b ++ t) = true -> resolve_sub ex t (Some b) sp = Some (dirpart b ++ t).
  Proof.
    intros t b sp Ht H. rewrite resolve_first_existing by exact Ht.
    rewrite candidates_shape. cbn [find]. rewrite H. reflexivity.
  Qed.

  Lemma as_given_next_l : forall t b sp, t <> [] ->
    ex (dirpart b ++ t) = false -> ex t = true -> resolve_sub ex t (Some b) sp = Some t.
  Proof.
    intros t b sp Ht H1 H2. rewrite resolve_first_existing by exact Ht.
    rewrite candidates_shape. cbn [find]. rewrite H1, H2. reflexivity.
  Qed.

  Lemma as_given_first_nobase_l : forall t sp, t <> [] ->
    ex t = true -> resolve_sub ex t None sp = Some t.
  Proof.
    intros t sp Ht H. rewrite resolve_first_existing by exact Ht.
    rewrite candidates_shape_nobase. cbn [find]. rewrite H. reflexivity.
  Qed.

  (* two search-path directories d1,d2 (d2 last): candidates in listed order *)
  Lemma two_dirs_cands : forall t d1 d2,
    path_cands [d1; d2] t =
      [fix_dir d1 ++ [sep] ++ t;
       fix_dir d1 ++ [sep] ++ [108; 105; 98; 108; 111; 117; 105; 115; 47; 116; 97; 98; 108; 101; 115] ++ [sep] ++ t;
       fix_dir d2 ++ [sep] ++ t].
  Proof. reflexivity. Qed.

  Lemma find_app_none : forall (l1 l2 : list path), find ex l1 = None -> find ex (l1 ++ l2) = find ex l2.
  Proof. induction l1 as [|x l1 IH]; intros l2 H; [reflexivity|]. cbn [find app] in *. destruct (ex x); [discriminate|]. apply IH; exact H. Qed.

  Lemma find_app_some : forall (l1 l2 : list path) p, find ex l1 = Some p -> find ex (l1 ++ l2) = Some p.
  Proof. induction l1 as [|x l1 IH]; intros l2 p H; [discriminate|]. cbn [find app] in *. destruct (ex x); [exact H|]. apply IH; exact H. Qed.

  (* earlier search-path directories win over later ones, for any number of directories *)
  Lemma path_in_order_l : forall t b sp, t <> [] -> sp <> [] ->
    ex (dirpart b ++ t) = false -> ex t = false ->
    resolve_sub ex t (Some b) sp = find ex (path_cands (split_commas sp) t).
  Proof.
    intros t b sp Ht Hsp H1 H2. rewrite resolve_first_existing by exact Ht.
    rewrite candidates_shape. cbn [find]. rewrite H1, H2. destruct sp; [contradiction|reflexivity].
  Qed.

  Lemma path_cands_cons : forall d d' ds t,
    path_cands (d :: d' :: ds) t = loop_cands resolve_loop t (fix_dir d) false ++ path_cands (d' :: ds) t.
  Proof. reflexivity. Qed.

  Lemma earlier_dir_wins_l : forall d d' ds t p,
    find ex (loop_cands resolve_loop t (fix_dir d) false) = Some p ->
    find ex (path_cands (d :: d' :: ds) t) = Some p.
  Proof. intros. rewrite path_cands_cons. apply find_app_some; assumption. Qed.

  Lemma later_dir_only_if_earlier_absent_l : forall d d' ds t,
    find ex (loop_cands resolve_loop t (fix_dir d) false) = None ->
    find ex (path_cands (d :: d' :: ds) t) = find ex (path_cands (d' :: ds) t).
  Proof. intros. rewrite path_cands_cons. apply find_app_none; assumption. Qed.

  Lemma not_found_fails_l : forall t b sp,
    (forall p, In p (candidates t b sp) -> ex p = false) -> resolve_sub ex t b sp = None.
  Proof.
    intros t b sp H. destruct t as [|c t]; [reflexivity|]. cbn [resolve_sub].
    induction (candidates (c :: t) b sp) as [|x l IH]; [reflexivity|].
    cbn [find]. rewrite (H x (or_introl eq_refl)). apply IH. intros p Hp. apply H. right; exact Hp.
  Qed.

  Lemma found_exists_l : forall t b sp p, resolve_sub ex t b sp = Some p -> ex p = true /\ In p (candidates t b sp).
  Proof.
    intros t b sp p H. destruct t as [|c t]; [discriminate|]. cbn [resolve_sub] in H.
    apply find_some in H. tauto.
  Qed.
End P.

(* the result depends only on which candidate files exist *)
Lemma resolve_ext_l : forall ex1 ex2 t b sp,
  (forall p, In p (candidates t b sp) -> ex1 p = ex2 p) -> resolve_sub ex1 t b sp = resolve_sub ex2 t b sp.
Proof.
  intros ex1 ex2 t b sp H. destruct t as [|c t]; [reflexivity|]. cbn [resolve_sub].
  induction (candidates (c :: t) b sp) as [|x l IH]; [reflexivity|].
  cbn [find]. rewrite (H x (or_introl eq_refl)). destruct (ex2 x); [reflexivity|].
  apply IH. intros p Hp. apply H. right; exact Hp.
Qed.

Lemma base_rules_l :
  list_base_becomes_first_name_as_given = true /\ include_base_is_including_file = true /\
  include_failure_counts_error = true /\ toplevel_base_is_null = true.
Proof. repeat split; reflexivity. Qed.

Lemma search_path_order_l : forall e d b, e <> [] -> d <> [] ->
  search_path (Some e) (Some d) b = e ++ [comma] ++ d ++ [sep] ++ [108; 105; 98; 108; 111; 117; 105; 115; 47; 116; 97; 98; 108; 101; 115].
Proof.
  intros e d b He Hd. unfold search_path. cbn [searchpath_parts sp_parts nonempty].
  destruct e as [|e0 e]; [contradiction|]. destruct d as [|d0 d]; [contradiction|].
  cbn [sp_parts nonempty]. rewrite app_nil_r. reflexivity.
Qed.

Lemma search_path_default_l : forall b, search_path None None b = b.
Proof. intros b. unfold search_path. cbn [searchpath_parts sp_parts nonempty]. rewrite app_nil_r. reflexivity. Qed.
