(* M9 — scratch-buffer plan: what _lou_allocMem provides (generated, Gen/GAlloc.v) versus what one
   call demands.  L = length of the input of the call (up to the first NUL, <= inlen),
   O = *outlen on entry, both >= 0.  The demand of a buffer is the number of elements the
   engine may touch (highest index + 1), read off the code of _lou_translate /
   _lou_backTranslate and validated by the sanitizer runs of the correspondence stage.       *)
From Coq Require Import ZArith Bool.
From Lou Require Import Gen.GAlloc.
Local Open Scope Z_scope.

(* the floors applied by _lou_allocMem; with the verification hook `exact' they are skipped *)
Definition eff_src (exact : bool) (x : Z) : Z := if exact then x else Z.max alloc_floor_src x.
Definition eff_dest (exact : bool) (x : Z) : Z := if exact then x else Z.max alloc_floor_dest x.

Definition provided (size : Z -> Z -> Z) (exact : bool) (srcmax destmax : Z) : Z :=
  size (eff_src exact srcmax) (eff_dest exact destmax).

(* ---- forward (_lou_translate) *)
(* typebuf: typeform copy / memset over [0, L); after the correct pass one element per cell of
   that pass's output (<= O) *)
Definition demand_typebuf (L O : Z) : Z := Z.max L O.
(* posMapping1..3: posMapping[output.length] with output.length <= O; memcpy of O + 1 ints *)
Definition demand_fwd_posmap (L O : Z) : Z := O + 1.
(* destSpacing: memset O; destSpacing[output.length] with output.length <= O; L bytes copied back *)
Definition demand_destSpacing (L O : Z) : Z := Z.max L (O + 1).
(* wordBuffer / emphasisBuffer: sized with the main pass's input length L1; index L1 is used
   (buffer[length].end, emphasisBuffer[pos + charslen]) *)
Definition demand_wordbuf (L1 : Z) : Z := L1 + 1.
(* pass buffers of the forward direction are requested with O and written below maxlength = O *)
Definition demand_fwd_passbuf (O : Z) : Z := O.

(* ---- backward (_lou_backTranslate) *)
(* first pass buffer: L cells + the trailing blank at [L] *)
Definition demand_back_first_passbuf (L : Z) : Z := L + 1.
Definition demand_back_passbuf (O : Z) : Z := O.
(* posMapping1..3: passPosMapping[realInlen] with realInlen <= the pass's input length
   (L for the first pass, <= O afterwards); *inlen + 1 ints copied with *inlen <= L *)
Definition demand_back_posmap (L O : Z) : Z := Z.max L O + 1.
