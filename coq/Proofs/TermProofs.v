(* C03 — the lemmas used by Properties/C03.v: the fuel of every loop of the models suffices. *)
From Coq Require Import List ZArith Bool Lia ZifyBool NArith.
From Lou Require Import Gen.GConst Gen.GChain Gen.GProgress Model.Table Model.Ref Model.Compile Model.Engine Model.Finish Model.Pass Model.BackPass Model.Hyph Model.Back.
From Lou Require Import Proofs.EngineProofs Proofs.PassProofs.
Import ListNotations.
Local Open Scope Z_scope.

(* ------------------------------------------------------------------ forward stage scanner *)

Lemma do_action_newpos inp cap r m out pm o p np :
  do_action inp cap r m out pm = (o, p, Some np) -> np = m_er m \/ np = Z.max (m_er m) (m_end m).
Proof.
  unfold do_action.
  destruct (copy_chars inp cap out pm (m_start m) (m_sr m)) as [[out1 pm1]|]; [|discriminate].
  destruct (p_act r) as [cs| |].
  - destruct (_ >? _); [discriminate|]. intros H. inversion H. left. reflexivity.
  - intros H. inversion H. left. reflexivity.
  - destruct (_ && _); [discriminate|].
    destruct (copy_chars _ _ _ _ _ _) as [[out3 pm3]|]; [|discriminate].
    intros H. inversion H. right. reflexivity.
Qed.

Definition smeasure (inp : list Z) (s : pstate) : Z :=
  2 * (len inp - ps_pos s) + (if ps_inc s then 1 else 0).

Lemma sstep_measure kind chain inp cap s s' :
  ps_pos s < len inp -> sstep kind chain inp cap s = (s', true) ->
  ps_pos s' <= len inp /\ smeasure inp s' < smeasure inp s.
Proof.
  intros Hp. unfold sstep, smeasure. cbv zeta.
  assert (Hcopy :
    (if len (ps_out s) + 1 >? cap then (s, false)
     else (mkPS (ps_pos s + 1) (ps_out s ++ [nth_z inp (ps_pos s)]) (ps_pm s ++ [ps_pos s]) true (ps_trace s), true))
    = (s', true) ->
    ps_pos s' <= len inp /\
    2 * (len inp - ps_pos s') + (if ps_inc s' then 1 else 0) <
    2 * (len inp - ps_pos s) + (if ps_inc s then 1 else 0)).
  { destruct (_ >? cap); [discriminate|]. intros H. inversion H. cbn [ps_pos ps_inc].
    destruct (ps_inc s); lia. }
  destruct (ps_inc s) eqn:Ei; [|exact Hcopy].
  destruct (find_rule inp chain (ps_pos s)) as [[r m]|] eqn:Ef; [|exact Hcopy].
  clear Hcopy.
  apply find_rule_first_l in Ef. destruct Ef as (pre & post & _ & Ht & _).
  apply match_shape_l in Ht.
  destruct (do_action inp cap r m (ps_out s) (ps_pm s)) as [[o p] [np|]] eqn:Ea; [|discriminate].
  apply do_action_newpos in Ea.
  intros H. inversion H. cbn [ps_pos ps_inc].
  (* the REGENERATED progress expressions of makeCorrections / translatePass *)
  unfold stage_inc, GProgress.fwd_correct_inc, GProgress.fwd_pass_inc.
  destruct kind; destruct (np =? ps_pos s) eqn:En; lia.
Qed.

Lemma sloop_total kind chain is_space inp cap : forall fuel s,
  ps_pos s <= len inp -> smeasure inp s < Z.of_nat fuel ->
  sloop kind chain is_space inp cap fuel s <> SOutOfFuel.
Proof.
  induction fuel as [|f IH]; intros s Hp Hm.
  - unfold smeasure in Hm. destruct (ps_inc s); lia.
  - cbn [sloop]. unfold sn. destruct (ps_pos s >=? len inp) eqn:E.
    + unfold sfinish. discriminate.
    + destruct (sstep kind chain inp cap s) as [s' go] eqn:Es. destruct go.
      * apply sstep_measure in Es; [|lia]. apply IH; lia.
      * unfold sfinish. discriminate.
Qed.

Lemma stage_bound_l : forall kind rules is_space inp cap,
  sloop kind (pass_chain rules) is_space inp cap (S (2 * length inp + 1)) (mkPS 0 [] [] true []) <> SOutOfFuel.
Proof.
  intros kind rules is_space inp cap. apply sloop_total.
  - cbn [ps_pos]. unfold len. lia.
  - unfold smeasure. cbn [ps_pos ps_inc]. unfold len. lia.
Qed.

Lemma stage_total_l : forall kind rules is_space inp cap,
  run_stage kind rules is_space inp cap <> SOutOfFuel.
Proof.
  intros kind rules is_space inp cap. unfold run_stage. apply sloop_total.
  - cbn [ps_pos]. unfold len. lia.
  - unfold smeasure, stage_fuel. cbn [ps_pos ps_inc]. unfold len. lia.
Qed.

(* ------------------------------------------------------------------ backward stage scanner *)

Lemma bcopy_aux_len inp : forall cnt out pm from,
  length (fst (bcopy_aux inp out pm from cnt)) = (length out + cnt)%nat.
Proof.
  induction cnt as [|c IH]; intros out pm from; cbn [bcopy_aux]; [cbn [fst]; lia|].
  rewrite IH, app_length. cbn [length]. lia.
Qed.

Lemma bcopy_chars_len inp cap out pm a b out1 pm1 : len out <= cap ->
  bcopy_chars inp cap out pm a b = Some (out1, pm1) -> len out <= len out1 <= cap.
Proof.
  intros Hc. unfold bcopy_chars. destruct (b >? a) eqn:E.
  - destruct (len out + b - a >? cap) eqn:E1; [discriminate|]. intros H. injection H as H.
    pose proof (bcopy_aux_len inp (Z.to_nat (b - a)) out pm a) as Hl. rewrite H in Hl.
    cbn [fst] in Hl. unfold len in *. lia.
  - intros H. injection H as <- <-. lia.
Qed.

Lemma bdo_action_ok inp cap r m out pm o p np : len out <= cap ->
  bdo_action inp cap r m out pm = (o, p, Some np) ->
  (len out <= len o <= cap) /\ (np = m_er m \/ np = Z.max (m_er m) (m_end m)).
Proof.
  intros Hc. unfold bdo_action.
  destruct (bcopy_chars inp cap out pm (m_start m) (m_sr m)) as [[out1 pm1]|] eqn:E1; [|discriminate].
  apply bcopy_chars_len in E1; [|exact Hc].
  destruct (p_act r) as [cs| |].
  - destruct (len out1 + len cs >? cap) eqn:E2; [discriminate|]. intros H. inversion H. subst.
    split; [|left; reflexivity]. unfold len in *. rewrite app_length. lia.
  - intros H. inversion H. subst. split; [lia|left; reflexivity].
  - cbv zeta.
    destruct ((len out1 - len out >? 0) && (len out1 + (len out1 - len out) >? cap)); [discriminate|].
    set (out2 := if len out1 - len out >? 0 then firstn (Z.to_nat (len out)) out1 else out1).
    assert (H2 : len out <= len out2 <= cap).
    { subst out2. destruct (len out1 - len out >? 0) eqn:E3; [|lia].
      unfold len in *. rewrite firstn_length. lia. }
    destruct (bcopy_chars inp cap out2 _ (m_sr m) (m_er m)) as [[out3 pm3]|] eqn:E4; [|discriminate].
    apply bcopy_chars_len in E4; [|lia].
    intros H. inversion H. subst. split; [lia|right; reflexivity].
Qed.

Lemma bdo_test_range inp : forall items pos sr er em sr' er',
  0 <= pos -> -1 <= er <= len inp ->
  bdo_test inp items pos sr er = Some (em, sr', er') ->
  0 <= em <= len inp /\ -1 <= er' <= len inp.
Proof.
  induction items as [|it items IH]; intros pos sr er em sr' er' Hp He; cbn [bdo_test];
    destruct (pos >? len inp) eqn:G; try discriminate.
  - intros H. injection H as <- <- <-. lia.
  - destruct it as [cs|k| |].
    + destruct (bmatch_current inp pos cs); [|discriminate]. apply IH; [unfold len; lia|exact He].
    + destruct (pos - k <? 0) eqn:Ek; [discriminate|]. apply IH; [lia|exact He].
    + apply IH; [exact Hp|exact He].
    + apply IH; [exact Hp|lia].
Qed.

Lemma bpass_test_range inp r pos m : 0 <= pos -> bpass_test inp r pos = Some m ->
  -1 <= m_er m <= len inp /\ -1 <= m_end m <= len inp.
Proof.
  intros Hp. unfold bpass_test.
  destruct (bdo_test inp (p_test r) pos (-1) (-1)) as [[[em sr] er]|] eqn:Et; [|discriminate].
  apply bdo_test_range in Et; [|exact Hp|unfold len; lia].
  destruct (_ <? pos); [discriminate|].
  destruct (sr =? -1); intros H; injection H as <-; cbn [m_er m_end]; lia.
Qed.

Lemma bfind_rule_test inp chain pos r m :
  bfind_rule inp chain pos = Some (r, m) -> bpass_test inp r pos = Some m.
Proof.
  induction chain as [|r0 c IH]; cbn [bfind_rule]; [discriminate|].
  destruct (bpass_test inp r0 pos) as [m0|] eqn:Et; [|exact IH].
  intros H. injection H as <- <-. exact Et.
Qed.

(* the measure: (free room) * (length + 2) + (distance to the end, while the scanner may try rules) *)
Definition bmeasure (inp : list Z) (cap : Z) (s : bpstate) : Z :=
  (cap - len (bp_out s)) * (len inp + 2) + (if bp_inc s then len inp - bp_pos s + 1 else 0).

Definition binv (inp : list Z) (cap : Z) (s : bpstate) : Prop :=
  -1 <= bp_pos s <= len inp /\ (bp_inc s = true -> 0 <= bp_pos s) /\ len (bp_out s) <= cap.

Lemma bsstep_measure kind chain inp cap s s' :
  binv inp cap s -> bp_pos s < len inp -> bsstep kind chain inp cap s = (s', true) ->
  binv inp cap s' /\ bmeasure inp cap s' < bmeasure inp cap s.
Proof.
  intros (Hp & Hi & Hc) Hlt. unfold bsstep, bmeasure, binv. cbv zeta.
  assert (Hn : 0 <= len inp) by (unfold len; lia).
  assert (Hcopy :
    (if len (bp_out s) + 1 >? cap then (s, false)
     else (mkBP (bp_pos s + 1) (bp_out s ++ [nth_z inp (bp_pos s)])
                (set_nth (bp_pm s) (Z.to_nat (bp_pos s)) (len (bp_out s))) true (bp_trace s), true))
    = (s', true) ->
    (-1 <= bp_pos s' <= len inp /\ (bp_inc s' = true -> 0 <= bp_pos s') /\ len (bp_out s') <= cap) /\
    (cap - len (bp_out s')) * (len inp + 2) + (if bp_inc s' then len inp - bp_pos s' + 1 else 0) <
    (cap - len (bp_out s)) * (len inp + 2) + (if bp_inc s then len inp - bp_pos s + 1 else 0)).
  { destruct (_ >? cap) eqn:E; [discriminate|]. intros H. inversion H. cbn [bp_pos bp_inc bp_out].
    assert (Hl : len (bp_out s ++ [nth_z inp (bp_pos s)]) = len (bp_out s) + 1).
    { unfold len. rewrite app_length. cbn [length]. lia. }
    rewrite Hl. split; [lia|]. destruct (bp_inc s); lia. }
  destruct (bp_inc s) eqn:Ei; [|exact Hcopy].
  destruct (bfind_rule inp chain (bp_pos s)) as [[r m]|] eqn:Ef; [|exact Hcopy].
  clear Hcopy. specialize (Hi eq_refl).
  apply bfind_rule_test in Ef. apply bpass_test_range in Ef; [|exact Hi].
  destruct (bdo_action inp cap r m (bp_out s) (bp_pm s)) as [[o p] [np|]] eqn:Ea; [|discriminate].
  apply bdo_action_ok in Ea; [|exact Hc]. destruct Ea as (Hlen & Hnp).
  intros H. inversion H. cbn [bp_pos bp_inc bp_out].
  assert (Hmul : (cap - len o) * (len inp + 2) <= (cap - len (bp_out s)) * (len inp + 2)).
  { apply Z.mul_le_mono_nonneg_r; lia. }
  (* the REGENERATED progress expressions of the backward makeCorrections / translatePass *)
  unfold bstage_inc, GProgress.back_correct_inc, GProgress.back_pass_inc.
  destruct kind; destruct (np >? bp_pos s) eqn:En; split; try lia.
Qed.

Lemma bsloop_total kind chain is_space inp cap : forall fuel s,
  binv inp cap s -> bmeasure inp cap s < Z.of_nat fuel ->
  bsloop kind chain is_space inp cap fuel s <> SOutOfFuel.
Proof.
  induction fuel as [|f IH]; intros s Hi Hm.
  - exfalso. destruct Hi as (Hp & _ & Hc). unfold bmeasure in Hm.
    assert (Hn : 0 <= len inp) by (unfold len; lia).
    assert (0 <= (cap - len (bp_out s)) * (len inp + 2)) by (apply Z.mul_nonneg_nonneg; lia).
    destruct (bp_inc s); lia.
  - cbn [bsloop]. unfold bsn. destruct (bp_pos s >=? len inp) eqn:E.
    + unfold bsfinish. discriminate.
    + destruct (bsstep kind chain inp cap s) as [s' go] eqn:Es. destruct go.
      * apply bsstep_measure in Es; [|exact Hi|lia]. destruct Es as (Hi' & Hm'). apply IH; [exact Hi'|lia].
      * unfold bsfinish. discriminate.
Qed.

Lemma bstage_total_l : forall kind rules is_space inp cap, 0 <= cap ->
  run_bstage kind rules is_space inp cap <> SOutOfFuel.
Proof.
  intros kind rules is_space inp cap Hc. unfold run_bstage. apply bsloop_total.
  - unfold binv. cbn [bp_pos bp_inc bp_out]. unfold len. cbn [length]. lia.
  - unfold bmeasure, bstage_fuel. cbn [bp_pos bp_inc bp_out]. unfold len. cbn [length].
    rewrite Nat2Z.inj_succ, Nat2Z.inj_mul, !Nat2Z.inj_add, Z2Nat.id by exact Hc.
    change (Z.of_nat 0) with 0. change (Z.of_nat 2) with 2. change (Z.of_nat 3) with 3.
    nia.
Qed.

(* ------------------------------------------------------------------ backward main pass *)

Lemma bloop_total t inp cap : forall fuel s,
  (Z.to_nat (len inp - bs_pos s) < fuel)%nat -> bloop t inp cap fuel s <> BOutOfFuel.
Proof.
  induction fuel as [|f IH]; intros s Hf; [lia|].
  cbn [bloop]. unfold bn. destruct (bs_pos s >=? len inp) eqn:E.
  - unfold bfinish. discriminate.
  - destruct (cell_char t (nth_z inp (bs_pos s))) as [c|]; [|discriminate].
    destruct (_ >? cap).
    + unfold bfinish. discriminate.
    + apply IH. cbn [bs_pos]. lia.
Qed.

Lemma back_total_l : forall t inp cap, back_run t inp cap <> BOutOfFuel.
Proof.
  intros t inp cap. unfold back_run. apply bloop_total. cbn [bs_pos]. unfold len. lia.
Qed.

(* ------------------------------------------------------------------ the forward driver *)

Lemma after_stage_some a r : r <> SOutOfFuel -> exists x, after_stage a r = Some (Some x).
Proof.
  destruct r as [consumed out pm tr|]; [|congruence]. intros _. cbn [after_stage].
  destruct a as [[[o pmap] tr0]|]; eexists; reflexivity.
Qed.

Ltac step_pass :=
  match goal with
  | |- context [after_stage ?a (run_stage ?k ?r ?sp ?i ?c)] =>
      let x := fresh "x" in
      let Hx := fresh "Hx" in
      destruct (after_stage_some a (run_stage k r sp i c) (stage_total_l k r sp i c)) as [x Hx];
      rewrite Hx; clear Hx
  end.

Lemma forward_total_l : forall pt mode inp cap, forward pt mode inp cap <> DOutOfFuel.
Proof.
  intros pt mode inp cap. unfold forward. cbv zeta.
  assert (Hs0 : exists acc0,
    (if pt_corr pt then after_stage None (run_stage KCorrect (pt_correct pt) (fun _ => false) inp cap)
     else Some None) = Some acc0).
  { destruct (pt_corr pt); [|eexists; reflexivity]. step_pass. eexists; reflexivity. }
  destruct Hs0 as [acc0 ->].
  destruct (translate_ref (pt_main pt) mode _ cap) as [consumed cells pm tr| |] eqn:Et;
    [|discriminate|exfalso; exact (engine_total_l _ _ _ _ Et)].
  destruct (after_stage_some acc0 (SOk consumed cells pm tr)) as [x1 Hx1]; [discriminate|].
  rewrite Hx1. cbv beta.
  destruct (2 <=? num_passes pt); destruct (3 <=? num_passes pt); destruct (4 <=? num_passes pt);
    cbv beta iota; repeat (step_pass; cbv beta iota);
    match goal with |- context [DOk _ _ _ _] => idtac end;
    repeat match goal with x : (list Z * list Z * list Z)%type |- _ => destruct x as [[? ?] ?] end;
    discriminate.
Qed.

(* ------------------------------------------------------------------ hyphenation automaton *)

Lemma fallback_cons t (a : char) (s : list char) :
  fallback t (a :: s) = if is_state t s then s else fallback t s.
Proof. reflexivity. Qed.

Lemma fallback_cons_len t : forall (s : list char) (a : char), (length (fallback t (a :: s)) <= length s)%nat.
Proof.
  induction s as [|b s IH]; intros a; rewrite fallback_cons.
  - destruct (is_state t []); cbn [fallback length]; lia.
  - destruct (is_state t (b :: s)); [lia|]. specialize (IH b). cbn [length]. lia.
Qed.

Lemma fallback_shorter_l : forall t s, s <> [] -> (length (fallback t s) < length s)%nat.
Proof.
  intros t [|a s] H; [congruence|]. pose proof (fallback_cons_len t s a). cbn [length]. lia.
Qed.

Lemma next_state_fuel_gen t ch : forall k st f1 f2,
  (length st <= k)%nat -> (length st < f1)%nat -> (length st < f2)%nat ->
  next_state f1 t st ch = next_state f2 t st ch.
Proof.
  induction k as [|k IH]; intros st f1 f2 Hk H1 H2;
    (destruct f1 as [|f1]; [lia|]); (destruct f2 as [|f2]; [lia|]); cbn [next_state];
    destruct (is_state t (st ++ [ch])); try reflexivity;
    destruct st as [|a st]; try reflexivity.
  - cbn [length] in Hk. lia.
  - pose proof (fallback_cons_len t st a) as Hl. cbn [length] in *. apply IH; lia.
Qed.

Lemma next_state_fuel_l : forall t st ch fuel,
  (S (length st) < fuel)%nat ->
  next_state fuel t st ch = next_state (S (S (length st))) t st ch.
Proof.
  intros t st ch fuel Hf. apply (next_state_fuel_gen t ch (length st)); lia.
Qed.

Print Assumptions stage_total_l.
Print Assumptions stage_bound_l.
Print Assumptions bstage_total_l.
Print Assumptions back_total_l.
Print Assumptions forward_total_l.
Print Assumptions fallback_shorter_l.
Print Assumptions next_state_fuel_l.
