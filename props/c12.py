"""C12 — a compiled table image is internally consistent.
PROVE: Properties/C12.v (soundness of the executable checker: check_image i = true -> WF i; allocator laws: offsets never
 change when the image grows, offset 0 reserved, allocations disjoint).
CORRESPOND: the walker (harness/h_image.c, with the arena hook for exact extents) dumps the real image of shipped tables,
 generated tables and tables grown by run-time additions; the extracted verified checker judges every dump."""
import glob
import os
import shutil

import common
import safety
import tablegen
from common import Rng, REPO, VERIF

PID = "C12"
NAMES = ["check_image", "allocations", "references", "forward_buckets", "backward_buckets", "character_records",
         "cell_records", "forward_pass_chains", "backward_pass_chains", "every_rule_is_linked", "bounds_of_programs_patterns_and_display_records"]


def to_model(line):
    """walker line -> model driver lines"""
    parts = line.split(" ; ")
    head = dict(x.split("=") for x in parts[0].split()[1:])
    if head.get("ok") != "1":
        return None, head
    out = ["IN"]

    def elems(ws, withhash):
        vals = []
        for w in ws:
            if w == "CYCLE":
                vals += [0, 0, 0, 0, 0, 0, 0, 0, 0, 0, 0, 0]       # two members with the same offset: nodup fails
                continue
            f = [int(x) for x in w.split(":")]
            if withhash:
                vals += f[:6]
            else:
                vals += f[:4] + [99999, 99999]
        return " ".join(map(str, vals))
    for p in parts[1:]:
        w = p.split()
        if w[0] == "A":
            out.append("IA %s %s" % (w[1], w[2]))
        elif w[0] == "REF":
            out.append("IR %s %s %d" % (w[2], w[3], 1 if w[1].endswith("?") else 0))
        elif w[0] == "FB":
            out.append("IF %s %s" % (w[1], elems(w[2:], True)))
        elif w[0] == "BB":
            out.append("IB %s %s" % (w[1], elems(w[2:], True)))
        elif w[0] == "FC":
            out.append("IC %s %s %s" % (w[1], w[2], elems(w[3:], False)))
        elif w[0] == "BC":
            out.append("ID %s %s %s" % (w[1], w[2], elems(w[3:], False)))
        elif w[0] == "PF":
            out.append("IP %s %s" % (w[1], elems(w[2:], False)))
        elif w[0] == "PB":
            out.append("IQ %s %s" % (w[1], elems(w[2:], False)))
        elif w[0] == "RU":
            out.append("IU " + " ".join(w[1:7]))
        elif w[0] == "BND":
            out.append("IV %s %s" % (w[1], w[2]))
        elif w[0] == "CYCLE":
            out.append("IR 999999 1 0")
    out.append("IX %s" % head["used"])
    return out, head


def run(chk):
    rng = Rng(chk.seed).fork(PID)
    gen = common.gen_stage()
    prove = common.prove_stage(PID)
    drv = common.model_driver()
    exe = common.build_harness("h_image")
    env = {"LOUIS_TABLEPATH": str(REPO / "tables")}
    quick = chk.tier == "quick"
    work = common.BUILD / ("work-c12-%d" % os.getpid())
    shutil.rmtree(work, ignore_errors=True)
    work.mkdir(parents=True)
    cmds = []
    for t in safety.shipped_tables(rng.fork("tables"), 40 if quick else 10 ** 6):
        cmds.append(("shipped:" + os.path.basename(t), "I " + t, None))
    cmds.append(("corpus:ks.utb", "I " + str(VERIF / "corpus" / "c13" / "ks.utb"), None))
    # lists with a hyphenation dictionary: the automaton (states, pattern strings, transition arrays, state numbers) is walked
    dics = sorted(p.name for p in (REPO / "tables").glob("hyph_*.dic"))
    for dname in (dics if not quick else [d for d in dics if d in ("hyph_en_US.dic", "hyph_de_DE.dic", "hyph_cs_CZ.dic", "hyph_hu_HU.dic")]):
        cmds.append(("shipped:dictionary:" + dname, "I en-us-comp6.ctb," + dname, None))
    for i in range(60 if quick else 3000):
        r = rng.fork(("g", i))
        if r.chance(0.5):
            entries, alphabet = tablegen.gen_c05_table(r, collide=r.chance(0.5))
            text = tablegen.table_text(entries)
        else:
            entries, rules, letters_ = tablegen.gen_c06_table(r, directions=("noback", "nofor"))
            text = tablegen.pass_table_text(entries, rules)
            if r.chance(0.5):
                # swap classes, grouping pairs and rules that refer to them by name - also to names that do not exist, behind
                # one that does (the table is then either rejected or consistent)
                text += "\n".join(tablegen.gen_group_swap_rules(r, letters_, [0x8000 | e.dots[0] for e in entries])) + "\n"
                if r.chance(0.5):
                    text += r.choice(["noback correct [%sw]%nosuch %sw", "noback correct [%sw] %sw%nosuch", "noback correct {gp{nosuch ?",
                                      "noback pass2 [%ss] %ss;nosuch", "noback pass2 {gp}nosuch *"]) + "\n"
        p = work / ("g%d.utb" % i)
        p.write_text(text)
        cmds.append(("generated:%d" % i, "I %s" % p, text))
    # case folding: context rules whose literal contains capitals based on lower-case letters are moved to the bucket of the
    # folded characters when the table is finalised, among always / word-position rules of the same and other lengths
    for i in range(30 if quick else 600):
        r = rng.fork(("fold", i))
        low = "abcd"
        lines = ["space \\s 0"] + ["lowercase %s %s" % (c, tablegen.dots_text(r.range(1, 63))) for c in low]
        lines += ["base uppercase %s %s" % (c.upper(), c) for c in low]
        if r.chance(0.4):
            # base rules chained on base rules (a character based on a character that is itself based on another one)
            lines += ["lowercase z 1356", "lowercase y 13456", "attribute acute z", "attribute grave y", "base acute \\x00e1 a",
                      "base grave \\x00e0 \\x00e1", "base uppercase \\x00c0 \\x00e0"][: r.range(6, 7)]
        body = []
        for _ in range(r.range(3, 10)):
            n = r.range(2, 3)
            w = "".join(r.choice(low) for _ in range(n))
            k = r.below(4)
            if k == 0:
                body.append("always %s %s" % (w, tablegen.dots_text(r.range(1, 63))))
            elif k == 1:
                body.append("%s %s %s" % (r.choice(["begword", "endword", "midword", "partword"]), w, tablegen.dots_text(r.range(1, 63))))
            else:
                cw = "".join(ch.upper() if r.chance(0.6) else ch for ch in w)
                body.append('%s context "%s" @%s' % (r.choice(["noback", "noback", "nofor"]), cw, tablegen.dots_text(r.range(1, 63))))
        text = "\n".join(lines + body) + "\n"
        p = work / ("f%d.utb" % i)
        p.write_text(text)
        cmds.append(("generated:fold%d" % i, "I %s" % p, text))
    # run-time additions that force the image to grow through several reallocations: every prefix is dumped
    from props import c15
    for i in range(6 if quick else 80):
        r = rng.fork(("grow", i))
        base = work / ("b%d.utb" % i)
        base.write_text("space \\s 0\nletter a 1\n")
        rules = [t for t, ok in c15.gen_rules(r, 400) if ok]
        for cut in (0, 1, 5, 40, 150, len(rules)):
            cmds.append(("grown:%d:%d" % (i, cut), "J %s | %s" % (base, " ; ".join(rules[:cut])), "\n".join(rules[:cut])))
    # a big image: rule references embedded in multipass programs are stored as two 16-bit halves; objects created behind
    # offset 0x10000 (512 KiB of rules) exercise the upper half
    for i in range(2 if quick else 12):
        r = rng.fork(("big", i))
        base = work / ("big%d.utb" % i)
        base.write_text("space \\s 0\nletter a 1\nletter b 12\nletter c 14\nletter d 145\n")
        filler = ["always %s %s" % ("".join(r.choice("abcd") for _ in range(48)), "-".join(tablegen.dots_text(r.range(1, 7)) for _ in range(48)))
                  for _ in range(2300)]
        late = ["swapcc lsw ab cd", "swapcd lsd abc 3,6,36", "swapdd lss 1,12 14,145", "grouping lgp ab 3,6",
                "noback context %lsd %lsd", "noback correct [%lsw] %lsw", "noback pass2 [%lss] %lss", "nofor pass2 [%lss] %lss",
                "noback correct {lgp *", "noback pass2 [{lgp] ;lgp", "noback pass2 {lgp {lgp}lgp"]
        bigkey = "grown:big%d" % i
        cmds.append((bigkey, "J %s | %s" % (base, " ; ".join(filler + late)), "(2300 filler rules) + " + " / ".join(late)))
    outs = common.run_stream(exe, [], [c for _, c, _ in cmds], env=env, timeout=900)
    # the small tables again with the image moved to a fresh block on EVERY allocation (hook): a pointer into the image kept
    # across an allocation is then stale at once (ASan reports the use), instead of only when a growth happens to hit it
    small = [(k + ":moved", c, t) for k, c, t in cmds if not k.startswith("shipped:") and not k.startswith("grown:big")]
    small += [("shipped:" + n + ":moved", "I " + n, None) for n in ("en-us-comp6.ctb", "de-g0.utb", "en-us-g1.ctb")]
    outs += common.run_stream(exe, ["M 1"], [c for _, c, _ in small], env=env, timeout=1800)
    cmds = cmds + small
    # ... and a third time created and grown without slack (hook): every allocation takes the library's own growth path
    tight = [(k.replace(":moved", ":tight"), c, t) for k, c, t in small]
    outs += common.run_stream(exe, ["M -1"], [c for _, c, _ in tight], env=env, timeout=1800)
    cmds = cmds + tight
    for (key, cmd, text), o in zip(cmds, outs):
        if isinstance(o, tuple):
            chk.count(key)
            chk.violation("walker-crash", "walking the image died (%s): %s" % (key, o[1][:200]), dict(command=cmd, table=text))
            continue
        ml, head = to_model(o)
        if ml is None:
            chk.count(key, nontrivial=False)
            chk.tally("tables_not_compiling")
            continue
        res = common.run_model(drv, ml)[0].split()[1:]
        n_alloc = sum(1 for x in ml if x.startswith("IA"))
        chk.count(key, nontrivial=n_alloc > 20)
        chk.tally(key.split(":")[0])
        chk.tally("allocations_checked", n_alloc)
        chk.tally("references_checked", sum(1 for x in ml if x.startswith("IR")))
        chk.tally("rule_objects_checked", sum(1 for x in ml if x.startswith("IU")))
        chk.tally("program_bounds_checked", sum(1 for x in ml if x.startswith("IV")))
        if res[0] == "1" and res[-1] == "1" and res[-2] == "1":
            chk.cov["traces_validated_against_impl"] += 1
            if n_alloc > 50:
                chk.sample(dict(table=key, used_bytes=int(head["used"]), allocations=n_alloc, references=sum(1 for x in ml if x.startswith("IR"))), cap=4)
        else:
            failed = [NAMES[k] for k in range(1, len(res)) if res[k] == "0"]
            chk.violation("image-inconsistent:" + ",".join(failed), "the compiled image of %s fails the verified checker in: %s" % (key, ", ".join(failed)),
                          dict(command=cmd, table=text, failed=failed))
    shutil.rmtree(work, ignore_errors=True)
    chk.cov["rule"] = ("images dumped by the walker (allocation extents from the arena hook): a sample (thorough: all) of the shipped top-level "
                       "tables, a kitchen-sink table, generated F and multipass tables (colliding buckets), and tables grown by 0/1/5/40/150/all of "
                       "~330 run-time additions (several reallocations), the small ones a second time with the image moved on every allocation (hook); "
                       "every rule object reported by the rule hook must be linked in the chains where lookups search for it; each judged by the extracted verified checker; distinct = table; "
                       "non-trivial = more than 20 allocations")
    chk.cov["gen_status"] = gen
    chk.cov["checker_cmd"] = "make -C coq Properties/C12.vo (coqc 8.16.1)"
    chk.cov["trusted_base"] = common.TRUSTED_COMMON + [
        "harness/h_image.c walks the image with the declarations of internal.h and reports what it reads; multipass byte code "
        "and match patterns are not walked yet (partial)",
        "for tables outside fragment F the statement is the verified checker's verdict on the concrete image"]
    if not prove["ok"] and not chk.violations:
        chk.violation("proof", "Properties/%s.v no longer checks: %s" % (PID, prove["failed"][:5]),
                      dict(no_failing_input=True, broken=prove["failed"], log=prove["log"][-1500:], gen=gen))
    return chk.finish(prove)
