"""C14 — table cache and lou_free: compile once, isolate lists, release everything.
PROVE: Properties/C14.v on the API state machine with the cache comparison REGENERATED from getTable.
CORRESPOND: exhaustive short and random long sequences over {use A, use B, use A-prefix list, use a bad list, add a rule to A,
 back-translate, hyphenate, lou_free}: files opened (hook), pointer identity, results vs the same call in a fresh process
 or after the same additions, LeakSanitizer after lou_free."""
import itertools
import os
import shutil

import common
import trans
from common import Rng, REPO

PID = "C14"


def run(chk):
    rng = Rng(chk.seed).fork(PID)
    gen = common.gen_stage()
    prove = common.prove_stage(PID)
    common.model_driver()
    exe = common.build_harness("h_trans")
    env = {"LOUIS_TABLEPATH": str(REPO / "tables")}
    quick = chk.tier == "quick"
    work = common.BUILD / ("work-c14-%d" % os.getpid())
    shutil.rmtree(work, ignore_errors=True)
    work.mkdir(parents=True)
    (work / "a.utb").write_text("space \\s 0\nletter a 1\nletter b 12\nletter c 14\n")
    (work / "ab.utb").write_text("space \\s 0\nletter a 2\nletter b 23\nletter c 25\n")          # name has a.utb... as prefix of the list below
    (work / "shared.uti").write_text("letter d 145\n")
    # B uses every scratch buffer of the library: corrections, a second and third pass in both directions
    (work / "b.utb").write_text("include shared.uti\nspace \\s 0\nletter a 3\nletter b 36\nletter c 1\n"
                                "noback correct \"ca\" \"ac\"\nnoback pass2 @3-36 @36-3\nnoback pass3 @1-1 @1\nnofor pass2 @36-3 @3-36\nnofor correct \"ac\" \"ca\"\n")
    (work / "bad.utb").write_text("space \\s 0\nletter a 1\nthisisnotanopcode x 1\n")
    # compiles, but the finalisation of the table rejects it (base rules in a circle): cached, and rejected again on every use
    (work / "fin.utb").write_text("space \\s 0\nletter a 1\nlowercase x 1346\nlowercase y 13456\nbase uppercase x y\nbase uppercase y x\n")
    FIN = str(work / "fin.utb")
    A = str(work / "a.utb")
    APFX = A + "," + str(work / "shared.uti")        # A is a prefix of this list string; shares a file with B
    B = str(work / "b.utb")
    BAD = str(work / "bad.utb")
    HY = "en-us-g1.ctb,hyph_en_US.dic"
    inp = [97, 98, 99, 32, 97]
    ops = {
        "useA": "Y %s ;; %s" % (A, trans.case_line("T", 4, inp, 20)),
        "useB": "Y %s ;; %s" % (B, trans.case_line("T", 4, inp, 20)),
        "useApfx": "Y %s ;; %s" % (APFX, trans.case_line("T", 4, inp + [100], 20)),
        "useBad": "Y %s ;; %s" % (BAD, trans.case_line("T", 4, inp, 20)),
        "useFin": "Y %s ;; %s" % (FIN, trans.case_line("T", 4, inp, 20)),
        "addA": "K %s | always ab 123456" % A,
        "addAbad": "K %s | always ab 9-10-z" % A,
        "addAdisp": "K %s | display z 1346" % A,
        "backA": "Y %s ;; %s" % (A, trans.case_line("B", 4, [0x8001, 0x8003, 0x8009], 20)),
        "backB": "Y %s ;; %s" % (B, trans.case_line("B", 4, [0x8003, 0x8024, 0x8003, 0x8001], 20)),
        "hyph": "Y %s ;; %s" % (HY, trans.case_line("H", 0, [ord(c) for c in "hyphenation"], 20)),
        "free": "F",
        "getA": "G " + A,
    }
    # a list whose first member resolves and whose second exists nowhere: the lookup fails in the resolver, before any file
    # is opened; used in pairs and in the random sequences (not in the exhaustive triples)
    AMISS = A + ",no-such-table-anywhere.utb"
    extra_ops = {"useAmissing": "Y %s ;; %s" % (AMISS, trans.case_line("T", 4, inp, 20))}
    # a list whose rules flip multipass variables across the whole index range: what one call (or an earlier list, or the
    # time before lou_free) leaves in them must not reach the next
    import tablegen as _tg
    nv = int(_tg.consts().get("NUMVAR", 50))
    vv = [nv - 1, rng.range(13, nv - 2), rng.range(1, 12)]
    (work / "v.utb").write_text("space \\s 0\nletter a 1\nletter b 12\nletter c 14\n" + "".join(
        "noback pass%d #%d=0@%s @%s#%d=1\nnoback pass%d #%d=1@%s @%s-%s\n" % (p_, v, d, d, v, p_, v, d, d, d)
        for p_, v, d in zip((2, 3, 4), vv, ("1", "12", "14"))))
    VT = str(work / "v.utb")
    extra_ops["useV"] = "Y %s ;; %s" % (VT, trans.case_line("T", 4, [97, 98, 99, 97, 98, 99], 40))
    # a rule that compiles a whole (valid) file: its verdict must not depend on the errors of earlier, unrelated calls
    (work / "inc.uti").write_text("sign \\x2460 123456\n")
    extra_ops["addAinc"] = "K %s | include %s" % (A, work / "inc.uti")
    name_of = {"useA": A, "useB": B, "useApfx": APFX, "useBad": BAD, "useFin": FIN, "addA": A, "addAbad": A, "addAdisp": A, "backA": A, "backB": B, "hyph": HY, "getA": A}
    keys = list(ops)
    seqs = []
    maxlen = 3 if quick else 4
    for L in range(1, maxlen + 1):
        for tup in itertools.product(keys, repeat=L):
            seqs.append(list(tup))
    ops.update(extra_ops)
    name_of["useAmissing"] = AMISS
    name_of["useV"] = VT
    name_of["addAinc"] = A
    for k in ("addAbad", "useBad", "useAmissing", "useFin", "useA"):
        seqs += [[k, "addAinc"], [k, "addAinc", "useA"], ["addAinc", k, "addAinc"]]
    for k in keys:
        seqs += [["useAmissing", k], [k, "useAmissing"], [k, "useAmissing", "free"], ["useV", k, "useV"], ["useV", "free", "useV"]]
    keys = list(ops)
    r = rng
    for _ in range(150 if quick else 5000):
        seqs.append([r.choice(keys) for _ in range(r.range(5, 40))])
    # fresh results: per op after a given list of accepted additions to A
    fresh = {}

    def fresh_result(op, added):
        k = (op, tuple(added))
        if k not in fresh:
            pre = ["K %s | %s" % (A, rule) for rule in added] if name_of.get(op) == A else []
            out = common.run_stream(exe, ["e 0"], pre + [ops[op]], env=env, timeout=120)
            fresh[k] = sig(out[-1])
        return fresh[k]

    def sig(o):
        if isinstance(o, tuple):
            return ("CRASH", o[1][:80])
        if o.startswith("R"):
            return tuple(p.strip() for p in o.split("|")[:6])
        if o.startswith("G"):
            return ("G",)
        return o.strip()

    for si, seq in enumerate(seqs):
        # without the exact-scratch hook (the library's real sizing: buffers are kept and reused between calls and must be
        # dropped completely by lou_free); every fourth sequence with it
        exact = 1 if si % 4 == 3 else 0
        # every fifth sequence with table images created and grown without slack (hook): every allocation goes through the
        # library's own growth path, which has to keep the cache entries pointing at the moved image
        tight = -1 if si % 5 == 4 else 0
        outs = common.run_stream(exe, ["e %d" % exact, "m %d" % tight], [ops[k] for k in seq], env=dict(env, ASAN_OPTIONS="detect_leaks=1:exitcode=77"), timeout=300)
        # model of the cache: which names are compiled, finalized, additions
        cached, final, added = set(), set(), []
        ptr = {}
        key = tuple(seq)
        bad = None
        for i, (k, o) in enumerate(zip(seq, outs)):
            if isinstance(o, tuple):
                bad = ("crash-or-leak", "harness died at step %d (%s): %s" % (i, k, o[1][:200]))
                break
            n = name_of.get(k)
            if k == "free":
                cached, final, added, ptr = set(), set(), [], {}
                continue
            opens = int(o.split("opens=")[1].split()[0]) if "opens=" in o else None
            expect_compile = n not in cached
            if k in ("addA", "addAbad", "addAdisp", "addAinc"):
                ret = int(o.split()[1])
                ok_expected = (k in ("addA", "addAdisp", "addAinc")) and (A not in final)
                cached.add(A)
                if ok_expected:
                    added.append("always ab 123456" if k == "addA" else "display z 1346" if k == "addAdisp" else "include %s" % (work / "inc.uti"))
                if ret != (1 if ok_expected else 0):
                    bad = ("add-result", "lou_compileString returned %d at step %d of %s, expected %d" % (ret, i, seq, 1 if ok_expected else 0))
                    break
                continue
            # a lookup
            if n == AMISS:
                if opens != 0:
                    bad = ("unresolved-list-opened", "a list with a member that exists nowhere opened %d files at step %d of %s" % (opens, i, seq))
                    break
            elif n == BAD:
                if opens == 0:
                    bad = ("bad-list-cached", "a list that does not compile was not re-read at step %d of %s" % (i, seq))
                    break
            else:
                if expect_compile and opens == 0:
                    bad = ("not-compiled", "step %d (%s) of %s: first use but no file was opened" % (i, k, seq))
                    break
                if not expect_compile and opens != 0:
                    bad = ("compiled-twice", "step %d (%s) of %s: the list was compiled before and its files were opened again (%d files)" % (i, k, seq, opens))
                    break
                cached.add(n)
                final.add(n)
            if k == "getA":
                cls = o.split()[1]
                if n in ptr and ptr[n] != cls:
                    bad = ("pointer-changed", "lou_getTable returns a different table for the same list at step %d of %s" % (i, seq))
                    break
                ptr[n] = cls
                continue
            f = fresh_result(k, added if n == A else [])
            if sig(o) != f:
                bad = ("result-differs", "step %d (%s) of %s gives %s, a fresh process with the same additions gives %s" % (i, k, seq, str(sig(o))[:200], str(f)[:200]))
                break
        nontrivial = len(seq) >= 2 and len(set(seq)) >= 2
        chk.count(key, nontrivial=nontrivial)
        chk.tally("len_%s" % (len(seq) if len(seq) <= 4 else "5+"))
        if bad:
            chk.violation(bad[0], bad[1], dict(sequence=seq, commands=[ops[k] for k in seq], outputs=[x if not isinstance(x, tuple) else list(x) for x in outs][:40],
                                               tables={p.name: p.read_text() for p in work.iterdir()}))
        else:
            chk.cov["traces_validated_against_impl"] += 1
            if nontrivial and len(seq) <= 4:
                chk.sample(dict(sequence=seq), cap=3)
    shutil.rmtree(work, ignore_errors=True)
    chk.cov["exhaustive_up_to_length"] = maxlen
    chk.cov["rule"] = ("all sequences up to length %d over 13 operations {use A, use B (multipass, both directions), use a list that compiles but is rejected by the finalisation, use list A+shared (A's name is a prefix, shares a file with B), "
                       "use a list that does not compile, add a valid / an invalid / a display rule to A, back-translate with A, hyphenate, lou_getTable(A), "
                       "lou_free}, a list with an unresolvable second member in pairs with each of them, plus random sequences of 5-40 over all 14; observed: files opened per step (hook), pointer identity, lou_compileString "
                       "results, every result vs a fresh process with the same accepted additions, LeakSanitizer at exit; distinct = sequence" % maxlen)
    chk.cov["gen_status"] = gen
    chk.cov["checker_cmd"] = "make -C coq Properties/C14.vo (coqc 8.16.1)"
    chk.cov["trusted_base"] = common.TRUSTED_COMMON + ["tools/gen/g_statics.py (cache key comparison, lou_free statements)", "leaks are observed by LeakSanitizer, not proved"]
    if not prove["ok"] and not chk.violations:
        chk.violation("proof", "Properties/%s.v no longer checks: %s" % (PID, prove["failed"][:5]),
                      dict(no_failing_input=True, broken=prove["failed"], log=prove["log"][-1500:], gen=gen))
    return chk.finish(prove)
