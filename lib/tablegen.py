"""Grammar-based generation of tables in fragment F (DESIGN.md section 3): abstract entries that are
printed both as liblouis table text and as model driver lines."""
import re
from pathlib import Path

HERE = Path(__file__).resolve().parent.parent
_consts = None


def consts():
    """CTO_/CTC_ values from the generated Gen/GConst.v (single source: the current /repo)."""
    global _consts
    p = HERE / "coq" / "Gen" / "GConst.v"
    txt = p.read_text()
    _consts = {m.group(1): int(m.group(2)) for m in re.finditer(r"Definition (\w+) : Z := (-?\d+)\.", txt)}
    return _consts


OPNAME = {
    "space": "CTO_Space", "punctuation": "CTO_Punctuation", "digit": "CTO_Digit", "letter": "CTO_Letter",
    "lowercase": "CTO_LowerCase", "uppercase": "CTO_UpperCase", "sign": "CTO_Sign", "math": "CTO_Math",
    "always": "CTO_Always", "word": "CTO_WholeWord", "partword": "CTO_PartWord", "lowword": "CTO_LowWord",
    "sufword": "CTO_SuffixableWord", "prfword": "CTO_PrefixableWord", "begword": "CTO_BegWord",
    "begmidword": "CTO_BegMidWord", "midword": "CTO_MidWord", "midendword": "CTO_MidEndWord",
    "endword": "CTO_EndWord", "numsign": "CTO_NumberSign",
}
DEFOPS = ["space", "punctuation", "digit", "letter", "lowercase", "uppercase", "sign", "math"]
TRANSOPS = ["always", "word", "partword", "lowword", "sufword", "prfword", "begword", "begmidword", "midword",
            "midendword", "endword"]


def dots_text(cell):
    """cell: int with dot bits (bit0 = dot1 ... bit14 = dot f); 0 -> '0'"""
    s = "".join("123456789abcdef"[i] for i in range(15) if cell >> i & 1)
    return s or "0"


def char_text(c):
    if c == 32:
        return "\\s"
    if 33 <= c <= 126 and chr(c) not in "\\":
        return chr(c)
    return "\\x%04x" % c


class Entry:
    __slots__ = ("op", "chars", "dots", "nofor", "noback")

    def __init__(self, op, chars, dots, nofor=False, noback=False):
        self.op, self.chars, self.dots, self.nofor, self.noback = op, list(chars), dots, nofor, noback

    def text(self):
        pre = ("nofor " if self.nofor else "") + ("noback " if self.noback else "")
        d = "=" if self.dots is None else "-".join(dots_text(x) for x in self.dots)
        if self.op == "numsign":
            return pre + "numsign " + d
        return "%s%s %s %s" % (pre, self.op, "".join(char_text(c) for c in self.chars), d)

    def model_line(self, C):
        d = [] if self.dots is None else [x | 0x8000 for x in self.dots]
        return "TE %d %d %d %d %s %d %s" % (C[OPNAME[self.op]], int(self.nofor), int(self.noback), len(self.chars),
                                            " ".join(map(str, self.chars)), len(d), " ".join(map(str, d)))


def table_text(entries):
    return "\n".join(e.text() for e in entries) + "\n"


def model_table_lines(entries):
    C = consts()
    return ["TB"] + [e.model_line(C) for e in entries]


def gen_c05_table(rng, collide=False):
    """Character definitions + always/word-position rules + numsign + '=' rules.  Every character that
    occurs in a rule is defined; '=' rules come after the definitions of their characters."""
    nlet = rng.range(2, 6)
    if collide:
        # characters congruent modulo HASHNUM so that 2-character hashes collide across rules
        base = rng.range(0x100, 0x200)
        letters = [base + 1123 * i for i in range(nlet)]
    else:
        letters = [ord(c) for c in "abcdefgh"[:nlet]]
    others = [(32, "space"), (46, "punctuation"), (44, "punctuation"), (49, "digit"), (50, "digit")]
    cells = rng.sample(range(1, 64), nlet + 8)
    defs = []
    ci = 0
    for c in letters:
        op = rng.choice(["letter", "letter", "letter", "lowercase", "uppercase"]) if rng.chance(0.3) else "letter"
        nd = 1 if rng.chance(0.85) else 2
        defs.append(Entry(op, [c], [cells[ci]] + ([rng.range(1, 63)] if nd == 2 else [])))
        ci += 1
    for c, op in others:
        defs.append(Entry(op, [c], [0] if c == 32 else [cells[ci]]))
        ci += 1
    # a second definition of some character (another class / other dots): first definition wins
    if rng.chance(0.3):
        c = rng.choice(letters + [46])
        defs.append(Entry(rng.choice(["letter", "punctuation", "sign", "math"]), [c], [rng.range(1, 63)]))
    rng.shuffle(defs)
    rules = []
    pool = letters * 3 + [46, 44, 49]
    for _ in range(rng.range(0, 9)):
        op = rng.choice(TRANSOPS) if rng.chance(0.7) else "always"
        L = rng.choice([1, 2, 2, 2, 3, 3, 4])
        chars = [rng.choice(pool) for _ in range(L)]
        if rules and rng.chance(0.2):
            chars = list(rng.choice(rules).chars)          # duplicate strings
        if rules and rng.chance(0.15):
            chars = list(rng.choice(rules).chars)[:2] + [rng.choice(pool)]  # common prefixes
        dots = None if rng.chance(0.2) else [rng.range(1, 63) for _ in range(rng.range(1, 2))]
        d = rng.below(16)
        rules.append(Entry(op, chars, dots, nofor=(d == 0), noback=(d == 1)))
    if rng.chance(0.4):
        rules.append(Entry("numsign", [], [rng.range(1, 63) for _ in range(rng.range(1, 2))]))
    # definition order: mostly definitions first; sometimes interleaved ('=' rules stay last)
    if rng.chance(0.35):
        mixed = defs + [r for r in rules if r.dots is not None]
        rng.shuffle(mixed)
        entries = mixed + [r for r in rules if r.dots is None]
    else:
        rng.shuffle(rules)
        eq = [r for r in rules if r.dots is None]
        entries = defs + [r for r in rules if r.dots is not None] + eq
    alphabet = letters * 3 + [32, 32, 46, 44, 49, 50]
    return entries, alphabet


def gen_defs_table(rng, injective=True, big=False):
    """Tables of single-cell character definitions (computer-braille style)."""
    n = rng.range(150, 400) if big else rng.range(2, 40)
    chars = set([32])
    while len(chars) < n:
        k = rng.below(4)
        if k == 0:
            chars.add(rng.range(33, 126))
        elif k == 1:
            chars.add(rng.range(0xa0, 0x2fff))
        elif k == 2 and len(chars) > 1:
            c = rng.choice(sorted(chars)) + 1123          # same character bucket
            if c < 0xfffe:
                chars.add(c)
        else:
            chars.add(rng.range(0x3000, 0xfffd))
    chars = sorted(chars)
    rng.shuffle(chars)
    eight = rng.chance(0.5)
    wide = rng.chance(0.2)
    cells = set()
    while len(cells) < n:
        if wide:
            c = rng.range(1, 0x7ffe)
            cells.add(c)
            if c + 1123 < 0x7fff and rng.chance(0.3):
                cells.add(c + 1123)                        # same cell bucket
        else:
            cells.add(rng.range(1, 255 if eight or n > 60 else 63))
        if not wide and len(cells) >= (255 if eight or n > 60 else 63):
            break
    cells = sorted(cells)
    rng.shuffle(cells)
    m = min(len(chars), len(cells))
    chars, cells = chars[:m], cells[:m]
    entries = []
    for c, d in zip(chars, cells):
        if c == 32:
            entries.append(Entry("space", [32], [0 if 0 not in cells else d]))
        else:
            entries.append(Entry(rng.choice(["letter", "lowercase", "uppercase", "punctuation", "digit", "sign", "math"]), [c], [d]))
    if not injective:
        for _ in range(rng.range(1, 4)):
            e = rng.choice(entries)
            k = rng.below(3)
            if k == 0:      # another character on the same cell
                entries.insert(rng.below(len(entries) + 1), Entry(rng.choice(["letter", "sign"]), [rng.range(0x100, 0x3000)], list(e.dots)))
            elif k == 1:    # the same character on another cell
                entries.insert(rng.below(len(entries) + 1), Entry(rng.choice(["letter", "punctuation"]), list(e.chars), [rng.range(1, 255)]))
            else:           # exact duplicate
                entries.insert(rng.below(len(entries) + 1), Entry(e.op, list(e.chars), list(e.dots)))
    return entries


# ---------------------------------------------------------------- multipass rules (C06 grammar)

class PassRule:
    """stage: 'correct' | 'pass2' | 'pass3' | 'pass4'; items: ('lit', [v..]) | ('look', k) | '[' | ']';
    action: ('lit', [v..]) | ('omit',) | ('copy',); values are characters for correct, cells (with 0x8000) otherwise"""

    def __init__(self, stage, items, action, direction="noback"):
        self.stage, self.items, self.action, self.direction = stage, items, action, direction

    def _lit(self, vs):
        if self.stage == "correct":
            return '"' + "".join(char_text(c) if c != 32 else "\\s" for c in vs) + '"'
        return "@" + "-".join(dots_text(v & 0x7fff) for v in vs)

    def text(self):
        t = ""
        for it in self.items:
            if it in ("[", "]"):
                t += it
            elif it[0] == "look":
                t += "_%d" % it[1]
            else:
                t += self._lit(it[1])
        a = self.action
        at = self._lit(a[1]) if a[0] == "lit" else "?" if a[0] == "omit" else "*"
        return ("%s %s %s %s" % (self.direction, self.stage, t, at)).strip()

    def model_line(self, idx):
        st = {"correct": 0, "pass2": 2, "pass3": 3, "pass4": 4}[self.stage] + {"": 0, "noback": 10, "nofor": 20}[self.direction]
        parts = []
        for it in self.items:
            if it == "[":
                parts.append("O")
            elif it == "]":
                parts.append("C")
            elif it[0] == "look":
                parts.append("B %d" % it[1])
            else:
                parts.append("L %d %s" % (len(it[1]), " ".join(map(str, it[1]))))
        a = self.action
        ap = "L %d %s" % (len(a[1]), " ".join(map(str, a[1]))) if a[0] == "lit" else "Q" if a[0] == "omit" else "S"
        return "PR %d %d %s | %s" % (st, idx, " ".join(parts), ap)


def gen_pass_rule(rng, stage, values, direction="noback", allow_lookback=True, risky=False):
    items = []
    lb = 0
    if allow_lookback and rng.chance(0.25):
        lb = rng.range(1, 2)
        items.append(("look", lb))
    ng = rng.range(1, 3)
    groups = [[rng.choice(values) for _ in range(rng.range(1, 2))] for _ in range(ng)]
    if lb and rng.chance(0.4):
        # the look-back covers the first literal exactly: the rule is then chained by the NEXT literal (passFindCharacters)
        ng = max(ng, 2)
        groups = [[rng.choice(values) for _ in range(lb)]] + [[rng.choice(values) for _ in range(rng.range(1, 2))] for _ in range(ng - 1)]
    br = rng.chance(0.6)
    i = j = 0
    if br:
        i = rng.range(0, ng)
        j = rng.range(i, ng)
        if lb and not risky:
            while i < ng and sum(len(g) for g in groups[:i]) < lb:
                i += 1
            j = max(j, i)
            if sum(len(g) for g in groups[:i]) < lb:
                br = False
    if lb and not br and not risky and sum(len(g) for g in groups) < lb:
        groups.append([rng.choice(values) for _ in range(2)])
    for k, g in enumerate(groups):
        if br and k == i:
            items.append("[")
        if br and k == j:
            items.append("]")
        items.append(("lit", g))
    if br and i == len(groups):
        items.append("[")
    if br and j == len(groups):
        items.append("]")
    if allow_lookback and rng.chance(0.2):
        # a look-back in the middle, behind the brackets or at the end: the match may end before the
        # replaced range (legal: '[$d5]_5 "s"' in tests/yaml/multipass-forward.yaml)
        items.insert(rng.range(1, len(items)), ("look", rng.range(1, 3)))
    a = rng.below(10)
    if a < 6:
        act = ("lit", [rng.choice(values) for _ in range(rng.range(1, 3))])
    elif a < 8:
        act = ("omit",)
    else:
        act = ("copy",)
    return PassRule(stage, items, act, direction)


def gen_c06_table(rng, risky=False, directions=("noback",)):
    """one-to-one main pass over a small alphabet + 0-3 literal rules in each of correct/pass2/pass3/pass4"""
    letters = [ord(c) for c in "abcd"]
    cells = rng.sample(range(1, 64), 4)
    entries = [Entry("space", [32], [0])] + [Entry("letter", [c], [d]) for c, d in zip(letters, cells)]
    rng.shuffle(entries)
    cellvals = [0x8000 | d for d in cells]
    rules = []
    for stage in ("correct", "pass2", "pass3", "pass4"):
        vals = letters if stage == "correct" else cellvals
        extra = [32] if stage == "correct" else [0x8000, 0x8000 | 63]
        stage_rules = []
        for _ in range(rng.choice([0, 0, 1, 2, 3])):
            r = gen_pass_rule(rng, stage, vals if rng.chance(0.8) else vals + extra, direction=rng.choice(list(directions)), risky=risky)
            stage_rules.append(r)
        # a competitor defined later whose literal is the literal another rule of the stage is chained by, or a prefix of it
        lits = [it[1] for r in stage_rules for it in r.items if isinstance(it, tuple) and it[0] == "lit"]
        if lits and rng.chance(0.4):
            lit = rng.choice(lits)
            lit = lit[:rng.range(1, len(lit))]
            stage_rules.append(PassRule(stage, [("lit", list(lit))], ("lit", [rng.choice(vals)]), rng.choice(list(directions))))
        rules += stage_rules
    rng.shuffle(rules)
    return entries, rules, letters


def pass_table_text(entries, rules):
    return table_text(entries) + "".join(r.text() + "\n" for r in rules)


def pass_model_lines(entries, rules):
    base = len(entries) + 1      # rule index: built-in 0, then entries, then pass rules in file order
    return model_table_lines(entries) + [r.model_line(base + k) for k, r in enumerate(rules)]


def gen_group_swap_rules(rng, letters, cellvals):
    """table lines with the multipass constructs outside the modelled fragment: swap classes, grouping pairs, attribute
    tests with counts, multi-cell indicators - only for the memory / termination / history streams (no model side).
    Lines the compiler rejects make the table fail to compile, which those streams tolerate."""
    L = [chr(c) for c in letters if 97 <= c <= 122] or ["a", "b"]
    d = lambda v: dots_text(v & 0x7fff)
    cs = [d(c) for c in cellvals] or ["1", "12"]
    pick = lambda seq, n: [rng.choice(seq) for _ in range(n)]
    a, b = rng.choice(L), rng.choice(L)
    n = rng.range(2, min(4, len(L)))
    sw1, sw2 = "".join(rng.sample(L, n)) if len(L) >= n else "".join(pick(L, n)), "".join(pick(L, n))
    lines = [
        "swapcc sw %s %s" % (sw1, sw2),
        "swapcd sd %s %s" % (sw1, ",".join(pick(cs, n))),
        "swapdd ss %s %s" % (",".join(rng.sample(cs, min(n, len(cs)))), ",".join(pick(cs, min(n, len(cs))))),
        "grouping gp %s%s %s,%s" % (a, b if b != a else "z", rng.choice(cs), rng.choice(cs)),
        "letsign 56", "capsletter 6",
    ]
    nv = int(consts().get("NUMVAR", 50))
    vn, vm = rng.range(0, nv - 1), rng.choice([0, 1, nv - 1, nv // 2])
    cnt = lambda: rng.choice(["", "", "1-2", "1-3", "2", "3", "1-9"])   # a lower bound of 0 is rejected by the compiler
    pool = [
        "noback correct [%%sw%s] %%sw" % cnt(), 'noback correct %%sw%s "%s"' % (cnt(), a), 'noback correct "%s"[%%sw%s]"%s" %%sw' % (a, cnt(), b),
        "noback correct [%sw] *", "noback correct _1[%%sw%s] %%sw" % cnt(), "noback correct [%sw]_1 %sw",
        "noback context [%%sd%s] %%sd" % cnt(), "noback context %%sd%s @%s" % (cnt(), rng.choice(cs)), 'noback context "%s"[%%sd] %%sd' % a,
        "noback pass2 [%%ss%s] %%ss" % cnt(), "noback pass2 %%ss%s @%s" % (cnt(), rng.choice(cs)), "noback pass2 @%s[%%ss] %%ss" % rng.choice(cs),
        "noback pass3 [%ss]_1 %ss", "noback pass2 _1[%%ss%s] %%ss" % cnt(),
        "nofor pass2 [%%ss%s] %%ss" % cnt(), "nofor pass2 %ss ?", "nofor context [%%sd%s] %%sd" % cnt(), "nofor correct [%%sw%s] %%sw" % cnt(),
        "nofor pass3 _1[%ss] %ss", "nofor context %sd *",
        'noback correct {gp "%s"' % a, "noback correct }gp ?", "noback correct {gp *", "noback correct [{gp] ;gp", "noback correct {gp}gp ;gp",
        'noback correct "%s"{gp {gp' % a, "noback correct [}gp] {gp", "noback pass2 {gp ?", "noback pass2 [{gp]}gp ;gp", "noback pass2 {gp {gp}gp",
        "nofor pass2 {gp *", "nofor correct }gp {gp", "nofor pass2 [{gp] ;gp",
        'noback correct $l%s"%s" "%s"' % (cnt(), a, b), "noback pass2 $a%s[@%s] @%s" % (cnt(), rng.choice(cs), rng.choice(cs)),
        "noback pass2 [$a%s] ?" % cnt(), "noback correct [$l1-9] *", "nofor pass2 $a%s[@%s]$a *" % (cnt(), rng.choice(cs)), "nofor pass2 [$a1-9]_1 ?",
        "noback correct [!$l] ?", 'noback correct !"%s"["%s"] "%s"' % (a, b, a), "noback pass2 @%s/@%s ?" % (rng.choice(cs), rng.choice(cs)), 'noback correct "%s"/"%s" ?' % (a, b),
        "noback pass2 `@%s ?" % rng.choice(cs), "noback pass2 @%s~ @%s" % (rng.choice(cs), rng.choice(cs)), "nofor pass2 `[@%s] *" % rng.choice(cs),
        "multind %s-%s letsign capsletter" % (rng.choice(cs), rng.choice(cs)), "multind 56-6 capsletter letsign",
        # negated tests: a failed look-back / literal / attribute test turns true and the test goes on from where it stood
        "nofor pass2 !_%d[$a]@%s @%s" % (rng.range(1, 3), rng.choice(cs), rng.choice(cs)), "nofor pass3 !_%d[@%s] @%s" % (rng.range(1, 2), rng.choice(cs), rng.choice(cs)),
        "nofor context !_%d[@%s] ?" % (rng.range(1, 3), rng.choice(cs)), 'nofor correct !_%d["%s"] "%s"' % (rng.range(1, 2), a, b),
        "noback pass2 !_%d[@%s] @%s" % (rng.range(1, 3), rng.choice(cs), rng.choice(cs)), 'noback correct !_%d[$l]"%s" *' % (rng.range(1, 2), a),
        "noback context !_%d[$l] ?" % rng.range(1, 3), "nofor pass2 !@%s[@%s] ?" % (rng.choice(cs), rng.choice(cs)), "noback pass2 [@%s]!@%s ?" % (rng.choice(cs), rng.choice(cs)),
        "nofor pass2 [@%s]!$a @%s" % (rng.choice(cs), rng.choice(cs)), "nofor pass4 !_1!@%s[$a] ?" % rng.choice(cs),
        # searches (/) followed by every kind of test item: attributes with counts, negation, look-back, brackets, swap
        # classes, grouping characters
        "noback pass2 @%s/$a%s ?" % (rng.choice(cs), cnt()), "noback pass2 @%s/!@%s ?" % (rng.choice(cs), rng.choice(cs)),
        "noback pass2 @%s/_1@%s ?" % (rng.choice(cs), rng.choice(cs)), "noback pass2 @%s/[@%s] ?" % (rng.choice(cs), rng.choice(cs)),
        "noback pass2 @%s/%%ss ?" % rng.choice(cs), "noback pass2 @%s/{gp ?" % rng.choice(cs), "noback pass2 @%s/}gp ?" % rng.choice(cs),
        'noback correct "%s"/$l%s ?' % (a, cnt()), 'noback correct "%s"/!$l"%s" ?' % (a, b), "noback pass3 @%s/!$a ?" % rng.choice(cs),
        "noback pass2 @%s/$a1-2@%s @%s" % (rng.choice(cs), rng.choice(cs), rng.choice(cs)), "noback pass2 @%s/@%s[] @%s" % (rng.choice(cs), rng.choice(cs), rng.choice(cs)),
        # multipass variables: counters with comparisons, increments and decrements (the index range comes from NUMVAR)
        "noback pass2 #%d<2@%s @%s#%d+" % (vn, rng.choice(cs), rng.choice(cs), vn), "noback pass2 #%d>0@%s @%s#%d-" % (vn, rng.choice(cs), rng.choice(cs), vn),
        "noback pass3 #%d<=1@%s @%s#%d+" % (vm, rng.choice(cs), rng.choice(cs), vm), "noback pass2 #%d>=1@%s ?" % (vn, rng.choice(cs)),
        "nofor pass2 #%d<3@%s @%s#%d+" % (vm, rng.choice(cs), rng.choice(cs), vm), 'noback correct #%d=0"%s" "%s"#%d=3' % (vn, a, b, vn),
        'noback correct #%d>1"%s" "%s"#%d-' % (vn, a, b, vn), "nofor pass3 #%d<=2@%s @%s#%d+" % (vn, rng.choice(cs), rng.choice(cs), vn),
        'noback context #%d<2"%s" @%s#%d+' % (vm, a, rng.choice(cs), vm),
        # match / backmatch: patterns before and behind the characters (their compiled form is an object of its own in the image)
        "match %%a %s%s %%a+ %s" % (a, b, rng.choice(cs)), "backmatch - %s%s - %s" % (b, a, rng.choice(cs)),
        "match %%[^_~]|%%<[%s%s] %s%s %%>[%s]|%%[^_~] %s" % (a, b, a, a, b, rng.choice(cs)), "backmatch [%s%s]+ %s%s (%s|%s)*. %s-%s" % (a, b, b, b, a, b, rng.choice(cs), rng.choice(cs)),
        "noback match %%l* %s%s %%l? %s" % (b, a, rng.choice(cs)), "nofor backmatch %%l* %s%s !$ %s" % (a, b, rng.choice(cs)), "match ^ %s%s $ %s" % (a, b, rng.choice(cs)),
        # long literals: a test that runs far behind the end of the pass input
        "nofor pass2 @%s ?" % "-".join(pick(cs, 9)), "nofor pass3 @%s@%s *" % (rng.choice(cs), "-".join(pick(cs, 12))),
        'nofor correct "%s" ?' % "".join(pick(L, 10)), "noback pass2 @%s ?" % "-".join(pick(cs, 9)), 'noback correct "%s" "%s"' % ("".join(pick(L, 10)), a),
        "nofor context @%s@%s ?" % (rng.choice(cs), "-".join(pick(cs, 8))), "nofor pass2 [%%ss]@%s ?" % "-".join(pick(cs, 8)),
    ]
    return lines + rng.sample(pool, rng.range(3, 9))


def gen_exotic_rules(r, letters):
    """main-pass opcodes outside the modelled fragment whose handlers move the position themselves (rewind to the word
    start, translate a whole string in computer braille, skip repetitions ...): any of them can fail to advance"""
    L = [chr(c) for c in letters if c != 32]
    w = lambda n: "".join(r.choice(L) for _ in range(n))
    out = ["punctuation - 36", "punctuation . 256", "digit 1 2", "digit 2 23"]
    d1 = lambda: dots_text(r.range(1, 63))
    pool = [
        "seqdelimiter -", "seqbeforechars -", "seqafterchars -", "nocont %s" % w(r.range(1, 3)), "nocont %s" % w(3),
        "compbrl %s" % w(r.range(1, 2)), "compbrl \\s%s" % w(1), "compbrl %s\\s" % w(1), "compbrl -%s" % w(1), "literal %s" % w(2),
        "comp6 %s 1-2" % w(1), "repeated -- 36", "repeated %s 14" % (w(1) * 2), "repeated \\s\\s 0",
        "replace %s %s" % (w(2), w(1)), "replace %s" % w(1), "joinword %s 12" % w(1), "largesign %s 123" % w(2), "contraction %s" % w(2),
        "hyphen - 36", "begnum 1 3", "midnum - 36", "endnum 1 3", "decpoint . 46", "numsign 3456", "capsletter 6", "lowword %s 15" % w(1),
        "repword -- 36", "rependword -- 36,36", "syllable %s 1-2" % w(2), "exactdots @12", "noletsign %s" % w(1), "letsign 56",
        "partword %s 13" % w(2), "always %s 1-1" % w(1), "begword %s 13" % w(2), "always -%s 36" % w(1),
    ]
    # constructs whose handlers keep state across iterations: numeric mode, repeated words, chained base characters,
    # searches inside a pass test, nocont / compbrl strings that begin or end with a blank
    groups = [
        ["nocont \\s%s" % w(1)], ["nocont %s\\s" % w(1)], ["nocont \\s%s\\s" % w(2)],
        ["seqdelimiter -", "nocont %s" % w(r.range(1, 2)), "always %s 1-1" % w(2)], ["seqdelimiter -", "nocont .%s" % w(1)],
        ["nonumsign 56", "nocontractsign 56", "numericmodechars .-", "seqdelimiter -", "nocont %s" % w(2), "numsign 3456"],
        ["numericnocontchars %s" % w(2), "midendnumericmodechars -", "nonumsign 56", "numsign 3456", "nocont %s" % w(1), "seqdelimiter -"],
        ["repword - 36-36", 'noback context []"-" ?'], ["repword -- 36", 'noback context "-"[] ?', 'noback context []"%s" ?' % w(1)],
        ["rependword - 36,36-36", 'noback context []"-" *'],
        ["noback pass2 @%s/~ @%s" % (d1(), d1())], ["noback pass2 @%s/` @%s" % (d1(), d1())], ["noback pass2 @%s/@%s~ ?" % (d1(), d1())],
        ['noback correct "%s"/"%s"~ ?' % (w(1), w(1))], ["noback pass3 @%s/@%s/@%s ?" % (d1(), d1(), d1())], ["noback pass2 @%s[/@%s] *" % (d1(), d1())],
        ["lowercase z 1356", "lowercase y 13456", "attribute acute z", "attribute grave y", "base uppercase %s %s" % (L[0].upper(), L[0]),
         "base acute \\x00e1 %s" % L[0], "base grave \\x00e0 \\x00e1", "capsletter 6"],
        ["lowercase z 1356", "attribute acute z", "base uppercase %s %s" % (L[0].upper(), L[0]), "base acute \\x00c1 %s" % L[0].upper(), "capsletter 6", "begcapsword 6-6"],
    ]
    extra = []
    for g in r.sample(groups, r.range(0, 3)):
        extra += g
    return out + r.sample(pool, r.range(2, 6)) + extra



def gen_emphasis_table(rng):
    """a small table with capital letters (base rules), capital and emphasis indicators in random combinations (letter, word,
    phrase with before/after end, length limits, mode characters), a few contractions and numbers; for the memory, length and
    position streams (no model side).  Returns (text, alphabet)."""
    d = lambda: dots_text(rng.range(1, 63))
    seq = lambda: "-".join(dots_text(rng.range(1, 63)) for _ in range(rng.range(1, 3)))
    low = "abcdefg"[: rng.range(3, 7)]
    lines = ["space \\s 0", "punctuation . 256", "punctuation - 36", "punctuation , 2"]
    lines += ["lowercase %s %s" % (c, d()) for c in low]
    lines += ["base uppercase %s %s" % (c.upper(), c) for c in low]
    lines += ["digit %d %s" % (k, d()) for k in (1, 2)] + ["numsign 3456"]
    if rng.chance(0.8):
        lines.append("capsletter %s" % seq())
    if rng.chance(0.7):
        lines.append("begcapsword %s" % seq())
        if rng.chance(0.6):
            lines.append("endcapsword %s" % seq())
    if rng.chance(0.5):
        lines.append("begcapsphrase %s" % seq())
        lines.append("endcapsphrase %s %s" % (rng.choice(["before", "after"]), seq()))
        if rng.chance(0.6):
            lines.append("lencapsphrase %d" % rng.range(1, 4))
    if rng.chance(0.3):
        lines.append("capsmodechars -")
    # the first three classes must be italic, underline, bold in that order
    classes = ["italic", "underline", "bold", "script", "trans1"][: rng.range(1, 5)]
    for cl in classes:
        lines.append("emphclass %s" % cl)
    for cl in classes:
        if rng.chance(0.7):
            lines.append("emphletter %s %s" % (cl, seq()))
        k = rng.below(3)
        if k == 0:
            lines.append("begemph %s %s" % (cl, seq()))
            lines.append("endemph %s %s" % (cl, seq()))
        else:
            lines.append("begemphword %s %s" % (cl, seq()))
            if rng.chance(0.7):
                lines.append("endemphword %s %s" % (cl, seq()))
            if k == 2:
                lines.append("begemphphrase %s %s" % (cl, seq()))
                lines.append("endemphphrase %s %s %s" % (cl, rng.choice(["before", "after"]), seq()))
                if rng.chance(0.6):
                    lines.append("lenemphphrase %s %d" % (cl, rng.range(1, 4)))
        if rng.chance(0.2):
            lines.append("emphmodechars %s -" % cl)
    if rng.chance(0.5):
        lines.append("letsign 56")
    if rng.chance(0.4):
        lines.append("nocontractsign 6-56")
    if rng.chance(0.5):
        # computer braille indicators (used around compbrl / computer_braille text, and recognised again on the way back)
        lines.append("begcomp %s" % seq())
        lines.append("endcomp %s" % seq())
        if rng.chance(0.6):
            lines.append("compbrl .")
    for _ in range(rng.range(1, 5)):
        w = "".join(rng.choice(low) for _ in range(rng.range(2, 3)))
        lines.append("%s %s %s" % (rng.choice(["always", "always", "word", "begword", "endword", "contraction", "largesign", "joinword", "lowword"]), w, d()))
    if rng.chance(0.3):
        lines.append("noback correct \"%s\" \"%s%s\"" % (low[0], low[0], low[1]))
    if rng.chance(0.3):
        lines.append("noback pass2 @%s @%s-%s" % (d(), d(), d()))
    alphabet = [ord(c) for c in low] * 3 + [ord(c.upper()) for c in low] * 2 + [32, 32, 32, 46, 45, 44, 49, 50]
    return "\n".join(lines) + "\n", alphabet
