"""C18 — metadata queries select tables by the documented scoring order.
PROVE: Properties/C18.v over generated weights/comparisons (Gen/GMeta.v).
CORRESPOND: lou_indexTables/lou_findTable/lou_findTables/lou_getTableInfo on generated header sets
 vs extracted Meta.find_table / find_tables / get_info, all index orders for small sets."""
import itertools
import os
import shutil

import common
from common import Rng

PID = "C18"
# plain keys; "l", "reg", "loc" are ordinary keys too (they merely begin like language / region / locale)
KEYS = ["type", "contraction", "grade", "dots", "system", "direction", "Display-Name", "unicode-range", "l", "reg", "loc"]
VALS = ["a", "b", "c", "A", "full", "no"]
# language tags: the keys language and region hold tags, locale is shorthand for both; a table's tag is a RANGE (it may be
# shorter than the queried tag, or start with the wildcard), subtags compare without case, a one-character subtag (x) stops
LANGKEYS = ["language", "region", "locale"]
TAGS = ["en", "en-US", "en-GB", "de", "de-CH", "fr", "EN-us", "en-x-foo", "en-Latn-US", "zh-Hant-TW", "en-US-x-twain", "en-a-b-c-d-e-f", "de-1996"]
RANGES = TAGS + ["*", "*-US", "*-CH"]
BADTAGS = ["en_US", "-en", "en-", "abcdefghij", "1a", "en--US", "e*"]


def low(s):
    return s.lower()


def is_lang(k):
    return low(k) in ("language", "region")


def expand(pairs):
    """locale:x stands for language:x and region:x (tables and queries alike)"""
    out = []
    for k, v in pairs:
        if low(k) == "locale":
            out += [("language", v), ("region", v)]
        else:
            out.append((k, v))
    return out


def norm_table(feats):
    fs = [(low(k), low(v)) for k, v in expand(feats)]
    if not any(k == "region" for k, _ in fs) and any(k == "language" for k, _ in fs):
        fs.append(("region", [v for k, v in fs if k == "language"][0]))      # a table's region defaults to its first language
    if not any(k == "unicode-range" for k, _ in fs):
        fs.append(("unicode-range", "ucs2"))
    out = []
    for f in fs:
        if f not in out:
            out.append(f)
    return sorted(out, key=lambda kv: (kv[0], tuple(kv[1].split("-")) if is_lang(kv[0]) else (kv[1],)))


def norm_query(pairs):
    out = []
    for k, v in reversed(expand(pairs)):  # parseQuery prepends, list_sort keeps the first it meets: the LAST occurrence of a key wins
        if low(k) not in [x[0] for x in out]:
            out.append((low(k), low(v)))
    if not any(k == "unicode-range" for k, _ in out):
        out.append(("unicode-range", "ucs2"))
    return sorted(out, key=lambda x: x[0])


_SUB = {}


def subtag_id(t):
    """ids by the convention of Model/Meta.v: 0 = the wildcard, 1..63 = the other one-character subtags, >= 64 longer ones"""
    if t == "*":
        return 0
    if len(t) == 1:
        return 1 + "0123456789abcdefghijklmnopqrstuvwxyz".index(t)
    if t not in _SUB:
        _SUB[t] = 64 + len(_SUB)
    return _SUB[t]


def weights():
    import re
    txt = (common.COQ / "Gen" / "GMeta.v").read_text()
    w = {}
    for name in ("W_POS_MATCH", "W_NEG_MATCH", "W_UNDEFINED", "W_EXTRA"):
        m = re.search(r"Definition %s : Z := \(?(-?\d+)\)?\." % name, txt)
        w[name] = int(m.group(1)) if m else None
    return w


def zero_score_shapes(w):
    """(matching features incl. the default unicode-range, query features the table does not define, table features the
    query does not mention) whose weights cancel exactly: the boundary between `found' and `not found'"""
    out = []
    if None in w.values():
        return out
    for np_ in range(1, 5):
        for nu in range(0, 4):
            for ne in range(0, 4):
                if nu + ne and np_ * w["W_POS_MATCH"] + nu * w["W_UNDEFINED"] + ne * w["W_EXTRA"] == 0:
                    out.append((np_, nu, ne))
    return out


def run(chk):
    rng = Rng(chk.seed).fork(PID)
    gen = common.gen_stage()
    prove = common.prove_stage(PID)
    drv = common.model_driver()
    exe = common.build_harness("h_meta")
    work = common.BUILD / ("work-c18-%d" % os.getpid())
    shutil.rmtree(work, ignore_errors=True)
    work.mkdir(parents=True)
    nsets = 120 if chk.tier == "quick" else 2500
    keyid = {k: i + 1 for i, k in enumerate(sorted(set(low(k) for k in KEYS) | {"language", "region"}))}
    allvals = sorted(set(low(v) for v in VALS) | {"ucs2", "ucs4"} | set(low(v) for v in RANGES))
    valid = {v: i + 1 for i, v in enumerate(allvals)}
    ids = "%d %d %d | %d %d" % (keyid["unicode-range"], valid["ucs2"], valid["ucs4"], keyid["language"], keyid["region"])

    def enc(fs):
        """features (key, value) -> the model's  k n v..  form: a plain value is one id, a language tag its subtag ids"""
        out = []
        for k, v in fs:
            vs = [subtag_id(t) for t in v.split("-")] if is_lang(k) else [valid[v]]
            out.append("%d %d %s" % (keyid[k], len(vs), " ".join(map(str, vs))))
        return " ".join(out)
    for si in range(nsets):
        r = rng.fork(("set", si))
        nt = r.range(1, 4)
        tabs = []
        for ti in range(nt):
            feats = []
            for k in KEYS:
                if r.chance(0.45):
                    v = r.choice(["ucs2", "ucs4"]) if k == "unicode-range" else r.choice(VALS)
                    feats.append((k if r.chance(0.7) else k.upper(), v))
            if feats and r.chance(0.25):
                k0 = feats[0][0]
                feats.append((k0, r.choice(VALS) if low(k0) != "unicode-range" else "ucs4"))
            if r.chance(0.6):
                # one to many languages (every further language of a table costs a little), regions, locale shorthand
                for _ in range(r.choice([1, 1, 1, 2, 3, 10, 15])):
                    feats.append((r.choice(["language", "language", "Language", "region", "locale"]), r.choice(RANGES)))
            if not feats:
                feats = [("type", "a")]
            r.shuffle(feats)
            if r.chance(0.2):
                k0, v0 = feats[0]
                if low(k0) != "unicode-range" and low(k0) not in LANGKEYS:
                    feats = feats + [(k0, r.choice([v for v in VALS if low(v) != low(v0)])), (k0, v0)]
            if r.chance(0.25):
                # a language line and a locale line in either order and no region line: the region comes from the locale, not
                # from the default (= first language) that a table without any region gets
                feats = [f for f in feats if low(f[0]) not in LANGKEYS]
                x, y = r.sample(TAGS, 2)
                i1 = r.range(0, len(feats))
                feats.insert(i1, (r.choice(["language", "locale"]), x))
                feats.insert(r.range(i1 + 1, len(feats)), ("locale" if low(feats[i1][0]) == "language" else "language", y))
            p = work / ("s%d_t%d.utb" % (si, ti))
            p.write_text("".join("#+%s:%s\n" % kv for kv in feats) + "space \\s 0\n")
            tabs.append((str(p), feats))
        queries = []
        for _ in range(6):
            q = []
            for k in KEYS:
                if r.chance(0.4):
                    q.append((k, r.choice(["ucs2", "ucs4"]) if k == "unicode-range" else r.choice(VALS)))
            if q and r.chance(0.15):
                q.append((q[0][0], r.choice(VALS)))
            if r.chance(0.6):
                lk = r.choice([["language"], ["region"], ["locale"], ["language", "region"], ["Language"]])
                q += [(k, r.choice(TAGS)) for k in lk]
            if not q:
                q = [("type", "a")]
            r.shuffle(q)
            queries.append((" ".join("%s:%s" % kv for kv in q), q))
        # a language query against the languages of table 0: the same tag, a more specific one, a less specific one
        l0 = [v for k, v in expand(tabs[0][1]) if low(k) == "language" and not v.startswith("*")]
        if l0:
            t0 = r.choice(l0)
            for tq in (t0, t0 + "-" + r.choice(["US", "x-foo", "Latn", "a-b"]), t0.split("-")[0]):
                queries.append(("language:" + tq, [("language", tq)]))
                chk.tally("aimed_language_queries")
        for v in sorted(set(v for k, v in expand(tabs[0][1]) if is_lang(k) and not v.startswith("*")))[:3]:
            queries.append(("region:" + v, [("region", v)]))
        queries.append(("language:" + r.choice(BADTAGS), None))
        # aimed at the boundary: a query whose score against table 0 is exactly 0 (the weights REGENERATED from the source
        # cancel), and one point to either side
        shapes = zero_score_shapes(weights())
        if shapes and si % 3 == 0:
            np_, nu, ne = r.choice(shapes)
            ks = [k for k in KEYS if k != "unicode-range"]
            r.shuffle(ks)
            if np_ - 1 + nu + ne <= len(ks):
                mk, uk, ek = ks[:np_ - 1], ks[np_ - 1:np_ - 1 + nu], ks[np_ - 1 + nu:np_ - 1 + nu + ne]
                feats0 = [(k, r.choice(VALS)) for k in mk + ek]
                if not feats0:
                    feats0 = [(ks[-1], r.choice(VALS))]
                p0 = work / ("s%d_t0.utb" % si)
                p0.write_text("".join("#+%s:%s\n" % kv for kv in feats0) + "space \\s 0\n")
                tabs[0] = (str(p0), feats0 if feats0 else [])
                zq = [(k, v) for k, v in feats0 if k in mk] + [(k, r.choice(VALS)) for k in uk]
                if zq:
                    queries.append((" ".join("%s:%s" % kv for kv in zq), zq))
                    chk.tally("aimed_zero_score_queries")
                    if len(zq) > 1 and uk:
                        queries.append((" ".join("%s:%s" % kv for kv in zq[:-1]), zq[:-1]))
        # the exact metadata of table 0 (one value per key)
        ex = []
        for k, v in tabs[0][1]:
            if low(k) not in [low(x[0]) for x in ex] and "*" not in v:      # the wildcard belongs to ranges (tables), not to queries
                ex.append((k, v))
        exact_ok = len(set(low(k) for k, _ in tabs[0][1])) == len(set((low(k), low(v)) for k, v in tabs[0][1])) and \
            not any("*" in v for _, v in tabs[0][1]) and not any(low(k) == "locale" for k, _ in tabs[0][1])
        if not ex:
            ex = [("type", "a")]
        queries.append((" ".join("%s:%s" % kv for kv in ex), ex))
        queries.append((r.choice(["type", "type:a:b", "type:a!", ":a", "type: a"]), None))
        orders = list(itertools.permutations(range(nt))) if nt <= 3 else [tuple(r.sample(range(nt), nt)) for _ in range(4)]
        for order in orders:
            given = [tabs[i] for i in order]
            index = list(reversed(given))  # lou_indexTables prepends
            clines = ["I " + " ".join(p for p, _ in given)] + ["Q " + q for q, _ in queries]
            # getTableInfo on table 0
            gk = [k for k, _ in tabs[0][1] if low(k) != "locale"][:2]
            clines += ["G %s %s" % (tabs[0][0], k) for k in gk]
            mlines = ["MI " + ids]
            names = {}
            for n, (p, feats) in enumerate(index):
                names[n + 1] = p
                mlines.append("MT %d " % (n + 1) + enc(norm_table(feats)))
            for qs, q in queries:
                nq = norm_query(q) if q is not None else []
                mlines.append("MQ " + enc(nq))
            for k in gk:
                lined = []
                for ln, (kk, vv) in enumerate(tabs[0][1]):
                    lined += [(low(k2), low(v2), ln + 1) for k2, v2 in expand([(kk, vv)])]
                if not any(a == "region" for a, _, _ in lined) and any(a == "language" for a, _, _ in lined):
                    lined.append(("region", [b for a, b, _ in lined if a == "language"][0], -1))
                ent = sorted(lined + ([] if any(low(kk) == "unicode-range" for kk, _ in tabs[0][1]) else [("unicode-range", "ucs2", -1)]))
                mlines.append("MG %d | " % keyid[low(k)] + " ".join("%d %d %d" % (keyid[a], valid[b], c) for a, b, c in ent))
            rc, out, err = common.sh([str(exe)], input="\n".join(clines) + "\n", env=common.ASAN_ENV)
            co = out.strip().split("\n")
            mo = common.run_model(drv, mlines)
            if rc != 0 or len(co) != len(mo):
                chk.count((si, order))
                chk.violation("crash", "metadata harness failed rc=%s %s" % (rc, common.asan_summary(err)),
                              dict(tables={p: f for p, f in tabs}, order=order, queries=[q for q, _ in queries]))
                continue
            for (qs, q), c, m in list(zip(queries, co, mo))[:len(queries)]:
                mone, _, mall = m[2:].partition("|")
                exp = "Q %s |%s" % (names[int(mone)] if mone.strip() != "-" else "-",
                                    "".join(" " + names[int(x)] for x in mall.split()))
                nontriv = mone.strip() != "-" and len(mall.split()) >= 1 and nt > 1
                chk.count((si, order, qs), nontrivial=nontriv)
                chk.tally("queries_malformed" if q is None else "queries_with_match" if mone.strip() != "-" else "queries_no_match")
                if q is not None and q is queries[-2][1] and exact_ok and mone.strip() == "-":
                    chk.violation("exact-not-found", "query equal to a table's metadata found nothing", dict(query=qs, tables=dict(tabs)))
                # the clauses of the property evaluated directly on what the library returned
                ione, _, iall = c[2:].partition("|")
                ione, iall = ione.strip(), iall.split()
                if (ione == "-") != (not iall) or (ione != "-" and ione not in iall):
                    chk.violation("find-vs-findTables", "lou_findTable returned %r but lou_findTables returned %r: a table is returned "
                                  "exactly when some table scores positive, and it is one of those listed" % (ione, iall),
                                  dict(query=qs, tables_given_order=[(p, f) for p, f in given], impl=c))
                if c.strip() == exp.strip():
                    chk.cov["traces_validated_against_impl"] += 1
                    if nontriv:
                        chk.sample(dict(tables_in_index_order=[(os.path.basename(p), f) for p, f in index], query=qs, result=c), cap=3)
                else:
                    chk.violation("select-mismatch", "findTable/findTables differ from the model: impl=%r model=%r" % (c, exp),
                                  dict(query=qs, tables_given_order=[(p, f) for p, f in given], impl=c, model=exp))
            for k, c, m in zip(gk, co[len(queries):], mo[len(queries):]):
                chk.count((si, order, "info", k), nontrivial=False)
                mv = m[2:].strip()
                exp = allvals[int(mv) - 1] if mv != "-" else "-"
                if low(c[2:].strip()) == exp:
                    chk.cov["traces_validated_against_impl"] += 1
                else:
                    chk.violation("info-not-first-occurrence", "lou_getTableInfo(%s) returns %r, the first occurrence in the file is %r"
                                  % (k, c[2:].strip(), exp), dict(table_file=tabs[0][0], header=tabs[0][1], key=k))
    shutil.rmtree(work, ignore_errors=True)
    chk.cov["rule"] = ("generated header sets (1-4 tables, keys from a pool of 8 incl. unicode-range, repeated keys, mixed case) x 8 queries "
                       "(random, exact metadata of a table, malformed) x all index orders (<=3 tables) or 4 random orders; distinct = "
                       "(set, order, query); non-trivial = several tables and at least one positive match")
    chk.cov["gen_status"] = gen
    chk.cov["checker_cmd"] = "make -C coq Properties/C18.vo (coqc 8.16.1)"
    chk.cov["trusted_base"] = common.TRUSTED_COMMON + [
        "tools/gen/g_meta.py (weights and comparison directions)",
        "header/query tokenisation (incl. the expansion of locale into language + region, the split of a tag into subtags and the default unicode-range feature) is reproduced in props/c18.py, not in the Coq model"]
    if not prove["ok"] and not chk.violations:
        chk.violation("proof", "Properties/C18.v no longer checks: %s" % prove["failed"][:5],
                      dict(no_failing_input=True, broken=prove["failed"], log=prove["log"][-1500:], gen=gen))
    return chk.finish(prove)
