(* M9 — abstract machine of the emission choke points with the guards regenerated from the source
   (Gen/GEmit.v): what is tracked is the output length and the highest element index touched in
   the output cells / forward position map (indexed by output position) and in the backward
   position map (indexed by input position).                                                 *)
From Coq Require Import List ZArith Bool.
From Lou Require Import Gen.GEmit.
Import ListNotations.
Local Open Scope Z_scope.

Record est := mkE {
  out_len : Z;      (* output->length *)
  hi_out : Z;       (* 1 + highest index written in output->chars / forward posMapping *)
  hi_in : Z         (* 1 + highest index written in the backward posMapping *)
}.

Inductive eop :=
| EFwd (out_n pos in_n : Z)          (* for_updatePositions(dots, in_n, out_n, shift, pos) *)
| EBack (out_n pos in_n : Z)         (* back_updatePositions(chars, in_n, out_n, pos) *)
| EUndef (buflen pos : Z).           (* undefinedDots: posMapping[pos] then buflen characters *)

Section M.
  Variables (maxlen in_len : Z).

  Definition estep (s : est) (o : eop) : est :=
    match o with
    | EFwd out_n pos in_n =>
        if fwd_emit_rejects (out_len s) out_n maxlen pos in_n in_len then s
        else mkE (out_len s + out_n) (Z.max (hi_out s) (out_len s + out_n)) (hi_in s)
    | EBack out_n pos in_n =>
        if back_emit_rejects (out_len s) out_n maxlen pos in_n in_len then s
        else
          let s' := mkE (out_len s) (hi_out s) (Z.max (hi_in s) (pos + in_n)) in
          if back_putchars_rejects (out_len s) out_n maxlen then s'
          else mkE (out_len s + out_n) (Z.max (hi_out s) (out_len s + out_n)) (hi_in s')
    | EUndef buflen pos =>
        let s' := mkE (out_len s) (hi_out s) (Z.max (hi_in s) (pos + 1)) in
        if back_undefined_rejects (out_len s) buflen maxlen then s'
        else mkE (out_len s + buflen) (Z.max (hi_out s) (out_len s + buflen)) (hi_in s')
    end.

  (* operations the engine issues: non-negative lengths, positions inside the pass input *)
  Definition wf_op (o : eop) : Prop :=
    match o with
    | EFwd out_n pos in_n => 0 <= out_n /\ 0 <= in_n /\ 0 <= pos
    | EBack out_n pos in_n => 0 <= out_n /\ 0 <= in_n /\ 0 <= pos
    | EUndef buflen pos => 0 <= buflen /\ 0 <= pos < in_len
    end.

  Definition EInv (s : est) : Prop :=
    0 <= out_len s <= maxlen /\ hi_out s <= maxlen /\ hi_in s <= in_len.
End M.
