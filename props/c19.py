"""C19 — log filtering only filters.
PROVE: Properties/C19.v over the generated guard (Gen/GLog.v).
CORRESPOND: (a) scripts of setLevel/register/emit operations: callback capture == extracted Log.lrun;
 (b) scripts with real message-producing operations under each of the seven thresholds:
     capture(T) == filter(level >= T) capture(ALL);  (c) default sink via lou_logFile: text verbatim."""
import os
import shutil

import common
from common import Rng, REPO

PID = "C19"
LEVELS = [0, 10000, 20000, 30000, 40000, 50000, 60000]


def parse_capture(line):
    head, _, filehex = line.partition("#")
    parts = [p.strip() for p in head.split("|")]
    n = int(parts[0].split()[1])
    ds = []
    for p in parts[1:]:
        f = p.split()
        ds.append((int(f[0]), int(f[1]), f[2] if len(f) > 2 else ""))
    assert n == len(ds), line[:200]
    return ds, filehex.strip()


def run(chk):
    rng = Rng(chk.seed).fork(PID)
    gen = common.gen_stage()
    prove = common.prove_stage(PID)
    drv = common.model_driver()
    exe = common.build_harness("h_log")
    work = common.BUILD / ("work-c19-%d" % os.getpid())
    work.mkdir(parents=True, exist_ok=True)
    mult = 1 if chk.tier == "quick" else 20
    env = {"LOUIS_TABLEPATH": str(REPO / "tables")}
    bad_table = work / "bad%d.utb"
    (work / "bad%d.utb").write_text("letter a 1\nnosuchopcode x 1\nalways %s%n 12\nletter \\y 3\n")
    (work / "warn.utb").write_text("letter a 1\nletter b 12\nalways ab 1\n")
    texts = ["abc", "100%", "%s%s%s%n", "rule %d of table %s", "a" * 300, "%", "%%", "tab\there", "x"]

    # ---- (a) model scripts
    scripts = []
    for i in range(300 * mult):
        r = rng.fork(("a", i))
        ops = []
        for _ in range(r.range(1, 14)):
            k = r.below(10)
            if k < 2:
                ops.append(("S", r.choice(LEVELS + [r.range(0, 70000), 39999, 40001])))
            elif k < 4:
                ops.append(("R", r.range(0, 2)))
            else:
                ops.append(("E", r.choice(LEVELS[:-1] + [r.range(0, 65000), 59999]), r.choice(texts)))
        if not any(o[0] == "R" and o[1] for o in ops):
            ops.insert(r.below(len(ops) + 1), ("R", r.range(1, 2)))
        scripts.append(ops)
    c_lines, m_lines = [], []
    for ops in scripts:
        c_lines.append("X " + " ; ".join("%s %s" % (o[0], o[1]) if o[0] != "E" else "E %d %s" % (o[1], o[2].encode().hex()) for o in ops))
        m_lines.append("LR " + " ; ".join("%s %s" % (o[0], o[1]) if o[0] != "E" else "E %d %s" % (o[1], " ".join(str(b) for b in o[2].encode())) for o in ops))
    cout = common.run_stream(exe, [], c_lines, env=env)
    mout = common.run_model(drv, m_lines)
    for ops, c, m, cl in zip(scripts, cout, mout, c_lines):
        if isinstance(c, tuple):
            chk.count(cl)
            chk.violation("crash", "log harness died: %s" % (c,), dict(script=cl, impl=list(c)))
            continue
        cd, _ = parse_capture(c)
        md, _ = parse_capture(m)
        md = [d for d in md if d[0] != 0]  # default-sink deliveries are not seen by a callback
        nontrivial = len(cd) > 0 and any(o[0] == "E" for o in ops) and len(cd) < sum(1 for o in ops if o[0] == "E")
        chk.count(cl, nontrivial=nontrivial)
        chk.tally("model_scripts")
        if cd == md:
            chk.cov["traces_validated_against_impl"] += 1
            chk.sample(dict(script=cl, deliveries=len(cd)), cap=3)
        else:
            chk.violation("model-mismatch", "callback capture differs from Log.lrun: impl=%s model=%s" % (cd[:6], md[:6]),
                          dict(script=cl, impl=c, model=m))

    # ---- (b) real operations under every threshold
    pool = ["G nonexistent%s.ctb", "G %s" % (work / "bad%d.utb"), "K %s" % (work / "bad%d.utb"),
            "T en-us-g1.ctb 99999", "T en-us-g1.ctb 0", "G en-us-g2.ctb", "C %s | always %%s 1-2-9" % (work / "warn.utb"),
            "C %s | nosuch 1" % (work / "warn.utb"), "T %s 0" % (work / "warn.utb"), "G unicode.dis,en-us-g1.ctb",
            "E 50000 " + "fatal%s".encode().hex(), "E 10000 " + "dbg".encode().hex(), "E 30000 " + "w%n".encode().hex(),
            "T nonexistent.ctb 0", "K en-us-g1.ctb,%s" % (work / "bad%d.utb"),
            "B en-us-g1.ctb 99999", "B en-us-g1.ctb 0", "B en-us-g2.ctb 262144", "T en-us-g2.ctb 262144", "B nonexistent.ctb 0",
            # the two holes in the set of mode bits (8, 16) and their combinations with valid bits are invalid too
            "T en-us-g1.ctb 8", "B en-us-g1.ctb 16", "T en-us-g1.ctb 24", "B en-us-g1.ctb 12", "T en-us-g1.ctb 17", "T en-us-g1.ctb 5", "B en-us-g1.ctb 260"]
    dump_texts = ["10% off", "a%sb %n %d", "100%", "%%", "plain text", "%x%x%x%x", "50%-60% %5$s"]
    pool += ["U en-us-g1.ctb " + t.encode().hex() for t in dump_texts]
    for i in range(12 * mult):
        r = rng.fork(("b", i))
        body = [r.choice(pool) for _ in range(r.range(1, 6))]
        regs = r.choice([["R 1"], ["R 2"], ["R 1", "R 0", "R 2"], ["R 2", "R 1"]])
        # registration changes interleaved
        seq = []
        for b in body:
            if r.chance(0.3):
                seq.append(r.choice(["R 1", "R 2"]))
            seq.append(b)
        sink = work / ("sink%d.log" % i)
        lines = ["X F %s ; S %d ; %s ; %s" % (sink, t, " ; ".join(regs), " ; ".join(seq)) for t in LEVELS]
        outs = common.run_stream(exe, [], lines, env=env, timeout=300)
        if any(isinstance(o, tuple) for o in outs):
            chk.count(lines[0])
            chk.violation("crash", "log harness died on %s: %s" % (lines[0], [o for o in outs if isinstance(o, tuple)][:1]),
                          dict(script=lines))
            continue
        allcap, _ = parse_capture(outs[0])
        # every call with a mode that is not a translation mode produces an error-level message (forward and backward alike)
        VALID = 1 | 2 | 4 | 32 | 64 | 128 | 256      # translationModes of liblouis.h
        ninv = len([b for b in seq if b[0] in "TB" and b[1] == " " and b.split()[-1].isdigit() and int(b.split()[-1]) & ~VALID and "nonexistent" not in b])
        nmsg = len([d for d in allcap if d[1] == 40000 and "Invalid mode".encode().hex() in d[2]])
        if nmsg < ninv:
            chk.violation("message-not-delivered", "%d calls with an invalid mode, but only %d 'Invalid mode' messages reached the callback at threshold ALL" % (ninv, nmsg),
                          dict(script=lines[0], delivered=[bytes.fromhex(d[2]).decode("latin-1") for d in allcap][:20]))
        for t, o, ln in zip(LEVELS, outs, lines):
            got, filehex = parse_capture(o)
            if filehex:
                chk.violation("default-sink-used", "a callback is registered, but the default sink received: %r" % bytes.fromhex(filehex).decode("latin-1")[:200],
                              dict(script=ln))
                break
            exp = [d for d in allcap if d[1] >= t]
            chk.count(ln, nontrivial=len(exp) != len(allcap) and len(exp) > 0)
            chk.tally("threshold_%d" % t)
            chk.tally("messages_seen_at_ALL", len(allcap) if t == 0 else 0)
            if got == exp:
                chk.cov["traces_validated_against_impl"] += 1
            else:
                chk.violation("filter-mismatch", "threshold %d: capture is not the filtered ALL capture (%d vs %d msgs)" % (t, len(got), len(exp)),
                              dict(script=ln, all_script=lines[0], got=got[:20], expected=exp[:20]))
        # caller-supplied text inside a message: the dump of the input that the translation logs at level ALL must carry the
        # text verbatim (it is data, never a format)
        for b in seq:
            if b.startswith("U "):
                text = bytes.fromhex(b.split()[-1]).decode("latin-1")
                want = "Inbuf=" + "".join("0x%04X " % ord(c) for c in text) + "~ " + text
                chk.tally("input_dumps_checked")
                if not any(d[2] == want.encode("latin-1").hex() for d in allcap):
                    chk.violation("dump-not-verbatim", "the input dump logged at level ALL is not the caller's text verbatim: expected %r, delivered %r"
                                  % (want, [bytes.fromhex(d[2]).decode("latin-1") for d in allcap if d[2].startswith("Inbuf=".encode().hex())][:3]), dict(script=lines[0], expected=want))
        levels_seen = set(d[1] for d in allcap)
        for lv in levels_seen:
            chk.tally("level_%d_messages" % lv)

    # ---- (c) default sink: NULL restores it; text verbatim
    for i, tx in enumerate(texts):
        lf = work / ("log%d.txt" % i)
        ln = "X F %s ; R 1 ; R 0 ; E 40000 %s ; G nonexistent%%s%%n.ctb" % (lf, tx.encode().hex())
        o = common.run_stream(exe, [], [ln], env=env)[0]
        chk.count(ln)
        if isinstance(o, tuple):
            chk.violation("default-sink-crash", "default sink died on %r: %s" % (tx, o), dict(script=ln))
            continue
        ds, fh = parse_capture(o)
        content = bytes.fromhex(fh)
        ok = (not ds) and content.startswith(tx.encode() + b"\n") and b"nonexistent%s%n.ctb" in content
        if ok:
            chk.cov["traces_validated_against_impl"] += 1
        else:
            chk.violation("default-sink", "default sink did not receive %r verbatim: file=%r callback=%s" % (tx, content[:200], ds[:3]),
                          dict(script=ln, file=content.decode("latin-1")))
    chk.cov["rule"] = ("(a) random scripts of setLogLevel/registerLogCallback/emit vs the extracted state machine; (b) random scripts of "
                       "message-producing API calls under each of the 7 thresholds vs the filtered ALL capture; (c) default sink via "
                       "lou_logFile with '%' texts; non-trivial = some but not all messages are delivered; distinct = script text")
    chk.cov["gen_status"] = gen
    chk.cov["checker_cmd"] = "make -C coq Properties/C19.vo (coqc 8.16.1)"
    chk.cov["trusted_base"] = common.TRUSTED_COMMON + ["tools/gen/g_log.py: reads the guard of _lou_logMessage, the registration functions and the inventory of format call sites"]
    if not prove["ok"] and not chk.violations:
        chk.violation("proof", "Properties/C19.v no longer checks: %s" % prove["failed"][:5],
                      dict(no_failing_input=True, broken=prove["failed"], log=prove["log"][-1500:], gen=gen))
    shutil.rmtree(work, ignore_errors=True)
    return chk.finish(prove)
