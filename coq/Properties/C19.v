(* C19 — log filtering only filters.  Statements only. *)
From Coq Require Import List ZArith NArith Bool.
From Lou Require Import Gen.GLog Model.Log Proofs.LogProofs.
Import ListNotations.
Local Open Scope Z_scope.

(* a message reaches the sink iff its level is at or above the threshold; what arrives is the
   emitted level and text, unchanged, at the currently registered sink *)
Theorem deliver_iff : forall s lv t,
  snd (lstep s (Emit lv t)) = if thr s <=? lv then Some (snk s, lv, t) else None.
Proof. exact deliver_iff_l. Qed.
Print Assumptions deliver_iff.

(* raising the threshold only filters: for every operation sequence (registrations and messages)
   the deliveries under the higher threshold are the deliveries under the lower one with the
   messages below it removed - same text, level, sink and relative order *)
Theorem raise_threshold_only_filters : forall ops s s',
  forallb (fun o => negb (is_setlevel o)) ops = true ->
  snk s = snk s' -> thr s <= thr s' ->
  lrun s' ops = filter (fun d => thr s' <=? level_of d) (lrun s ops).
Proof. exact raise_threshold_l. Qed.
Print Assumptions raise_threshold_only_filters.

Theorem default_is_info_and_default_sink : thr linit = LOU_LOG_INFO /\ snk linit = SDefault.
Proof. exact defaults_l. Qed.

Theorem off_suppresses_everything : forall s lv t,
  thr s = LOU_LOG_OFF -> lv < LOU_LOG_OFF -> snd (lstep s (Emit lv t)) = None.
Proof. exact off_silent. Qed.

Theorem null_restores_default_sink : forall s,
  snk (fst (lstep s (Register None))) = SDefault /\ thr (fst (lstep s (Register None))) = thr s.
Proof. exact null_restores_l. Qed.

(* facts read off the current source by the translator: the sink is called once with the
   unchanged level and the vsnprintf of the format; NULL registers the default sink; the default
   sink passes the message as an argument of "%s" *)
Theorem source_shape :
  log_sink_called_once_with_level = true /\ log_text_is_vsnprintf_of_format = true /\
  log_initial_sink_is_default = true /\ log_register_null_restores_default = true /\
  log_setlevel_assigns = true /\ log_default_sink_passes_message_as_argument = true.
Proof. exact source_shape_l. Qed.

(* no call site passes caller text as the format: every format argument is a string literal *)
Theorem formats_are_literals : forallb (fun x => snd x) log_call_sites = true.
Proof. exact formats_literal_l. Qed.
Print Assumptions formats_are_literals.

(* non-vacuity: a run in which the higher threshold really removes something *)
Example filter_removes_something :
  lrun {| thr := LOU_LOG_ERROR; snk := SUser 1 |} [Emit LOU_LOG_WARN [119%N]; Emit LOU_LOG_ERROR [101%N]]
  = [(SUser 1, LOU_LOG_ERROR, [101%N])]
  /\ lrun {| thr := LOU_LOG_ALL; snk := SUser 1 |} [Emit LOU_LOG_WARN [119%N]; Emit LOU_LOG_ERROR [101%N]]
  = [(SUser 1, LOU_LOG_WARN, [119%N]); (SUser 1, LOU_LOG_ERROR, [101%N])].
Proof. split; reflexivity. Qed.
