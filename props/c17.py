"""C17 — hyphenation equals the pattern-matching semantics of its dictionary.

PROVE: Properties/C17.v (walk (build d) w = Hyph_spec d w, wrapper laws).
CORRESPOND: lou_hyphenate (real code, ASan, exact arrays) vs. extracted Hyph.hyphenate on
  shipped dictionaries (parsed independently here) and generated dictionaries."""
import os
from pathlib import Path

import common
from common import Rng, REPO, VERIF

PID = "C17"


def dict_tokens(path):
    """Independent reading of a dictionary file: the first token of every line (line 1: the
    token after the encoding name), as lists of character codes; comments dropped."""
    data = Path(path).read_bytes()
    data = data.replace(b"\r", b"")
    lines = data.split(b"\n")
    if not lines:
        return None, []
    first = lines[0]
    ftoks = split_ws(first)
    if not ftoks or not (ftoks[0][:3] == b"ISO" or ftoks[0][:5] == b"UTF-8"):
        return None, []
    iso = ftoks[0][:1] == b"I"
    raw = []
    if len(ftoks) > 1:
        raw.append(ftoks[1])
    for ln in lines[1:]:
        t = split_ws(ln)
        if t:
            raw.append(t[0])
    toks = []
    for t in raw:
        if iso:
            cs = list(t)
        else:
            if b"\\" in t:
                return None, []  # escapes: left to the reader model (C16), not used by shipped dictionaries
            try:
                cs = [ord(c) for c in t.decode("utf-8")]
            except UnicodeDecodeError:
                return None, []
            if any(c > 0xFFFF for c in cs):
                return None, []
        if not cs or cs[0] in (ord("#"), ord("%"), ord("<")):
            continue
        toks.append(cs)
    return ("I" if iso else "U"), toks


def split_ws(b):
    out, cur = [], bytearray()
    for x in b:
        if x <= 32:
            if cur:
                out.append(bytes(cur))
                cur = bytearray()
        else:
            cur.append(x)
    if cur:
        out.append(bytes(cur))
    return out


def base_table(chars, path, variant=0):
    """A translation table that makes every dictionary character a letter; ASCII letters get
    an upper-case partner through `base uppercase`; '-' is the hyphen character.
    variant 1: the hyphen character has another one-character rule in front of its hyphen rule;
    variant 2: another character (+) with the same cell and a rule of its own, but no hyphen rule."""
    lines = ["space \\s 0", "punctuation - 36"] + (["always - 36-36"] if variant == 1 else []) + \
            (["punctuation + 36", "always + 36"] if variant == 2 else ["punctuation + 235"]) + ["hyphen - 36", "punctuation , 2", "digit 1 2-3"]
    k = 0
    seen = set()
    for c in sorted(chars):
        if c in seen or c <= 32 or c in (ord("-"), ord(","), ord("1"), ord("+")):
            continue
        seen.add(c)
        k += 1
        dots = "-".join(str(1 + ((k >> (3 * i)) % 6)) for i in range(3))
        lines.append("lowercase \\x%04x %s" % (c, dots))
        if ord("a") <= c <= ord("z"):
            lines.append("uppercase \\x%04x %s-6" % (c - 32, dots))
            lines.append("base uppercase \\x%04x \\x%04x" % (c - 32, c))
    Path(path).write_text("\n".join(lines) + "\n")


def gen_dict(rng, path):
    """Generated dictionary with overlapping patterns, duplicate words, dots."""
    alpha = "abcde"[: rng.range(2, 5)]
    toks = []
    for _ in range(rng.range(1, 14)):
        n = rng.range(1, 4)
        w = "".join(rng.choice(alpha) for _ in range(n))
        if rng.chance(0.25):
            w = "." + w
        if rng.chance(0.2):
            w = w + "."
        s = ""
        for i, ch in enumerate(w):
            if rng.chance(0.45):
                s += str(rng.range(1, 6))
            s += ch
        if rng.chance(0.4):
            s += str(rng.range(1, 6))
        toks.append(s)
        if rng.chance(0.1):
            toks.append(toks[rng.below(len(toks))])
    enc = "ISO8859-1" if rng.chance(0.5) else "UTF-8"
    Path(path).write_text(enc + "\n" + "\n".join(toks) + "\n")
    return alpha


def words_for(rng, toks, n, alphabet):
    """random, pattern-derived and mixed-case words with embedded non-letters"""
    ws = []
    letters = [c for c in alphabet if c != 46]
    pats = [[c for c in t if not (48 <= c <= 57) and c != 46] for t in toks]
    pats = [p for p in pats if p]
    for i in range(n):
        r = rng.below(10)
        if r < 3 or not pats:
            w = [rng.choice(letters) for _ in range(rng.range(1, 24))]
        elif r < 8:
            w = []
            for _ in range(rng.range(1, 5)):
                w += rng.choice(pats)
            w = w[: rng.range(1, 60)]
        else:
            w = []
            for _ in range(rng.range(2, 12)):
                w += rng.choice(pats)
            w = w[:99]
        if rng.chance(0.15):
            w = [c - 32 if 97 <= c <= 122 and rng.chance(0.5) else c for c in w]
        if rng.chance(0.2) and len(w) > 2:
            k = rng.range(1, len(w) - 1)
            w[k:k] = rng.choice([[32], [45], [45], [44], [45, 45], [49], [43], [43]])
            w = w[:99]
        ws.append(w)
    return ws


def run(chk):
    tier = chk.tier
    rng = Rng(chk.seed).fork("C17")
    gen = common.gen_stage()
    prove = common.prove_stage(PID)
    drv = common.model_driver()
    exe = common.build_harness("h_hyph")
    work = common.BUILD / ("work-c17-%d-%d" % (os.getpid(), chk.seed))
    work.mkdir(parents=True, exist_ok=True)
    nwords = 120 if tier == "quick" else 1500
    ngen = 150 if tier == "quick" else 3000
    big_limit = 10 ** 9   # all shipped dictionaries in both tiers (the 98 k pattern Hungarian one exposed 16-bit state numbers)
    dicts = []
    skipped = []
    for p in sorted((REPO / "tables").glob("*.dic")):
        enc, toks = dict_tokens(p)
        if enc is None:
            skipped.append(p.name + " (not recognised as a dictionary by the reader rules)")
            continue
        if len(toks) > big_limit:
            skipped.append(p.name + " (more than %d patterns: thorough tier only)" % big_limit)
            continue
        dicts.append((p.name, str(p), toks, None))
    for i in range(ngen):
        p = work / ("g%d.dic" % i)
        r = rng.fork(("gen", i))
        gen_dict(r, p)
        enc, toks = dict_tokens(p)
        dicts.append(("gen%d" % i, str(p), toks, (p.read_text())))
    total_bad = 0
    for name, path, toks, text in dicts:
        chars = set(c for t in toks for c in t if not (48 <= c <= 57) and c != 46)
        chars |= set(range(97, 100))
        bt = work / (name + ".base.utb")
        r = rng.fork(("words", name))
        base_table(chars, bt, variant=r.choice([0, 1, 2]))
        tl = "%s,%s" % (bt, path)
        ws = words_for(r, toks, nwords if text is None else 12, sorted(chars))
        # every character the words use, for the table-level functions
        used = sorted(set(c for w in ws for c in w))
        cinfo = common.run_stream(exe, ["t " + tl], ["C %d" % c for c in used])
        tst = common.run_stream(exe, [], ["T " + tl])
        if not tst or isinstance(tst[0], tuple) or tst[0].split()[1:] != ["1", "1"]:
            skipped.append(name + " (library does not load it as a dictionary: %s)" % (tst[:1],))
            continue
        lines = ["HD"] + ["HT " + " ".join(map(str, t)) for t in toks] + ["HE"]
        for ln in cinfo:
            if isinstance(ln, tuple):
                continue
            f = ln.split()
            lines.append("HC %s %s %s %s" % (f[1], f[2], f[3], f[4]))
        lines += ["HW " + " ".join(map(str, w)) for w in ws]
        mout = common.run_model(drv, lines)
        cout = common.run_stream(exe, ["t " + tl], ["W 0 " + " ".join(map(str, w)) for w in ws])
        # the same process, the list WITHOUT its dictionary (a prefix of the list just used): nothing may be marked
        wline = "W 0 " + " ".join(map(str, ws[0]))
        nod = common.run_stream(exe, [], ["T " + tl, wline, "T " + str(bt), wline])
        chk.tally("no_dictionary_after_dictionary_checked")
        if len(nod) == 4 and not isinstance(nod[3], tuple) and not nod[3].startswith("W 0"):
            chk.violation("marks-without-dictionary", "lou_hyphenate with a list that has no dictionary returned %s after the same list plus a dictionary had been used"
                          % nod[3][:80], dict(table_list=str(bt), used_before=tl, word=ws[0], impl=nod[3]))
        for w, m, c in zip(ws, mout, cout):
            nontrivial = True
            mf = m.split()
            if isinstance(c, tuple):
                cres = c
            elif c.startswith("W HANG"):
                cres = ("HANG", c.split()[2:])
            else:
                head, _, tail = c.partition("|")
                cres = (head.split()[1], tail.split())
            if mf[0] == "0":
                exp = ("0", None)
            else:
                exp = ("1", mf[2:] + ["0"])
            oob = mf[0] == "1" and mf[1] == "1"
            key = (name if text is None else text, tuple(w))
            chk.count(key, nontrivial=(mf[0] == "1" and any(x != "48" for x in mf[2:])))
            chk.tally("words_len_%s" % ("1-9" if len(w) < 10 else "10-39" if len(w) < 40 else "40-99"))
            if mf[0] == "1" and "49" in mf[2:]:
                chk.tally("words_with_break")
            if "50" in mf[2:]:
                chk.tally("words_with_2")
            if oob:
                chk.tally("cases_exercising_low_clamp")
            ok = (not isinstance(c, tuple)) and cres[0] == exp[0] and (exp[1] is None or cres[1] == exp[1])
            if ok:
                chk.cov["traces_validated_against_impl"] += 1
                if text is None or len(chk.cov["samples"]) < 3:
                    chk.sample(dict(dictionary=name, word=w, hyphens="".join(chr(int(x)) for x in cres[1][:-1])), cap=6)
                continue
            total_bad += 1
            replay = dict(kind="hyphenate", table_list=tl, dictionary_text=text, dictionary=name,
                          base_table=bt.read_text(), word=w, model=m, impl=c if not isinstance(c, tuple) else list(c))
            if cres[0] == "HANG":
                chk.violation("hang:" + ("shipped:" + name if text is None else "generated"),
                              "lou_hyphenate does not return (step budget exceeded, %s) on %s with %s; the model gives %s"
                              % (c, w, name, m), replay)
            elif isinstance(c, tuple) and "hyphenateWord" in c[1]:
                chk.violation("hyphens-out-of-bounds", "hyphenateWord indexes hyphens[] out of bounds: model low-clamp=%s impl=%s"
                              % (oob, c), replay)
            else:
                chk.violation("mismatch:" + ("shipped:" + name if text is None else "generated"),
                              "lou_hyphenate differs from Hyph.hyphenate on %s: impl=%s model=%s" % (w, c, m), replay)
    chk.cov["rule"] = ("words (random / pattern-derived / long, mixed case, embedded space, hyphen, comma, digit) over each "
                       "dictionary's alphabet; dictionaries = shipped *.dic that the library loads + generated ones with "
                       "overlapping patterns, duplicates and dots; distinct = (dictionary, word); non-trivial = at least one "
                       "mark differs from '0'")
    chk.cov["dictionaries"] = len(dicts)
    chk.cov["skipped"] = skipped
    chk.cov["gen_status"] = gen
    chk.cov["checker_cmd"] = "make -C coq Properties/C17.vo (coqc 8.16.1)"
    chk.cov["trusted_base"] = common.TRUSTED_COMMON + [
        "dictionary tokenisation in props/c17.py (first token per line, comments dropped)",
        "table-level functions is_letter/lower/is_hyphen are read from the compiled table by harness/tbl.h and passed to the model as Section variables",
    ]
    # braille mode (mode 1): the input is braille, the marks are mapped back from the text; whatever the lengths of text and
    # braille are (contractions make the braille shorter, indicators longer) the call writes exactly inlen marks and a NUL
    import safety
    import trans
    env_t = {"LOUIS_TABLEPATH": str(REPO / "tables")}
    ht = common.build_harness("h_trans")
    for tl in ("en-ueb-g2.ctb,hyph_en_US.dic", "en-us-g2.ctb,hyph_en_US.dic", "en-ueb-g1.ctb,hyph_en_US.dic", "de-g2.ctb,hyph_de_DE.dic"):
        r = rng.fork(("braille", tl))
        words = ["understanding", "Hyphenation", "children", "KNOWLEDGE", "everything", "Braille", "rather", "people", "Unterhaltung", "zwischen", "a", "IT"]
        fl = [trans.case_line("T", 0, [ord(c) for c in r.choice(words)] if r.chance(0.8) else [ord(c) for c in r.choice(words) + " " + r.choice(words)], 80)
              for _ in range(12 if tier == "quick" else 60)]
        fr = trans.run_cases(ht, tl, fl, exact=1, env=env_t, timeout=300)
        hl = []
        for res in fr:
            if res.crash or res.ret != 1 or res.outlen <= 0:
                continue
            br = res.out[:res.outlen]
            hl.append((br, trans.case_line("H", 1, br, len(br) + 1)))
        for (br, ln), res in zip(hl, trans.run_cases(ht, tl, [l for _, l in hl], exact=1, env=env_t, timeout=300)):
            chk.count(("braille-mode", tl, tuple(br)), nontrivial=True)
            chk.tally("braille_mode_structural")
            bad = safety.classify(res)
            if bad:
                chk.violation(bad[0], "%s in braille-mode hyphenation with %s" % (bad[1], tl), dict(table_list=tl, case_line=ln))
                continue
            marks = res.out[:len(br) + 1]
            if res.ret == 1 and (any(m not in (48, 49, 50) for m in marks[:len(br)]) or marks[len(br)] != 0):
                chk.violation("braille-mode-shape", "braille-mode lou_hyphenate did not write exactly inlen marks from '0','1','2' and a NUL: %s (inlen %d)"
                              % (marks, len(br)), dict(table_list=tl, case_line=ln, impl=res.raw))
            else:
                chk.cov["traces_validated_against_impl"] += 1
    chk.assumptions = ["braille-mode lou_hyphenate is checked structurally only (shape of the marks, exactly sized array under ASan)"]
    if not prove["ok"]:
        if not chk.violations:
            chk.violation("proof", "Properties/C17.v no longer checks: %s" % prove["failed"][:5],
                          dict(no_failing_input=True, broken=prove["failed"], log=prove["log"][-1500:]))
    import shutil
    shutil.rmtree(work, ignore_errors=True)
    return chk.finish(prove)
