#!/bin/bash
# tools/covreport.sh <dir with cov-*.profraw> : coverage of /repo/liblouis/*.c by the runs that wrote the profiles
#   (VERIF_COV=<dir> ./check Cxx ...).  Prints the per-file summary and the functions below 75 % region coverage;
#   the annotated source goes to <dir>/show.txt.  A diagnostic for the generators, not part of any check.
d="$1"
llvm-profdata merge -sparse "$d"/cov-*.profraw -o "$d/all.profdata" || exit 1
b=""
for x in $(ls -td /verif/build/lib-asan-*); do
  if objdump -h "$x/utils.o" 2>/dev/null | grep -q llvm_prf; then b="$x"; break; fi
done
[ -n "$b" ] || { echo "no instrumented build found"; exit 1; }
set -- "$b"/h_*; first="$1"; shift; objs=""; for e in "$@"; do objs="$objs -object $e"; done
llvm-cov report "$first" $objs -instr-profile="$d/all.profdata" 2>/dev/null | grep "repo/liblouis/.*\.c\|^TOTAL" \
  | awk '{print $1, "regions", $4, "functions", $7, "lines", $10, "branches", $13}'
echo "--- functions below 75 % of their regions"
llvm-cov report "$first" $objs -instr-profile="$d/all.profdata" -show-functions /repo/liblouis/*.c 2>/dev/null \
  | awk 'NF>=10 && $1!="TOTAL" && $1!="Name" {r=$4; sub("%","",r); if (r+0<75) print "  " $1, "regions=" $2, "covered=" $4, "lines=" $7}'
llvm-cov show "$first" $objs -instr-profile="$d/all.profdata" /repo/liblouis/*.c 2>/dev/null > "$d/show.txt"
echo "annotated source: $d/show.txt"
