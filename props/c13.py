"""C13 — table compilation is total: a table or a clean, reported failure.
PROVE: Properties/C13.v (reader total and bounded for any bytes; outcome accounting; error-counter sites paired with messages).
FAULT ENUMERATION: every line of a set of valid tables replaced by each of a fixed set of corruptions, plus byte-level
 mutations and whole-file faults; each compiled between two uses of a known-good table in one process under ASan/LSan with a
 wall-clock watchdog: result 0 <=> at least one error-level message, never a crash/hang/leak, the rejected list is re-read
 (not cached) and the good table behaves the same before and after."""
import os
import shutil

import common
import tablegen
import trans
from common import Rng, REPO, VERIF

PID = "C13"

LINE_CORRUPTIONS = [
    ("truncate", lambda ln, r: ln[: max(1, len(ln) // 2)]),
    ("drop_last_operand", lambda ln, r: " ".join(ln.split()[:-1])),
    ("drop_all_operands", lambda ln, r: ln.split()[0] if ln.split() else ""),
    ("huge_number", lambda ln, r: ln + " 99999999999999999999"),
    ("bad_escape", lambda ln, r: ln.replace(" ", " \\q", 1)),
    ("overlong_token", lambda ln, r: ln.split()[0] + " " + "a" * 3000 + " 1" if ln.split() else "x" * 3000),
    ("unknown_opcode", lambda ln, r: "zz" + ln),
    ("binary_noise", lambda ln, r: "".join(chr(r.range(1, 255)) if r.chance(0.3) else c for c in ln) or "\x01"),
    ("bad_dots", lambda ln, r: " ".join(ln.split()[:-1] + ["1-2-x-99"])),
    ("duplicate_dots", lambda ln, r: " ".join(ln.split()[:-1] + ["11-22"])),
    ("swap_operands", lambda ln, r: " ".join(ln.split()[:1] + ln.split()[1:][::-1])),
    ("repeat_line_100", lambda ln, r: "\n".join([ln] * 100)),
    ("nul_byte", lambda ln, r: ln[: len(ln) // 2] + "\x00" + ln[len(ln) // 2:]),
    ("hex_escape_short", lambda ln, r: ln + " \\x12"),
]


def whole_file_faults(work, good_text):
    f = {}
    f["empty"] = b""
    f["one_byte"] = b"a"
    f["bad_encoding"] = b"\xff\x41" + good_text.encode("latin-1", "replace")
    f["utf16_truncated"] = b"\xff\xfe" + good_text.encode("utf-16-le")[:-1]
    f["utf16_no_bom_bytes"] = good_text.encode("utf-16-le")
    f["only_cr"] = b"\r\r\r\r"
    f["long_line"] = (b"letter a " + b"1" * 5000 + b"\n") + good_text.encode("latin-1", "replace")
    f["missing_include"] = (good_text + "include no-such-file-anywhere.uti\n").encode("latin-1", "replace")
    f["include_directory"] = (good_text + "include /\n").encode("latin-1", "replace")
    f["no_final_newline"] = good_text.rstrip("\n").encode("latin-1", "replace")
    f["hyphen_header_garbage"] = b"UTF-8\n" + bytes(range(1, 255)) * 3
    f["iso_header_then_table"] = b"ISO8859-1\n" + good_text.encode("latin-1", "replace")
    return f


def run(chk):
    rng = Rng(chk.seed).fork(PID)
    gen = common.gen_stage()
    prove = common.prove_stage(PID)
    common.model_driver()
    exe = common.build_harness("h_trans")
    env = {"LOUIS_TABLEPATH": str(REPO / "tables"), "ASAN_OPTIONS": "detect_leaks=1:exitcode=77"}
    quick = chk.tier == "quick"
    work = common.BUILD / ("work-c13-%d" % os.getpid())
    shutil.rmtree(work, ignore_errors=True)
    work.mkdir(parents=True)
    good = work / "good.utb"
    good.write_text("space \\s 0\nletter a 1\nletter b 12\nletter c 14\nalways ab 3\nnoback pass2 @3 @6\n")
    goodcase = "Y %s ;; %s" % (good, trans.case_line("T", 4, [97, 98, 32, 99, 97], 20, presence=12))
    good2 = work / "good2.utb"
    good2.write_text(good.read_text())
    inc = work / "inc.uti"
    inc.write_text("letter z 1356\n")
    bases = [("ks", (VERIF / "corpus" / "c13" / "ks.utb").read_text())]
    r0 = rng.fork("gen")
    entries, rules, _ = tablegen.gen_c06_table(r0, directions=("noback", "nofor"))
    bases.append(("gen", tablegen.pass_table_text(entries, rules)))
    if not quick:
        for t in [x for x in ("en-us-g1.ctb", "en-us-comp6.ctb", "de-g0-core.uti", "cs-g1.ctb", "nemeth.ctb", "ukmaths_single_cell_defs.cti") if (REPO / "tables" / x).exists()]:
            bases.append((t, (REPO / "tables" / t).read_text(errors="replace")))
    else:
        bases.append(("en-chardefs.cti", (REPO / "tables" / "en-chardefs.cti").read_text(errors="replace")))
    variants = []      # (key, bytes)
    for bname, text in bases:
        lines = text.split("\n")
        idx = [i for i, l in enumerate(lines) if l.strip() and not l.startswith("#")]
        if quick and len(idx) > 40:
            idx = rng.fork(("pick", bname)).sample(idx, 40)
        for i in idx:
            for cname, fnc in LINE_CORRUPTIONS:
                r = rng.fork((bname, i, cname))
                new = list(lines)
                try:
                    new[i] = fnc(lines[i], r)
                except Exception:
                    continue
                variants.append(("%s:line%d:%s" % (bname, i + 1, cname), "\n".join(new).encode("latin-1", "replace")))
        for fname, data in whole_file_faults(work, text).items():
            variants.append(("%s:file:%s" % (bname, fname), data))
        data = text.encode("latin-1", "replace")
        for k in range(60 if quick else 4000):
            r = rng.fork((bname, "byte", k))
            b = bytearray(data)
            for _ in range(r.range(1, 4)):
                p = r.below(len(b))
                m = r.below(4)
                if m == 0:
                    b[p] = r.range(0, 255)
                elif m == 1:
                    del b[p]
                elif m == 2:
                    b[p:p] = bytes([r.range(0, 255)])
                else:
                    b[p] ^= 1 << r.below(8)
            variants.append(("%s:bytes:%d" % (bname, k), bytes(b)))
    # self-including file and mutual includes
    variants.append(("selfinclude", b"letter a 1\ninclude SELF\n"))
    # a cycle with fan-out: two include lines on it (every level of the recursion would re-enter the cycle if compilation
    # went on behind the first failing line)
    variants.append(("selfinclude_twice", b"letter a 1\ninclude SELF\nletter b 12\ninclude SELF\nletter c 14\n"))
    variants.append(("selfinclude_thrice", b"include SELF\ninclude SELF\ninclude SELF\n"))
    # faults that every file compiles with but that the finalisation of the table rejects (the table then sits in the cache:
    # every later lookup has to reject it again, with a message)
    fin = {
        "based_on_itself": "base uppercase b b\n",
        "base_cycle": "lowercase x 1346\nlowercase y 13456\nbase uppercase x y\nbase uppercase y x\n",
        "base_has_the_mode_attribute": "uppercase A 17\nlowercase a 1\nbase uppercase a A\n",
        "base_chain_back_to_start": "lowercase p 1234\nlowercase q 12345\nlowercase r 1235\nbase uppercase p q\nbase uppercase q r\nbase uppercase r p\n",
    }
    # faults that only the DISPLAY part of the compilation rejects (a compilation of the translation part alone passes over them)
    fin.update({"display_two_cells": "display a 1-2\n", "display_no_dots": "display a\n", "display_bad_dots": "display a 1x\n",
                "grouping_display_half": "grouping gg ab 1\n"})
    for bname, text in bases[:2] + [("minimal", "space \\s 0\nletter a 1\nletter b 12\n")]:
        for fname, extra in fin.items():
            variants.append(("%s:finalize:%s" % (bname, fname), (text.rstrip("\n") + "\n" + extra).encode("latin-1", "replace")))
    batch = 40
    for b0 in range(0, len(variants), batch):
        chunk = variants[b0:b0 + batch]
        lines = []
        for j, (key, data) in enumerate(chunk):
            p = work / ("v%d_%d.utb" % (b0, j))
            if key.startswith("selfinclude"):
                data = data.replace(b"SELF", p.name.encode())
            p.write_bytes(data)
            # ... and a table that is only ever extended (never finalised) takes a valid include at run time afterwards
            # ... and after the translation part alone was compiled by another entry point (lou_getEmphClasses) the verdict on
            # the whole list is still the same
            lines += [goodcase, "V %s" % p, "V %s" % p, "K %s | include %s" % (good2, inc), goodcase, "E %s" % p, "V %s" % p]
        outs = common.run_stream(exe, ["e 1"], lines, env=env, timeout=240)
        ref = None
        for j, (key, data) in enumerate(chunk):
            o = outs[7 * j:7 * j + 7]
            chk.count(key, nontrivial=True)
            kp = key.split(":")
            chk.tally("fault_" + (kp[2] if len(kp) > 2 and kp[1].startswith("line") else kp[1] if len(kp) > 1 else "special"))
            crash = [x for x in o if isinstance(x, tuple)] or [("HANG", "%s does not return within the watchdog limit" % x.split()[0]) for x in o if x.strip().endswith(" HANG")]
            replay = dict(fault=key, table_bytes=list(data[:6000]), table_text=data.decode("latin-1")[:3000])
            if crash:
                kind = "hang" if crash[0][0] == "HANG" else "crash"
                import re
                m = re.search(r" at (\w+) (\S+)$", crash[0][1])
                chk.violation("compile-%s:%s" % (kind, m.group(1) if m else "?"), "compiling a corrupted table: %s (%s)" % (crash[0][1][:200], key), replay)
                continue
            g1, v1, v2, k1, g2, e1, v3 = o
            f = lambda v: dict(x.split("=") for x in v.split()[2:])
            ret1, ret2 = int(v1.split()[1]), int(v2.split()[1])
            e1, e2 = int(f(v1)["errors"]) + int(f(v1)["fatal"]), int(f(v2)["errors"]) + int(f(v2)["fatal"])
            sig = lambda g: tuple(p.strip() for p in g.split("|")[:4])
            if ret1 == 1 and e1 > 0:
                chk.violation("success-with-error-message", "compilation succeeded but delivered %d error-level messages (%s)" % (e1, key), replay)
            elif ret1 == 0 and e1 == 0:
                chk.violation("silent-failure", "compilation failed without an error-level message (%s)" % key, replay)
            elif ret1 != ret2 or (ret2 == 0 and e2 == 0):
                chk.violation("outcome-not-pure", "compiling the same files twice gives %d then %d (errors %d, %d): %s" % (ret1, ret2, e1, e2, key), replay)
            elif int(v3.split()[1]) != ret1 or (ret1 == 0 and int(f(v3)["errors"]) + int(f(v3)["fatal"]) == 0):
                chk.violation("outcome-not-pure", "lou_checkTable gives %d first and %s after lou_getEmphClasses had compiled the translation part alone (%s)"
                              % (ret1, v3.strip(), key), dict(replay, commands=lines[7 * j:7 * j + 7]))
            elif k1.strip() != "K 1":
                chk.violation("later-compilation-disturbed", "a valid include added at run time to another, loaded table is answered with '%s' after the "
                              "failed/odd compilation (%s)" % (k1.strip(), key), dict(replay, commands=lines[7 * j:7 * j + 7]))
            elif sig(g1) != sig(g2) or (ref is not None and sig(g1) != ref):
                chk.violation("good-table-disturbed", "a table loaded before behaves differently after a failed/odd compilation (%s)" % key, replay)
            else:
                chk.cov["traces_validated_against_impl"] += 1
                chk.tally("outcome_%d" % ret1)
                if ret1 == 0:
                    chk.sample(dict(fault=key, messages=e1), cap=4)
            ref = sig(g1)
    shutil.rmtree(work, ignore_errors=True)
    chk.cov["rule"] = ("fault enumeration: %d corruptions x every (quick: 40 sampled) rule line of %d valid tables (a kitchen-sink table with ~70 opcode "
                       "kinds, a generated multipass table, shipped files) + 12 whole-file faults + byte-level mutations + self-include + 4 faults that only the finalisation of the table rejects; each "
                       "variant compiled twice between two uses of a known-good table in one process (ASan+UBSan+LSan, watchdog); distinct = fault"
                       % (len(LINE_CORRUPTIONS), len(bases)))
    chk.cov["gen_status"] = gen
    chk.cov["checker_cmd"] = "make -C coq Properties/C13.vo (coqc 8.16.1)"
    chk.cov["trusted_base"] = common.TRUSTED_COMMON + [
        "tools/gen/g_errors.py (error-counter sites)", "partial: crash/hang/leak freedom of the operand compilers is observed (fault enumeration), not proved"]
    if not prove["ok"] and not chk.violations:
        chk.violation("proof", "Properties/%s.v no longer checks: %s" % (PID, prove["failed"][:5]),
                      dict(no_failing_input=True, broken=prove["failed"], log=prove["log"][-1500:], gen=gen))
    return chk.finish(prove)
