(* C05, part A: the compiled structure (hash buckets + per-character chains built with the
   GENERATED insertion conditions) yields exactly the candidate list of the reference.      *)
From Coq Require Import List ZArith Bool Lia Sorted ZifyBool.
From Lou Require Import Gen.GConst Gen.GChain Model.Table Model.Ref Model.Compile Model.Engine.
Import ListNotations.
Local Open Scope Z_scope.

(* ------------------------------------------------------------------ generic list facts *)

Lemma filter_filter' {A} (P Q : A -> bool) (l : list A) :
  filter P (filter Q l) = filter (fun x => Q x && P x) l.
Proof.
  induction l as [|a l IH]; cbn [filter]; [reflexivity|].
  destruct (Q a); cbn [andb filter]; [destruct (P a)|]; rewrite IH; reflexivity.
Qed.

Lemma SS_filter {A} (R : A -> A -> Prop) (P : A -> bool) (l : list A) :
  StronglySorted R l -> StronglySorted R (filter P l).
Proof.
  induction 1 as [|a l HS IH HF]; cbn [filter]; [constructor|].
  destruct (P a); [|exact IH].
  constructor; [exact IH|].
  apply Forall_forall. intros y Hy. apply filter_In in Hy. destruct Hy as [Hy _].
  rewrite Forall_forall in HF. apply HF. exact Hy.
Qed.

Lemma SS_app {A} (R : A -> A -> Prop) (l1 l2 : list A) :
  StronglySorted R l1 -> StronglySorted R l2 ->
  (forall x y, In x l1 -> In y l2 -> R x y) -> StronglySorted R (l1 ++ l2).
Proof.
  intros H1 H2. induction H1 as [|a l HS IH HF]; intros Hc; cbn [app]; [exact H2|].
  constructor.
  - apply IH. intros x y Hx Hy. apply Hc; [right; exact Hx|exact Hy].
  - apply Forall_forall. intros y Hy. apply in_app_or in Hy. destruct Hy as [Hy|Hy].
    + rewrite Forall_forall in HF. apply HF. exact Hy.
    + apply Hc; [left; reflexivity|exact Hy].
Qed.

Lemma SS_impl_in {A} (R1 R2 : A -> A -> Prop) (l : list A) :
  (forall a b, In a l -> In b l -> R1 a b -> R2 a b) ->
  StronglySorted R1 l -> StronglySorted R2 l.
Proof.
  intros Himp HS. induction HS as [|a l HS IH HF]; [constructor|].
  constructor.
  - apply IH. intros x y Hx Hy. apply Himp; right; assumption.
  - apply Forall_forall. intros y Hy. rewrite Forall_forall in HF.
    apply Himp; [left; reflexivity|right; exact Hy|apply HF; exact Hy].
Qed.

(* ------------------------------------------------------------------ the sort key *)

Definition key (x : Z * entry) : Z :=
  2 * (- len (e_chars (snd x))) + (if is_always (snd x) then 1 else 0).

Lemma ref_before_key x y : ref_before x y = (key x <? key y).
Proof.
  unfold ref_before, key.
  destruct (is_always (snd x)), (is_always (snd y)); cbn [negb andb]; lia.
Qed.

(* the generated insertion condition of addForwardRuleWithMultipleChars IS the documented order *)
Lemma multi_before_ref x y : multi_before x y = ref_before x y.
Proof.
  unfold multi_before, fwd_multi_before, ref_before, is_always, CTO_Always. lia.
Qed.

Lemma insert_where_ref x l : insert_where (multi_before x) x l = ref_insert x l.
Proof.
  induction l as [|y l IH]; cbn [insert_where ref_insert]; [reflexivity|].
  rewrite multi_before_ref. destruct (ref_before x y); [reflexivity|]. rewrite IH. reflexivity.
Qed.

Lemma in_ref_insert x y l : In y (ref_insert x l) <-> y = x \/ In y l.
Proof.
  induction l as [|z l IH]; cbn [ref_insert].
  - cbn [In]. intuition.
  - destruct (ref_before x z); cbn [In].
    + intuition.
    + rewrite IH. intuition.
Qed.

Lemma in_fold_insert y l : forall acc,
  In y (fold_left (fun acc x => ref_insert x acc) l acc) <-> In y acc \/ In y l.
Proof.
  induction l as [|x l IH]; intros acc; cbn [fold_left In].
  - intuition.
  - rewrite IH, in_ref_insert. intuition.
Qed.

Lemma in_ref_sort y l : In y (ref_sort l) <-> In y l.
Proof. unfold ref_sort. rewrite in_fold_insert. cbn [In]. intuition. Qed.

Lemma ref_sort_snoc l x : ref_sort (l ++ [x]) = ref_insert x (ref_sort l).
Proof. unfold ref_sort. rewrite fold_left_app. reflexivity. Qed.

Definition key_le (a b : Z * entry) : Prop := key a <= key b.

Lemma ref_insert_sorted x l :
  StronglySorted key_le l -> StronglySorted key_le (ref_insert x l).
Proof.
  induction 1 as [|y l HS IH HF]; cbn [ref_insert].
  - constructor; constructor.
  - rewrite ref_before_key. destruct (key x <? key y) eqn:E.
    + constructor; [constructor; assumption|].
      constructor; [unfold key_le; lia|].
      apply Forall_forall. intros z Hz. rewrite Forall_forall in HF.
      specialize (HF z Hz). unfold key_le in *. lia.
    + constructor; [exact IH|].
      apply Forall_forall. intros z Hz. apply in_ref_insert in Hz. destruct Hz as [Hz|Hz].
      * subst z. unfold key_le. lia.
      * rewrite Forall_forall in HF. apply HF. exact Hz.
Qed.

Lemma ref_sort_sorted l : StronglySorted key_le (ref_sort l).
Proof.
  induction l as [|x l IH] using rev_ind.
  - constructor.
  - rewrite ref_sort_snoc. apply ref_insert_sorted. exact IH.
Qed.

Lemma ref_insert_head x m :
  (forall z, In z m -> key x < key z) -> ref_insert x m = x :: m.
Proof.
  intros H. destruct m as [|z m]; [reflexivity|].
  cbn [ref_insert]. rewrite ref_before_key.
  assert (Hz : key x < key z) by (apply H; left; reflexivity).
  destruct (key x <? key z) eqn:E; [reflexivity|lia].
Qed.

(* filtering commutes with the insertion on sorted lists *)
Lemma filter_ref_insert (P : Z * entry -> bool) x l :
  StronglySorted key_le l ->
  filter P (ref_insert x l) = if P x then ref_insert x (filter P l) else filter P l.
Proof.
  induction 1 as [|y l HS IH HF].
  - cbn [ref_insert filter]. destruct (P x); reflexivity.
  - cbn [ref_insert]. rewrite ref_before_key. destruct (key x <? key y) eqn:E.
    + cbn [filter]. destruct (P x) eqn:Px; [|reflexivity].
      change (if P y then y :: filter P l else filter P l) with (filter P (y :: l)).
      symmetry. apply ref_insert_head. intros z Hz.
      apply filter_In in Hz. destruct Hz as [Hz _]. destruct Hz as [Hz|Hz].
      * subst z. lia.
      * rewrite Forall_forall in HF. specialize (HF z Hz). unfold key_le in HF. lia.
    + cbn [filter]. rewrite IH. destruct (P y) eqn:Py; destruct (P x) eqn:Px; try reflexivity.
      cbn [ref_insert]. rewrite ref_before_key, E. reflexivity.
Qed.

Lemma filter_ref_sort (P : Z * entry -> bool) l :
  filter P (ref_sort l) = ref_sort (filter P l).
Proof.
  induction l as [|x l IH] using rev_ind; [reflexivity|].
  rewrite ref_sort_snoc, filter_ref_insert by apply ref_sort_sorted.
  rewrite filter_app. cbn [filter]. destruct (P x).
  - rewrite ref_sort_snoc, IH. reflexivity.
  - rewrite app_nil_r. exact IH.
Qed.

(* ------------------------------------------------------------------ assoc lists *)

Lemma assoc_set_same k v l : assoc k (assoc_set k v l) = v.
Proof.
  induction l as [|[k' v'] l IH]; cbn [assoc_set assoc].
  - rewrite Z.eqb_refl. reflexivity.
  - destruct (k =? k') eqn:E; cbn [assoc]; [rewrite Z.eqb_refl; reflexivity|].
    rewrite E. exact IH.
Qed.

Lemma assoc_set_other k k' v l : k <> k' -> assoc k' (assoc_set k v l) = assoc k' l.
Proof.
  intros Hne. induction l as [|[k2 v2] l IH]; cbn [assoc_set assoc].
  - destruct (k' =? k) eqn:E; [lia|reflexivity].
  - destruct (k =? k2) eqn:E; cbn [assoc].
    + assert (k = k2) by lia. subst k2.
      destruct (k' =? k) eqn:E2; [lia|reflexivity].
    + destruct (k' =? k2); [reflexivity|exact IH].
Qed.

(* ------------------------------------------------------------------ insert_where *)

Lemma iw_skip (before : crule -> bool) x A B :
  (forall r, In r A -> before r = false) ->
  insert_where before x (A ++ B) = A ++ insert_where before x B.
Proof.
  induction A as [|a A IH]; intros H; cbn [app insert_where]; [reflexivity|].
  rewrite (H a) by (left; reflexivity). rewrite IH; [reflexivity|].
  intros r Hr. apply H. right. exact Hr.
Qed.

Lemma iw_here (before : crule -> bool) x B :
  (forall r, In r B -> before r = true) -> insert_where before x B = x :: B.
Proof.
  intros H. destruct B as [|b B]; cbn [insert_where]; [reflexivity|].
  rewrite (H b) by (left; reflexivity). reflexivity.
Qed.

(* ------------------------------------------------------------------ eqb_list on singletons *)

Lemma eqb_list_single cs c : eqb_list cs [c] = true <-> cs = [c].
Proof.
  destruct cs as [|a [|b cs]]; cbn.
  - split; discriminate.
  - rewrite andb_true_r. split; intros H.
    + assert (a = c) by lia. subst. reflexivity.
    + injection H as ->. lia.
  - rewrite andb_false_r. split; discriminate.
Qed.

Lemma single_eqb e c :
  is_single e && eqb_list (e_chars e) [c] = eqb_list (e_chars e) [c].
Proof.
  destruct (eqb_list (e_chars e) [c]) eqn:E; [|apply andb_false_r].
  apply eqb_list_single in E. unfold is_single. rewrite E. reflexivity.
Qed.

(* ------------------------------------------------------------------ what compile builds *)

Definition hash_of (e : entry) : Z :=
  match e_chars e with c0 :: c1 :: _ => string_hash_raw c0 c1 | _ => 0 end.

Definition Pm (h : Z) (ie : Z * entry) : bool :=
  is_fwd_rule (snd ie) && is_multi (snd ie) && (hash_of (snd ie) =? h).
Definition Sn (c : Z) (ie : Z * entry) : bool :=
  is_fwd_rule (snd ie) && eqb_list (e_chars (snd ie)) [c] && negb (is_def_op (e_op (snd ie))).
Definition Sd (c : Z) (ie : Z * entry) : bool :=
  is_fwd_rule (snd ie) && eqb_list (e_chars (snd ie)) [c] && is_def_op (e_op (snd ie)).

Lemma Sn_spec c ie : Sn c ie = true ->
  e_chars (snd ie) = [c] /\ is_def_op (e_op (snd ie)) = false.
Proof.
  unfold Sn. intros H. apply andb_prop in H. destruct H as [H H3].
  apply andb_prop in H. destruct H as [_ H2]. apply eqb_list_single in H2.
  split; [exact H2|]. destruct (is_def_op (e_op (snd ie))); [discriminate|reflexivity].
Qed.

Lemma Sd_spec c ie : Sd c ie = true ->
  e_chars (snd ie) = [c] /\ is_def_op (e_op (snd ie)) = true.
Proof.
  unfold Sd. intros H. apply andb_prop in H. destruct H as [H H3].
  apply andb_prop in H. destruct H as [_ H2]. apply eqb_list_single in H2.
  split; assumption.
Qed.

(* the generated condition of addForwardRuleWithSingleChar on a chain member with one char *)
Lemma single_before_val x r c : e_chars (snd r) = [c] ->
  single_before x r = is_def_op (e_op (snd r)) && negb (is_def_op (e_op (snd x))).
Proof.
  intros H. unfold single_before, fwd_single_before, is_def_op. rewrite H. reflexivity.
Qed.

Lemma multi_len (c0 c1 : Z) rest : 2 <=? len (c0 :: c1 :: rest) = true.
Proof. unfold len. cbn [length]. lia. Qed.

Lemma compile_inv (l : list crule) :
  (forall h, assoc h (ct_buckets (fold_left add_rule l ct_empty)) = ref_sort (filter (Pm h) l)) /\
  (forall c, assoc c (ct_chars (fold_left add_rule l ct_empty)) = filter (Sn c) l ++ filter (Sd c) l).
Proof.
  induction l as [|x l IH] using rev_ind.
  - split; intros; reflexivity.
  - destruct IH as [IHb IHc]. rewrite fold_left_app. cbn [fold_left].
    set (ct := fold_left add_rule l ct_empty) in *.
    unfold add_rule. destruct (is_fwd_rule (snd x)) eqn:Ef; cbn [negb].
    + destruct (e_chars (snd x)) as [|c0 [|c1 rest]] eqn:Ec.
      * (* no characters *)
        split; intros k; rewrite !filter_app; cbn [filter].
        -- unfold Pm at 2. unfold is_multi. rewrite Ec. cbn [len length Z.of_nat Z.leb Z.compare andb].
           rewrite andb_false_r. cbn [andb]. rewrite app_nil_r. apply IHb.
        -- unfold Sn at 2. unfold Sd at 2. rewrite Ec. cbn [eqb_list].
           rewrite andb_false_r. cbn [andb]. rewrite !app_nil_r. apply IHc.
      * (* one character *)
        split; intros k; rewrite !filter_app; cbn [filter ct_buckets ct_chars].
        -- unfold Pm at 2. unfold is_multi. rewrite Ec. cbn [len length Z.of_nat Pos.of_succ_nat Z.leb Z.compare Pos.compare Pos.compare_cont andb].
           rewrite andb_false_r. cbn [andb]. rewrite app_nil_r. apply IHb.
        -- destruct (Z.eq_dec c0 k) as [->|Hne].
           ++ rewrite assoc_set_same, IHc.
              assert (HA : forall r, In r (filter (Sn k) l) ->
                                     e_chars (snd r) = [k] /\ is_def_op (e_op (snd r)) = false).
              { intros r Hr. apply filter_In in Hr. apply Sn_spec. apply Hr. }
              assert (HB : forall r, In r (filter (Sd k) l) ->
                                     e_chars (snd r) = [k] /\ is_def_op (e_op (snd r)) = true).
              { intros r Hr. apply filter_In in Hr. apply Sd_spec. apply Hr. }
              assert (Ee : eqb_list [k] [k] = true) by (apply eqb_list_single; reflexivity).
              unfold Sn at 3. unfold Sd at 3. rewrite Ef, Ec, Ee. cbn [andb].
              destruct (is_def_op (e_op (snd x))) eqn:Ed; cbn [negb].
              ** (* a definition: appended at the end *)
                 rewrite app_nil_r.
                 rewrite <- (app_nil_r (filter (Sn k) l ++ filter (Sd k) l)) at 1.
                 rewrite iw_skip.
                 { cbn [insert_where]. rewrite <- app_assoc. reflexivity. }
                 intros r Hr. apply in_app_or in Hr. destruct Hr as [Hr|Hr].
                 --- destruct (HA r Hr) as [H1 H2]. rewrite (single_before_val x r k H1), H2. reflexivity.
                 --- destruct (HB r Hr) as [H1 H2]. rewrite (single_before_val x r k H1), H2, Ed. reflexivity.
              ** (* a translation rule: before the first definition *)
                 rewrite app_nil_r. rewrite iw_skip.
                 { rewrite iw_here.
                   - rewrite <- app_assoc. reflexivity.
                   - intros r Hr. destruct (HB r Hr) as [H1 H2].
                     rewrite (single_before_val x r k H1), H2, Ed. reflexivity. }
                 intros r Hr. destruct (HA r Hr) as [H1 H2].
                 rewrite (single_before_val x r k H1), H2. reflexivity.
           ++ rewrite assoc_set_other by exact Hne.
              assert (Ee : eqb_list [c0] [k] = false).
              { destruct (eqb_list [c0] [k]) eqn:E; [|reflexivity].
                apply eqb_list_single in E. congruence. }
              unfold Sn at 2. unfold Sd at 2. rewrite Ec, Ee, andb_false_r. cbn [andb].
              rewrite !app_nil_r. apply IHc.
      * (* two or more characters *)
        split; intros k; rewrite !filter_app; cbn [filter ct_buckets ct_chars].
        -- unfold Pm at 2. unfold is_multi, hash_of. rewrite Ef, Ec, multi_len. cbn [andb].
           destruct (Z.eq_dec (string_hash_raw c0 c1) k) as [He|Hne].
           ++ rewrite He, Z.eqb_refl, assoc_set_same, insert_where_ref, IHb, ref_sort_snoc.
              reflexivity.
           ++ rewrite assoc_set_other by exact Hne.
              destruct (string_hash_raw c0 c1 =? k) eqn:E; [lia|].
              rewrite app_nil_r. apply IHb.
        -- assert (Ee : eqb_list (c0 :: c1 :: rest) [k] = false).
           { destruct (eqb_list (c0 :: c1 :: rest) [k]) eqn:E; [|reflexivity].
             apply eqb_list_single in E. discriminate. }
           unfold Sn at 2. unfold Sd at 2. rewrite Ec, Ee, andb_false_r. cbn [andb].
           rewrite !app_nil_r. apply IHc.
    + (* not a forward rule: skipped *)
      split; intros k; rewrite !filter_app; cbn [filter].
      * unfold Pm at 2. rewrite Ef. cbn [andb]. rewrite app_nil_r. apply IHb.
      * unfold Sn at 2. unfold Sd at 2. rewrite Ef. cbn [andb]. rewrite !app_nil_r. apply IHc.
Qed.

(* ------------------------------------------------------------------ collisions are inert *)

Lemma valid_match_first_two t inp pos c0 c1 rest :
  valid_match t inp pos (c0 :: c1 :: rest) = true ->
  c0 = nth_z inp pos /\ c1 = nth_z inp (pos + 1).
Proof.
  unfold valid_match.
  assert (Hn : (len (c0 :: c1 :: rest) =? 1) = false).
  { unfold len. cbn [length]. lia. }
  generalize dependent (len (c0 :: c1 :: rest)). intros m Hn.
  cbn [valid_match_aux].
  destruct (nth_z inp pos =? LOU_ENDSEGMENT).
  { rewrite Hn, andb_false_r. discriminate. }
  destruct (nth_z inp pos =? c0) eqn:E0; cbn [negb]; [|discriminate].
  match goal with |- (if ?c then _ else _) = true -> _ => destruct c end; [discriminate|].
  destruct (nth_z inp (pos + 1) =? LOU_ENDSEGMENT).
  { intros H. apply andb_prop in H. destruct H as [H _]. lia. }
  destruct (nth_z inp (pos + 1) =? c1) eqn:E1; cbn [negb]; [|discriminate].
  intros _. split; lia.
Qed.

Lemma hash_inert t inp pos (ie : Z * entry) :
  is_multi (snd ie) = true -> valid_match t inp pos (e_chars (snd ie)) = true ->
  hash_of (snd ie) = string_hash_lower (fun c => c) (nth_z inp pos) (nth_z inp (pos + 1)).
Proof.
  unfold is_multi, hash_of. intros Hm Hv.
  destruct (e_chars (snd ie)) as [|c0 [|c1 rest]].
  - cbn in Hm. discriminate.
  - cbn in Hm. discriminate.
  - apply valid_match_first_two in Hv. destruct Hv as [-> ->].
    unfold string_hash_raw, string_hash_lower. reflexivity.
Qed.

(* ------------------------------------------------------------------ the candidate lists agree *)

Lemma compile_buckets t h :
  assoc h (ct_buckets (compile t)) = ref_sort (filter (Pm h) (numbered t)).
Proof. unfold compile. apply compile_inv. Qed.

Lemma compile_chars t c :
  assoc c (ct_chars (compile t)) = filter (Sn c) (numbered t) ++ filter (Sd c) (numbered t).
Proof. unfold compile. apply compile_inv. Qed.

Lemma cands_eq t inp pos :
  bucket_candidates t (compile t) inp pos ++ char_candidates (compile t) inp pos
  = ref_candidates t inp pos.
Proof.
  unfold ref_candidates. f_equal.
  - unfold bucket_candidates. destruct (2 <=? len inp - pos); [|reflexivity].
    rewrite compile_buckets.
    set (h := string_hash_lower (fun c => c) (nth_z inp pos) (nth_z inp (pos + 1))).
    set (Q := fun r : Z * entry =>
                (len (e_chars (snd r)) <=? len inp - pos) && valid_match t inp pos (e_chars (snd r))).
    rewrite (filter_filter' (fun ie : Z * entry => is_multi (snd ie)) (fun ie : Z * entry => is_fwd_rule (snd ie))).
    set (M := filter (fun x : Z * entry => is_fwd_rule (snd x) && is_multi (snd x)) (numbered t)).
    assert (E1 : filter (Pm h) (numbered t) = filter (fun ie : Z * entry => hash_of (snd ie) =? h) M).
    { unfold M. rewrite filter_filter'. reflexivity. }
    rewrite E1, <- (filter_ref_sort (fun ie : Z * entry => hash_of (snd ie) =? h) M), filter_filter'.
    apply filter_ext_in. intros ie Hin.
    rewrite in_ref_sort in Hin. unfold M in Hin. apply filter_In in Hin. destruct Hin as [_ Hin].
    apply andb_prop in Hin. destruct Hin as [_ Hm].
    destruct (Q ie) eqn:EQ; [|apply andb_false_r].
    unfold Q in EQ. apply andb_prop in EQ. destruct EQ as [_ Hv].
    rewrite (hash_inert t inp pos ie Hm Hv). fold h. rewrite Z.eqb_refl. reflexivity.
  - unfold char_candidates. rewrite compile_chars.
    rewrite !filter_filter'. f_equal; apply filter_ext; intros ie.
    + unfold Sn. rewrite single_eqb, andb_assoc. reflexivity.
    + unfold Sd. rewrite single_eqb, andb_assoc. reflexivity.
Qed.

Lemma select_refines_l : forall t mode inp pos,
  select_impl t (compile t) mode inp pos = select_ref t mode inp pos.
Proof.
  intros. unfold select_impl, select_ref. rewrite cands_eq. reflexivity.
Qed.
