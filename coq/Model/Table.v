(* Fragment F of the table language (DESIGN.md section 3): entries, attributes, helper functions
   shared by the implementation-shaped engine (Model/Engine.v) and the reference (Model/Ref.v).
   Characters, cells, opcodes and attribute masks are Z (the generated facts are over Z).      *)
From Coq Require Import List ZArith Bool.
From Lou Require Import Gen.GConst Gen.GChain.
Import ListNotations.
Local Open Scope Z_scope.

Record entry := mkEntry {
  e_op : Z;              (* CTO_* *)
  e_chars : list Z;      (* characters operand (empty for indicator rules such as numsign) *)
  e_dots : list Z;       (* cells operand, each with LOU_DOTS set; [] = the `=' operand *)
  e_nofor : bool;
  e_noback : bool
}.

Definition table := list entry.

(* every table starts with the built-in  space \xffff 123456789abcdef  (compileTable) *)
Definition builtin : entry := mkEntry CTO_Space [LOU_ENDSEGMENT] [65535] false false.

(* entries with their rule index (ruleCounter): the built-in rule has index 0 *)
Fixpoint number_from (k : Z) (t : table) : list (Z * entry) :=
  match t with
  | [] => []
  | e :: t' => (k, e) :: number_from (k + 1) t'
  end.
Definition numbered (t : table) : list (Z * entry) := number_from 0 (builtin :: t).

Definition eqb_list (a b : list Z) : bool :=
  (fix go (a b : list Z) : bool :=
     match a, b with
     | [], [] => true
     | x :: a', y :: b' => (x =? y) && go a' b'
     | _, _ => false
     end) a b.

(* attribute a character definition opcode contributes (compileRule / compileCharDef) *)
Definition class_attr (op : Z) : Z :=
  if op =? CTO_Space then CTC_Space
  else if op =? CTO_Digit then CTC_Digit
  else if op =? CTO_Punctuation then CTC_Punctuation
  else if op =? CTO_Math then CTC_Math
  else if op =? CTO_Sign then CTC_Sign
  else if op =? CTO_Letter then CTC_Letter
  else if op =? CTO_UpperCase then Z.lor CTC_UpperCase CTC_Letter
  else if op =? CTO_LowerCase then Z.lor CTC_LowerCase CTC_Letter
  else 0.

Definition is_chardef (e : entry) : bool :=
  is_def_op (e_op e) && match e_chars e with [_] => true | _ => false end.

Definition defines (c : Z) (e : entry) : bool :=
  is_chardef e && match e_chars e with [c'] => c =? c' | _ => false end.

(* does the table have a character record for c (any definition of it) *)
Definition has_def (t : table) (c : Z) : bool := existsb (defines c) (builtin :: t).

(* attributes of a character as getChar(...)->attributes reports them: the union over its
   definitions; a character without a record is the static `notFound' record: CTC_Space *)
Definition attrs (t : table) (c : Z) : Z :=
  if has_def t c then
    fold_left (fun a e => if defines c e then Z.lor a (class_attr (e_op e)) else a) (builtin :: t) 0
  else CTC_Space.

Definition has_attr (a mask : Z) : bool := negb (Z.land a mask =? 0).

(* the cells of a character's definition rule: the FIRST definition wins *)
Definition def_dots (t : table) (c : Z) : option (list Z) :=
  match find (defines c) (builtin :: t) with
  | Some e => Some (e_dots e)
  | None => None
  end.

(* numsign: the last one defined is in force (the table slot is overwritten) *)
Definition numsign (t : table) : option (list Z) :=
  fold_left (fun acc e => if e_op e =? CTO_NumberSign then Some (e_dots e) else acc) t None.

Definition nth_z (l : list Z) (i : Z) : Z :=
  if i <? 0 then 0 else nth (Z.to_nat i) l 0.

Definition len (l : list Z) : Z := Z.of_nat (length l).

(* setBefore / setAfter *)
Definition before_char (inp : list Z) (pos : Z) : Z :=
  if (2 <=? pos) && (nth_z inp (pos - 1) =? LOU_ENDSEGMENT) then nth_z inp (pos - 2)
  else if pos =? 0 then 32 else nth_z inp (pos - 1).

Definition after_char (inp : list Z) (pos l : Z) : Z :=
  if (pos + l + 2 <? len inp) && (nth_z inp (pos + 1) =? LOU_ENDSEGMENT) then nth_z inp (pos + 2)
  else if pos + l <? len inp then nth_z inp (pos + l) else 32.

(* validMatch for a rule with characters cs at pos (no typeform, no `base' rules: toLowercase
   is the identity): characters equal, no segment mark inside, and the letter-case clause *)
Fixpoint valid_match_aux (t : table) (inp : list Z) (cs : list Z) (k : Z) (pos : Z)
         (prevAttr : Z) (n : Z) : bool :=
  match cs with
  | [] => true
  | rc :: cs' =>
      let c := nth_z inp k in
      if c =? LOU_ENDSEGMENT then (k =? pos) && (n =? 1)
      else
        let a := attrs t c in
        let prev := if k =? pos then a else prevAttr in
        if negb (c =? rc) then false
        else
          let caseMask := Z.lor (Z.lor CTC_LowerCase CTC_UpperCase) CTC_Letter in
          if negb (a =? CTC_Letter) && negb (k =? pos + 1) && has_attr prev CTC_Letter &&
             has_attr a CTC_Letter && negb (Z.land a caseMask =? Z.land prev caseMask)
          then false
          else valid_match_aux t inp cs' (k + 1) pos a n
  end.

Definition valid_match (t : table) (inp : list Z) (pos : Z) (cs : list Z) : bool :=
  match cs with
  | [] => false
  | _ => valid_match_aux t inp cs pos pos 0 (len cs)
  end.

(* the opcode condition of for_selectRule for the opcodes of F *)
Definition op_cond (op : Z) (mode : Z) (before after : Z) : bool :=
  let nocontr := has_attr mode mode_noContractions in
  let sp := Z.lor CTC_Space CTC_Punctuation in
  if is_def_op op then true
  else if op =? CTO_Always then negb nocontr
  else if op =? CTO_WholeWord then negb nocontr && has_attr before sp && has_attr after sp
  else if op =? CTO_PartWord then negb nocontr && (has_attr before CTC_Letter || has_attr after CTC_Letter)
  else if op =? CTO_LowWord then negb nocontr && has_attr before CTC_Space && has_attr after CTC_Space
  else if op =? CTO_SuffixableWord then
    negb nocontr && has_attr before sp && has_attr after (Z.lor sp CTC_Letter)
  else if op =? CTO_PrefixableWord then
    negb nocontr && has_attr before (Z.lor sp CTC_Letter) && has_attr after sp
  else if op =? CTO_BegWord then negb nocontr && has_attr before sp && has_attr after CTC_Letter
  else if op =? CTO_BegMidWord then
    negb nocontr && has_attr before (Z.lor sp CTC_Letter) && has_attr after CTC_Letter
  else if op =? CTO_MidWord then negb nocontr && has_attr before CTC_Letter && has_attr after CTC_Letter
  else if op =? CTO_MidEndWord then
    negb nocontr && has_attr before CTC_Letter && has_attr after (Z.lor sp CTC_Letter)
  else if op =? CTO_EndWord then negb nocontr && has_attr before CTC_Letter && has_attr after sp
  else false.

(* the opcodes of translation rules in F *)
Definition is_trans_op (op : Z) : bool :=
  (op =? CTO_Always) || (op =? CTO_WholeWord) || (op =? CTO_PartWord) || (op =? CTO_LowWord) ||
  (op =? CTO_SuffixableWord) || (op =? CTO_PrefixableWord) || (op =? CTO_BegWord) ||
  (op =? CTO_BegMidWord) || (op =? CTO_MidWord) || (op =? CTO_MidEndWord) || (op =? CTO_EndWord).

(* an entry takes part in forward rule selection *)
Definition is_fwd_rule (e : entry) : bool :=
  negb (e_nofor e) && (is_chardef e || (is_trans_op (e_op e) && negb (match e_chars e with [] => true | _ => false end))).

(* is the whole condition of a candidate satisfied at pos *)
Definition cand_ok (t : table) (mode : Z) (inp : list Z) (pos : Z) (e : entry) : bool :=
  let l := len (e_chars e) in
  op_cond (e_op e) mode (attrs t (before_char inp pos)) (attrs t (after_char inp pos l)).
