(* M5 — control skeleton of compileTable / compileFile: what decides success, what is logged.
   A compilation is a sequence of events; an event either passes or reports n >= 1 error-level
   messages (every increment of the error counter is paired with one, Gen/GErrors).          *)
From Coq Require Import List ZArith Bool.
Import ListNotations.
Local Open Scope Z_scope.

Inductive cevent :=
| LineOk                     (* a line compiled *)
| LineError (msgs : nat)     (* a line failed after logging msgs error-level messages (msgs may be 0:
                                compileFile then adds "Rule could not be compiled") *)
| FileMissing                (* a list member / include cannot be opened or resolved: logs 1 *)
| CharLoop.                  (* finalisation error: logs 1 *)

Record cstate := { errors : Z; logged : Z; stopped : bool }.
Definition cinit : cstate := {| errors := 0; logged := 0; stopped := false |}.

Definition cstep (s : cstate) (e : cevent) : cstate :=
  if stopped s then s
  else match e with
       | LineOk => s
       | LineError msgs =>
           let n := if (errors s =? 0) && Nat.eqb msgs 0 then 1 else Z.of_nat msgs in
           {| errors := errors s + n; logged := logged s + n; stopped := true |}
       | FileMissing => {| errors := errors s + 1; logged := logged s + 1; stopped := true |}
       | CharLoop => {| errors := errors s + 1; logged := logged s + 1; stopped := stopped s |}
       end.

Definition crun (es : list cevent) : cstate := fold_left cstep es cinit.

(* compileTable: success iff the counter is zero; on failure one more message ("n errors found")
   and nothing is handed out *)
Definition outcome (es : list cevent) : bool * Z :=
  let s := crun es in
  if errors s =? 0 then (true, logged s) else (false, logged s + 1).
