"""Translator: regenerates coq/Gen/*.v from /repo's current sources (DESIGN.md 2.1)."""
import importlib
import sys
from pathlib import Path

HERE = Path(__file__).resolve().parent
sys.path.insert(0, str(HERE))

MODULES = ["g_const", "g_chain", "g_log", "g_resolve", "g_meta", "g_alloc", "g_emit", "g_finish", "g_statics", "g_errors", "g_progress", "g_posmap"]  # filled below; each has NAME and generate(repo) -> str (Coq source)


def generate(repo, outdir, refdir):
    outdir.mkdir(parents=True, exist_ok=True)
    status = {}
    for name in MODULES:
        mod = importlib.import_module(name)
        target = outdir / (mod.NAME + ".v")
        try:
            text = mod.generate(repo)
            status[mod.NAME] = "generated"
        except Exception as ex:  # shape not recognised: golden fallback + mandatory black-box identification
            ref = refdir / (mod.NAME + ".v")
            text = ref.read_text()
            status[mod.NAME] = "fallback: %s" % (str(ex)[:300])
        if not target.exists() or target.read_text() != text:
            target.write_text(text)
        if status[mod.NAME] == "generated":
            ref = refdir / (mod.NAME + ".v")
            if ref.exists() and ref.read_text() != text:
                status[mod.NAME] = "generated-differs-from-golden"
    return status


if __name__ == "__main__":
    repo = Path(sys.argv[1] if len(sys.argv) > 1 else "/repo")
    coq = HERE.parent.parent / "coq"
    st = generate(repo, coq / "Gen", coq / "Gen.ref")
    for k, v in st.items():
        print(k, v)
    if "--update-ref" in sys.argv:
        for name in MODULES:
            mod = importlib.import_module(name)
            (coq / "Gen.ref" / (mod.NAME + ".v")).write_text((coq / "Gen" / (mod.NAME + ".v")).read_text())
