(* C05, part C: what the reference selection means: the candidate list consists exactly of the
   entries of qualifying shape, in strictly increasing `rank'.                               *)
From Coq Require Import List ZArith Bool Lia Sorted ZifyBool.
From Lou Require Import Gen.GConst Gen.GChain Model.Table Model.Ref Model.Compile Model.Engine.
From Lou Require Import Proofs.EngineSel.
Import ListNotations.
Local Open Scope Z_scope.

Definition idx_lt (a b : Z * entry) : Prop := fst a < fst b.
Definition rank_lt (a b : Z * entry) : Prop := lex4_lt (rank a) (rank b).
(* key first, then the rule index *)
Definition kidx_lt (a b : Z * entry) : Prop :=
  key a < key b \/ (key a = key b /\ fst a < fst b).

(* ------------------------------------------------------------------ table order *)

Lemma number_from_sorted t : forall k,
  StronglySorted idx_lt (number_from k t) /\
  (forall ie, In ie (number_from k t) -> k <= fst ie).
Proof.
  induction t as [|e t IH]; intros k; cbn [number_from].
  - split; [constructor|]. intros ie [].
  - destruct (IH (k + 1)) as [HS HB]. split.
    + constructor; [exact HS|]. apply Forall_forall. intros ie Hie.
      specialize (HB ie Hie). unfold idx_lt. cbn [fst]. lia.
    + intros ie [<-|Hie]; cbn [fst]; [lia|]. specialize (HB ie Hie). lia.
Qed.

Lemma numbered_sorted t : StronglySorted idx_lt (numbered t).
Proof. unfold numbered. apply number_from_sorted. Qed.

(* ------------------------------------------------------------------ the sort is stable *)

Lemma ref_insert_kidx x l :
  StronglySorted kidx_lt l -> (forall y, In y l -> fst y < fst x) ->
  StronglySorted kidx_lt (ref_insert x l).
Proof.
  induction 1 as [|y l HS IH HF]; intros Hx; cbn [ref_insert].
  - constructor; constructor.
  - rewrite ref_before_key. rewrite Forall_forall in HF.
    destruct (key x <? key y) eqn:E.
    + constructor; [constructor; [assumption|apply Forall_forall; assumption]|].
      constructor; [unfold kidx_lt; lia|].
      apply Forall_forall. intros z Hz. specialize (HF z Hz). unfold kidx_lt in *. lia.
    + constructor.
      * apply IH. intros z Hz. apply Hx. right. exact Hz.
      * apply Forall_forall. intros z Hz. apply in_ref_insert in Hz. destruct Hz as [Hz|Hz].
        -- subst z. assert (fst y < fst x) by (apply Hx; left; reflexivity).
           unfold kidx_lt. lia.
        -- apply HF. exact Hz.
Qed.

Lemma fold_insert_kidx l : forall acc,
  StronglySorted kidx_lt acc -> StronglySorted idx_lt l ->
  (forall a b, In a acc -> In b l -> fst a < fst b) ->
  StronglySorted kidx_lt (fold_left (fun acc x => ref_insert x acc) l acc).
Proof.
  induction l as [|x l IH]; intros acc Hacc Hl Hc; cbn [fold_left]; [exact Hacc|].
  apply StronglySorted_inv in Hl. destruct Hl as [Hl Hx]. rewrite Forall_forall in Hx.
  apply IH.
  - apply ref_insert_kidx; [exact Hacc|]. intros y Hy. apply Hc; [exact Hy|left; reflexivity].
  - exact Hl.
  - intros a b Ha Hb. apply in_ref_insert in Ha. destruct Ha as [->|Ha].
    + apply Hx. exact Hb.
    + apply Hc; [exact Ha|right; exact Hb].
Qed.

Lemma ref_sort_kidx l : StronglySorted idx_lt l -> StronglySorted kidx_lt (ref_sort l).
Proof.
  intros Hl. unfold ref_sort. apply fold_insert_kidx; [constructor|exact Hl|].
  intros a b [].
Qed.

(* ------------------------------------------------------------------ ranks *)

Lemma kidx_rank a b : is_multi (snd a) = true -> is_multi (snd b) = true ->
  kidx_lt a b -> rank_lt a b.
Proof.
  unfold kidx_lt, rank_lt, rank, key, lex4_lt. intros -> ->.
  destruct (is_always (snd a)), (is_always (snd b)); lia.
Qed.

Lemma single_not_multi (ie : Z * entry) c : e_chars (snd ie) = [c] -> is_multi (snd ie) = false.
Proof. intros H. unfold is_multi. rewrite H. reflexivity. Qed.

(* ------------------------------------------------------------------ membership in the candidates *)

Definition shape (t : table) (inp : list Z) (pos : Z) (ie : Z * entry) : Prop :=
  (is_multi (snd ie) = true /\ len (e_chars (snd ie)) <= len inp - pos /\
   valid_match t inp pos (e_chars (snd ie)) = true) \/
  (e_chars (snd ie) = [nth_z inp pos]).

Lemma in_cands t inp pos ie :
  In ie (ref_candidates t inp pos) <->
  In ie (numbered t) /\ is_fwd_rule (snd ie) = true /\ shape t inp pos ie.
Proof.
  unfold ref_candidates, shape. rewrite !in_app_iff. split.
  - intros [H|[H|H]].
    + destruct (2 <=? len inp - pos); [|destruct H].
      apply filter_In in H. destruct H as [H HQ]. rewrite in_ref_sort in H.
      apply filter_In in H. destruct H as [H Hm]. apply filter_In in H. destruct H as [H Hf].
      apply andb_prop in HQ. destruct HQ as [HQ1 HQ2].
      split; [exact H|]. split; [exact Hf|]. left. split; [exact Hm|]. split; [lia|exact HQ2].
    + apply filter_In in H. destruct H as [H _]. apply filter_In in H. destruct H as [H Hs].
      apply filter_In in H. destruct H as [H Hf]. rewrite single_eqb in Hs.
      apply eqb_list_single in Hs. split; [exact H|]. split; [exact Hf|]. right. exact Hs.
    + apply filter_In in H. destruct H as [H _]. apply filter_In in H. destruct H as [H Hs].
      apply filter_In in H. destruct H as [H Hf]. rewrite single_eqb in Hs.
      apply eqb_list_single in Hs. split; [exact H|]. split; [exact Hf|]. right. exact Hs.
  - intros (Hin & Hf & [(Hm & Hl & Hv)|Hs]).
    + left. assert (E : 2 <=? len inp - pos = true) by (unfold is_multi in Hm; lia).
      rewrite E. apply filter_In. split.
      * rewrite in_ref_sort. apply filter_In. split; [|exact Hm].
        apply filter_In. split; [exact Hin|exact Hf].
      * rewrite Hv. cbn beta. lia.
    + right.
      assert (HS : In ie (filter (fun ie0 : Z * entry => is_single (snd ie0) &&
                     eqb_list (e_chars (snd ie0)) [nth_z inp pos])
                     (filter (fun ie0 : Z * entry => is_fwd_rule (snd ie0)) (numbered t)))).
      { apply filter_In. split; [apply filter_In; split; [exact Hin|exact Hf]|].
        rewrite single_eqb. apply eqb_list_single. exact Hs. }
      destruct (is_def_op (e_op (snd ie))) eqn:Ed.
      * right. apply filter_In. split; [exact HS|exact Ed].
      * left. apply filter_In. split; [exact HS|]. rewrite Ed. reflexivity.
Qed.

Lemma qualifies_iff t mode inp pos ie :
  qualifies t mode inp pos ie <->
  In ie (ref_candidates t inp pos) /\ cand_ok t mode inp pos (snd ie) = true.
Proof.
  rewrite in_cands. unfold qualifies, shape. tauto.
Qed.

(* ------------------------------------------------------------------ the candidates are ranked *)

Lemma cands_ranked t inp pos : StronglySorted rank_lt (ref_candidates t inp pos).
Proof.
  unfold ref_candidates.
  set (rules := filter (fun ie : Z * entry => is_fwd_rule (snd ie)) (numbered t)).
  assert (Hrules : StronglySorted idx_lt rules) by (apply SS_filter, numbered_sorted).
  set (single := filter (fun ie : Z * entry => is_single (snd ie) &&
                           eqb_list (e_chars (snd ie)) [nth_z inp pos]) rules).
  assert (Hsingle : StronglySorted idx_lt single) by (apply SS_filter, Hrules).
  assert (Hsc : forall ie, In ie single -> e_chars (snd ie) = [nth_z inp pos]).
  { intros ie H. apply filter_In in H. destruct H as [_ H]. rewrite single_eqb in H.
    apply eqb_list_single. exact H. }
  set (multi := if 2 <=? len inp - pos then _ else _).
  assert (Hmm : forall ie, In ie multi -> is_multi (snd ie) = true).
  { intros ie H. unfold multi in H. destruct (2 <=? len inp - pos); [|destruct H].
    apply filter_In in H. destruct H as [H _]. rewrite in_ref_sort in H.
    apply filter_In in H. apply H. }
  assert (Hmulti : StronglySorted rank_lt multi).
  { apply (SS_impl_in kidx_lt).
    - intros a b Ha Hb. apply kidx_rank; apply Hmm; assumption.
    - unfold multi. destruct (2 <=? len inp - pos); [|constructor].
      apply SS_filter, ref_sort_kidx, SS_filter, Hrules. }
  apply SS_app; [exact Hmulti|apply SS_app|].
  - apply (SS_impl_in idx_lt); [|apply SS_filter, Hsingle].
    intros a b Ha Hb. apply filter_In in Ha, Hb. destruct Ha as [Ha Hda], Hb as [Hb Hdb].
    unfold idx_lt, rank_lt, rank, lex4_lt.
    rewrite (single_not_multi a _ (Hsc a Ha)), (single_not_multi b _ (Hsc b Hb)).
    destruct (is_def_op (e_op (snd a))); [discriminate|].
    destruct (is_def_op (e_op (snd b))); [discriminate|]. lia.
  - apply (SS_impl_in idx_lt); [|apply SS_filter, Hsingle].
    intros a b Ha Hb. apply filter_In in Ha, Hb. destruct Ha as [Ha Hda], Hb as [Hb Hdb].
    unfold idx_lt, rank_lt, rank, lex4_lt.
    rewrite (single_not_multi a _ (Hsc a Ha)), (single_not_multi b _ (Hsc b Hb)), Hda, Hdb. lia.
  - intros a b Ha Hb. apply filter_In in Ha, Hb. destruct Ha as [Ha Hda], Hb as [Hb Hdb].
    unfold rank_lt, rank, lex4_lt.
    rewrite (single_not_multi a _ (Hsc a Ha)), (single_not_multi b _ (Hsc b Hb)), Hdb.
    destruct (is_def_op (e_op (snd a))); [discriminate|]. lia.
  - intros a b Ha Hb. unfold rank_lt, rank, lex4_lt. rewrite (Hmm a Ha).
    assert (Hb' : is_multi (snd b) = false).
    { apply in_app_or in Hb. destruct Hb as [Hb|Hb]; apply filter_In in Hb;
        destruct Hb as [Hb _]; exact (single_not_multi b _ (Hsc b Hb)). }
    rewrite Hb'. lia.
Qed.

(* ------------------------------------------------------------------ find on a sorted list *)

Lemma find_first {A} (R : A -> A -> Prop) (P : A -> bool) (l : list A) x y :
  StronglySorted R l -> find P l = Some x -> In y l -> P y = true -> y = x \/ R x y.
Proof.
  induction 1 as [|a l HS IH HF]; cbn [find]; [discriminate|].
  intros Hfind Hin Py. destruct (P a) eqn:Pa.
  - injection Hfind as <-. destruct Hin as [->|Hin]; [left; reflexivity|].
    right. rewrite Forall_forall in HF. apply HF. exact Hin.
  - destruct Hin as [->|Hin]; [congruence|]. apply IH; assumption.
Qed.

(* ------------------------------------------------------------------ the three statements *)

Lemma select_ref_qualifies_l : forall t mode inp pos ie,
  0 <= pos < len inp ->
  select_ref t mode inp pos = Some ie -> qualifies t mode inp pos ie.
Proof.
  intros t mode inp pos ie _ H. unfold select_ref in H. apply find_some in H.
  apply qualifies_iff. exact H.
Qed.

Lemma select_ref_most_preferred_l : forall t mode inp pos ie ie',
  0 <= pos < len inp ->
  select_ref t mode inp pos = Some ie -> qualifies t mode inp pos ie' -> ie' <> ie ->
  lex4_lt (rank ie) (rank ie').
Proof.
  intros t mode inp pos ie ie' _ H Hq Hne. apply qualifies_iff in Hq. destruct Hq as [Hin Hok].
  unfold select_ref in H.
  destruct (find_first rank_lt _ _ ie ie' (cands_ranked t inp pos) H Hin Hok) as [E|E].
  - contradiction.
  - exact E.
Qed.

Lemma select_ref_none_iff_l : forall t mode inp pos,
  0 <= pos < len inp ->
  (select_ref t mode inp pos = None <-> forall ie, ~ qualifies t mode inp pos ie).
Proof.
  intros t mode inp pos _. unfold select_ref. split.
  - intros H ie Hq. apply qualifies_iff in Hq. destruct Hq as [Hin Hok].
    pose proof (find_none _ _ H ie Hin) as Hn. cbn beta in Hn. congruence.
  - intros H. destruct (find _ _) as [ie|] eqn:E; [|reflexivity].
    exfalso. apply (H ie). apply qualifies_iff. apply find_some in E. exact E.
Qed.

(* every selected rule has at least one character *)
Lemma select_ref_len t mode inp pos idx e :
  select_ref t mode inp pos = Some (idx, e) -> 1 <= len (e_chars e).
Proof.
  intros H. unfold select_ref in H. apply find_some in H. destruct H as [H _].
  apply in_cands in H. destruct H as (_ & _ & [(Hm & _)|Hs]); cbn [snd] in *.
  - unfold is_multi in Hm. lia.
  - rewrite Hs. unfold len. cbn [length]. lia.
Qed.
