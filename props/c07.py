"""C07 — position maps and cursor are valid, ordered and mutually consistent.
PROVE: Properties/C07.v (layer A: the finishing code for ANY position map satisfying H; layer B: the F engine's map satisfies H).
CORRESPOND: the raw position map of every real call (hook) pushed through the extracted Finish model must give exactly the
 inputPos/outputPos the library returned; the clauses of the property are evaluated directly on the returned arrays."""
import os
import shutil

import common
import safety
import tablegen
import trans
from common import Rng, REPO

PID = "C07"


def first_nul_len(inp, inlen):
    k = 0
    while k < inlen and k < len(inp) and inp[k]:
        k += 1
    if k >= len(inp) and k < inlen:
        k = inlen  # harness pads with 'x'
    return k


def clause_check(direction, r, cursor_in, has_cursor):
    """the property's clauses on the returned arrays; returns None or (key, text)"""
    il, ol = r.inlen, r.outlen
    if il <= 0 or ol <= 0:
        return None
    ip, op = r.inputPos[:ol], r.outputPos[:il]
    if any(not (0 <= x <= il - 1) for x in ip):
        return ("inputPos-range", "inputPos entry outside [0, inlen-1]: %s (inlen %d)" % (ip, il))
    if any(not (0 <= x <= ol - 1) for x in op):
        return ("outputPos-range", "outputPos entry outside [0, outlen-1]: %s (outlen %d)" % (op, ol))
    if direction == "F":
        if any(op[i] > op[i + 1] for i in range(il - 1)):
            return ("outputPos-order", "outputPos decreases: %s" % op)
        if any(op[ip[k]] > k for k in range(ol)):
            return ("maps-inconsistent", "outputPos[inputPos[k]] > k: inputPos=%s outputPos=%s" % (ip, op))
    else:
        if any(ip[i] > ip[i + 1] for i in range(ol - 1)):
            return ("inputPos-order", "inputPos decreases: %s" % ip)
        if any(ip[op[i]] > i for i in range(il)):
            return ("maps-inconsistent", "inputPos[outputPos[i]] > i: inputPos=%s outputPos=%s" % (ip, op))
    if has_cursor and 0 <= cursor_in < il and r.cursor != op[cursor_in]:
        return ("cursor", "cursor %d came back as %d, outputPos[cursor] = %d" % (cursor_in, r.cursor, op[cursor_in]))
    return None


def run(chk):
    rng = Rng(chk.seed).fork(PID)
    gen = common.gen_stage()
    prove = common.prove_stage(PID)
    drv = common.model_driver()
    exe = common.build_harness("h_trans")
    env = {"LOUIS_TABLEPATH": str(REPO / "tables")}
    quick = chk.tier == "quick"
    work = common.BUILD / ("work-c07-%d" % os.getpid())
    shutil.rmtree(work, ignore_errors=True)
    work.mkdir(parents=True)
    tables = [(t, None) for t in safety.shipped_tables(rng.fork("tables"), 40 if quick else 10 ** 6)]
    for i in range(60 if quick else 1500):
        r = rng.fork(("gt", i))
        entries, alphabet = tablegen.gen_c05_table(r, collide=r.chance(0.2))
        tf = work / ("g%d.utb" % i)
        tf.write_text(tablegen.table_text(entries))
        tables.append(("unicode.dis," + str(tf), alphabet))
    for i in range(20 if quick else 300):
        r = rng.fork(("emph", i))
        text, al = tablegen.gen_emphasis_table(r)
        tf = work / ("e%d.utb" % i)
        tf.write_text(text)
        tables.append(("unicode.dis," + str(tf), al))
    # tables that map each character to exactly one cell although rules are at work: single-cell definitions plus swap
    # classes applied one for one (quantified, so that a run is replaced by one rule application) in the corrections pass
    # and in pass2 - for these the property asks for identity maps and an unchanged cursor
    onecell = []
    for i in range(8 if quick else 60):
        r = rng.fork(("onecell", i))
        letters = "abcdef"[: r.range(3, 6)]
        cells = r.sample(range(1, 64), len(letters))
        dots = lambda v: "".join(str(b + 1) for b in range(6) if v >> b & 1)
        lines_ = ["space \\s 0"] + ["lowercase %s %s" % (c, dots(v)) for c, v in zip(letters, cells)]
        k = r.range(2, len(letters))
        src = "".join(r.sample(list(letters), k))
        lines_.append("swapcc sw %s %s" % (src, "".join(r.choice(letters) for _ in range(k))))
        lines_.append("noback correct %s %%sw" % r.choice(["[%sw.]", "[%sw1-3]", "[%sw2-5]", "[%sw]", '"%s"[%%sw.]' % r.choice(letters)]))
        if r.chance(0.6):
            dsrc = r.sample(cells, r.range(2, len(cells)))
            lines_.append("swapdd sd %s %s" % (",".join(dots(v) for v in dsrc), ",".join(dots(r.choice(cells)) for _ in dsrc)))
            lines_.append("noback pass2 %s %%sd" % r.choice(["[%sd.]", "[%sd1-4]", "[%sd]"]))
        tf = work / ("o%d.utb" % i)
        tf.write_text("\n".join(lines_) + "\n")
        onecell.append((str(tf), [ord(c) for c in letters] * 3 + [32]))
    for tl, alphabet in onecell:
        r = rng.fork(("onecellcases", tl))
        olines, ometa = [], []
        for _ in range(12 if quick else 40):
            inp = [r.choice(alphabet) for _ in range(r.range(1, 12))]
            for cur in [-2] + list(range(len(inp))):
                for pres in (12, 0):
                    p_ = pres | (16 if cur >= 0 else 0)
                    if p_ == 0:
                        continue
                    olines.append(trans.case_line("T", r.choice([0, 4]) if cur < 0 else 4, inp, 3 * len(inp) + 8, cursor=cur, presence=p_))
                    ometa.append((inp, cur, p_))
        for (inp, cur, p_), ln, res in zip(ometa, olines, trans.run_cases(exe, "unicode.dis," + tl, olines, exact=1, env=env, timeout=400)):
            chk.count((tl, ln), nontrivial=len(inp) > 2)
            chk.tally("one_cell_per_character_tables")
            bad = safety.classify(res)
            if bad:
                chk.violation(bad[0], "%s on a one-cell-per-character table: %s" % (bad[1], ln[:120]), dict(table_list=tl, case_line=ln, table_text=open(tl).read()))
                continue
            if res.ret != 1 or res.inlen != len(inp) or res.outlen != len(inp):
                continue        # (a rule changed the length: not one cell per character for this input)
            ident = list(range(len(inp)))
            if (p_ & 8 and res.inputPos[:res.outlen] != ident) or (p_ & 4 and res.outputPos[:res.inlen] != ident) or (cur >= 0 and res.cursor != cur):
                chk.violation("clause:identity", "one cell per character, but the maps are not the identity / the cursor moved: inputPos=%s outputPos=%s cursor %s -> %s"
                              % (res.inputPos[:res.outlen], res.outputPos[:res.inlen], cur, res.cursor),
                              dict(table_list=tl, case_line=ln, impl=res.raw, table_text=open(tl).read()))
            else:
                chk.cov["traces_validated_against_impl"] += 1
    hstats = dict(neg=0, over=0, nonmono=0)
    for tl, alphabet in tables:
        r = rng.fork(("cases", tl))
        lines, meta = [], []
        n = (60 if alphabet is None else 25) * (1 if quick else 4)
        for i in range(n):
            direction = r.choice("FFB")
            if alphabet is not None:
                inp = [r.choice(alphabet) for _ in range(r.range(1, 22))]
            else:
                inp = safety.gen_input(r, 36) or [97]
            mode = r.choice([0, 0, 4, 1, 128, 256, 4 | 64, 1 | 4])
            if direction == "B":
                # back-translate a forward translation (obtained below) - placeholder, replaced after the forward run
                pass
            full = 4 * len(inp) + 12
            outlen = r.choice([full, full, full, r.range(1, len(inp) + 2), len(inp)])
            pres = 12 | r.choice([0, 16, 16, 1, 1, 3, 17])
            cursor = r.range(0, len(inp) - 1) if pres & 16 else -2
            # some forward calls through lou_translatePrehyphenated with hyphen arrays (Q): the same arrays must come back
            lines.append(trans.case_line("Q" if direction == "F" and r.chance(0.15) else "T", mode, inp, full if direction == "B" else outlen,
                                         cursor=cursor, presence=pres, typeform=safety.gen_typeform(r, len(inp)) if pres & 1 else None))
            meta.append((direction, inp, mode, outlen, pres, cursor))
        if alphabet is None and os.path.basename(tl) in ("en-us-g2.ctb", "en-ueb-g2.ctb", "de-g2.ctb", "fr-bfu-g2.ctb", "cy-cy-g2.ctb", "hu-hu-g2.ctb"):
            # aimed at non-monotone raw maps: an emphasis that begins and ends inside a group of characters that one rule
            # contracts (capital first letter, so that the typeform test of the match is skipped)
            cw = "The With Child This Which Shall Still Out And For Of Have People Would Could Braille Their Through Ought Some".split()
            for i in range(60 if quick else 600):
                ws = [r.choice(cw) if r.chance(0.8) else r.choice(cw).lower() for _ in range(r.range(1, 4))]
                text = " ".join(ws)
                inp = [ord(c) for c in text]
                tfm = [0] * len(inp)
                starts = [0] + [k + 1 for k, c in enumerate(text) if c == " "]
                for _ in range(r.range(1, 2)):
                    a = min(len(inp) - 1, r.choice(starts) + r.range(1, 2)) if r.chance(0.8) else r.range(0, len(inp) - 1)
                    b = min(len(inp), a + r.range(1, 2))
                    v = r.choice([1, 2, 4, 1, 8])
                    for k in range(a, b):
                        tfm[k] = v
                pres = 12 | 1 | r.choice([0, 16])
                cursor = r.range(0, len(inp) - 1) if pres & 16 else -2
                full = 4 * len(inp) + 12
                amode = r.choice([0, 0, 4])
                lines.append(trans.case_line("T", amode, inp, full, cursor=cursor, presence=pres, typeform=tfm))
                meta.append(("F", inp, amode, full, pres, cursor))
                chk.tally("aimed_emphasis_inside_contraction")
        # aimed at indicators in front of the very first character: a capitals passage or an emphasised passage of several
        # words that starts at position 0 (and, as a control, at a later word)
        for i in range(6 if quick else 30):
            if alphabet is not None:
                low = sorted(set(c for c in alphabet if 97 <= c <= 122)) or [97, 98]
                word = lambda: [r.choice(low) for _ in range(r.range(1, 4))]
            else:
                word = lambda: [ord(c) for c in r.choice(safety.WORDS)]
            ws = [word() for _ in range(r.range(2, 6))]
            first = 0 if i % 3 else r.range(0, len(ws) - 1)
            npass = r.range(2, len(ws))
            kind = r.choice(["caps", "caps", "emph", "both"])
            inp, tfm = [], []
            for k, w in enumerate(ws):
                inside = first <= k < first + npass
                if k:
                    inp.append(32)
                    tfm.append(v if inside and k > first and kind != "caps" else 0)
                v = r.choice([1, 2, 4, 8]) if k == first else (v if k > first else 0)
                inp += [c - 32 if inside and kind != "emph" and 97 <= c <= 122 else c for c in w]
                tfm += [v if inside and kind != "caps" else 0] * len(w)
            pres = 12 | 1 | r.choice([0, 16])
            cursor = r.choice([0, 0, r.range(0, len(inp) - 1)]) if pres & 16 else -2
            full = 4 * len(inp) + 24
            amode = r.choice([0, 0, 4])
            lines.append(trans.case_line("T", amode, inp, r.choice([full, full, r.range(1, len(inp) + 2)]), cursor=cursor, presence=pres, typeform=tfm))
            meta.append(("F", inp, amode, full, pres, cursor))
            chk.tally("aimed_passage_at_start")
        rs = trans.run_cases(exe, tl, lines, exact=1, env=env, timeout=400)
        # second round: backward cases on the outputs
        blines, bmeta = [], []
        for (direction, inp, mode, outlen, pres, cursor), res in zip(meta, rs):
            if direction != "B" or res.crash or res.hang is not None or res.ret != 1 or res.outlen <= 0:
                continue
            br = res.out[:res.outlen]
            if r.chance(0.25):
                br = br[:r.range(1, len(br))]
            bmode = (mode & 4) | r.choice([0, 0, 128, 256])
            ol = r.choice([4 * len(br) + 12, 4 * len(br) + 12, r.range(1, len(br) + 2)])
            pres = 12 | r.choice([0, 16, 16])
            cur = r.range(0, len(br) - 1) if pres & 16 else -2
            blines.append(trans.case_line("B", bmode, br, ol, cursor=cur, presence=pres))
            bmeta.append(("B", br, bmode, ol, pres, cur))
        brs = trans.run_cases(exe, tl, blines, exact=1, env=env, timeout=400) if blines else []
        allcases = [(m, ln, res) for m, ln, res in zip(meta, lines, rs) if m[0] == "F"] + list(zip(bmeta, blines, brs))
        mlines, midx = [], []
        for j, (m, ln, res) in enumerate(allcases):
            direction, inp, mode, outlen, pres, cursor = m
            if res.crash or res.hang is not None:
                bad = safety.classify(res)
                chk.count((tl, ln))
                chk.violation(bad[0], "%s on %s: %s" % (bad[1], os.path.basename(tl), ln[:160]), dict(table_list=tl, case_line=ln))
                continue
            if res.ret != 1 or res.rawmap is None:
                chk.count((tl, ln), nontrivial=False)
                chk.tally("returned_0")
                continue
            pm = res.rawmap[3]
            if direction == "F":
                L = first_nul_len(inp, len(inp))
                mlines.append("FF %d %d %s" % (res.outlen, L, " ".join(map(str, pm))))
            else:
                mlines.append("FB %d %d %s" % (res.inlen, res.outlen, " ".join(map(str, pm))))
            midx.append(j)
        mo = common.run_model(drv, mlines) if mlines else []
        for j, m_out in zip(midx, mo):
            (direction, inp, mode, outlen, pres, cursor), ln, res = allcases[j]
            pm = res.rawmap[3]
            parts = [p.strip() for p in m_out.split("|")]
            mip = [int(x) for x in parts[1].split()]
            mop = [int(x) for x in parts[2].split()]
            il, ol = res.inlen, res.outlen
            key = (tl, ln)
            nontriv = il > 0 and ol > 0 and (res.inputPos[:ol] != list(range(ol)))
            chk.count(key, nontrivial=nontriv)
            chk.tally("dir_" + direction)
            if direction == "F":
                ok = int(parts[0].split()[1]) == il and res.inputPos[:ol] == mip and res.outputPos[:len(mop)] == mop
            else:
                ok = res.inputPos[:ol] == mip and res.outputPos[:il] == mop
            if not ok:
                chk.violation("finish-mismatch", "returned position arrays differ from Finish applied to the raw map: impl inputPos=%s outputPos=%s model %s"
                              % (res.inputPos[:ol], res.outputPos[:il], m_out), dict(table_list=tl, case_line=ln, raw_map=pm, impl=res.raw, model=m_out))
                continue
            # hypothesis H on the raw map (monitored)
            body = pm[:ol] if direction == "F" else pm[:il]
            bound = il if direction == "F" else ol
            if any(x < 0 for x in body):
                hstats["neg"] += 1
            if any(x > bound for x in body):
                hstats["over"] += 1
            if any(body[i] > body[i + 1] for i in range(len(body) - 1)):
                hstats["nonmono"] += 1
            c = clause_check(direction, res, cursor, bool(pres & 16))
            if c:
                chk.violation("clause:" + c[0] + (":" + direction), "%s (%s, %s)" % (c[1], os.path.basename(tl), ln[:120]),
                              dict(table_list=tl, case_line=ln, raw_map=pm, impl=res.raw,
                                   table_text=open(tl.split(",")[-1]).read() if "/work-" in tl else None))
            else:
                chk.cov["traces_validated_against_impl"] += 1
                if nontriv:
                    chk.sample(dict(table=os.path.basename(tl), case=ln[:120], raw_map=pm, inputPos=res.inputPos[:ol], outputPos=res.outputPos[:il]), cap=4)
    shutil.rmtree(work, ignore_errors=True)
    chk.cov["raw_map_hypothesis_monitor"] = hstats
    chk.cov["rule"] = ("forward calls and back-translations of their outputs on shipped (sample) and generated tables, modes, capacities incl. "
                       "partial translations, with position arrays and often a cursor; the hooked raw posMapping goes through the extracted "
                       "Finish model and must reproduce inputPos/outputPos; the property's clauses are evaluated on the returned arrays; "
                       "distinct = (table, case); non-trivial = positive lengths and a non-identity map")
    chk.cov["gen_status"] = gen
    chk.cov["checker_cmd"] = "make -C coq Properties/C07.vo (coqc 8.16.1)"
    chk.cov["trusted_base"] = common.TRUSTED_COMMON + ["hook _lou_verif_posmap_cb delivers the raw posMapping before it is finished"]
    if not prove["ok"] and not chk.violations:
        chk.violation("proof", "Properties/%s.v no longer checks: %s" % (PID, prove["failed"][:5]),
                      dict(no_failing_input=True, broken=prove["failed"], log=prove["log"][-1500:], gen=gen))
    return chk.finish(prove)
