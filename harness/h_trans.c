/* H1/H2: one translation / back-translation / conversion call per line, with exactly-sized
 * caller arrays on the heap (ASan red zones directly behind every array).
 *
 *   t <table list>                    select the table list for the following cases (silent)
 *   e <0|1>                           exact scratch sizes (_lou_verif_exact) (silent)
 *   f                                 lou_free() (silent)
 *   b <n>                             tick budget for every following case (0 = none) (silent)
 *   X <fn> <mode> <inlen> <outlen> <cursor> <presence> | <input words> | <typeform bytes> | <spacing text>
 *       fn: T lou_translate        S lou_translateString      R _lou_translate (rule trace)
 *           B lou_backTranslate    U lou_backTranslateString  P lou_translatePrehyphenated (no hyphen arrays)
 *           Q lou_translatePrehyphenated with hyphen arrays of exactly inlen / outlen bytes; the input marks are
 *             '1' where (k * 5 + mode) % 3 == 0 and '0' elsewhere; the output marks are printed in the rules
 *             field as k:byte (pre-filled with '~')
 *           C lou_charToDots       D lou_dotsToChar
 *       cursor: -2 = pass NULL (also when presence bit 16 is off); otherwise the value
 *       presence bits: 1 typeform, 2 spacing, 4 outputPos, 8 inputPos, 16 cursorPos
 *       inlen may exceed the number of input words given: the rest is filled with 'x'
 *       (used with an embedded NUL); input words beyond inlen are ignored.
 *   Output (one line):
 *     R <ret> <inlen'> <outlen'> <cursor'> | out | inputPos | outputPos | typeform | spacing | rules |
 *       ticks(site:count ...) | rawposmap | errors=<n> [HANG site]
 *   Arrays are pre-filled with sentinels (out 0x7e7e, ints -7777, typeform 0x7e, spacing '~');
 *   every array is printed in full (its documented size), so unwritten cells show up.
 */
#include <setjmp.h>
#include "tbl.h"

#include <signal.h>
#include <unistd.h>
static sigjmp_buf hang_jmp;
static int hang_site = -1;
static void
tick_over(int site) {
	hang_site = site;
	_lou_verif_tick_budget = 0;
	alarm(0);
	siglongjmp(hang_jmp, 1);
}
/* wall-clock watchdog for loops that have no step counter: site 99 */
#define WATCHDOG_SECONDS 6
static void
on_alarm(int sig) {
	(void)sig;
	hang_site = 99;
	_lou_verif_tick_budget = 0;
	siglongjmp(hang_jmp, 1);
}

/* the commands that compile tables run under the same watchdog: a compilation that does not come back is reported as
 * "<cmd> HANG" after WATCHDOG_SECONDS instead of blocking the stream until its timeout */
#define GUARD_BEGIN                        \
	signal(SIGALRM, on_alarm);             \
	if (sigsetjmp(hang_jmp, 1) == 0) {     \
		alarm(WATCHDOG_SECONDS);
#define GUARD_END(tag)                     \
		alarm(0);                          \
	} else {                               \
		alarm(0);                          \
		printf("%s HANG\n", tag);          \
		fflush(stdout);                    \
		lou_free();                        \
		continue;                          \
	}

static int raw_n = -1, raw_dir, raw_inlen, raw_outlen;
static int raw_pm[1 << 16];
static void
posmap_cb(int dir, const int *pm, int n, int inlen, int outlen) {
	int k;
	raw_dir = dir;
	raw_inlen = inlen;
	raw_outlen = outlen;
	raw_n = n < (1 << 16) ? n : (1 << 16);
	if (raw_n < 0) raw_n = 0;
	for (k = 0; k < raw_n; k++) raw_pm[k] = pm[k];
}

static int opens_total = 0;
static char opens_log[4096];
static void
open_cb(const char *path) {
	const char *b = strrchr(path, '/');
	size_t n = strlen(opens_log);
	opens_total++;
	if (n + strlen(b ? b + 1 : path) + 2 < sizeof opens_log) {
		strcat(opens_log, n ? "," : "");
		strcat(opens_log, b ? b + 1 : path);
	}
}

static const void *seen_ptr[256];
static int seen_n = 0;
static int
ptr_class(const void *p) {
	int k;
	if (!p) return 0;
	for (k = 0; k < seen_n; k++)
		if (seen_ptr[k] == p) return k + 1;
	if (seen_n < 256) seen_ptr[seen_n++] = p;
	return seen_n;
}

#define MAXW (1 << 16)
static long v[MAXW];

static char *
next_bar(char *s) {
	char *b = strchr(s, '|');
	if (!b) return s + strlen(s);
	*b = 0;
	return b + 1;
}

int
main(void) {
	static char tl[8192] = "";
	unsigned long budget = 0;
	lou_registerLogCallback(h_quietlog);
	_lou_verif_tick_over = tick_over;
	_lou_verif_posmap_cb = posmap_cb;
	_lou_verif_open_cb = open_cb;
	while (fgets(h_line, H_LINE, stdin)) {
		size_t L = strlen(h_line);
		while (L && (h_line[L - 1] == '\n' || h_line[L - 1] == '\r')) h_line[--L] = 0;
		if (h_line[0] == 'Y') { /* Y <table list> ;; X ...  : select the list, then run the case */
			char *sep = strstr(h_line, ";;");
			if (!sep) continue;
			*sep = 0;
			{
				char *a = h_line + 1, *e = sep;
				while (*a == ' ') a++;
				while (e > a && e[-1] == ' ') *--e = 0;
				strncpy(tl, a, sizeof tl - 1);
			}
			memmove(h_line, sep + 2, strlen(sep + 2) + 1);
			while (h_line[0] == ' ') memmove(h_line, h_line + 1, strlen(h_line));
		}
		if (h_line[0] == 'F') {
			lou_free();
			seen_n = 0;
			printf("F\n");
			fflush(stdout);
			continue;
		}
		if (h_line[0] == 'K') { /* K <table list> | <rule> */
			char *bar = strchr(h_line, '|');
			int r = -1;
			if (bar) {
				char *a = h_line + 1, *e = bar;
				*bar = 0;
				while (*a == ' ') a++;
				while (e > a && e[-1] == ' ') *--e = 0;
				bar++;
				while (*bar == ' ') bar++;
				GUARD_BEGIN
				r = lou_compileString(a, bar);
				GUARD_END("K")
			}
			printf("K %d\n", r);
			fflush(stdout);
			continue;
		}
		if (h_line[0] == 'V') { /* V <table list> : lou_checkTable with message counts by level */
			char *a = h_line + 1;
			int c0[8], k, r;
			while (*a == ' ') a++;
			for (k = 0; k < 8; k++) c0[k] = h_logcount[k];
			GUARD_BEGIN
			r = lou_checkTable(a);
			GUARD_END("V")
			printf("V %d errors=%d warnings=%d fatal=%d\n", r, h_logcount[4] - c0[4], h_logcount[3] - c0[3], h_logcount[5] - c0[5]);
			fflush(stdout);
			continue;
		}
		if (h_line[0] == 'E') { /* E <table list> : lou_getEmphClasses compiles (and caches) the translation part alone */
			char *a = h_line + 1;
			char const **cl;
			while (*a == ' ') a++;
			GUARD_BEGIN
			cl = lou_getEmphClasses(a);
			GUARD_END("E")
			printf("E %d\n", cl != NULL);
			if (cl) free((void *)cl);
			fflush(stdout);
			continue;
		}
		if (h_line[0] == 'G') { /* G <table list> : pointer identity class and files opened by this lookup */
			char *a = h_line + 1;
			int o0 = opens_total;
			const void *p;
			while (*a == ' ') a++;
			opens_log[0] = 0;
			GUARD_BEGIN
			p = lou_getTable(a);
			GUARD_END("G")
			printf("G %d opens=%d files=%s\n", ptr_class(p), opens_total - o0, opens_log);
			fflush(stdout);
			continue;
		}
		if (h_line[0] == 't') {
			strncpy(tl, h_line + 2, sizeof tl - 1);
			continue;
		}
		if (h_line[0] == 'e') {
			_lou_verif_exact = atoi(h_line + 1);
			continue;
		}
		if (h_line[0] == 'f') {
			lou_free();
			continue;
		}
		if (h_line[0] == 'm') { /* m <n>: move the table image on every n-th arena allocation (0 = off) */
			_lou_verif_arena_move = atoi(h_line + 1);
			_lou_verif_arena_tight = 0;
			if (_lou_verif_arena_move < 0) { /* negative: no slack instead - every allocation takes the real growth path */
				_lou_verif_arena_move = 0;
				_lou_verif_arena_tight = 1;
			}
			continue;
		}
		if (h_line[0] == 'b') {
			budget = strtoul(h_line + 1, NULL, 10);
			continue;
		}
		if (h_line[0] == 'c') { /* does the selected table list compile? prints "C <0|1>" */
			printf("C %d\n", lou_getTable(tl) != NULL);
			fflush(stdout);
			continue;
		}
		if (h_line[0] != 'X') continue;
		{
			char fn;
			int mode, inlen, outlen, cursor, presence, n, k, ret = -1;
			char *p = h_line + 1, *sec_in, *sec_tf, *sec_sp;
			widechar *in, *out;
			int *inputPos = NULL, *outputPos = NULL;
			formtype *typeform = NULL;
			char *spacing = NULL;
			int cur, *curp = NULL;
			int il, ol, maxlen, e0 = h_logcount[4] + h_logcount[5];
			const TranslationTableRule *rules[512];
			int rulesLen = 512;
			memset(rules, 0, sizeof rules);
			int hung = 0;
			int o0 = opens_total;
			char *ihy = NULL, *ohy = NULL;
			int splen = 0, tflen = 0;
			sec_in = next_bar(p);
			sec_tf = next_bar(sec_in);
			sec_sp = next_bar(sec_tf);
			next_bar(sec_sp);
			while (*p == ' ') p++;
			fn = *p++;
			n = h_ints(p, v, 5);
			if (n < 5) {
				printf("R BADCASE\n");
				fflush(stdout);
				continue;
			}
			mode = (int)v[0];
			inlen = (int)v[1];
			outlen = (int)v[2];
			cursor = (int)v[3];
			presence = (int)v[4];
			n = h_ints(sec_in, v, MAXW);
			in = h_exact(sizeof(widechar) * (inlen > 0 ? inlen : 0));
			for (k = 0; k < inlen; k++) in[k] = (widechar)(k < n ? v[k] : 'x');
			out = h_exact(sizeof(widechar) * (outlen > 0 ? outlen : 0));
			for (k = 0; k < outlen; k++) out[k] = 0x7e7e;
			maxlen = inlen > outlen ? inlen : outlen;
			if (maxlen < 0) maxlen = 0;
			if (presence & 1) {
				int m;
				/* back-translation only writes typeform, one entry per produced character: exactly outlen entries */
				tflen = (fn == 'B' || fn == 'U') ? (outlen > 0 ? outlen : 0) : maxlen;
				typeform = h_exact(sizeof(formtype) * tflen);
				m = h_ints(sec_tf, v, MAXW);
				for (k = 0; k < tflen; k++) typeform[k] = (formtype)(k < m ? v[k] : 0);
			}
			if (presence & 2) {
				size_t sl;
				/* back-translation only writes spacing, one mark per produced character: exactly outlen bytes; forward
				 * translation reads inlen marks and writes outlen */
				splen = (fn == 'B' || fn == 'U') ? (outlen > 0 ? outlen : 0) : maxlen + 1;
				spacing = h_exact(splen);
				memset(spacing, '~', splen);
				while (*sec_sp == ' ') sec_sp++;
				sl = strlen(sec_sp);
				while (sl && sec_sp[sl - 1] == ' ') sl--;
				if (sl > (size_t)splen) sl = splen;
				memcpy(spacing, sec_sp, sl);
			}
			if (presence & 4) {
				outputPos = h_exact(sizeof(int) * (inlen > 0 ? inlen : 0));
				for (k = 0; k < inlen; k++) outputPos[k] = -7777;
			}
			if (presence & 8) {
				inputPos = h_exact(sizeof(int) * (outlen > 0 ? outlen : 0));
				for (k = 0; k < outlen; k++) inputPos[k] = -7777;
			}
			cur = cursor;
			if ((presence & 16) && cursor != -2) curp = &cur;
			il = inlen;
			ol = outlen;
			raw_n = -1;
			memset(_lou_verif_ticks, 0, sizeof _lou_verif_ticks);
			_lou_verif_tick_total = 0;
			_lou_verif_tick_budget = budget;
			hang_site = -1;
			signal(SIGALRM, on_alarm);
			if (sigsetjmp(hang_jmp, 1) == 0) {
				alarm(WATCHDOG_SECONDS);
				switch (fn) {
				case 'T':
					ret = lou_translate(tl, in, &il, out, &ol, typeform, spacing, outputPos, inputPos, curp, mode);
					break;
				case 'S':
					ret = lou_translateString(tl, in, &il, out, &ol, typeform, spacing, mode);
					break;
				case 'R':
					ret = _lou_translate(tl, tl, in, &il, out, &ol, typeform, spacing, outputPos, inputPos, curp, mode,
							rules, &rulesLen);
					break;
				case 'P':
					ret = lou_translatePrehyphenated(tl, in, &il, out, &ol, typeform, spacing, outputPos, inputPos, curp,
							NULL, NULL, mode);
					break;
				case 'Q':
					ihy = h_exact(inlen > 0 ? inlen : 0);
					ohy = h_exact(outlen > 0 ? outlen : 0);
					for (k = 0; k < inlen; k++) ihy[k] = ((k * 5 + mode) % 3 == 0) ? '1' : '0';
					for (k = 0; k < outlen; k++) ohy[k] = '~';
					ret = lou_translatePrehyphenated(tl, in, &il, out, &ol, typeform, spacing, outputPos, inputPos, curp,
							ihy, ohy, mode);
					break;
				case 'B':
					ret = lou_backTranslate(tl, in, &il, out, &ol, typeform, spacing, outputPos, inputPos, curp, mode);
					break;
				case 'U':
					ret = lou_backTranslateString(tl, in, &il, out, &ol, typeform, spacing, mode);
					break;
				case 'H': { /* lou_hyphenate: mode in `mode', hyphens (inlen + 1 bytes) reported as out[] */
					char *hy = h_exact(inlen + 1);
					memset(hy, 88, inlen + 1);
					ret = lou_hyphenate(tl, in, inlen, hy, mode);
					for (k = 0; k < outlen && k <= inlen; k++) out[k] = (unsigned char)hy[k];
					ol = inlen + 1 < outlen ? inlen + 1 : outlen;
					free(hy);
					break;
				}
				case 'C':
					ret = lou_charToDots(tl, in, out, inlen < outlen ? inlen : outlen, mode);
					ol = inlen < outlen ? inlen : outlen;
					break;
				case 'D':
					ret = lou_dotsToChar(tl, in, out, inlen < outlen ? inlen : outlen, mode);
					ol = inlen < outlen ? inlen : outlen;
					break;
				default:
					break;
				}
			} else {
				hung = 1;
			}
			alarm(0);
			_lou_verif_tick_budget = 0;
			printf("R %d %d %d %d |", ret, il, ol, curp ? cur : -2);
			for (k = 0; k < outlen; k++) printf(" %x", out[k]);
			printf(" |");
			if (inputPos)
				for (k = 0; k < outlen; k++) printf(" %d", inputPos[k]);
			printf(" |");
			if (outputPos)
				for (k = 0; k < inlen; k++) printf(" %d", outputPos[k]);
			printf(" |");
			if (typeform)
				for (k = 0; k < tflen; k++) printf(" %x", typeform[k]);
			printf(" |");
			if (spacing) {
				printf(" ");
				for (k = 0; k < splen; k++) printf("%02x", (unsigned char)spacing[k]);
			}
			printf(" |");
			if (fn == 'R' && !hung && ret == 1)
				for (k = 0; k < rulesLen && k < 512; k++)
					printf(" %d:%d", rules[k] ? (int)rules[k]->opcode : -1, rules[k] ? rules[k]->index : -1);
			if (fn == 'Q' && ohy && !hung)
				for (k = 0; k < outlen; k++) printf(" %d:%d", k, (unsigned char)ohy[k]);
			printf(" |");
			for (k = 0; k < LOU_VERIF_SITES; k++)
				if (_lou_verif_ticks[k]) printf(" %d:%lu", k, _lou_verif_ticks[k]);
			printf(" |");
			if (raw_n >= 0) {
				printf(" %d %d %d :", raw_dir, raw_inlen, raw_outlen);
				for (k = 0; k < raw_n; k++) printf(" %d", raw_pm[k]);
			}
			printf(" | errors=%d opens=%d", h_logcount[4] + h_logcount[5] - e0, opens_total - o0);
			if (hung) printf(" HANG %d", hang_site);
			printf("\n");
			fflush(stdout);
			free(in);
			free(out);
			free(inputPos);
			free(outputPos);
			free(typeform);
			free(spacing);
			if (!hung) {
				free(ihy);
				free(ohy);
			}
			if (hung) lou_free();
		}
	}
	return 0;
}
