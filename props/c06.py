"""C06 — passes run in the documented order and compose.
PROVE: Properties/C06.v (chain order = literal length then definition; stage scanner facts; map composition; driver order).
CORRESPOND: lou_translate / lou_backTranslate (dotsIO output, raw composed position map, rule trace) on generated tables with
 0-3 literal rules in each of correct/pass2/pass3/pass4 on top of a one-to-one main pass vs the extracted drivers."""
import itertools
import os
import shutil

import common
import safety
import tablegen
import trans
from common import Rng, REPO

PID = "C06"


def run(chk):
    rng = Rng(chk.seed).fork(PID)
    gen = common.gen_stage()
    prove = common.prove_stage(PID)
    drv = common.model_driver()
    exe = common.build_harness("h_trans")
    env = {"LOUIS_TABLEPATH": str(REPO / "tables")}
    quick = chk.tier == "quick"
    work = common.BUILD / ("work-c06-%d" % os.getpid())
    shutil.rmtree(work, ignore_errors=True)
    work.mkdir(parents=True)
    ntab = 300 if quick else 8000
    for ti in range(ntab):
        r = rng.fork(("t", ti))
        entries, rules, letters = tablegen.gen_c06_table(r, directions=("noback", "nofor"))
        ttext = tablegen.pass_table_text(entries, rules)
        tf = work / ("t%d.utb" % ti)
        tf.write_text(ttext)
        inputs = []
        if r.chance(0.1):
            for L in range(1, 5):
                for tup in itertools.product(letters[:2] + [32], repeat=L):
                    inputs.append(list(tup))
        else:
            for _ in range(25 if quick else 80):
                inputs.append([r.choice(letters * 4 + [32]) for _ in range(r.range(1, 14))])
        cases = []
        for inp in inputs:
            cap = r.choice([6 * len(inp) + 20] * 3 + [r.range(0, 2 * len(inp) + 2)])
            cases.append((inp, cap))
        ml = tablegen.pass_model_lines(entries, rules) + ["PF 4 %d %s" % (cap, " ".join(map(str, inp))) for inp, cap in cases]
        mo = common.run_model(drv, ml)
        cl = [trans.case_line("R", 4, inp, cap, presence=12) for inp, cap in cases]
        rs = trans.run_cases(exe, str(tf), cl, exact=1, env=env, timeout=400, budget=200000)
        for (inp, cap), res, m, ln in zip(cases, rs, mo, cl):
            key = (ttext, tuple(inp), cap)
            case = dict(table=ttext, input=inp, capacity=cap, case_line=ln)
            if res.crash:
                chk.count(key)
                bad = safety.classify(res)
                chk.violation(bad[0], "%s: %s" % (bad[1], ln[:120]), case)
                continue
            if res.hang is not None or m.startswith("D OUTOFFUEL"):
                chk.count(key)
                if res.hang is not None and m.startswith("D OUTOFFUEL"):
                    chk.violation("hang:agreed", "both the library (tick budget, site %s) and the model (fuel) do not terminate" % res.hang,
                                  dict(case, impl=res.raw[:200], model=m))
                elif res.hang is not None:
                    chk.violation("hang:impl-only", "the library exceeds the tick budget at site %s, the model terminates" % res.hang, dict(case, model=m))
                else:
                    chk.violation("hang:model-only", "the model runs out of fuel, the library terminates", dict(case, impl=res.raw[:200]))
                continue
            if m.startswith("D UNSUPPORTED"):
                chk.count(key, nontrivial=False)
                chk.tally("outside_model")
                continue
            parts = [p.strip() for p in m[2:].split("|")]
            cons, cells, pm, tr = int(parts[0]), [int(x) for x in parts[1].split()], [int(x) for x in parts[2].split()], [int(x) for x in parts[3].split()]
            ol = len(cells)
            ok = res.ret == 1 and res.inlen == cons and res.outlen == ol and res.out[:ol] == cells
            if ok and res.rawmap is not None:
                ok = res.rawmap[3][:ol] == pm and res.rawmap[3][ol] == cons
            if ok:
                ok = [x[1] for x in res.rules] == tr
            nrules = sum(1 for x in tr if x > len(entries))
            chk.count(key, nontrivial=ok and nrules >= 1)
            chk.tally("pass_rules_applied_%s" % ("0" if nrules == 0 else "1" if nrules == 1 else "2+"))
            if ok:
                chk.cov["traces_validated_against_impl"] += 1
                if nrules >= 2:
                    chk.sample(dict(table=ttext.split("\n"), input=inp, capacity=cap, model=m), cap=3)
            else:
                chk.violation("forward-mismatch", "multipass forward translation differs from the model: impl inlen=%s out=%s map=%s rules=%s; model %s"
                              % (res.inlen, res.out[:max(res.outlen, 0)], res.rawmap and res.rawmap[3], [x[1] for x in res.rules], m),
                              dict(case, impl=res.raw[:400], model=m))
        # ---- backward direction: cells obtained from the main pass alone (one-to-one), random cell strings
        cellmap = {e.chars[0]: 0x8000 | e.dots[0] for e in entries}
        binputs = [[cellmap[c] for c in inp] for inp, _ in cases[: (15 if quick else 60)]]
        bcases = [(b, r.choice([6 * len(b) + 20] * 3 + [r.range(0, 2 * len(b) + 2)])) for b in binputs]
        bml = tablegen.pass_model_lines(entries, rules) + ["PB %d %s" % (cap, " ".join(map(str, b))) for b, cap in bcases]
        bmo = common.run_model(drv, bml)
        bcl = [trans.case_line("B", 4, b, cap, presence=12) for b, cap in bcases]
        brs = trans.run_cases(exe, str(tf), bcl, exact=1, env=env, timeout=400, budget=200000)
        for (b, cap), res, m, ln in zip(bcases, brs, bmo, bcl):
            key = (ttext, "back", tuple(b), cap)
            case = dict(table=ttext, cells=b, capacity=cap, case_line=ln)
            if res.crash:
                chk.count(key)
                bad = safety.classify(res)
                chk.violation(bad[0], "%s: %s" % (bad[1], ln[:120]), case)
                continue
            if res.hang is not None or m.startswith("D OUTOFFUEL"):
                chk.count(key)
                which = "agreed" if (res.hang is not None and m.startswith("D OUTOFFUEL")) else "impl-only" if res.hang is not None else "model-only"
                chk.violation("hang-back:" + which, "backward multipass does not terminate (library tick site %s, model %s)" % (res.hang, m[:20]), case)
                continue
            if m.startswith("D UNSUPPORTED"):
                chk.count(key, nontrivial=False)
                chk.tally("outside_model")
                continue
            parts = [p.strip() for p in m[2:].split("|")]
            cons, chars, pm = int(parts[0]), [int(x) for x in parts[1].split()], [int(x) for x in parts[2].split()]
            ol = len(chars)
            ok = res.ret == 1 and res.inlen == cons and res.outlen == ol and res.out[:ol] == chars
            unset = -7777 in pm
            if ok and res.rawmap is not None:
                ok = res.rawmap[3][:cons] == pm[:cons]
            chk.count(key, nontrivial=ok and chars != [c for c in b])
            chk.tally("backward")
            if unset:
                chk.tally("backward_map_has_unwritten_entries")
            if ok:
                chk.cov["traces_validated_against_impl"] += 1
            else:
                chk.violation("backward-mismatch", "multipass back-translation differs from the model: impl inlen=%s out=%s map=%s; model %s"
                              % (res.inlen, res.out[:max(res.outlen, 0)], res.rawmap and res.rawmap[3], m), dict(case, impl=res.raw[:400], model=m))
    shutil.rmtree(work, ignore_errors=True)
    chk.cov["rule"] = ("generated tables: one-to-one main pass over {a,b,c,d,space} + 0-3 literal rules in each of correct/pass2/pass3/pass4 "
                       "(look-back, brackets anywhere, literal/omit/copy actions) x strings (random; all strings up to length 4 for some tables) "
                       "x capacities; distinct = (table, input, capacity); non-trivial = at least one multipass rule applied and equal to the model")
    chk.cov["gen_status"] = gen
    chk.cov["checker_cmd"] = "make -C coq Properties/C06.vo (coqc 8.16.1)"
    chk.cov["trusted_base"] = common.TRUSTED_COMMON + ["rules are modelled at rule level (test items, action), not as the compiled byte code; lib/tablegen.py prints both forms"]
    if not prove["ok"] and not chk.violations:
        chk.violation("proof", "Properties/%s.v no longer checks: %s" % (PID, prove["failed"][:5]),
                      dict(no_failing_input=True, broken=prove["failed"], log=prove["log"][-1500:], gen=gen))
    return chk.finish(prove)
