(* M3 (backward, single-cell definition tables) — back-translation for tables that consist of
   character definitions with exactly one cell each (computer-braille style).  The cell's chain
   (dots->otherRules) is in definition order (Gen/GChain.back_single_before never fires between
   two definitions of equal length), so the FIRST character defined on a cell is the one
   back-translation produces.  Executable, no proofs.                                        *)
From Coq Require Import List ZArith Bool.
From Lou Require Import Gen.GConst Gen.GChain Model.Table.
Import ListNotations.
Local Open Scope Z_scope.

(* tables of this fragment *)
Definition is_cell_def (e : entry) : bool :=
  is_chardef e && negb (e_nofor e) && negb (e_noback e) &&
  match e_dots e with [_] => true | _ => false end.

Definition defs_only (t : table) : bool := forallb is_cell_def t.

Definition defines_cell (d : Z) (e : entry) : bool :=
  is_chardef e && negb (e_noback e) && match e_dots e with [d'] => d =? d' | _ => false end.

(* the character a cell back-translates to: first definition on that cell *)
Definition cell_char (t : table) (d : Z) : option Z :=
  match find (defines_cell d) (builtin :: t) with
  | Some e => match e_chars e with [c] => Some c | _ => None end
  | None => None
  end.

(* attributes of a cell (getDots(...)->attributes): union over the definitions on it; an
   unknown cell is the static notFound record: CTC_Space *)
Definition cell_attrs (t : table) (d : Z) : Z :=
  if existsb (defines_cell d) (builtin :: t) then
    fold_left (fun a e => if defines_cell d e then Z.lor a (class_attr (e_op e)) else a) (builtin :: t) 0
  else CTC_Space.

Record bstate := mkBS {
  bs_pos : Z;
  bs_out : list Z;       (* characters, most recent first *)
  bs_pm : list Z;        (* posMapping per input cell, most recent first *)
  bs_srcword : Z;
  bs_destword : Z
}.

Inductive bresult :=
| BOk (consumed : Z) (chars : list Z) (pm : list Z)
| BUnsupported           (* a cell without definition: rendered through undefinedDots, outside this model *)
| BOutOfFuel.

Section BLoop.
  Variable t : table.
  Variable inp : list Z.
  Variable cap : Z.

  Definition bn := len inp.
  Definition cell_is_space (p : Z) : bool := has_attr (cell_attrs t (nth_z inp p)) CTC_Space.

  Fixpoint bskip (fuel : nat) (p : Z) : Z :=
    match fuel with
    | O => p
    | S f => if (p <? bn) && cell_is_space p then bskip f (p + 1) else p
    end.

  Definition bfinish (s : bstate) : bresult :=
    let backoff := negb (bs_destword s =? 0) && (bs_pos s <? bn) && negb (cell_is_space (bs_pos s)) in
    let pos := if backoff then bs_srcword s else bs_pos s in
    let keep := if backoff then Z.to_nat (bs_destword s) else length (bs_out s) in
    let consumed := bskip (length inp) pos in
    let old := rev (bs_pm s) in
    (* the blanks skipped at the end are mapped to the final output length *)
    BOk consumed (firstn keep (rev (bs_out s)))
        (firstn (Z.to_nat pos) old ++ repeat (Z.of_nat keep) (Z.to_nat (consumed - pos)) ++ skipn (Z.to_nat consumed) old).

  Fixpoint bloop (fuel : nat) (s : bstate) : bresult :=
    match fuel with
    | O => BOutOfFuel
    | S f =>
        if bs_pos s >=? bn then bfinish s
        else
          match cell_char t (nth_z inp (bs_pos s)) with
          | None => BUnsupported
          | Some c =>
              (* back_updatePositions(chars, 1, 1): capacity test, posMapping[pos] = outlen, emit *)
              if len (bs_out s) + 1 >? cap then bfinish s
              else
                let pos' := bs_pos s + 1 in
                let out' := c :: bs_out s in
                let pm' := len (bs_out s) :: bs_pm s in
                let isw := has_attr (cell_attrs t (nth_z inp (pos' - 1))) CTC_Space in
                bloop f (mkBS pos' out' pm' (if isw then pos' else bs_srcword s)
                              (if isw then len out' else bs_destword s))
          end
    end.

  Definition back_run : bresult := bloop (S (length inp)) (mkBS 0 [] [] 0 0).
End BLoop.

(* one-to-one: definitions only, one cell each, no character and no cell (the built-in segment
   mark included) defined twice *)
Fixpoint nodup_z (l : list Z) : bool :=
  match l with
  | [] => true
  | x :: l' => negb (existsb (Z.eqb x) l') && nodup_z l'
  end.

Definition table_chars (t : table) : list Z := flat_map e_chars (builtin :: t).
Definition table_cells (t : table) : list Z := flat_map e_dots (builtin :: t).

Definition one_to_one (t : table) : bool :=
  defs_only t && nodup_z (table_chars t) && nodup_z (table_cells t).

(* display maps: character -> cell and cell -> character, first definition wins independently
   per direction (putCharDotsMapping); only single-cell definitions feed them *)
Definition disp_c2d (t : table) (c : Z) : option Z :=
  match find (fun e => is_chardef e && match e_dots e with [_] => true | _ => false end &&
                       match e_chars e with [c'] => c =? c' | _ => false end) (builtin :: t) with
  | Some e => match e_dots e with [d] => Some d | _ => None end
  | None => None
  end.
Definition disp_d2c (t : table) (d : Z) : option Z :=
  match find (fun e => is_chardef e && match e_dots e with [d'] => d =? d' | _ => false end) (builtin :: t) with
  | Some e => match e_chars e with [c] => Some c | _ => None end
  | None => None
  end.
