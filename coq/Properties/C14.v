(* C14 — table cache and lou_free: compile once, isolate lists, release everything. *)
From Coq Require Import List ZArith NArith Bool String.
From Lou Require Import Gen.GStatics Model.Api Model.Statics Proofs.ApiProofs.
Import ListNotations.
Local Open Scope Z_scope.

Definition compile_events (n : name) (rs : list (ares * list aevent)) : nat :=
  List.length (filter (fun ev => match ev with Compiled m => if list_eq_dec Z.eq_dec m n then true else false end)
                 (flat_map snd rs)).

(* between two lou_free calls a list that compiles is compiled at most once *)
Theorem compile_once : forall compiles valid ops n,
  compiles n = true -> ~ In Free ops ->
  (compile_events n (snd (arun compiles valid ainit ops)) <= 1)%nat.
Proof. exact ApiProofs.compile_once_l. Qed.
Print Assumptions compile_once.

(* a list that does not compile is never cached: it is retried and never handed out *)
Theorem failed_list_not_cached : forall compiles valid ops n,
  compiles n = false ->
  lookup (fst (arun compiles valid ainit ops)) n = None.
Proof. exact ApiProofs.failed_not_cached_l. Qed.

(* isolation: rules added to one list never show up in another one (even when one name is a prefix
   of the other): part of history_is_irrelevant, restated for two names *)
Theorem lists_are_isolated : forall compiles valid ops n m r,
  compiles n = true -> n <> m ->
  fst (accepted compiles valid (ops ++ [AddRule m r]) n [] false) = fst (accepted compiles valid ops n [] false).
Proof. exact ApiProofs.isolated_l. Qed.
Print Assumptions lists_are_isolated.

(* lou_free returns the model to its initial state; the statements of lou_free in the current
   source reset every cache head, scratch pointer and recorded size *)
Theorem free_resets_everything : forall compiles valid s,
  fst (fst (astep compiles valid s Free)) = ainit.
Proof. exact ApiProofs.free_init_l. Qed.

Theorem free_covers_all_scratch_state :
  forallb (fun v => existsb (String.eqb v) free_resets) must_be_reset_by_free = true.
Proof. exact ApiProofs.free_covers_l. Qed.
Print Assumptions free_covers_all_scratch_state.

Theorem cache_shape :
  cache_insert_only_after_successful_compile = true /\ lookup_finalizes_table = true /\
  (forall q e c, display_cache_hit q e c = table_cache_hit q e c).
Proof. exact ApiProofs.cache_shape_l. Qed.
