/* H3: image walker.  Dumps the compiled translation table of a list (as lou_getTable returns it,
 * i.e. finalised) as a line-oriented IR for the verified checker (Model/Image.v).
 *
 *   I <table list>                 dump after lou_getTable
 *   J <table list> | rule ; rule   lou_compileString each rule first (run-time additions), then dump
 *   M <n>                          from now on move the image on every n-th arena allocation (hook; 0 = off)
 *
 * Output (one line, fields separated by " ; "):
 *   IMG ok=<0|1> used=<bytes of ruleArea in use> unit=8 rulefix=<sizeof rule without chars> charsize=<sizeof char record>
 *   A <off> <size>                 every allocation reported by the arena hook (offset in 8-byte units, bytes)
 *   REF <kind> <target> <need>     a stored reference: target offset must be 0 (kinds ending in ?) or start an
 *                                  allocation of at least <need> bytes
 *   FB <hash> r r r ...            forward bucket chain; each r = off:index:opcode:charslen:h where h is the raw
 *                                  hash of its first two characters and the case-folded one:  off:idx:op:len:raw:low
 *   FC <char> <bucket> r r ...     a character record: its hash bucket and its otherRules chain (off:idx:op:len)
 *   BB / BC                        same for the backward buckets / cell records
 *   PF <n> r r ...  PB <n> ...     pass rule chains (off:idx:op:len)
 *   (hyphenation automaton: REF hyphstates / hyphpattern / hyphtrans / hyphstate - a state number is a reference into
 *    the states array that needs the array to be (number + 1) states long)
 *   RU off op charslen dotslen nofor noback    every rule object created by addRule (rule hook), read back from the image
 */
#include "tbl.h"

#define MAXA (1 << 20)
static struct { unsigned off; int size; } allocs[MAXA];
static int nalloc = 0;
static void
arena_cb(int kind, unsigned int offset, int size, const void *table) {
	(void)table;
	if (kind == 0 && nalloc < MAXA) {
		allocs[nalloc].off = offset;
		allocs[nalloc].size = size;
		nalloc++;
	}
}

#define MAXR (1 << 19)
static struct { unsigned off; int nofor, noback; } rules[MAXR];
static int nrules = 0;
static void
rule_cb(unsigned int offset, int nofor, int noback, const void *table) {
	(void)table;
	if (nrules < MAXR) {
		rules[nrules].off = offset;
		rules[nrules].nofor = nofor;
		rules[nrules].noback = noback;
		nrules++;
	}
}

static const TranslationTableHeader *T;
static long used_units;

static int
valid_off(TranslationTableOffset o) {
	return o > 0 && (long)o < used_units;
}

static int
rule_need(const TranslationTableRule *r) {
	return (int)(sizeof(TranslationTableRule) - DEFAULTRULESIZE * CHARSIZE + CHARSIZE * (r->charslen + r->dotslen));
}

static void
ref_rule(const char *kind, TranslationTableOffset o) {
	if (!o) {
		printf(" ; REF %s 0 0", kind);
		return;
	}
	if (!valid_off(o)) {
		printf(" ; REF %s %u 999999999", kind, o);
		return;
	}
	printf(" ; REF %s %u %d", kind, o, rule_need((const TranslationTableRule *)&T->ruleArea[o]));
}

static unsigned
low_hash(const widechar *c) {
	return (unsigned)((((unsigned long)h_lower(T, c[0]) << 8) + (unsigned long)h_lower(T, c[1])) % HASHNUM);
}
static unsigned
raw_hash(const widechar *c) {
	return (unsigned)((((unsigned long)c[0] << 8) + (unsigned long)c[1]) % HASHNUM);
}

/* walk a rule chain; `bychars` selects charsnext/dotsnext; limit guards against cycles */
static void
dump_chain(const char *tag, long key, long key2, TranslationTableOffset o, int bychars, int withhash) {
	int chainkind = (tag[0] == 'P') ? 2 : 0; /* pass chains are ordered by charslen in both directions */
	int guard = 0;
	TranslationTableOffset first = o;
	printf(" ; %s %ld", tag, key);
	if (key2 >= 0) printf(" %ld", key2);
	while (o && guard++ < 200000) {
		const TranslationTableRule *r;
		if (!valid_off(o)) {
			printf(" %u:-1:-1:0", o);
			break;
		}
		r = (const TranslationTableRule *)&T->ruleArea[o];
		if (withhash) {
			const widechar *s = (bychars || r->opcode == CTO_Context) ? &r->charsdots[0] : &r->charsdots[r->charslen];
			int n = (bychars || r->opcode == CTO_Context) ? r->charslen : r->dotslen;
			int klen = bychars ? r->charslen : (r->opcode == CTO_Context ? 2 * r->charslen : r->dotslen + r->charslen);
			printf(" %u:%d:%d:%d:%u:%u", o, r->index, (int)r->opcode, klen, n >= 2 ? raw_hash(s) : 99999, n >= 2 ? low_hash(s) : 99999);
		} else
			printf(" %u:%d:%d:%d", o, r->index, (int)r->opcode, chainkind == 2 ? r->charslen : (bychars ? r->charslen : r->dotslen));
		o = bychars ? r->charsnext : r->dotsnext;
	}
	if (guard >= 200000) printf(" CYCLE");
	/* every member is also a reference to a complete rule object */
	{
		TranslationTableOffset q = first;
		int g2 = 0;
		while (q && valid_off(q) && g2++ < 200000) {
			const TranslationTableRule *r = (const TranslationTableRule *)&T->ruleArea[q];
			printf(" ; REF member %u %d", q, rule_need(r));
			q = bychars ? r->charsnext : r->dotsnext;
		}
	}
}

/* Walk the byte code of a multipass / context rule the way the interpreters step through it: the program lies in
 * charsdots[charslen .. charslen + dotslen) (the characters before it are only the literal the rule is chained by);
 * the test part ends with pass_endTest, the action part is the rest.
 * Emits  REF passrule <offset> <need>   for every rule reference embedded in the program (group and swap rules),
 *        BND <value> <bound>            for everything that must stay below a bound: the end of each instruction within
 *                                       its part, variable numbers below NUMVAR, and a final BND 0 1 / BND 1 1 telling
 *                                       whether the test part is terminated and nothing unknown was met. */
static void
walk_program(const TranslationTableRule *r) {
	const widechar *ins = &r->charsdots[r->charslen];
	int ic = 0, end = r->dotslen, part, bad = 0;
	for (part = 0; part < 2 && !bad; part++) {
		int terminated = part == 1;
		while (ic < end && !bad) {
			int len = 1;
			TranslationTableOffset ref = 0;
			switch (ins[ic]) {
			case pass_first: case pass_last: case pass_not: case pass_startReplace: case pass_endReplace: case pass_search:
			case pass_omit: case pass_copy:
				len = 1;
				break;
			case pass_lookback:
				len = 2;
				break;
			case pass_string: case pass_dots:
				len = (ic + 1 < end ? ins[ic + 1] : 0) + 2;
				break;
			case pass_attributes:
				len = 7;
				break;
			case pass_groupstart: case pass_groupend: case pass_groupreplace:
				len = 3;
				if (ic + 2 < end) ref = ((TranslationTableOffset)ins[ic + 1] << 16) | ins[ic + 2];
				break;
			case pass_swap:
				len = part == 0 ? 5 : 3;
				if (ic + 2 < end) ref = ((TranslationTableOffset)ins[ic + 1] << 16) | ins[ic + 2];
				break;
			case pass_eq: case pass_lt: case pass_gt: case pass_lteq: case pass_gteq:
				len = 3;
				if (ic + 1 < end) printf(" ; BND %d %d", (int)ins[ic + 1], NUMVAR);
				break;
			case pass_hyphen: case pass_plus:
				len = 2;
				if (ic + 1 < end) printf(" ; BND %d %d", (int)ins[ic + 1], NUMVAR);
				break;
			case pass_endTest:
				len = 1;
				if (part == 0) terminated = 1;
				break;
			default:
				bad = 1;
				if (getenv("H_IMAGE_DEBUG")) fprintf(stderr, "unknown instruction %d at %d (part %d) in rule %d opcode %d\n", ins[ic], ic, part, r->index, (int)r->opcode);
				break;
			}
			if (bad) break;
			printf(" ; BND %d %d", ic + len - 1, end); /* the whole instruction lies inside its part */
			if (ref || ins[ic] == pass_groupstart || ins[ic] == pass_groupend || ins[ic] == pass_groupreplace || ins[ic] == pass_swap) {
				if (valid_off(ref))
					printf(" ; REF passrule %u %d", ref, rule_need((const TranslationTableRule *)&T->ruleArea[ref]));
				else
					printf(" ; REF passrule %u 999999999", ref);
			}
			ic += len;
			if (part == 0 && terminated) break;
		}
		if (!terminated) bad = 1;
	}
	printf(" ; BND %d 1", bad ? 1 : 0);
}

/* Structure of one compiled match pattern (pattern.c): e[0] = number of words used, e[1] = number of loop counters, the
 * expression starts at word 2; a node is (type, prv, nxt, data...); sub-expressions (group, not, optional, loops, the two
 * branches of an alternation) start at the word index held in the node's data and end in an END node.  Walked the way
 * pattern_check_expression steps through it; returns 1 when every node lies inside the object, has a known type, every
 * link and loop-counter number is in range and every path ends in an END node. */
enum { P_ERROR, P_START, P_GROUP, P_NOT, P_ONE_MORE, P_ZERO_MORE, P_OPTIONAL, P_ALTERNATE, P_ANY, P_ATTRIBUTES, P_CHARS, P_HOOK,
	P_END_OF_INPUT, P_END = 0xffff };
static long ptn_steps;
static int
ptn_walk(const widechar *e, int len, int loops, int crs, int depth) {
	if (depth > 100) return 0;
	for (;;) {
		int t;
		if (crs < 2 || crs + 2 >= len) return 0;
		if (++ptn_steps > 2000000) return 0;
		t = e[crs];
		if (t == P_END) return 1;
		switch (t) {
		case P_START: case P_ANY: case P_END_OF_INPUT:
			break;
		case P_GROUP: case P_NOT: case P_OPTIONAL:
			if (crs + 3 >= len || !ptn_walk(e, len, loops, e[crs + 3], depth + 1)) return 0;
			break;
		case P_ONE_MORE: case P_ZERO_MORE:
			if (crs + 4 >= len || e[crs + 4] >= loops || !ptn_walk(e, len, loops, e[crs + 3], depth + 1)) return 0;
			break;
		case P_ALTERNATE:
			if (crs + 4 >= len || !ptn_walk(e, len, loops, e[crs + 3], depth + 1) || !ptn_walk(e, len, loops, e[crs + 4], depth + 1)) return 0;
			break;
		case P_ATTRIBUTES:
			if (crs + 4 >= len) return 0;
			break;
		case P_CHARS: case P_HOOK:
			if (crs + 3 >= len || crs + 3 + e[crs + 3] >= len) return 0;
			break;
		default:
			return 0;
		}
		crs = e[crs + 2];
	}
}
/* match / backmatch rule: rule->patterns designates  [mrk][before pattern ...][after pattern ...]  with mrk = index of the
 * after pattern.  Emits a REF for the whole object (its size follows from the two lengths stored in it) and BND 0 1 / 1 1
 * for each half telling whether it is a well-formed pattern. */
static void
walk_patterns(const TranslationTableRule *r) {
	const widechar *p;
	int mrk, blen, alen, okb = 0, oka = 0;
	if (!r->patterns || !valid_off(r->patterns)) {
		printf(" ; REF pattern %u 999999999", r->patterns);
		return;
	}
	p = (const widechar *)&T->ruleArea[r->patterns];
	mrk = p[0];
	blen = p[1];
	/* the size of the allocation is not known here: read the second length only if the first half is plausible */
	if (mrk >= 6 && blen + 1 <= mrk && mrk < 30000) {
		alen = p[mrk];
		ptn_steps = 0;
		okb = ptn_walk(&p[1], blen, p[2], 2, 0);
		if (alen >= 5 && alen < 30000) {
			printf(" ; REF pattern %u %d", r->patterns, (int)((mrk + alen) * sizeof(widechar)));
			ptn_steps = 0;
			oka = ptn_walk(&p[mrk], alen, p[mrk + 1], 2, 0);
		} else
			printf(" ; REF pattern %u %d", r->patterns, (int)((mrk + 5) * sizeof(widechar)));
	} else
		printf(" ; REF pattern %u %d", r->patterns, 12);
	printf(" ; BND %d 1 ; BND %d 1", okb ? 0 : 1, oka ? 0 : 1);
}

/* The display table of the list: two hash tables of chains of (next, lookFor, found) records in an image of its own.
 * Facts: every record lies inside the used part of that image, sits in the bucket of its key, no chain runs in a circle. */
static void
walk_display(const char *tl) {
	const DisplayTableHeader *D = _lou_getDisplayTable(tl);
	int which, b;
	long n = 0, bad_bucket = 0, outside = 0, cyc = 0;
	if (!D) return;
	for (which = 0; which < 2; which++)
		for (b = 0; b < HASHNUM; b++) {
			TranslationTableOffset o = which ? D->dotsToChar[b] : D->charToDots[b];
			int guard = 0;
			while (o) {
				const CharDotsMapping *m;
				size_t end = sizeof(*D) - sizeof(D->ruleArea) + (size_t)o * sizeof(TranslationTableData) + sizeof(CharDotsMapping);
				if (end > D->bytesUsed || D->bytesUsed > D->tableSize) {
					outside++;
					break;
				}
				if (++guard > 200000) {
					cyc++;
					break;
				}
				m = (const CharDotsMapping *)&D->ruleArea[o];
				if ((int)_lou_charHash(m->lookFor) != b) bad_bucket++;
				n++;
				o = m->next;
			}
		}
	printf(" ; DISP %ld ; BND %ld 1 ; BND %ld 1 ; BND %ld 1", n, outside, bad_bucket, cyc);
}

static void
dump(const char *tl, int ok) {
	int k;
	T = lou_getTable(tl);
	printf("IMG ok=%d", T != NULL);
	(void)ok;
	if (!T) {
		printf("\n");
		return;
	}
	used_units = ((long)T->bytesUsed - (long)sizeof(*T)) / 8; /* offsets below this are inside the used part */
	printf(" used=%ld tablesize=%u bytesused=%u hdr=%zu rulefix=%zu charsize=%zu",
			(long)T->bytesUsed - (long)sizeof(*T), T->tableSize, T->bytesUsed, sizeof(*T),
			sizeof(TranslationTableRule) - DEFAULTRULESIZE * CHARSIZE, sizeof(TranslationTableCharacter));
	for (k = 0; k < nalloc; k++) printf(" ; A %u %d", allocs[k].off, allocs[k].size);
	/* header slots */
	ref_rule("undefined?", T->undefined);
	ref_rule("letterSign?", T->letterSign);
	ref_rule("numberSign?", T->numberSign);
	ref_rule("noContractSign?", T->noContractSign);
	ref_rule("noNumberSign?", T->noNumberSign);
	ref_rule("begComp?", T->begComp);
	ref_rule("endComp?", T->endComp);
	{
		int i, j;
		for (i = 0; i < MAX_EMPH_CLASSES + MAX_MODES; i++)
			for (j = 0; j < 9; j++) /* slot lenPhraseOffset holds a number, not an offset */
				if (j != lenPhraseOffset && T->emphRules[i][j]) ref_rule("emphRule?", T->emphRules[i][j]);
	}
	/* character and cell records */
	for (k = 0; k < HASHNUM; k++) {
		int which;
		for (which = 0; which < 2; which++) {
			TranslationTableOffset o = which ? T->dots[k] : T->characters[k];
			int guard = 0;
			while (o && guard++ < 100000) {
				const TranslationTableCharacter *c;
				if (!valid_off(o)) {
					printf(" ; REF %s %u 999999999", which ? "cellrec" : "charrec", o);
					break;
				}
				c = (const TranslationTableCharacter *)&T->ruleArea[o];
				printf(" ; REF %s %u %zu", which ? "cellrec" : "charrec", o, sizeof(*c));
				ref_rule("definitionRule?", c->definitionRule);
				ref_rule("compRule?", c->compRule);
				if (c->basechar) printf(" ; REF basechar? %u %zu", c->basechar, sizeof(*c));
				if (c->linked) printf(" ; REF linked? %u %zu", c->linked, sizeof(*c));
				if (!which && c->linked && !c->basechar) {
					/* the list of the characters based on this one must be finite */
					TranslationTableOffset q = c->linked;
					int n = 0;
					while (q && valid_off(q) && n < 70000) {
						q = ((const TranslationTableCharacter *)&T->ruleArea[q])->linked;
						n++;
					}
					if (n >= 70000) printf(" ; CYCLE linked %u", c->value);
				}
				dump_chain(which ? "BC" : "FC", c->value, k == (int)(c->value % HASHNUM) ? k : -2 - k, c->otherRules, !which, 0);
				o = c->next;
			}
			if (guard >= 100000) printf(" ; CYCLE charchain %d", k);
		}
	}
	for (k = 0; k < HASHNUM; k++) {
		if (T->forRules[k]) dump_chain("FB", k, -1, T->forRules[k], 1, 1);
		if (T->backRules[k]) dump_chain("BB", k, -1, T->backRules[k], 0, 1);
	}
	for (k = 0; k <= MAXPASS; k++) {
		if (T->forPassRules[k]) dump_chain("PF", k, -1, T->forPassRules[k], 1, 0);
		if (T->backPassRules[k]) dump_chain("PB", k, -1, T->backPassRules[k], 0, 0);
	}
	/* hyphenation automaton: the states array, every state's pattern string and transition array, and every state
	 * number stored in a transition or as a fallback (an index into the states array: the reference needs the array
	 * to reach that far) */
	if (T->hyphenStatesArray) {
		long nstates = 0;
		int a;
		for (a = 0; a < nalloc; a++)
			if (allocs[a].off == T->hyphenStatesArray) nstates = allocs[a].size / (long)sizeof(HyphenationState);
		printf(" ; REF hyphstates %u %ld", T->hyphenStatesArray, nstates > 0 ? (long)sizeof(HyphenationState) : 999999999L);
		if (nstates > 0 && valid_off(T->hyphenStatesArray)) {
			const HyphenationState *st = (const HyphenationState *)&T->ruleArea[T->hyphenStatesArray];
			long i;
			for (i = 0; i < nstates; i++) {
				unsigned long top = 0; /* highest state number this state refers to */
				int any = 0;
				if (st[i].hyphenPattern) {
					if (!valid_off(st[i].hyphenPattern))
						printf(" ; REF hyphpattern %u 999999999", st[i].hyphenPattern);
					else {
						const char *pat = (const char *)&T->ruleArea[st[i].hyphenPattern];
						long room = (used_units - (long)st[i].hyphenPattern) * 8, n = 0;
						while (n < room && pat[n]) n++;
						printf(" ; REF hyphpattern %u %ld", st[i].hyphenPattern, n < room ? n + 1 : 999999999L);
					}
				}
				if (st[i].fallbackState != 0xffffffffu) {
					top = st[i].fallbackState;
					any = 1;
				}
				if (st[i].trans.offset) {
					TranslationTableOffset to = st[i].trans.offset;
					printf(" ; REF hyphtrans %u %ld", to, valid_off(to) ? (long)st[i].numTrans * (long)sizeof(HyphenationTrans) : 999999999L);
					if (valid_off(to)) {
						const HyphenationTrans *tr = (const HyphenationTrans *)&T->ruleArea[to];
						long room = (used_units - (long)to) * 8 / (long)sizeof(HyphenationTrans);
						int q;
						for (q = 0; q < st[i].numTrans && q < room; q++) {
							if (tr[q].newState > top) top = tr[q].newState;
							any = 1;
						}
					}
				}
				if (any) printf(" ; REF hyphstate %u %lu", T->hyphenStatesArray, (top + 1) * (unsigned long)sizeof(HyphenationState));
			}
		}
	}
	/* every rule object that addRule created, as it is in the image now */
	for (k = 0; k < nrules; k++) {
		if (!valid_off(rules[k].off)) {
			printf(" ; RU %u -1 0 0 %d %d", rules[k].off, rules[k].nofor, rules[k].noback);
			continue;
		}
		{
			const TranslationTableRule *r = (const TranslationTableRule *)&T->ruleArea[rules[k].off];
			printf(" ; RU %u %d %d %d %d %d", rules[k].off, (int)r->opcode, r->charslen, r->dotslen, rules[k].nofor, rules[k].noback);
			if (r->opcode >= CTO_Context && r->opcode <= CTO_Pass4) walk_program(r);
			if (r->opcode == CTO_Match || r->opcode == CTO_BackMatch) walk_patterns(r);
		}
	}
	walk_display(tl);
	printf("\n");
}

int
main(void) {
	lou_registerLogCallback(h_quietlog);
	_lou_verif_arena_cb = arena_cb;
	_lou_verif_rule_cb = rule_cb;
	while (fgets(h_line, H_LINE, stdin)) {
		size_t L = strlen(h_line);
		while (L && (h_line[L - 1] == '\n' || h_line[L - 1] == '\r')) h_line[--L] = 0;
		if (h_line[0] == 'M') { /* M <n>: move the image on every n-th arena allocation (0 = off) */
			_lou_verif_arena_move = atoi(h_line + 1);
			_lou_verif_arena_tight = 0;
			if (_lou_verif_arena_move < 0) { /* negative: no slack instead - every allocation takes the real growth path */
				_lou_verif_arena_move = 0;
				_lou_verif_arena_tight = 1;
			}
			continue;
		}
		if (h_line[0] == 'I') {
			lou_free();
			nalloc = 0;
			nrules = 0;
			dump(h_line + 2, 1);
		} else if (h_line[0] == 'J') {
			char *bar = strchr(h_line, '|');
			char *tl = h_line + 2, *rule, *save = NULL;
			int ok = 1;
			if (!bar) continue;
			*bar = 0;
			{
				char *e = bar;
				while (e > tl && e[-1] == ' ') *--e = 0;
			}
			lou_free();
			nalloc = 0;
			nrules = 0;
			for (rule = strtok_r(bar + 1, ";", &save); rule; rule = strtok_r(NULL, ";", &save)) {
				while (*rule == ' ') rule++;
				if (*rule) ok &= lou_compileString(tl, rule);
			}
			dump(tl, ok);
		}
		fflush(stdout);
	}
	return 0;
}
