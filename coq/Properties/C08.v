From Lou Require Import Model.Pass.
