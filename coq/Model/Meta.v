(* M6 — metadata scoring and selection (metadata.c: matchFeatureLists with fuzzy = 0,
   matchLanguageTags, lou_findTable, lou_findTables, lou_getTableInfo) over the generated
   weights (Gen/GMeta.v).
   Keys are numbers: the key order is the case-insensitive alphabetical order of the C code.
   A value is a list of subtag ids (ids are assigned case-insensitively, so equality of ids is
   strcasecmp equality):
     - the value of a plain (string-valued) key is the singleton list [id] of its string id
       (plain_id reads it back; the tail is never looked at);
     - the value of a language key ("language", "region"; "locale" is expanded into these two by
       the tokeniser) is the parsed language tag, e.g. en-US = [id_en; id_us].
   Convention on subtag ids: id 0 is the wildcard "*"; ids 1..63 denote the other ONE-CHARACTER
   subtags (strlen(head) == 1, e.g. the x of en-x-foo); ids >= 64 denote longer subtags.
   parseLanguageTag never yields an empty list (the feature list is rejected instead); here an
   empty tag or range matches nothing (match_tags = 0), where the C code would dereference NULL.
   Executable, no proofs.                                                                     *)
From Coq Require Import List ZArith NArith Bool.
From Lou Require Import Gen.GMeta.
Import ListNotations.
Local Open Scope Z_scope.

(* L_POS_MATCH and L_EXTRA (the two constants of matchLanguageTags) come from Gen/GMeta.v.  The penalty for further
   languages of a table, C integer division: the regenerated expression (GMeta.src_lang_penalty) is shown equal to this
   reference in Properties/C18.v, like the two comparisons of the loop over the entries. *)
Definition lang_penalty (e : Z) : Z := Z.quot (e + 4) 5.

Definition feat := (N * list N)%type.       (* key, value (list of subtag ids) *)

(* strlen(subtag) == 1: the wildcard "*" (id 0) is one character long too, and the walk of
   matchLanguageTags does not tell it from the other one-character subtags *)
Definition single (s : N) : bool := (s <? 64)%N.
(* *((char * )range->head) == '*' *)
Definition is_wild (s : N) : bool := (s =? 0)%N.

(* the string id of a plain value *)
Definition plain_id (v : list N) : N := match v with s :: _ => s | [] => 0%N end.

(* matchLanguageTags after the first subtag: the two loops
     while (range) { if (!tag) return 0; if equal heads: advance both;
                     else if (strlen(tag->head) == 1) return 0; else q += EXTRA; tag = tag->tail }
     while (tag) { q += EXTRA; tag = tag->tail }                                               *)
Fixpoint tags_walk (tag range : list N) (q : Z) : Z :=
  match tag with
  | [] => match range with [] => q | _ :: _ => 0 end
  | t :: tag' =>
      match range with
      | [] => tags_walk tag' [] (q + L_EXTRA)
      | r :: range' =>
          if N.eqb t r then tags_walk tag' range' q
          else if single t then 0
          else tags_walk tag' range (q + L_EXTRA)
      end
  end.

(* matchLanguageTags(tag = the query's value, range = the table's value) *)
Definition match_tags (tag range : list N) : Z :=
  match tag, range with
  | t :: tag', r :: range' =>
      if is_wild r then tags_walk tag' range' (L_POS_MATCH + L_EXTRA)
      else if N.eqb t r then tags_walk tag' range' L_POS_MATCH
      else 0
  | _, _ => 0
  end.

Section Score.
  (* the key "unicode-range" and its values "ucs2", "ucs4"; which keys are language keys *)
  Variables (kur ucs2 ucs4 : N) (islang : N -> bool).

  (* value of one queried feature (k, v1) against the table's group of entries with that key,
     plain key:
     C: best = negMatch; for each entry while best < 0: same value -> posMatch; the
     unicode-range special case -> posMatch - 1 *)
  Fixpoint best_of (k : N) (v1 : list N) (group : list feat) (best : Z) : Z :=
    match group with
    | [] => best
    | (_, v) :: g =>
        let best' :=
          if best <? 0 then
            if N.eqb (plain_id v1) (plain_id v) then W_POS_MATCH
            else if N.eqb k kur && N.eqb (plain_id v1) ucs4 && N.eqb (plain_id v) ucs2
                 then W_POS_MATCH - 1
            else best
          else best in
        best_of k v1 g best'
    end.

  (* language key: every entry of the group is looked at (no early stop);
     C: q = matchLanguageTags(v1, v);
        if (q > 0 && q > best) best = q; else if (!q) extraLanguages += extra;            *)
  Fixpoint lang_loop (v1 : list N) (group : list feat) (best el : Z) : Z * Z :=
    match group with
    | [] => (best, el)
    | (_, v) :: g =>
        let q := match_tags v1 v in
        if (q >? 0) && (q >? best) then lang_loop v1 g q el
        else if q =? 0 then lang_loop v1 g best (el + W_EXTRA)
        else lang_loop v1 g best el
    end.

  (* C: best = negMatch; extraLanguages = 0; loop;
        if (best > 0) best += (extraLanguages + 4) / 5;                                    *)
  Definition lang_best (v1 : list N) (group : list feat) : Z :=
    let r := lang_loop v1 group W_NEG_MATCH 0 in
    if fst r >? 0 then fst r + lang_penalty (snd r) else fst r.

  (* the contribution of a key present in both lists *)
  Definition key_best (k : N) (v1 : list N) (group : list feat) : Z :=
    if islang k then lang_best v1 group else best_of k v1 group W_NEG_MATCH.

  Fixpoint take_key (k : N) (l : list feat) : list feat :=
    match l with
    | (k', v) :: l' => if N.eqb k' k then (k', v) :: take_key k l' else []
    | [] => []
    end.

  Fixpoint drop_key (k : N) (l : list feat) : list feat :=
    match l with
    | (k', v) :: l' => if N.eqb k' k then drop_key k l' else l
    | [] => []
    end.

  (* matchFeatureLists(query, table, fuzzy = 0); both lists sorted by key *)
  Fixpoint mfl (fuel : nat) (q t : list feat) (acc : Z) : Z :=
    match fuel with
    | O => acc
    | S f =>
        match q, t with
        | [], [] => acc
        | [], (k2, _) :: t' => mfl f [] (drop_key k2 t') (acc + W_EXTRA)
        | _ :: q', [] => mfl f q' [] (acc + W_UNDEFINED)
        | (k1, v1) :: q', (k2, v2) :: t' =>
            if N.ltb k1 k2 then mfl f q' t (acc + W_UNDEFINED)
            else if N.ltb k2 k1 then mfl f q (drop_key k2 t') (acc + W_EXTRA)
            else mfl f q' (drop_key k2 t') (acc + key_best k1 v1 ((k2, v2) :: take_key k2 t'))
        end
    end.

  Definition score (q t : list feat) : Z := mfl (S (length q + length t)) q t 0.

  (* lou_findTable over the index (in index order): strictly better replaces *)
  Definition find_step (q : list feat) (st : Z * option N) (tb : N * list feat) : Z * option N :=
    let s := score q (snd tb) in
    if find_better s (fst st) then (s, Some (fst tb)) else st.

  Definition find_table (index : list (N * list feat)) (q : list feat) : option N :=
    snd (fold_left (find_step q) index (find_initial_best, None)).

  (* lou_findTables: positive scores, kept sorted by list_conj with cmpMatches *)
  Fixpoint insert_match (m : N * Z) (l : list (N * Z)) : list (N * Z) :=
    match l with
    | [] => [m]
    | e :: l' => if match_stays_before (snd e) (snd m) then e :: insert_match m l' else m :: l
    end.

  Definition tables_step (q : list feat) (acc : list (N * Z)) (tb : N * list feat) : list (N * Z) :=
    let s := score q (snd tb) in
    if tables_keep s then insert_match (fst tb, s) acc else acc.

  Definition find_tables (index : list (N * list feat)) (q : list feat) : list N :=
    map fst (fold_left (tables_step q) index []).
End Score.

(* lou_getTableInfo: entries (key, value, line) sorted by key; the value with the smallest
   line number among the entries of the key *)
Fixpoint info_aux (key : N) (l : list (N * N * Z)) (cur : Z) (val : option N) : option N :=
  match l with
  | [] => val
  | (k, v, line) :: l' =>
      if N.eqb k key then
        if info_replaces cur line then info_aux key l' line (Some v) else info_aux key l' cur val
      else if N.ltb key k then val
      else info_aux key l' cur val
  end.
Definition get_info (l : list (N * N * Z)) (key : N) : option N := info_aux key l (-1) None.

(* well-formedness predicates used by the statements *)

(* a language value that is not empty and does not start with the wildcard *)
Definition no_wild_head (v : list N) : bool :=
  match v with s :: _ => negb (is_wild s) | [] => false end.

(* r is a subsequence of t (leftmost embedding) *)
Fixpoint subseq (r t : list N) : bool :=
  match r, t with
  | [], _ => true
  | _ :: _, [] => false
  | a :: r', b :: t' => if N.eqb a b then subseq r' t' else subseq r t'
  end.

Fixpoint strictly_sorted (l : list feat) : bool :=
  match l with
  | (k1, _) :: (((k2, _) :: _) as r) => N.ltb k1 k2 && strictly_sorted r
  | _ => true
  end.

Fixpoint sorted_by_key (l : list (N * N * Z)) : bool :=
  match l with
  | (k1, _, _) :: (((k2, _, _) :: _) as r) => N.leb k1 k2 && sorted_by_key r
  | _ => true
  end.
