"""C09 — dotsIO, ucBrl and the display table only re-encode cells.
PROVE: Properties/C09.v over the re-encoding expressions regenerated from the finishing/decoding code, and the
 inventory of `mode & mask' tests (the two bits are tested only in finishing code).
CORRESPOND: the same call under {0, dotsIO, dotsIO|ucBrl} (combined with other mode bits): consumed length equal,
 default output = lou_dotsToChar image of the dotsIO cells, ucBrl = low eight dots in U+28xx, typeform marks;
 back-translating characters = back-translating (dotsIO) their lou_charToDots image, also as Unicode braille."""
import os
import shutil

import common
import safety
import tablegen
import trans
from common import Rng, REPO

PID = "C09"


def run(chk):
    rng = Rng(chk.seed).fork(PID)
    gen = common.gen_stage()
    prove = common.prove_stage(PID)
    common.model_driver()
    exe = common.build_harness("h_trans")
    env = {"LOUIS_TABLEPATH": str(REPO / "tables")}
    quick = chk.tier == "quick"
    tables = safety.shipped_tables(rng.fork("tables"), 30 if quick else 10 ** 6)
    dis = sorted(p.name for p in (REPO / "tables").glob("*.dis"))
    lists = []
    for t in tables:
        lists.append(t)
        if rng.chance(0.5 if quick else 1.0):
            lists.append(rng.choice(dis) + "," + t)
    if not quick:
        for d in dis:
            lists.append(d + "," + str(REPO / "tables" / "en-us-g2.ctb"))
    work = common.BUILD / ("work-c09-%d" % os.getpid())
    shutil.rmtree(work, ignore_errors=True)
    work.mkdir(parents=True)
    for i in range(20 if quick else 400):
        r = rng.fork(("gt", i))
        entries, alphabet = tablegen.gen_c05_table(r)
        tf = work / ("g%d.utb" % i)
        tf.write_text(tablegen.table_text(entries))
        lists.append("unicode.dis," + str(tf))
    for tl in lists:
        r = rng.fork(("cases", tl))
        base, curs = [], []
        for i in range(25 if quick else 120):
            inp = safety.gen_sentence(r, 30) if i % 2 else safety.gen_input(r, 30)
            inp = [c for c in inp if c] or [97]
            other = r.choice([0, 0, 1, 128, 256, 1 | 128])
            outlen = r.choice([4 * len(inp) + 10, 4 * len(inp) + 10, r.range(1, len(inp) + 1)])
            base.append((inp, other, outlen))
            # a cursor (the same in all three modes): where it lies may influence which rules apply, the mode bits may not
            curs.append(r.range(0, len(inp) - 1) if r.chance(0.4) else -2)
        # aimed: the cursor in the word behind one of the table's largesign / joinword words (their special treatment looks at
        # the cursor in the computer-braille-at-cursor modes only)
        tpath = tl.split(",")[-1]
        sps = [sp for op, sp in safety.special_operands(tpath if os.path.isabs(tpath) else str(REPO / "tables" / tpath)) if op in ("largesign", "joinword") and 32 not in sp]
        for _ in range((8 if quick else 30) if sps else 0):
            w1, w2 = r.choice(sps), [ord(c) for c in r.choice(safety.WORDS)]
            pre = ([ord(c) for c in r.choice(safety.WORDS)] + [32]) if r.chance(0.5) else []
            inp = pre + w1 + [32] + w2 + ([32] + r.choice(sps) if r.chance(0.3) else [])
            base.append((inp, r.choice([0, 0, 128, 256]), 4 * len(inp) + 10))
            curs.append(len(pre) + len(w1) + 1 + r.range(0, len(w2) - 1))
            chk.tally("aimed_cursor_behind_largesign_or_joinword")
        lines = []
        for (inp, other, outlen), cur in zip(base, curs):
            for m in (0, 4, 4 | 64):
                lines.append(trans.case_line("T", other | m, inp, outlen, cursor=cur, presence=1 | (16 if cur >= 0 else 0)))
        rs = trans.run_cases(exe, tl, lines, exact=1, env=env, timeout=400)
        # ucBrl without dotsIO has no effect: the result is the one of the same call without the bit
        ulines = [trans.case_line("T", other | 64, inp, outlen, cursor=cur, presence=1 | (16 if cur >= 0 else 0)) for (inp, other, outlen), cur in zip(base, curs)]
        us = trans.run_cases(exe, tl, ulines, exact=1, env=env, timeout=400)
        for j, ((inp, other, outlen), u) in enumerate(zip(base, us)):
            r0 = rs[3 * j]
            if u.crash or r0.crash or u.hang is not None or r0.hang is not None:
                continue
            su = (u.ret, u.inlen, u.outlen, tuple(u.out[:max(u.outlen, 0)])) if u.ret == 1 else (u.ret,)
            s0 = (r0.ret, r0.inlen, r0.outlen, tuple(r0.out[:max(r0.outlen, 0)])) if r0.ret == 1 else (r0.ret,)
            chk.tally("ucBrl_without_dotsIO_checked")
            if su != s0:
                chk.violation("ucbrl-alone-has-an-effect", "ucBrl without dotsIO changes the result: %s vs %s" % (str(su)[:200], str(s0)[:200]),
                              dict(table_list=tl, input=inp, other_mode_bits=other, outlen=outlen, case_lines=[lines[3 * j], ulines[j]]))
        dlines, dmeta, blines, bmeta = [], [], [], []
        for j, (inp, other, outlen) in enumerate(base):
            r0, r4, ru = rs[3 * j], rs[3 * j + 1], rs[3 * j + 2]
            key = (tl, tuple(inp), other, outlen)
            if any(x.crash or x.hang is not None for x in (r0, r4, ru)):
                chk.count(key)
                bad = [safety.classify(x) for x in (r0, r4, ru) if safety.classify(x)][0]
                chk.violation(bad[0], "%s on %s" % (bad[1], tl), dict(table_list=tl, case_lines=lines[3 * j:3 * j + 3]))
                continue
            chk.count(key, nontrivial=r4.ret == 1 and r4.outlen > 0)
            case = dict(table_list=tl, input=inp, other_mode_bits=other, outlen=outlen, case_lines=lines[3 * j:3 * j + 3],
                        impl=[r0.raw, r4.raw, ru.raw])
            if r4.ret != 1 or ru.ret != 1:
                if r4.ret != ru.ret:
                    chk.violation("ucbrl-changes-result", "dotsIO and dotsIO|ucBrl return differently (%d / %d)" % (r4.ret, ru.ret), case)
                continue
            if (r4.inlen, r4.outlen) != (ru.inlen, ru.outlen) or ru.out[:ru.outlen] != [0x2800 | (c & 0xff) for c in r4.out[:r4.outlen]]:
                chk.violation("ucbrl-not-low8", "ucBrl output is not the low eight dots of the dotsIO cells: %s vs %s" % (ru.out[:ru.outlen], r4.out[:r4.outlen]), case)
                continue
            marks = [56 if c & 0xc0 else 48 for c in r4.out[:r4.outlen]]
            if r4.typeform[:r4.outlen] != marks or ru.typeform[:ru.outlen] != marks:
                chk.violation("typeform-marks", "typeform is not '8' exactly at cells with dot 7/8: %s vs cells %s" % (r4.typeform[:r4.outlen], r4.out[:r4.outlen]), case)
                continue
            if r4.cursor != ru.cursor or (r0.ret == 1 and r0.cursor != r4.cursor):
                chk.violation("mode-bits-move-the-cursor", "the returned cursor differs between the output modes: %s / %s / %s" % (r0.cursor, r4.cursor, ru.cursor), case)
                continue
            if r0.ret == 1:
                if (r0.inlen, r0.outlen) != (r4.inlen, r4.outlen) or r0.typeform[:r0.outlen] != marks:
                    chk.violation("dotsIO-changes-lengths", "default and dotsIO consume/produce differently: (%d,%d) vs (%d,%d)"
                                  % (r0.inlen, r0.outlen, r4.inlen, r4.outlen), case)
                    continue
                if r4.outlen > 0:
                    dlines.append(trans.case_line("D", 0, r4.out[:r4.outlen], r4.outlen))
                    dmeta.append((case, r0.out[:r0.outlen]))
                # back-translation of the characters vs of their dots image
                if r0.outlen > 0:
                    chars = r0.out[:r0.outlen]
                    ol = r.choice([4 * len(chars) + 10, r.range(1, len(chars) + 1)])
                    bo = r.choice([0, 0, 128, 256])
                    blines += [trans.case_line("B", bo, chars, ol), trans.case_line("C", 0, chars, len(chars)), trans.case_line("C", 64, chars, len(chars))]
                    bmeta.append((case, chars, ol, bo))
            else:
                chk.tally("default_output_unmapped_cell")
            chk.cov["traces_validated_against_impl"] += 1
        # ... and of arbitrary character strings, including characters the display table does not map
        for _ in range(6):
            chars = [c for c in safety.gen_input(r, 20) if c] or [97]
            if r.chance(0.5):
                chars[r.below(len(chars))] = r.choice([0x4e2d, 0x3b1, 0x20ac, 0xfffe, 0x2801, 0xe9, 127, 1])
            ol = r.choice([4 * len(chars) + 10, r.range(1, len(chars) + 1)])
            bo = r.choice([0, 0, 128, 256])
            blines += [trans.case_line("B", bo, chars, ol), trans.case_line("C", 0, chars, len(chars)), trans.case_line("C", 64, chars, len(chars))]
            bmeta.append((dict(table_list=tl, arbitrary_characters=True), chars, ol, bo))
        if dlines:
            ds = trans.run_cases(exe, tl, dlines, exact=1, env=env, timeout=400)
            for (case, out0), d in zip(dmeta, ds):
                if d.crash or d.ret != 1 or d.out[:len(out0)] != out0:
                    chk.violation("default-not-display-image", "default output differs from lou_dotsToChar of the dotsIO cells: %s vs %s"
                                  % (out0, None if d.crash else d.out[:len(out0)]), case)
                else:
                    chk.cov["traces_validated_against_impl"] += 1
        if blines:
            bs = trans.run_cases(exe, tl, blines, exact=1, env=env, timeout=400)
            l2 = []
            for j, (case, chars, ol, bo) in enumerate(bmeta):
                b0, c0, cu = bs[3 * j], bs[3 * j + 1], bs[3 * j + 2]
                if c0.crash or cu.crash or c0.ret != 1 or cu.ret != 1:
                    l2 += ["X B 0 0 0 -2 0 | | |"] * 2
                    continue
                l2.append(trans.case_line("B", bo | 4, c0.out[:len(chars)], ol))
                l2.append(trans.case_line("B", bo | 4, cu.out[:len(chars)], ol))
            b2 = trans.run_cases(exe, tl, l2, exact=1, env=env, timeout=400)
            for j, (case, chars, ol, bo) in enumerate(bmeta):
                b0, bd, bu = bs[3 * j], b2[2 * j], b2[2 * j + 1]
                chk.count((tl, "back", tuple(chars), ol, bo), nontrivial=not b0.crash and b0.ret == 1 and b0.outlen > 0)
                if any(x.crash or x.hang is not None for x in (b0, bd, bu)):
                    bad = [safety.classify(x) for x in (b0, bd, bu) if safety.classify(x)][0]
                    chk.violation(bad[0], "%s on %s" % (bad[1], tl), dict(case, chars=chars))
                    continue
                if l2[2 * j].startswith("X B 0 0 0"):
                    # lou_charToDots itself failed (the table does not compile): nothing to compare
                    chk.tally("back_comparison_skipped_no_dots_image")
                    continue
                sig = lambda x: (x.ret, x.inlen, x.outlen, tuple(x.out[:max(x.outlen, 0)])) if x.ret == 1 else (x.ret,)
                c2 = dict(table_list=tl, characters=chars, outlen=ol, mode=bo, case_lines=[blines[3 * j], l2[2 * j], l2[2 * j + 1]],
                          impl=[b0.raw, bd.raw, bu.raw])
                if sig(b0) != sig(bd):
                    chk.violation("back-dotsIO-differs", "back-translating characters differs from back-translating their lou_charToDots image in dotsIO mode: %s vs %s"
                                  % (sig(b0), sig(bd)), c2)
                elif any(c & 0x7f00 for c in bs[3 * j + 1].out[:len(chars)]):
                    chk.tally("cells_with_dots_above_8_have_no_unicode_form")
                    chk.cov["traces_validated_against_impl"] += 1
                elif sig(b0) != sig(bu):
                    chk.violation("back-unicode-braille-not-accepted", "Unicode-braille cells are not accepted in place of flagged dot patterns by lou_backTranslate(dotsIO): %s vs %s"
                                  % (sig(b0), sig(bu)), c2)
                else:
                    chk.cov["traces_validated_against_impl"] += 1
                    chk.sample(dict(table=tl, characters=chars, text="".join(chr(c) for c in b0.out[:b0.outlen])), cap=3)
    shutil.rmtree(work, ignore_errors=True)
    chk.cov["rule"] = ("per table list (shipped sample, with and without a .dis display table in front, generated F tables): each input under "
                       "{0, dotsIO, dotsIO|ucBrl} x other mode bits x capacities; display image through lou_dotsToChar; back-translation of "
                       "the characters vs of their lou_charToDots image (flagged and Unicode); distinct = (table list, input, bits, capacity)")
    chk.cov["gen_status"] = gen
    chk.cov["checker_cmd"] = "make -C coq Properties/C09.vo (coqc 8.16.1)"
    chk.cov["trusted_base"] = common.TRUSTED_COMMON + ["tools/gen/g_finish.py (re-encoding expressions, inventory of mode tests)"]
    if not prove["ok"] and not chk.violations:
        chk.violation("proof", "Properties/%s.v no longer checks: %s" % (PID, prove["failed"][:5]),
                      dict(no_failing_input=True, broken=prove["failed"], log=prove["log"][-1500:], gen=gen))
    return chk.finish(prove)
