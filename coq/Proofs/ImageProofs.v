(* Proofs for C12: soundness of the image checker (Model/Image.v) and the bump allocator. *)
From Coq Require Import List ZArith Bool FMapPositive Lia.
From Lou Require Import Gen.GConst Gen.GChain Model.Image.
Import ListNotations.
Local Open Scope Z_scope.

(* ------------------------------------------------------------------ units *)
Lemma units_nonneg : forall n, 0 <= n -> 0 <= units n.
Proof. intros n Hn. unfold units. apply Z.div_pos; lia. Qed.

Lemma units_ge : forall n, n <= units n * 8.
Proof.
  intros n. unfold units.
  pose proof (Z.div_mod (n + 7) 8 ltac:(lia)) as Hdm.
  pose proof (Z.mod_pos_bound (n + 7) 8 ltac:(lia)) as Hb.
  lia.
Qed.

(* ------------------------------------------------------------------ the parts of check_image *)
Lemma check_image_parts : forall i, check_image i = true ->
  allocs_ok (i_used i) 1 (i_allocs i) = true /\
  forallb (ref_ok (build_map (i_allocs i))) (i_refs i) = true /\
  forallb (bucket_ok (build_map (i_allocs i)) fwd_before) (i_fwd i) = true /\
  forallb (bucket_ok (build_map (i_allocs i)) (fun _ _ => false)) (i_back i) = true /\
  forallb (record_ok (build_map (i_allocs i)) single_before_e) (i_chars i) = true /\
  forallb (record_ok (build_map (i_allocs i)) (fun _ _ => false)) (i_cells i) = true /\
  forallb (pass_ok (build_map (i_allocs i)) fpass_before) (i_fpass i) = true /\
  forallb (pass_ok (build_map (i_allocs i)) bpass_before) (i_bpass i) = true.
Proof.
  intros i H. unfold check_image in H.
  apply andb_prop in H. destruct H as [H H8].
  apply andb_prop in H. destruct H as [H H7].
  apply andb_prop in H. destruct H as [H H6].
  apply andb_prop in H. destruct H as [H H5].
  apply andb_prop in H. destruct H as [H H4].
  apply andb_prop in H. destruct H as [H H3].
  apply andb_prop in H. destruct H as [H1 H2].
  repeat split; assumption.
Qed.

(* ------------------------------------------------------------------ allocations *)
Lemma allocs_ok_spec : forall l used p, allocs_ok used p l = true ->
  (forall a, In a l -> p <= a_off a /\ 0 < a_off a /\ 0 <= a_size a /\ a_off a * 8 + a_size a <= used) /\
  (forall k1 k2 a b, (k1 < k2)%nat -> nth_error l k1 = Some a -> nth_error l k2 = Some b ->
                     a_off a + units (a_size a) <= a_off b).
Proof.
  induction l as [|a0 l IH]; intros used p H.
  - split.
    + intros a [].
    + intros k1 k2 a b _ Ha. destruct k1; discriminate Ha.
  - cbn [allocs_ok] in H.
    apply andb_prop in H. destruct H as [H Hrest].
    apply andb_prop in H. destruct H as [H Hused].
    apply andb_prop in H. destruct H as [H Hprev].
    apply andb_prop in H. destruct H as [Hpos Hsz].
    apply Z.ltb_lt in Hpos. apply Z.leb_le in Hsz. apply Z.leb_le in Hprev. apply Z.leb_le in Hused.
    destruct (IH _ _ Hrest) as [IHa IHo].
    pose proof (units_nonneg _ Hsz) as Hu.
    split.
    + intros a [Ha | Ha].
      * subst a. repeat split; lia.
      * destruct (IHa a Ha) as (Hp' & H0 & Hs & Hu'). repeat split; lia.
    + intros k1 k2 a b Hlt Ha Hb.
      destruct k2 as [|k2]; [lia|].
      cbn [nth_error] in Hb.
      destruct k1 as [|k1].
      * cbn [nth_error] in Ha. injection Ha as Ha. subst a0.
        apply nth_error_In in Hb. destruct (IHa b Hb) as (Hp' & _). exact Hp'.
      * cbn [nth_error] in Ha. apply (IHo k1 k2 a b); [lia| assumption | assumption].
Qed.

Lemma allocs_sound_l : forall i, check_image i = true ->
  (forall a, In a (i_allocs i) -> 1 <= a_off a /\ 0 <= a_size a /\ a_off a * 8 + a_size a <= i_used i) /\
  (forall k1 k2 a b, (k1 < k2)%nat -> nth_error (i_allocs i) k1 = Some a -> nth_error (i_allocs i) k2 = Some b ->
                     a_off a + units (a_size a) <= a_off b).
Proof.
  intros i H. apply check_image_parts in H. destruct H as (Hal & _).
  destruct (allocs_ok_spec _ _ _ Hal) as [Ha Ho].
  split.
  - intros a Hin. destruct (Ha a Hin) as (_ & H0 & Hs & Hu). repeat split; lia.
  - exact Ho.
Qed.

(* ------------------------------------------------------------------ the offset map *)
Definition map_step (m : amap) (a : alloc) : amap :=
  if 0 <? a_off a then PositiveMap.add (Z.to_pos (a_off a)) (a_size a) m else m.

Lemma find_alloc_step : forall m a off sz,
  find_alloc (map_step m a) off = Some sz ->
  find_alloc m off = Some sz \/ (a_off a = off /\ a_size a = sz).
Proof.
  intros m a off sz H. unfold find_alloc, map_step in *.
  destruct (0 <? off) eqn:Hoff; [|discriminate H].
  destruct (0 <? a_off a) eqn:Ha; [|left; exact H].
  apply Z.ltb_lt in Hoff. apply Z.ltb_lt in Ha.
  destruct (Pos.eq_dec (Z.to_pos off) (Z.to_pos (a_off a))) as [He | Hne].
  - rewrite He in H. rewrite PositiveMap.gss in H. injection H as H.
    right. split; [|exact H]. symmetry. apply Z2Pos.inj; assumption.
  - rewrite PositiveMap.gso in H by exact Hne. left. exact H.
Qed.

Lemma find_alloc_fold : forall l m off sz,
  find_alloc (fold_left map_step l m) off = Some sz ->
  find_alloc m off = Some sz \/ exists a, In a l /\ a_off a = off /\ a_size a = sz.
Proof.
  induction l as [|a0 l IH]; intros m off sz H.
  - left. exact H.
  - cbn [fold_left] in H. destruct (IH _ _ _ H) as [Hm | (a & Hin & Ho & Hs)].
    + destruct (find_alloc_step _ _ _ _ Hm) as [Hm' | [Ho Hs]].
      * left. exact Hm'.
      * right. exists a0. split; [left; reflexivity | split; assumption].
    + right. exists a. split; [right; exact Hin | split; assumption].
Qed.

Lemma find_alloc_build : forall l off sz,
  find_alloc (build_map l) off = Some sz -> exists a, In a l /\ a_off a = off /\ a_size a = sz.
Proof.
  intros l off sz H. change (build_map l) with (fold_left map_step l (PositiveMap.empty Z)) in H.
  destruct (find_alloc_fold _ _ _ _ H) as [He | Hex]; [|exact Hex].
  unfold find_alloc in He. destruct (0 <? off); [|discriminate He].
  rewrite PositiveMap.gempty in He. discriminate He.
Qed.

Lemma refs_sound_l : forall i r, check_image i = true -> In r (i_refs i) ->
  (r_target r = 0 /\ r_nullok r = true) \/
  (exists a, In a (i_allocs i) /\ a_off a = r_target r /\ r_need r <= a_size a).
Proof.
  intros i r H Hin. apply check_image_parts in H. destruct H as (_ & Hrefs & _).
  rewrite forallb_forall in Hrefs. specialize (Hrefs r Hin). unfold ref_ok in Hrefs.
  destruct (Z.eqb_spec (r_target r) 0) as [Hz | Hnz].
  - left. split; assumption.
  - right. destruct (find_alloc (build_map (i_allocs i)) (r_target r)) as [sz|] eqn:Hf; [|discriminate Hrefs].
    apply Z.leb_le in Hrefs.
    destruct (find_alloc_build _ _ _ Hf) as (a & Ha & Ho & Hs).
    exists a. split; [exact Ha | split; [exact Ho | lia]].
Qed.

(* ------------------------------------------------------------------ chains *)
Lemma nodup_offs_spec : forall l, nodup_offs l = true -> NoDup (map c_off l).
Proof.
  induction l as [|x l IH]; intros H.
  - constructor.
  - cbn [nodup_offs] in H. apply andb_prop in H. destruct H as [Hx Hl].
    cbn [map]. constructor.
    + intros Hin. apply in_map_iff in Hin. destruct Hin as (y & Hy & Hyin).
      apply negb_true_iff in Hx.
      assert (Hex : existsb (fun y => c_off y =? c_off x) l = true).
      { apply existsb_exists. exists y. split; [exact Hyin | apply Z.eqb_eq; exact Hy]. }
      rewrite Hex in Hx. discriminate Hx.
    + apply IH. exact Hl.
Qed.

Lemma members_allocated_spec : forall allocs l, members_allocated (build_map allocs) l = true ->
  forall x, In x l -> exists a, In a allocs /\ a_off a = c_off x.
Proof.
  intros allocs l H x Hin. unfold members_allocated in H. rewrite forallb_forall in H.
  specialize (H x Hin).
  destruct (find_alloc (build_map allocs) (c_off x)) as [sz|] eqn:Hf; [|discriminate H].
  destruct (find_alloc_build _ _ _ Hf) as (a & Ha & Ho & _).
  exists a. split; assumption.
Qed.

Lemma ordered_spec : forall before l, ordered before l = true ->
  forall k1 k2 x y, (k1 < k2)%nat -> nth_error l k1 = Some x -> nth_error l k2 = Some y -> before y x = false.
Proof.
  intros before. induction l as [|x0 l IH]; intros H k1 k2 x y Hlt Hx Hy.
  - destruct k1; discriminate Hx.
  - cbn [ordered] in H. apply andb_prop in H. destruct H as [Hhd Htl].
    destruct k2 as [|k2]; [lia|]. cbn [nth_error] in Hy.
    destruct k1 as [|k1]; cbn [nth_error] in Hx.
    + injection Hx as Hx. subst x0. rewrite forallb_forall in Hhd.
      apply nth_error_In in Hy. specialize (Hhd y Hy). apply negb_true_iff in Hhd. exact Hhd.
    + apply (IH Htl k1 k2); [lia | assumption | assumption].
Qed.

Lemma fwd_sound_l : forall i h l, check_image i = true -> In (h, l) (i_fwd i) ->
  NoDup (map c_off l) /\
  (forall x, In x l -> exists a, In a (i_allocs i) /\ a_off a = c_off x) /\
  (forall x, In x l -> (if c_op x =? CTO_Context then c_low x else c_raw x) = h) /\
  (forall k1 k2 x y, (k1 < k2)%nat -> nth_error l k1 = Some x -> nth_error l k2 = Some y ->
     c_len y <= c_len x /\ (c_len y = c_len x -> c_op x = CTO_Always -> c_op y = CTO_Always)).
Proof.
  intros i h l H Hin. apply check_image_parts in H. destruct H as (_ & _ & Hfwd & _).
  rewrite forallb_forall in Hfwd. specialize (Hfwd _ Hin). unfold bucket_ok in Hfwd.
  apply andb_prop in Hfwd. destruct Hfwd as [Hfwd Hord].
  apply andb_prop in Hfwd. destruct Hfwd as [Hfwd Hbk].
  apply andb_prop in Hfwd. destruct Hfwd as [Hnd Hmem].
  split; [apply nodup_offs_spec; exact Hnd|].
  split; [apply members_allocated_spec with (l := l); exact Hmem|].
  split.
  - intros x Hx. rewrite forallb_forall in Hbk. specialize (Hbk x Hx). unfold in_bucket in Hbk.
    destruct (c_op x =? CTO_Context); apply Z.eqb_eq in Hbk; exact Hbk.
  - intros k1 k2 x y Hlt Hx Hy.
    pose proof (ordered_spec _ _ Hord k1 k2 x y Hlt Hx Hy) as Hb.
    unfold fwd_before, fwd_multi_before in Hb.
    apply orb_false_iff in Hb. destruct Hb as [Hgt Heq].
    destruct (Z.gtb_spec (c_len y) (c_len x)) as [Hg | Hle]; [discriminate Hgt|].
    split; [exact Hle|].
    intros Hlen Hop. unfold CTO_Always in *.
    destruct (Z.eqb_spec (c_len y) (c_len x)) as [_ | Hne]; [|contradiction].
    destruct (Z.eqb_spec (c_op x) 83) as [_ | Hne]; [|contradiction].
    destruct (Z.eqb_spec (c_op y) 83) as [He | _]; [exact He | discriminate Heq].
Qed.

Lemma chars_sound_l : forall i v b l, check_image i = true -> In (v, b, l) (i_chars i) ->
  b = char_hash v /\ NoDup (map c_off l) /\
  (forall x, In x l -> exists a, In a (i_allocs i) /\ a_off a = c_off x) /\
  (forall k1 k2 x y, (k1 < k2)%nat -> nth_error l k1 = Some x -> nth_error l k2 = Some y ->
     is_def_op (c_op x) = true -> is_def_op (c_op y) = true).
Proof.
  intros i v b l H Hin. apply check_image_parts in H. destruct H as (_ & _ & _ & _ & Hch & _).
  rewrite forallb_forall in Hch. specialize (Hch _ Hin). unfold record_ok in Hch.
  apply andb_prop in Hch. destruct Hch as [Hch Hord].
  apply andb_prop in Hch. destruct Hch as [Hch Hmem].
  apply andb_prop in Hch. destruct Hch as [Hch Hnd].
  apply andb_prop in Hch. destruct Hch as [_ Hb].
  split; [apply Z.eqb_eq; exact Hb|].
  split; [apply nodup_offs_spec; exact Hnd|].
  split; [apply members_allocated_spec with (l := l); exact Hmem|].
  intros k1 k2 x y Hlt Hx Hy Hdef.
  pose proof (ordered_spec _ _ Hord k1 k2 x y Hlt Hx Hy) as Hbf.
  unfold single_before_e, fwd_single_before in Hbf.
  unfold is_def_op in *.
  apply orb_false_iff in Hbf. destruct Hbf as [_ Hbf].
  rewrite Hdef in Hbf.
  destruct ((c_op y >=? 61) && (c_op y <? 70)); [reflexivity | discriminate Hbf].
Qed.

(* ------------------------------------------------------------------ the allocator *)
Lemma grow_preserves_l : forall hdr sizes n,
  exists a, ar_allocs (fold_left (fun ar n => fst (arena_alloc hdr ar n)) (sizes ++ [n]) (arena_init hdr))
            = a :: ar_allocs (fold_left (fun ar n => fst (arena_alloc hdr ar n)) sizes (arena_init hdr))
            /\ a_size a = n.
Proof.
  intros hdr sizes n. rewrite fold_left_app. cbn [fold_left].
  unfold arena_alloc at 1. cbn [fst ar_allocs].
  eexists. split; reflexivity.
Qed.

Definition end_of (p : Z) (l : list alloc) : Z :=
  fold_left (fun _ a => a_off a + units (a_size a)) l p.

Lemma allocs_ok_mono : forall l used used' p, allocs_ok used p l = true -> used <= used' ->
  allocs_ok used' p l = true.
Proof.
  induction l as [|a l IH]; intros used used' p H Hle.
  - reflexivity.
  - cbn [allocs_ok] in *.
    apply andb_prop in H. destruct H as [H Hrest].
    apply andb_prop in H. destruct H as [H Hused].
    apply andb_prop in H. destruct H as [H Hprev].
    apply Z.leb_le in Hused.
    rewrite H, Hprev, (IH _ _ _ Hrest Hle).
    assert (Hu : (a_off a * 8 + a_size a <=? used') = true) by (apply Z.leb_le; lia).
    rewrite Hu. reflexivity.
Qed.

Lemma allocs_ok_app : forall l used p a, allocs_ok used p l = true ->
  end_of p l <= a_off a -> 0 < a_off a -> 0 <= a_size a -> a_off a * 8 + a_size a <= used ->
  allocs_ok used p (l ++ [a]) = true.
Proof.
  induction l as [|a0 l IH]; intros used p a H Hend Hpos Hsz Hused.
  - unfold end_of in Hend. cbn [fold_left] in Hend. cbn [app allocs_ok].
    apply Z.ltb_lt in Hpos. apply Z.leb_le in Hsz. apply Z.leb_le in Hend. apply Z.leb_le in Hused.
    rewrite Hpos, Hsz, Hend, Hused. reflexivity.
  - cbn [app allocs_ok] in *.
    apply andb_prop in H. destruct H as [H Hrest].
    rewrite H. cbn [andb].
    apply IH; try assumption.
Qed.

Definition arena_inv (hdr : Z) (ar : arena) : Prop :=
  exists x, ar_used ar - hdr = 8 * x /\ 1 <= x /\
            end_of 1 (rev (ar_allocs ar)) = x /\
            allocs_ok (ar_used ar - hdr) 1 (rev (ar_allocs ar)) = true.

Lemma arena_inv_init : forall hdr, arena_inv hdr (arena_init hdr).
Proof.
  intros hdr. exists 1. unfold arena_init. cbn [ar_used ar_allocs rev end_of fold_left allocs_ok].
  repeat split; lia.
Qed.

Lemma arena_inv_step : forall hdr ar n, 0 <= n -> arena_inv hdr ar ->
  arena_inv hdr (fst (arena_alloc hdr ar n)).
Proof.
  intros hdr ar n Hn (x & Hx & H1 & Hend & Hok).
  unfold arena_alloc. cbn [fst].
  pose proof (units_nonneg n Hn) as Hu. pose proof (units_ge n) as Hg.
  assert (Hoff : (ar_used ar - hdr) / 8 = x).
  { rewrite Hx. rewrite Z.mul_comm. apply Z.div_mul. lia. }
  rewrite Hoff.
  exists (x + units n). cbn [ar_used ar_allocs rev].
  split; [lia|]. split; [lia|]. split.
  - unfold end_of. rewrite fold_left_app. cbn [fold_left a_off a_size]. reflexivity.
  - apply allocs_ok_app.
    + apply allocs_ok_mono with (used := ar_used ar - hdr); [exact Hok | lia].
    + cbn [a_off]. lia.
    + cbn [a_off]. lia.
    + cbn [a_size]. exact Hn.
    + cbn [a_off a_size]. lia.
Qed.

Lemma arena_inv_fold : forall hdr sizes ar, Forall (fun n => 0 <= n) sizes -> arena_inv hdr ar ->
  arena_inv hdr (fold_left (fun ar n => fst (arena_alloc hdr ar n)) sizes ar).
Proof.
  intros hdr. induction sizes as [|n sizes IH]; intros ar Hall Hinv.
  - exact Hinv.
  - cbn [fold_left]. inversion Hall as [|n' l' Hn Hrest]; subst.
    apply IH; [exact Hrest|]. apply arena_inv_step; assumption.
Qed.

Lemma arena_ok_l : forall hdr sizes, 0 <= hdr -> hdr mod 8 = 0 -> Forall (fun n => 0 <= n) sizes ->
  allocs_ok (ar_used (fold_left (fun ar n => fst (arena_alloc hdr ar n)) sizes (arena_init hdr)) - hdr) 1
            (rev (ar_allocs (fold_left (fun ar n => fst (arena_alloc hdr ar n)) sizes (arena_init hdr)))) = true.
Proof.
  intros hdr sizes _ _ Hall.
  destruct (arena_inv_fold hdr sizes (arena_init hdr) Hall (arena_inv_init hdr)) as (x & _ & _ & _ & Hok).
  exact Hok.
Qed.

(* ------------------------------------------------------------------ completeness: rules are linked *)
Lemma is_member_spec : forall chains off,
  is_member (member_map chains) off = true -> exists l, In l chains /\ In off (map c_off l).
Proof.
  intros chains off H. unfold is_member in H.
  destruct (find_alloc (member_map chains) off) as [sz|] eqn:Hf; [|discriminate H].
  unfold member_map in Hf. destruct (find_alloc_build _ _ _ Hf) as (a & Ha & Ho & _).
  apply in_map_iff in Ha. destruct Ha as (x & Hx & Hin). subst a. cbn [a_off] in Ho.
  apply in_concat in Hin. destruct Hin as (l & Hl & Hxl).
  exists l. split; [exact Hl|]. apply in_map_iff. exists x. split; [exact Ho | exact Hxl].
Qed.

Lemma member_of_pairs : forall (A : Type) (chains : list (A * list celem)) off,
  is_member (member_map (map snd chains)) off = true ->
  exists k l, In (k, l) chains /\ In off (map c_off l).
Proof.
  intros A chains off H. destruct (is_member_spec _ _ H) as (l & Hl & Hin).
  apply in_map_iff in Hl. destruct Hl as ([k l'] & Heq & Hkl). cbn [snd] in Heq. subst l'.
  exists k, l. split; assumption.
Qed.

Lemma rules_linked_l : forall i rules r, rules_linked i rules = true -> In r rules ->
  (exp_fwd r = true -> exists h l, In (h, l) (i_fwd i) /\ In (ri_off r) (map c_off l)) /\
  (exp_back r = true -> exists h l, In (h, l) (i_back i) /\ In (ri_off r) (map c_off l)) /\
  (exp_char r = true -> exists vb l, In (vb, l) (i_chars i) /\ In (ri_off r) (map c_off l)) /\
  (exp_cell r = true -> exists vb l, In (vb, l) (i_cells i) /\ In (ri_off r) (map c_off l)) /\
  (exp_fpass r = true -> exists n l, In (n, l) (i_fpass i) /\ In (ri_off r) (map c_off l)) /\
  (exp_bpass r = true -> exists n l, In (n, l) (i_bpass i) /\ In (ri_off r) (map c_off l)).
Proof.
  intros i rules r H Hin. unfold rules_linked in H. rewrite forallb_forall in H. specialize (H r Hin).
  unfold rule_linked in H.
  repeat (apply andb_prop in H; let H2 := fresh "Hc" in destruct H as [H H2]).
  repeat split; intros He; match goal with
  | Hx : (if ?e r then _ else true) = true |- _ => rewrite He in Hx; apply member_of_pairs in Hx; exact Hx
  end.
Qed.
Print Assumptions rules_linked_l.

(* ------------------------------------------------------------------ bounds of the multipass byte code *)
Lemma bounds_ok_l : forall l v b, bounds_ok l = true -> In (v, b) l -> 0 <= v < b.
Proof.
  intros l v b H Hin. unfold bounds_ok in H. rewrite forallb_forall in H. specialize (H (v, b) Hin).
  cbn [fst snd] in H. apply andb_prop in H. destruct H as [H1 H2].
  apply Z.leb_le in H1. apply Z.ltb_lt in H2. split; assumption.
Qed.

(* ------------------------------------------------------------------ finalizeTable's rebucketing *)
(* a moved rule is a context rule: for it the REGENERATED condition of the rebucketing loop is the REGENERATED
   insertion condition of addForwardRuleWithMultipleChars, the one the checker orders forward chains by *)
Lemma rebucket_is_insertion_l : forall nl rl rop,
  rebucket_before nl CTO_Context rl rop = fwd_multi_before nl CTO_Context rl rop.
Proof.
  intros nl rl rop. unfold rebucket_before, fwd_multi_before, CTO_Context.
  destruct (nl >? rl); cbn [orb]; [reflexivity|].
  destruct (nl =? rl); cbn [andb orb]; [|reflexivity].
  destruct (rop =? 83) eqn:E; cbn [andb]; reflexivity.
Qed.
