#!/usr/bin/env python3
"""Assembles DESIGN.md from doc_parts/ (section 0 and the reading notes are kept from the design round; sections 1-9
describe what was built) and the seed table printed by tools/seedmeta.py."""
import subprocess
import sys
from pathlib import Path

HERE = Path(__file__).resolve().parent.parent
old = (HERE / "doc_parts" / "old_design.md").read_text()
sec0 = old[old.index("## 0. Why this can reach what the tests cannot"):old.index("## 1. Architecture")]
sec0 = sec0.replace("* **translator** (`tools/gen/`, Python + `clang -Xclang -ast-dump=json`): regenerates",
                    "* **translator** (`tools/gen/`, Python, with its own small reader of C in `cparse.py`): regenerates")
appendix = old[old.index("## Appendix A"):]
appendix = appendix.replace("## Appendix A — reading notes the models are written from (to be confirmed by H1–H4)",
                            "## Appendix A — reading notes of the design round (pinned tree, before the fixes of §6)")
head = """# Verification of liblouis by machine-checked proof in Rocq (Coq 8.16.1)

Target: `/repo` (liblouis 3.33.0, in-tree autotools build, `widechar` = 16 bit, `ENABLE_MACROS` off). Properties:
`/verif/properties.jsonl` C01–C20 (given, fixed). Technique family: theorems about a formal model, checked by the Coq
kernel, with the model tied to the current source on every run by (a) a translator that regenerates parts of the model
from the C source and (b) a correspondence check that runs the model's executable definitions and the implementation on
the same inputs.

Section 0 was written before any code and still states the approach. Sections 1–9 describe what exists now
(they replace the plan of the design round). Appendix A keeps the reading notes the models were written from.

0. Why this can reach what the tests cannot
1. Architecture (pipeline, layout, hooks, commands, findings policy)
2. The tie between model and source (generated facts, harnesses)
3. The models
4. Per-property status
5. Trusted base
6. Genuine defects found and repaired
7. Seeded changes: what the checks catch
8. False alarms met while building
9. Not applicable: none

---------------------------------------------------------------------------------------

"""
seedlog = sys.argv[1] if len(sys.argv) > 1 else "/dev/null"
table = subprocess.run([sys.executable, str(HERE / "tools" / "seedmeta.py"), seedlog], capture_output=True, text=True).stdout
p3 = (HERE / "doc_parts" / "part3.md").read_text().replace("SEEDTABLE", table)
out = head + sec0 + (HERE / "doc_parts" / "part1.md").read_text() + "\n---------------------------------------------------------------------------------------\n\n" + \
    (HERE / "doc_parts" / "part2.md").read_text() + "\n---------------------------------------------------------------------------------------\n\n" + p3 + \
    "\n---------------------------------------------------------------------------------------\n\n" + appendix
(HERE / "DESIGN.md").write_text(out)
print("DESIGN.md written:", len(out.splitlines()), "lines")
