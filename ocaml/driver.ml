(* Line-protocol driver around the extracted models (Model = coq/Extract.v output).
   One command per input line, one result line per query command.  All numbers decimal. *)
open Model

let rec pos_of_int i =
  if i <= 1 then XH else if i land 1 = 1 then XI (pos_of_int (i lsr 1)) else XO (pos_of_int (i lsr 1))
let n_of_int i = if i <= 0 then N0 else Npos (pos_of_int i)
let rec int_of_pos = function XH -> 1 | XO p -> 2 * int_of_pos p | XI p -> 2 * int_of_pos p + 1
let int_of_n = function N0 -> 0 | Npos p -> int_of_pos p
let z_of_int i = if i = 0 then Z0 else if i > 0 then Zpos (pos_of_int i) else Zneg (pos_of_int (-i))
let int_of_z = function Z0 -> 0 | Zpos p -> int_of_pos p | Zneg p -> - (int_of_pos p)
let rec nat_of_int i = if i <= 0 then O else S (nat_of_int (i - 1))
let rec int_of_nat = function O -> 0 | S n -> 1 + int_of_nat n

let words s = List.filter (fun x -> x <> "") (String.split_on_char ' ' s)
let ints ws = List.map int_of_string ws
let ns ws = List.map (fun w -> n_of_int (int_of_string w)) ws
let show_ns l = String.concat " " (List.map (fun x -> string_of_int (int_of_n x)) l)
let show_zs l = String.concat " " (List.map (fun x -> string_of_int (int_of_z x)) l)
let show_ints l = String.concat " " (List.map string_of_int l)
let b2s b = if b then "1" else "0"

(* split a word list at "|" separators *)
let rec split_bar ws =
  match ws with
  | [] -> [ [] ]
  | "|" :: r -> [] :: split_bar r
  | w :: r -> (match split_bar r with h :: t -> (w :: h) :: t | [] -> [ [ w ] ])

(* ---- hyphenation state *)
let hy_tokens : n list list ref = ref []
let hy_trie = ref Nil
let hy_chars : (int, bool * int * bool) Hashtbl.t = Hashtbl.create 64

let handlers : (string, string list -> string option) Hashtbl.t = Hashtbl.create 64
let reg name f = Hashtbl.replace handlers name f

let () =
  reg "HD" (fun _ -> hy_tokens := []; Hashtbl.reset hy_chars; None);
  reg "HT" (fun ws -> hy_tokens := ns ws :: !hy_tokens; None);
  reg "HE" (fun _ -> hy_trie := build (List.rev !hy_tokens); None);
  reg "HC" (fun ws -> (match ints ws with
      | [ c; l; lo; h ] -> Hashtbl.replace hy_chars c (l = 1, lo, h = 1)
      | _ -> failwith "HC"); None);
  reg "HW" (fun ws ->
      let get c = try Hashtbl.find hy_chars (int_of_n c) with Not_found -> (false, int_of_n c, false) in
      let is_letter c = let (l, _, _) = get c in l in
      let lower c = let (_, lo, _) = get c in n_of_int lo in
      let is_hyphen c = let (_, _, h) = get c in h in
      match hyphenate is_letter lower is_hyphen !hy_trie (ns ws) with
      | None -> Some "0"
      | Some (marks, oob) -> Some ("1 " ^ b2s oob ^ " " ^ show_ns marks));
  reg "HX" (fun ws -> (* spec vs automaton on a lower-cased word: "spec | walk oob" *)
      let w = ns ws in
      let (h, oob) = walk !hy_trie w in
      Some (show_ns (hyph_spec (List.rev !hy_tokens) w) ^ " | " ^ show_ns h ^ " " ^ b2s oob));
  reg "HS" (fun ws ->
      let (w, p) = split_token (ns ws) in
      Some (show_ns w ^ " | " ^ show_ns p))

(* ---- resolution model over the REAL file system (the theorems hold for any predicate):
   RS <list> | <base or -> | <LOUIS_TABLEPATH or -> | <builtin dir> *)
let path_of_string s = List.init (String.length s) (fun i -> n_of_int (Char.code s.[i]))
let string_of_path p = String.concat "" (List.map (fun c -> String.make 1 (Char.chr (int_of_n c))) p)
let real_exists p =
  let s = string_of_path p in
  (try (Unix.stat s).Unix.st_kind <> Unix.S_DIR with _ -> false)
let () =
  reg "RS" (fun ws ->
      let line = String.concat " " ws in
      let parts = List.map String.trim (String.split_on_char '|' line) in
      match parts with
      | [ lst; base; env; builtin ] ->
        let opt s = if s = "-" then None else Some (path_of_string s) in
        let sp = search_path (opt env) None (path_of_string builtin) in
        (match resolve_list real_exists (path_of_string lst) (opt base) sp with
         | None -> Some "P FAIL"
         | Some ps -> Some ("P " ^ String.concat "|" (List.map string_of_path ps)))
      | _ -> failwith "RS")

(* ---- metadata model
   MI kur ucs2 ucs4 | lk lk ...         start an index (ids of unicode-range, ucs2, ucs4; ids of the language keys)
   MT name k n v.. k n v.. ...          add a table (features sorted by key,value; a value is n subtag ids) in index order
   MQ k n v.. k n v.. ...               query (sorted by key): prints "Q <name or -> | names..."
   MS q-features | t-features           score
   MG key | k v line k v line ...       get_info                                              *)
let m_ids = ref (N0, N0, N0)
let m_lang : n list ref = ref []
let m_islang k = List.mem k !m_lang
let m_index : (n * (n * n list) list) list ref = ref []
let rec feats = function
  | k :: n :: r ->
    let rec take c l = if c = 0 then ([], l) else (match l with x :: t -> let (a, b) = take (c - 1) t in (n_of_int x :: a, b) | [] -> failwith "feats") in
    let (v, rest) = take n r in
    (n_of_int k, v) :: feats rest
  | [] -> []
  | _ -> failwith "feats"
let rec triples = function a :: b :: c :: r -> ((n_of_int a, n_of_int b), z_of_int c) :: triples r | _ -> []
let () =
  reg "MI" (fun ws ->
      (match split_bar ws with
       | [ ids; lk ] ->
         (match ints ids with [ a; b; c ] -> m_ids := (n_of_int a, n_of_int b, n_of_int c) | _ -> failwith "MI");
         m_lang := List.map n_of_int (ints lk)
       | _ -> failwith "MI");
      m_index := []; None);
  reg "MT" (fun ws -> (match ints ws with n :: r -> m_index := !m_index @ [ (n_of_int n, feats r) ] | _ -> failwith "MT"); None);
  reg "MQ" (fun ws ->
      let (a, b, c) = !m_ids in
      let q = feats (ints ws) in
      let one = find_table a b c m_islang !m_index q in
      let all = find_tables a b c m_islang !m_index q in
      Some ("Q " ^ (match one with None -> "-" | Some n -> string_of_int (int_of_n n)) ^ " |"
            ^ String.concat "" (List.map (fun n -> " " ^ string_of_int (int_of_n n)) all)));
  reg "MS" (fun ws ->
      let (a, b, c) = !m_ids in
      match split_bar ws with
      | [ q; t ] -> Some (string_of_int (int_of_z (score a b c m_islang (feats (ints q)) (feats (ints t)))))
      | _ -> failwith "MS");
  reg "MG" (fun ws ->
      match split_bar ws with
      | [ [ k ]; l ] -> Some ("G " ^ (match get_info (triples (ints l)) (n_of_int (int_of_string k)) with
          | None -> "-" | Some v -> string_of_int (int_of_n v)))
      | _ -> failwith "MG")

(* ---- engine (fragment F)
   TB                       begin a table
   TE op nofor noback nchars c.. ndots d..
   TI mode cap c c c ..     implementation-shaped engine;  TR ... reference engine
   output: "T consumed | cells | posmap | trace"  or  "T UNSUPPORTED" / "T OUTOFFUEL"        *)
let e_table : entry list ref = ref []
let show_tresult = function
  | TOk (c, cells, pm, tr) ->
    "T " ^ string_of_int (int_of_z c) ^ " | " ^ show_zs cells ^ " | " ^ show_zs pm ^ " | " ^ show_zs tr
  | TUnsupported -> "T UNSUPPORTED"
  | TOutOfFuel -> "T OUTOFFUEL"
let () =
  reg "TB" (fun _ -> e_table := []; None);
  reg "TE" (fun ws ->
      (match ints ws with
       | op :: nofor :: noback :: nc :: rest ->
         let rec take n l = if n = 0 then ([], l) else (match l with x :: r -> let (a, b) = take (n - 1) r in (x :: a, b) | [] -> failwith "TE") in
         let (cs, rest) = take nc rest in
         (match rest with
          | nd :: rest -> let (ds, _) = take nd rest in
            e_table := !e_table @ [ { e_op = z_of_int op; e_chars = List.map z_of_int cs; e_dots = List.map z_of_int ds;
                                      e_nofor = (nofor = 1); e_noback = (noback = 1) } ]
          | [] -> failwith "TE")
       | _ -> failwith "TE"); None);
  reg "TI" (fun ws -> match ints ws with
      | mode :: cap :: inp -> Some (show_tresult (translate_impl !e_table (z_of_int mode) (List.map z_of_int inp) (z_of_int cap)))
      | _ -> failwith "TI");
  reg "TR" (fun ws -> match ints ws with
      | mode :: cap :: inp -> Some (show_tresult (translate_ref !e_table (z_of_int mode) (List.map z_of_int inp) (z_of_int cap)))
      | _ -> failwith "TR")

(* ---- multipass (literal rules): rules are added after TB/TE lines
   PR stage idx items | action      items: L n v.. | B k | O | C ; action: L n v.. | Q (omit) | S (copy)
   PF mode cap inp...   forward driver: "D consumed | cells | posmap | trace"                 *)
let p_rules : (int * prule) list ref = ref []
let p_dirs_store : int list ref = ref []
let p_dirs_reset () = p_dirs_store := []
let p_dirs_add d = p_dirs_store := !p_dirs_store @ [ d ]
let () =
  reg "TB" (fun _ -> e_table := []; p_rules := []; p_dirs_reset (); None);
  reg "PR" (fun ws ->
      (match split_bar ws with
       | [ st :: idx :: items; act ] ->
         p_dirs_add (int_of_string st / 10);
         let rec parse = function
           | [] -> []
           | "L" :: n :: r -> let n = int_of_string n in
             let rec take k l = if k = 0 then ([], l) else (match l with x :: t -> let (a, b) = take (k - 1) t in (x :: a, b) | [] -> failwith "PR L") in
             let (vs, rest) = take n r in TLit (List.map (fun v -> z_of_int (int_of_string v)) vs) :: parse rest
           | "B" :: k :: r -> TLook (z_of_int (int_of_string k)) :: parse r
           | "O" :: r -> TOpen :: parse r
           | "C" :: r -> TClose :: parse r
           | _ -> failwith "PR item" in
         let a = (match act with
             | "L" :: _ :: vs -> ALit (List.map (fun v -> z_of_int (int_of_string v)) vs)
             | [ "Q" ] -> AOmit | [ "S" ] -> ACopy | _ -> failwith "PR action") in
         p_rules := !p_rules @ [ (int_of_string st mod 10, { p_idx = z_of_int (int_of_string idx); p_test = parse items; p_act = a }) ]
       | _ -> failwith "PR"); None);
  reg "PF" (fun ws -> match ints ws with
      | mode :: cap :: inp ->
        let rules = List.filter (fun (_, d) -> d <> 2) (List.combine !p_rules !p_dirs_store) in
        let st k = List.map (fun ((_, r), _) -> r) (List.filter (fun ((s, _), _) -> s = k) rules) in
        let allst k = List.exists (fun (s, _) -> s = k) !p_rules in
        let np = if allst 4 then 4 else if allst 3 then 3 else if allst 2 then 2 else 1 in
        let pt = { pt_main = !e_table; pt_correct = st 0; pt_pass2 = st 2; pt_pass3 = st 3; pt_pass4 = st 4; pt_corr = allst 0; pt_np = z_of_int np } in
        (match forward pt (z_of_int mode) (List.map z_of_int inp) (z_of_int cap) with
         | DOk (c, cells, pm, tr) -> Some ("D " ^ string_of_int (int_of_z c) ^ " | " ^ show_zs cells ^ " | " ^ show_zs pm ^ " | " ^ show_zs tr)
         | DUnsupported -> Some "D UNSUPPORTED"
         | DOutOfFuel -> Some "D OUTOFFUEL")
      | _ -> failwith "PF")

(* PB cap inp...  backward driver over the rules whose direction allows it: "D consumed | chars | posmap"
   (PR stage codes: s = both directions, 10+s = forward only (noback), 20+s = backward only (nofor)) *)
let () =
  reg "PB" (fun ws -> match ints ws with
      | cap :: inp ->
        let rules = List.filter (fun ((s, _), d) -> d <> 1) (List.combine !p_rules !p_dirs_store) in
        let st k = List.map (fun ((_, r), _) -> r) (List.filter (fun ((s, _), _) -> s = k) rules) in
        let allst k = List.exists (fun (s, _) -> s = k) !p_rules in
        let np = if allst 4 then 4 else if allst 3 then 3 else if allst 2 then 2 else 1 in
        let pt = { pt_main = !e_table; pt_correct = st 0; pt_pass2 = st 2; pt_pass3 = st 3; pt_pass4 = st 4; pt_corr = allst 0; pt_np = z_of_int np } in
        (match backward pt (List.map z_of_int inp) (z_of_int cap) with
         | BDOk (c, chars, pm, _) -> Some ("D " ^ string_of_int (int_of_z c) ^ " | " ^ show_zs chars ^ " | " ^ show_zs pm)
         | BDUnsupported -> Some "D UNSUPPORTED"
         | BDOutOfFuel -> Some "D OUTOFFUEL")
      | _ -> failwith "PB")

(* ---- backward engine for single-cell definition tables (uses the TB/TE table)
   BK cap cells...   ->  "B consumed | chars | posmap"  / "B UNSUPPORTED"
   OO                ->  "O <one_to_one> <defs_only>"                                        *)
let () =
  reg "BK" (fun ws -> match ints ws with
      | cap :: inp -> (match back_run !e_table (List.map z_of_int inp) (z_of_int cap) with
          | BOk (c, chars, pm) -> Some ("B " ^ string_of_int (int_of_z c) ^ " | " ^ show_zs chars ^ " | " ^ show_zs pm)
          | BUnsupported -> Some "B UNSUPPORTED"
          | BOutOfFuel -> Some "B OUTOFFUEL")
      | _ -> failwith "BK");
  reg "OO" (fun _ -> Some ("O " ^ b2s (one_to_one !e_table) ^ " " ^ b2s (defs_only !e_table)))

(* ---- image checker.  IN (new image) ; IA off size ; IR target need nullok ; IF/IB hash e.. ; IC/ID value bucket e.. ;
   IP/IQ n e..  (each e = off idx op len raw low) ; IU off op charslen dotslen nofor noback (rule objects) ;
   IX used  ->  "I total allocs refs fwd back chars cells fpass bpass rules_linked" *)
let im_allocs = ref [] and im_refs = ref [] and im_fwd = ref [] and im_back = ref []
and im_chars = ref [] and im_cells = ref [] and im_fpass = ref [] and im_bpass = ref [] and im_rules = ref [] and im_bounds = ref []
let rec elems = function
  | a :: b :: c :: d :: e :: f :: r ->
    { c_off = z_of_int a; c_idx = z_of_int b; c_op = z_of_int c; c_len = z_of_int d; c_raw = z_of_int e; c_low = z_of_int f } :: elems r
  | _ -> []
let () =
  reg "IN" (fun _ -> im_allocs := []; im_refs := []; im_fwd := []; im_back := []; im_chars := []; im_cells := []; im_fpass := []; im_bpass := []; im_rules := []; im_bounds := []; None);
  reg "IA" (fun ws -> (match ints ws with [ o; s ] -> im_allocs := { a_off = z_of_int o; a_size = z_of_int s } :: !im_allocs | _ -> failwith "IA"); None);
  reg "IR" (fun ws -> (match ints ws with [ t; n; k ] -> im_refs := { r_target = z_of_int t; r_need = z_of_int n; r_nullok = (k = 1) } :: !im_refs | _ -> failwith "IR"); None);
  reg "IF" (fun ws -> (match ints ws with h :: r -> im_fwd := (z_of_int h, elems r) :: !im_fwd | _ -> failwith "IF"); None);
  reg "IB" (fun ws -> (match ints ws with h :: r -> im_back := (z_of_int h, elems r) :: !im_back | _ -> failwith "IB"); None);
  reg "IC" (fun ws -> (match ints ws with v :: b :: r -> im_chars := ((z_of_int v, z_of_int b), elems r) :: !im_chars | _ -> failwith "IC"); None);
  reg "ID" (fun ws -> (match ints ws with v :: b :: r -> im_cells := ((z_of_int v, z_of_int b), elems r) :: !im_cells | _ -> failwith "ID"); None);
  reg "IP" (fun ws -> (match ints ws with h :: r -> im_fpass := (z_of_int h, elems r) :: !im_fpass | _ -> failwith "IP"); None);
  reg "IQ" (fun ws -> (match ints ws with h :: r -> im_bpass := (z_of_int h, elems r) :: !im_bpass | _ -> failwith "IQ"); None);
  reg "IU" (fun ws -> (match ints ws with [ o; op; cl; dl; nf; nb ] ->
      im_rules := { ri_off = z_of_int o; ri_op = z_of_int op; ri_chars = z_of_int cl; ri_dots = z_of_int dl; ri_nofor = (nf <> 0); ri_noback = (nb <> 0) } :: !im_rules
                                          | _ -> failwith "IU"); None);
  reg "IV" (fun ws -> (match ints ws with [ v; b ] -> im_bounds := (z_of_int v, z_of_int b) :: !im_bounds | _ -> failwith "IV"); None);
  reg "IX" (fun ws -> match ints ws with
      | [ used ] ->
        let al = List.rev !im_allocs in
        let i = { i_used = z_of_int used; i_allocs = al; i_refs = !im_refs; i_fwd = !im_fwd; i_back = !im_back;
                  i_chars = !im_chars; i_cells = !im_cells; i_fpass = !im_fpass; i_bpass = !im_bpass } in
        let all p l = List.for_all p l in
        let m = build_map al in
        Some (String.concat " " ("I" :: List.map b2s [
            check_image i;
            allocs_ok (z_of_int used) (z_of_int 1) al;
            all (ref_ok m) !im_refs;
            all (bucket_ok m fwd_before) !im_fwd;
            all (bucket_ok m (fun _ _ -> false)) !im_back;
            all (record_ok m single_before_e) !im_chars;
            all (record_ok m (fun _ _ -> false)) !im_cells;
            all (pass_ok m fpass_before) !im_fpass;
            all (pass_ok m bpass_before) !im_bpass;
            rules_linked i !im_rules;
            bounds_ok !im_bounds ]))
      | _ -> failwith "IX")

(* ---- reader:  RL b b b ..  (file bytes) -> "L | hex .. | hex .. | lines=n" ; RD token chars ; RP token chars *)
let () =
  reg "RL" (fun ws ->
      match decode (List.map z_of_int (ints ws)) with
      | DBadEncoding -> Some "L | lines=0 badencoding"
      | DChars cs ->
        let ls = lines_of cs in
        Some ("L" ^ String.concat "" (List.map (fun l -> " |" ^ String.concat "" (List.map (fun c -> Printf.sprintf " %x" (int_of_z c)) l)) ls)
              ^ " | lines=" ^ string_of_int (List.length ls)));
  reg "RD" (fun ws -> match parse_dots (List.map z_of_int (ints ws)) with
      | None -> Some "D 0" | Some cs -> Some ("D " ^ string_of_int (List.length cs) ^ String.concat "" (List.map (fun c -> " " ^ string_of_int (int_of_z c)) cs)));
  reg "RP" (fun ws -> match parse_chars (List.map z_of_int (ints ws)) with
      | None -> Some "P NONE" | Some cs -> Some ("P " ^ string_of_int (List.length cs) ^ String.concat "" (List.map (fun c -> " " ^ string_of_int (int_of_z c)) cs)))

(* ---- finishing code
   FF outlen L pm...     forward:  "F inlen | inputPos | outputPos"
   FB inlen outlen pm... backward: "F | inputPos | outputPos"                               *)
let () =
  reg "FF" (fun ws -> match ints ws with
      | outlen :: l :: pm ->
        let ((inlen, ip), op) = finish_fwd (List.map z_of_int pm) (nat_of_int outlen) (nat_of_int l) in
        Some ("F " ^ string_of_int (int_of_z inlen) ^ " | " ^ show_zs ip ^ " | " ^ show_zs op)
      | _ -> failwith "FF");
  reg "FB" (fun ws -> match ints ws with
      | inlen :: outlen :: pm ->
        let (ip, op) = finish_back (List.map z_of_int pm) (nat_of_int inlen) (z_of_int outlen) (nat_of_int inlen) in
        Some ("F | " ^ show_zs ip ^ " | " ^ show_zs op)
      | _ -> failwith "FB")

(* ---- scratch-buffer plan: AP exact kind srcmax destmax -> elements *)
let () =
  reg "AP" (fun ws -> match ints ws with
      | [ ex; kind; s; d ] ->
        let f = (match kind with
            | 0 -> size_typebuf | 1 -> size_wordBuffer | 2 -> size_emphasisBuffer | 3 -> size_destSpacing
            | 4 -> size_passbuf | 5 -> size_posMapping1 | 6 -> size_posMapping2 | 7 -> size_posMapping3
            | _ -> failwith "AP kind") in
        Some ("A " ^ string_of_int (int_of_z (provided f (ex = 1) (z_of_int s) (z_of_int d))))
      | _ -> failwith "AP")

(* ---- log model: LR S <l> ; R <k> ; E <lvl> <c...> ; ... *)
let () =
  reg "LR" (fun ws ->
      let cmds = List.filter (fun c -> c <> []) (List.map (fun c -> c) (
          let rec sp acc cur = function
            | [] -> List.rev (List.rev cur :: acc)
            | ";" :: r -> sp (List.rev cur :: acc) [] r
            | w :: r -> sp acc (w :: cur) r in sp [] [] ws)) in
      let op = function
        | "S" :: [ l ] -> SetLevel (z_of_int (int_of_string l))
        | "R" :: [ k ] -> let k = int_of_string k in Register (if k = 0 then None else Some (n_of_int k))
        | "E" :: l :: cs -> Emit (z_of_int (int_of_string l), ns cs)
        | _ -> failwith "LR op" in
      let ds = lrun linit (List.map op cmds) in
      let show ((s, l), t) =
        (match s with SDefault -> "0" | SUser id -> string_of_int (int_of_n id)) ^ " " ^ string_of_int (int_of_z l)
        ^ " " ^ String.concat "" (List.map (fun c -> Printf.sprintf "%02x" (int_of_n c)) t) in
      Some ("X " ^ string_of_int (List.length ds) ^ String.concat "" (List.map (fun d -> " | " ^ show d) ds)))

let () =
  try
    while true do
      let line = input_line stdin in
      match words line with
      | [] -> ()
      | tag :: rest ->
        (match (try Hashtbl.find handlers tag with Not_found -> failwith ("unknown command " ^ tag)) rest with
         | None -> ()
         | Some out -> print_string out; print_char '\n')
    done
  with End_of_file -> ()
