(* C18 — metadata queries select tables by the documented scoring order.  Statements only.
   kur/ucs2/ucs4 are the ids of the key "unicode-range" and its two values; islang tells which
   key ids are language keys ("language", "region").  A value is a list of subtag ids: [id] for
   a plain string, the parsed tag for a language key (id 0 = "*", ids 1..63 = one-character
   subtags, ids >= 64 = longer subtags), see Model/Meta.v.                                   *)
From Coq Require Import List ZArith NArith Bool Permutation.
From Lou Require Import Gen.GMeta Model.Meta Proofs.MetaProofs.
Import ListNotations.
Local Open Scope Z_scope.

(* lou_findTable returns NULL exactly when lou_findTables returns no table *)
Theorem find_none_iff : forall kur ucs2 ucs4 islang index q,
  find_table kur ucs2 ucs4 islang index q = None <-> find_tables kur ucs2 ucs4 islang index q = [].
Proof. exact MetaProofs.find_none_iff_l. Qed.
Print Assumptions find_none_iff.

(* ... and otherwise one of the tables lou_findTables lists *)
Theorem find_in_findTables : forall kur ucs2 ucs4 islang index q n,
  find_table kur ucs2 ucs4 islang index q = Some n -> In n (find_tables kur ucs2 ucs4 islang index q).
Proof. exact MetaProofs.find_in_tables_l. Qed.
Print Assumptions find_in_findTables.

(* lou_findTables lists exactly the tables with a positive score *)
Theorem findTables_positive : forall kur ucs2 ucs4 islang index q n,
  In n (find_tables kur ucs2 ucs4 islang index q) <->
  exists f, In (n, f) index /\ score kur ucs2 ucs4 islang q f > 0.
Proof. exact MetaProofs.find_tables_positive_l. Qed.
Print Assumptions findTables_positive.

(* a table whose metadata equals the query (sorted, one value per key, non-empty) scores
   10 per feature when no language value starts with the wildcard ... *)
Theorem exact_metadata_scores : forall kur ucs2 ucs4 islang q,
  strictly_sorted q = true -> q <> [] ->
  (forall k v, In (k, v) q -> islang k = true -> no_wild_head v = true) ->
  score kur ucs2 ucs4 islang q q = W_POS_MATCH * Z.of_nat (length q).
Proof. exact MetaProofs.exact_score_l. Qed.
Print Assumptions exact_metadata_scores.

(* ... and between 8 and 10 per feature in general (a language value "*" scores 8 against
   itself) ... *)
Theorem exact_metadata_score_bounds : forall kur ucs2 ucs4 islang q,
  strictly_sorted q = true -> q <> [] ->
  (forall k v, In (k, v) q -> islang k = true -> v <> []) ->
  (L_POS_MATCH + L_EXTRA) * Z.of_nat (length q) <= score kur ucs2 ucs4 islang q q
    <= W_POS_MATCH * Z.of_nat (length q).
Proof. exact MetaProofs.exact_score_bound_l. Qed.
Print Assumptions exact_metadata_score_bounds.

(* ... hence is always found *)
Theorem exact_metadata_found : forall kur ucs2 ucs4 islang index q n,
  strictly_sorted q = true -> q <> [] ->
  (forall k v, In (k, v) q -> islang k = true -> v <> []) ->
  In (n, q) index ->
  find_table kur ucs2 ucs4 islang index q <> None.
Proof. exact MetaProofs.exact_found_l. Qed.
Print Assumptions exact_metadata_found.

(* for one queried plain feature: same value > key missing > different value; an unrelated
   extra field costs less than either *)
Theorem single_feature_order : forall kur ucs2 ucs4 islang k v v' k' w,
  islang k = false ->
  v <> v' -> (k =? kur)%N = false -> k <> k' ->
  let same := score kur ucs2 ucs4 islang [(k, [v])] [(k, [v])] in
  let missing := score kur ucs2 ucs4 islang [(k, [v])] [] in
  let different := score kur ucs2 ucs4 islang [(k, [v])] [(k, [v'])] in
  let same_plus_extra := score kur ucs2 ucs4 islang [(k, [v])] (if (k <? k')%N then [(k, [v]); (k', w)] else [(k', w); (k, [v])]) in
  same > missing /\ missing > different /\ same - same_plus_extra = 1 /\ same_plus_extra > missing.
Proof. exact MetaProofs.single_feature_order_l. Qed.
Print Assumptions single_feature_order.

(* for one queried language feature t = r ++ e (r, d not starting with "*", d starting with
   another subtag than r, 1 to 4 subtags in e): the same tag scores 10 > a table whose range r
   is a proper prefix of the tag (two points less per subtag of e) > key missing > a different
   first subtag; an unrelated extra field costs 1 *)
Theorem lang_single_feature_order : forall kur ucs2 ucs4 islang k r e d k' w,
  islang k = true -> no_wild_head r = true -> no_wild_head d = true ->
  hd 0%N d <> hd 0%N r ->
  e <> [] -> (length e <= 4)%nat -> k <> k' ->
  let t := r ++ e in
  let same := score kur ucs2 ucs4 islang [(k, t)] [(k, t)] in
  let prefix := score kur ucs2 ucs4 islang [(k, t)] [(k, r)] in
  let missing := score kur ucs2 ucs4 islang [(k, t)] [] in
  let different := score kur ucs2 ucs4 islang [(k, t)] [(k, d)] in
  let same_plus_extra := score kur ucs2 ucs4 islang [(k, t)] (if (k <? k')%N then [(k, t); (k', w)] else [(k', w); (k, t)]) in
  same = L_POS_MATCH /\
  prefix = L_POS_MATCH + L_EXTRA * Z.of_nat (length e) /\
  same > prefix /\ prefix > missing /\ missing > different /\ different = W_NEG_MATCH /\
  same - same_plus_extra = 1 /\ same_plus_extra > prefix.
Proof. exact MetaProofs.lang_single_feature_order_l. Qed.
Print Assumptions lang_single_feature_order.

(* table range r against the query r ++ e, any number of additional subtags: from five on the
   table is a negative match *)
Theorem lang_prefix_range_score : forall kur ucs2 ucs4 islang k r e,
  islang k = true -> no_wild_head r = true ->
  score kur ucs2 ucs4 islang [(k, r ++ e)] [(k, r)] =
  if (length e <? 5)%nat then L_POS_MATCH + L_EXTRA * Z.of_nat (length e) else W_NEG_MATCH.
Proof. exact MetaProofs.lang_prefix_score. Qed.
Print Assumptions lang_prefix_range_score.

(* the query may be more specific than the table: the subtags of the queried tag s-t' that
   the table's range s-r' leaves out (anywhere, r' a subsequence of t'; no one-character
   subtag in t'; at most 4 left out) cost two points each, the table is still listed and a
   table is found *)
Theorem lang_more_specific_query_still_matches : forall kur ucs2 ucs4 islang k s t' r' index n,
  islang k = true -> is_wild s = false ->
  subseq r' t' = true -> forallb (fun x => negb (single x)) t' = true ->
  (length t' - length r' <= 4)%nat ->
  In (n, [(k, s :: r')]) index ->
  score kur ucs2 ucs4 islang [(k, s :: t')] [(k, s :: r')] =
    L_POS_MATCH + L_EXTRA * (Z.of_nat (length t') - Z.of_nat (length r')) /\
  score kur ucs2 ucs4 islang [(k, s :: t')] [(k, s :: r')] > 0 /\
  In n (find_tables kur ucs2 ucs4 islang index [(k, s :: t')]) /\
  find_table kur ucs2 ucs4 islang index [(k, s :: t')] <> None.
Proof. exact MetaProofs.lang_more_specific_l. Qed.
Print Assumptions lang_more_specific_query_still_matches.

(* not the other way round: a range with more subtags than the queried tag (table en-US,
   query en) is a negative match, whatever the subtags *)
Theorem lang_longer_range_does_not_match : forall kur ucs2 ucs4 islang k t r,
  islang k = true -> (length t < length r)%nat ->
  score kur ucs2 ucs4 islang [(k, t)] [(k, r)] = W_NEG_MATCH.
Proof. exact MetaProofs.lang_longer_range_l. Qed.
Print Assumptions lang_longer_range_does_not_match.

(* a table with the queried tag and n other, non-matching values of the same language key:
   the penalty is (n * EXTRA + 4) / 5 rounded toward zero, so up to 8 extra languages cost
   nothing, the 9th costs one point, and never more than one point per 5 *)
Theorem lang_extra_languages_penalty : forall kur ucs2 ucs4 islang k t pre post,
  islang k = true -> no_wild_head t = true ->
  (forall v, In v pre -> match_tags t v = 0) ->
  (forall v, In v post -> match_tags t v = 0) ->
  let n := Z.of_nat (length pre + length post) in
  let s := score kur ucs2 ucs4 islang [(k, t)] (map (pair k) (pre ++ t :: post)) in
  s = L_POS_MATCH + lang_penalty (n * W_EXTRA) /\
  (n <= 8 -> s = L_POS_MATCH) /\
  (n >= 9 -> s < L_POS_MATCH) /\
  5 * (L_POS_MATCH - s) <= n.
Proof. exact MetaProofs.lang_extra_languages_l. Qed.
Print Assumptions lang_extra_languages_penalty.

(* ... the other values not matching e.g. because they start with another subtag *)
Theorem lang_other_first_subtag_no_match : forall a t' b r',
  is_wild b = false -> a <> b -> match_tags (a :: t') (b :: r') = 0.
Proof. exact MetaProofs.match_diff_head. Qed.
Print Assumptions lang_other_first_subtag_no_match.

(* a table that strictly dominates all others with a positive score is returned whatever the
   order in which tables were indexed *)
Theorem dominant_wins_any_order : forall kur ucs2 ucs4 islang index index' q n f,
  Permutation index index' ->
  In (n, f) index -> score kur ucs2 ucs4 islang q f > 0 ->
  (forall n' f', In (n', f') index -> (n', f') <> (n, f) -> score kur ucs2 ucs4 islang q f' < score kur ucs2 ucs4 islang q f) ->
  find_table kur ucs2 ucs4 islang index' q = Some n.
Proof. exact MetaProofs.dominant_wins_l. Qed.
Print Assumptions dominant_wins_any_order.

(* lou_getTableInfo returns the value of the occurrence with the smallest line number *)
Theorem info_first_occurrence : forall l key v line,
  sorted_by_key l = true ->
  In (key, v, line) l -> 0 <= line ->
  (forall v' line', In (key, v', line') l -> (v', line') <> (v, line) -> line < line') ->
  (forall k v' line', In (k, v', line') l -> 0 <= line') ->
  get_info l key = Some v.
Proof. exact MetaProofs.info_first_l. Qed.
Print Assumptions info_first_occurrence.

(* ---------- the hypotheses are satisfiable ---------- *)

(* key 5 = language, key 6 = region; subtags 100 = en, 101 = US, 102 = Latn, 110 = fr *)
Definition ex_islang (k : N) : bool := (k =? 5)%N || (k =? 6)%N.

Example dominance_is_satisfiable :
  find_table 9%N 1%N 2%N ex_islang [(1%N, [(3%N, [5%N])]); (2%N, [(3%N, [6%N])])] [(3%N, [6%N])] = Some 2%N.
Proof. reflexivity. Qed.

(* lang_single_feature_order with r = en, e = -US, d = fr, k' = 7 *)
Example lang_order_is_satisfiable :
  ex_islang 5%N = true /\ no_wild_head [100%N] = true /\ no_wild_head [110%N] = true /\
  hd 0%N [110%N] <> hd 0%N [100%N] /\ [101%N] <> [] /\ (length [101%N] <= 4)%nat /\ 5%N <> 7%N /\
  score 9%N 1%N 2%N ex_islang [(5%N, [100%N; 101%N])] [(5%N, [100%N; 101%N])] = 10 /\
  score 9%N 1%N 2%N ex_islang [(5%N, [100%N; 101%N])] [(5%N, [100%N])] = 8 /\
  score 9%N 1%N 2%N ex_islang [(5%N, [100%N; 101%N])] [] = -20 /\
  score 9%N 1%N 2%N ex_islang [(5%N, [100%N; 101%N])] [(5%N, [110%N])] = -100.
Proof. repeat split; try reflexivity; try discriminate. cbn [length]. auto with arith. Qed.

(* lang_more_specific_query_still_matches: query en-Latn-US, table en-US *)
Example lang_more_specific_is_satisfiable :
  is_wild 100%N = false /\ subseq [101%N] [102%N; 101%N] = true /\
  forallb (fun x => negb (single x)) [102%N; 101%N] = true /\
  score 9%N 1%N 2%N ex_islang [(5%N, [100%N; 102%N; 101%N])] [(5%N, [100%N; 101%N])] = 8 /\
  find_table 9%N 1%N 2%N ex_islang [(1%N, [(5%N, [100%N; 101%N])])] [(5%N, [100%N; 102%N; 101%N])] = Some 1%N /\
  (* a one-character subtag in the way stops the match: query en-x-US *)
  score 9%N 1%N 2%N ex_islang [(5%N, [100%N; 33%N; 101%N])] [(5%N, [100%N; 101%N])] = -100 /\
  (* query en, table en-US *)
  score 9%N 1%N 2%N ex_islang [(5%N, [100%N])] [(5%N, [100%N; 101%N])] = -100.
Proof. repeat split; reflexivity. Qed.

(* lang_extra_languages_penalty: en among 8, then 9, other languages *)
Example lang_extra_languages_is_satisfiable :
  (forall v, In v (repeat [110%N] 4) -> match_tags [100%N] v = 0) /\
  score 9%N 1%N 2%N ex_islang [(5%N, [100%N])]
    (map (pair 5%N) (repeat [110%N] 4 ++ [100%N] :: repeat [110%N] 4)) = 10 /\
  score 9%N 1%N 2%N ex_islang [(5%N, [100%N])]
    (map (pair 5%N) (repeat [110%N] 4 ++ [100%N] :: repeat [110%N] 5)) = 9.
Proof.
  split; [|split; reflexivity].
  intros v H. apply repeat_spec in H. subst v. reflexivity.
Qed.

(* exact_metadata_score_bounds: the lower bound is reached by language:* *)
Example exact_wildcard_scores_8 :
  score 9%N 1%N 2%N ex_islang [(5%N, [0%N])] [(5%N, [0%N])] = 8.
Proof. reflexivity. Qed.

(* the operators of the language branch of matchFeatureLists and the shape of matchLanguageTags, regenerated from the
   source on every run (Gen/GMeta.v), are the ones the model above is written with *)
Theorem source_language_operators_are_the_model :
  lang_head_is_reference = true /\ lang_walk_is_reference = true /\ lang_branch_tests_every_entry = true /\
  (forall q best, src_lang_keeps q best = ((q >? 0) && (q >? best))) /\
  (forall q, src_lang_counts_extra q = (q =? 0)) /\
  (forall best, src_lang_penalty_applies best = (best >? 0)) /\
  (forall e, src_lang_penalty e = lang_penalty e).
Proof. exact MetaProofs.source_language_operators_l. Qed.
Print Assumptions source_language_operators_are_the_model.
