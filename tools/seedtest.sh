#!/bin/bash
# Apply a seeded change to /repo, run the named checks (quick tier), undo the change.
#   tools/seedtest.sh seeded/<id>/patch.diff C05 C12 ...
# Prints one line per check: <check> exit=<code> <first VIOLATION/OK line>.  /repo is always restored.
set -u
patch="$(readlink -f "$1")"; shift
cd "$(dirname "$0")/.."
if ! git -C /repo diff --quiet; then echo "seedtest: /repo has local changes, refusing" >&2; exit 2; fi
git -C /repo apply "$patch" || { echo "seedtest: patch does not apply" >&2; exit 2; }
trap 'git -C /repo checkout -- . ; git -C /verif checkout -- evidence ; echo "seedtest: /repo and evidence restored"' EXIT
for c in "$@"; do
  out="$(VERIF_SEED=${VERIF_SEED:-1} timeout 3000 ./check "$c" --tier "${TIER:-quick}" 2>&1)"; rc=$?
  line="$(printf '%s\n' "$out" | grep -E '^(VIOLATION|OK|KNOWN-FINDING)' | head -3 | tr '\n' '|')"
  echo "$c exit=$rc $line"
done
