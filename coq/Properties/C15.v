(* C15 — rules added at run time behave as if written in the table. *)
From Coq Require Import List ZArith NArith Bool String.
From Lou Require Import Gen.GStatics Model.Api Model.Statics Proofs.ApiProofs.
Import ListNotations.
Local Open Scope Z_scope.

(* an accepted rule is appended: the table of n is its files followed by the accepted rules in the
   order they were added *)
Theorem accepted_rule_is_appended : forall compiles valid ops n r,
  compiles n = true -> valid r = true ->
  snd (accepted compiles valid ops n [] false) = false ->
  fst (accepted compiles valid (ops ++ [AddRule n r]) n [] false) =
  fst (accepted compiles valid ops n [] false) ++ [r].
Proof. exact ApiProofs.add_appends_l. Qed.
Print Assumptions accepted_rule_is_appended.

Theorem add_returns_1_iff_accepted : forall compiles valid ops n r,
  compiles n = true ->
  snd (fst (astep compiles valid (fst (arun compiles valid ainit ops)) (AddRule n r))) =
  RAdded (valid r && negb (snd (accepted compiles valid ops n [] false))).
Proof. exact ApiProofs.add_result_l. Qed.
Print Assumptions add_returns_1_iff_accepted.

(* once the table has been used for translation additions are rejected and have no effect *)
Theorem finalized_table_rejects_additions : forall compiles valid ops n r,
  compiles n = true ->
  fst (accepted compiles valid (ops ++ [Use n; AddRule n r]) n [] false) =
  fst (accepted compiles valid ops n [] false).
Proof. exact ApiProofs.finalized_rejects_l. Qed.

(* an invalid rule changes nothing and later valid additions still work *)
Theorem invalid_rule_changes_nothing : forall compiles valid ops n r r',
  compiles n = true -> valid r = false -> valid r' = true ->
  snd (accepted compiles valid ops n [] false) = false ->
  fst (accepted compiles valid (ops ++ [AddRule n r; AddRule n r']) n [] false) =
  fst (accepted compiles valid ops n [] false) ++ [r'].
Proof. exact ApiProofs.invalid_keeps_l. Qed.
Print Assumptions invalid_rule_changes_nothing.

(* additions stay in force until lou_free *)
Theorem free_drops_additions : forall compiles valid ops n,
  fst (accepted compiles valid (ops ++ [Free]) n [] false) = [].
Proof. exact ApiProofs.free_drops_l. Qed.
