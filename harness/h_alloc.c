/* Black-box identification of the scratch-buffer plan: calls _lou_allocMem on the requested
 * (buffer, index, srcmax, destmax) and reports the number of BYTES actually allocated.
 *   A <exact> <buffer> <index> <srcmax> <destmax>   ->  "A <bytes>"    (after lou_free, fresh sizes) */
#include "tbl.h"
#include <sanitizer/allocator_interface.h>
int
main(void) {
	long v[8];
	while (fgets(h_line, H_LINE, stdin)) {
		if (h_line[0] != 'A') continue;
		if (h_ints(h_line + 1, v, 5) != 5) continue;
		lou_free();
		_lou_verif_exact = (int)v[0];
		{
			void *p = _lou_allocMem((AllocBuf)v[1], (int)v[2], (int)v[3], (int)v[4]);
			printf("A %zu\n", p ? __sanitizer_get_allocated_size(p) : 0);
		}
		_lou_verif_exact = 0;
		fflush(stdout);
	}
	return 0;
}
