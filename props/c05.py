"""C05 — main-pass rule choice: longest match, then table order (reference model).
PROVE: Properties/C05.v (select_impl (compile t) = select_ref t; translate_impl = translate_ref).
CORRESPOND: _lou_translate (rule trace, raw position map, dotsIO cells) on generated F tables vs the
 extracted implementation-shaped engine AND the reference engine."""
import itertools
import os
import shutil

import common
import tablegen
import trans
from common import Rng, REPO

PID = "C05"


def compare(chk, r, m, case, cap, mode, tfile, ttext):
    """r: trans.Result of fn R; m: model line"""
    if r.crash:
        chk.violation("crash", "engine died: %s" % (r.crash,), dict(case, table=ttext, impl=list(r.crash)))
        return False
    if r.hang is not None:
        chk.violation("hang", "tick budget exceeded at site %d" % r.hang, dict(case, table=ttext))
        return False
    if m.startswith("T UNSUPPORTED"):
        chk.tally("outside_F")
        return None
    if m.startswith("T OUTOFFUEL"):
        chk.violation("model-fuel", "model ran out of fuel", dict(case, table=ttext))
        return False
    parts = [p.strip() for p in m[2:].split("|")]
    consumed = int(parts[0])
    cells = [int(x) for x in parts[1].split()]
    pm = [int(x) for x in parts[2].split()]
    trace = [int(x) for x in parts[3].split()]
    ol = len(cells)
    if mode & 4:
        exp_out = cells
    else:
        exp_out = [0x2800 | (c & 0xff) for c in cells]
    ok = r.ret == 1 and r.inlen == consumed and r.outlen == ol and r.out[:ol] == exp_out
    if ok and r.rawmap is not None:
        ok = r.rawmap[3][:ol] == pm and r.rawmap[3][ol] == consumed
    if ok:
        ok = [x[1] for x in r.rules] == trace
    if ok and r.inputPos:
        ok = r.inputPos[:ol] == [min(max(x, 0), max(consumed - 1, 0)) if consumed > 0 else x for x in pm] or consumed == 0
    if not ok:
        chk.violation("engine-mismatch", "forward translation differs from the model engine: impl ret=%s inlen=%s out=%s map=%s rules=%s; model %s"
                      % (r.ret, r.inlen, r.out[:r.outlen] if r.outlen >= 0 else None, r.rawmap and r.rawmap[3], [x[1] for x in r.rules], m),
                      dict(case, table=ttext, impl=r.raw, model=m))
    return ok


def run(chk):
    rng = Rng(chk.seed).fork(PID)
    gen = common.gen_stage()
    prove = common.prove_stage(PID)
    drv = common.model_driver()
    exe = common.build_harness("h_trans")
    work = common.BUILD / ("work-c05-%d" % os.getpid())
    shutil.rmtree(work, ignore_errors=True)
    work.mkdir(parents=True)
    ntab = 250 if chk.tier == "quick" else 6000
    nin = 30 if chk.tier == "quick" else 120
    env = {"LOUIS_TABLEPATH": str(REPO / "tables")}
    for ti in range(ntab):
        r = rng.fork(("t", ti))
        entries, alphabet = tablegen.gen_c05_table(r, collide=r.chance(0.3))
        ttext = tablegen.table_text(entries)
        tf = work / ("t%d.utb" % ti)
        tf.write_text(ttext)
        inputs = []
        if r.chance(0.15):
            small = sorted(set(alphabet))[:3] + [32]
            for L in range(1, 5):
                for tup in itertools.product(small, repeat=L):
                    inputs.append(list(tup))
            chk.tally("tables_with_exhaustive_short_strings")
        else:
            for _ in range(nin):
                inputs.append([r.choice(alphabet) for _ in range(r.range(1, 16))])
        cases = []
        for inp in inputs:
            mode = r.choice([4, 4, 4, 0, 1, 5])
            cases.append((inp, mode, 4 * len(inp) + 20))
        # capacity sweep needs the full length first: run generous, then derive
        mlines = tablegen.model_table_lines(entries) + ["TI %d %d %s" % (m, c, " ".join(map(str, i))) for i, m, c in cases]
        mo = common.run_model(drv, mlines)
        extra = []
        for (inp, mode, cap), m in zip(cases, mo):
            if m.startswith("T ") and "|" in m:
                full = len(m.split("|")[1].split())
                for c2 in set([max(0, full - 1), r.range(0, full + 1), 0, 1]):
                    if r.chance(0.5):
                        extra.append((inp, mode, c2))
        cases += extra
        mlines = tablegen.model_table_lines(entries) + \
            ["TI %d %d %s" % (m, c, " ".join(map(str, i))) for i, m, c in cases] + \
            ["TR %d %d %s" % (m, c, " ".join(map(str, i))) for i, m, c in cases]
        mo = common.run_model(drv, mlines)
        mi, mr = mo[:len(cases)], mo[len(cases):]
        clines = [trans.case_line("R", mode, inp, cap, presence=12) for inp, mode, cap in cases]
        rs = trans.run_cases(exe, "unicode.dis," + str(tf), clines, env=env)
        for (inp, mode, cap), cr, a, b, cl in zip(cases, rs, mi, mr, clines):
            case = dict(input=inp, mode=mode, capacity=cap, case_line=cl)
            key = (ttext, tuple(inp), mode, cap)
            if a != b:
                chk.count(key)
                chk.violation("impl-vs-ref", "implementation-shaped engine and reference disagree: %s / %s" % (a, b),
                              dict(case, table=ttext, model_impl=a, model_ref=b))
                continue
            ok = compare(chk, cr, a, case, cap, mode, tf, ttext)
            trace_len = len(a.split("|")[3].split()) if "|" in a else 0
            chk.count(key, nontrivial=bool(ok) and trace_len >= 2)
            chk.tally("mode_%d" % mode)
            if ok:
                chk.cov["traces_validated_against_impl"] += 1
                full = len(a.split("|")[1].split())
                if cap < 4 * len(inp) + 20:
                    chk.tally("capacity_limited")
                if int(a[2:].split("|")[0]) < len(inp):
                    chk.tally("partial_consumption")
                if trace_len >= 3 and len(chk.cov["samples"]) < 4:
                    chk.sample(dict(table=ttext.split("\n"), input=inp, mode=mode, capacity=cap, model=a))
    shutil.rmtree(work, ignore_errors=True)
    chk.cov["rule"] = ("tables from the C05 grammar (2-6 letters incl. colliding hash buckets, space/punctuation/digits, second definitions, "
                       "0-8 always/word-position rules of length 1-4 with duplicate strings and common prefixes, '=' rules, numsign, "
                       "nofor/noback, any definition order) x strings over the alphabet (random; all strings up to length 4 for some "
                       "tables) x capacities around the full length x modes {0, noContractions, dotsIO}; distinct = (table, input, "
                       "mode, capacity); non-trivial = at least two rules applied and equal to both model engines")
    chk.cov["gen_status"] = gen
    chk.cov["checker_cmd"] = "make -C coq Properties/C05.vo (coqc 8.16.1)"
    chk.cov["trusted_base"] = common.TRUSTED_COMMON + [
        "tools/gen/g_chain.py (hash functions, chain insertion conditions), g_const.py (opcode and attribute values)",
        "lib/tablegen.py prints each abstract entry both as table text and as model input",
        "fragment F only: tables with opcodes outside it are not covered by this property's theorem"]
    if not prove["ok"] and not chk.violations:
        chk.violation("proof", "Properties/C05.v no longer checks: %s" % prove["failed"][:5],
                      dict(no_failing_input=True, broken=prove["failed"], log=prove["log"][-1500:], gen=gen))
    return chk.finish(prove)
