(* C16 — translation depends only on the sequence of table entries, not their packaging: the laws of
   the reader.  Statements only; bytes, characters and tokens are arbitrary lists.            *)
From Coq Require Import List ZArith Bool Permutation.
From Lou Require Import Gen.GConst Model.Reader Proofs.ReaderProofs.
Import ListNotations.
Local Open Scope Z_scope.

(* CR is dropped wherever it stands: CRLF and LF files give the same lines *)
Theorem cr_is_ignored : forall cs, lines_of (filter (fun c => negb (c =? 13)) cs) = lines_of cs.
Proof. exact ReaderProofs.cr_ignored_l. Qed.
Print Assumptions cr_is_ignored.

Theorem crlf_same_lines : forall cs, Forall (fun c => c <> 13) cs -> lines_of (crlf cs) = lines_of cs.
Proof. exact ReaderProofs.crlf_eq_l. Qed.

(* ASCII content written as UTF-16LE or UTF-16BE with a byte-order mark decodes to the same
   characters as the plain 8-bit file *)
Theorem utf16_same_characters : forall cs, Forall (fun c => 0 <= c < 128) cs -> (2 <= length cs)%nat ->
  decode (utf16le cs) = DChars cs /\ decode (utf16be cs) = DChars cs /\ decode cs = DChars cs.
Proof. exact ReaderProofs.utf16_eq_l. Qed.
Print Assumptions utf16_same_characters.

(* trailing whitespace and the amount of whitespace between operands do not matter *)
Theorem trailing_whitespace_ignored : forall l ws, Forall (fun c => c <= 32) ws -> tokens (l ++ ws) = tokens l.
Proof. exact ReaderProofs.trailing_ws_l. Qed.

Theorem extra_whitespace_between_operands_ignored : forall a b ws, Forall (fun c => c <= 32) ws -> ws <> [] ->
  tokens (a ++ ws ++ b) = tokens (a ++ [32] ++ b).
Proof. exact ReaderProofs.inner_ws_l. Qed.
Print Assumptions extra_whitespace_between_operands_ignored.

(* listing the dots of a cell in another order gives the same cell *)
Theorem dots_order_irrelevant : forall d1 d2, Permutation d1 d2 ->
  Forall (fun c => dot_of c <> None) d1 -> parse_dots d1 = parse_dots d2.
Proof. exact ReaderProofs.dots_perm_l. Qed.
Print Assumptions dots_order_irrelevant.

(* a \xhhhh escape denotes the character with that code, exactly like the literal character *)
Theorem hex_escape_is_the_character : forall pre post c p, 32 < c < 128 -> c <> 92 ->
  parse_chars pre = Some p ->
  forall a b c' d, hex4 a b c' d = Some c ->
  parse_chars (pre ++ [92; 120; a; b; c'; d] ++ post) = parse_chars (pre ++ [c] ++ post).
Proof. exact ReaderProofs.hex_escape_l. Qed.
Print Assumptions hex_escape_is_the_character.

Example reader_examples :
  lines_of [97; 13; 10; 98] = [[97]; [98]] /\ tokens [32; 97; 98; 9; 99; 32] = [[97; 98]; [99]] /\
  parse_dots [49; 50; 45; 51] = Some [32771; 32772] /\ parse_dots [50; 49; 45; 51] = Some [32771; 32772] /\
  parse_chars [92; 120; 48; 48; 54; 49; 98] = Some [97; 98].
Proof. vm_compute. repeat split; reflexivity. Qed.
