(* Proofs of the reader laws stated in Properties/C16.v *)
From Coq Require Import List ZArith Bool Permutation Lia.
From Lou Require Import Gen.GConst Model.Reader.
Import ListNotations.
Local Open Scope Z_scope.

(* ------------------------------------------------------------------ lines *)
Lemma lines_aux_cr : forall cs cur n,
  lines_aux (filter (fun c => negb (c =? 13)) cs) cur n = lines_aux cs cur n.
Proof.
  induction cs as [|c cs IH]; intros cur n; [reflexivity|].
  cbn [filter lines_aux].
  destruct (c =? 13) eqn:E; cbn [negb].
  - apply IH.
  - cbn [lines_aux]. rewrite E.
    destruct ((c =? 10) || (n >=? MAXSTRING - 1)).
    + rewrite IH. reflexivity.
    + apply IH.
Qed.

Lemma cr_ignored_l : forall cs, lines_of (filter (fun c => negb (c =? 13)) cs) = lines_of cs.
Proof. intros cs. unfold lines_of. apply lines_aux_cr. Qed.

Lemma filter_crlf : forall cs, Forall (fun c => c <> 13) cs ->
  filter (fun c => negb (c =? 13)) (crlf cs) = cs.
Proof.
  induction cs as [|c cs IH]; intros HF; [reflexivity|].
  inversion HF as [|c0 cs0 Hc HF']; subst.
  unfold crlf in *. cbn [flat_map]. rewrite filter_app. rewrite (IH HF').
  destruct (c =? 10) eqn:E.
  - apply Z.eqb_eq in E. subst c. cbn [filter].
    change (13 =? 13) with true. change (10 =? 13) with false. cbn [negb app]. reflexivity.
  - cbn [filter]. replace (c =? 13) with false by (symmetry; apply Z.eqb_neq; exact Hc).
    cbn [negb app]. reflexivity.
Qed.

Lemma crlf_eq_l : forall cs, Forall (fun c => c <> 13) cs -> lines_of (crlf cs) = lines_of cs.
Proof.
  intros cs HF. rewrite <- (cr_ignored_l (crlf cs)). rewrite (filter_crlf cs HF). reflexivity.
Qed.

(* ------------------------------------------------------------------ decode *)
Lemma pairs_le_flat : forall cs, pairs_le (flat_map (fun c => [c mod 256; c / 256]) cs) = cs.
Proof.
  induction cs as [|c cs IH]; [reflexivity|].
  cbn [flat_map app pairs_le]. rewrite IH. f_equal.
  pose proof (Z.div_mod c 256) as Hdm. lia.
Qed.

Lemma pairs_be_flat : forall cs, pairs_be (flat_map (fun c => [c / 256; c mod 256]) cs) = cs.
Proof.
  induction cs as [|c cs IH]; [reflexivity|].
  cbn [flat_map app pairs_be]. rewrite IH. f_equal.
  pose proof (Z.div_mod c 256) as Hdm. lia.
Qed.

Lemma utf16_eq_l : forall cs, Forall (fun c => 0 <= c < 128) cs -> (2 <= length cs)%nat ->
  decode (utf16le cs) = DChars cs /\ decode (utf16be cs) = DChars cs /\ decode cs = DChars cs.
Proof.
  intros cs HF Hlen. split; [|split].
  - unfold utf16le, decode.
    change ((255 =? 254) && (254 =? 255)) with false.
    change ((255 =? 255) && (254 =? 254)) with true. cbv iota.
    rewrite pairs_le_flat. reflexivity.
  - unfold utf16be, decode.
    change ((254 =? 254) && (255 =? 255)) with true. cbv iota.
    rewrite pairs_be_flat. reflexivity.
  - destruct cs as [|c0 [|c1 r]]; cbn [length] in Hlen; try lia.
    inversion HF as [|x0 l0 H0 HF0]; subst.
    inversion HF0 as [|x1 l1 H1 HF1]; subst.
    unfold decode.
    replace (c0 =? 254) with false by (symmetry; apply Z.eqb_neq; lia).
    replace (c0 =? 255) with false by (symmetry; apply Z.eqb_neq; lia).
    replace (c0 <? 128) with true by (symmetry; apply Z.ltb_lt; lia).
    replace (c1 <? 128) with true by (symmetry; apply Z.ltb_lt; lia).
    reflexivity.
Qed.

(* ------------------------------------------------------------------ tokens *)
Lemma tokens_aux_ws_app : forall ws b, Forall (fun c => c <= 32) ws ->
  tokens_aux (ws ++ b) [] = tokens_aux b [].
Proof.
  induction ws as [|w ws IH]; intros b HF; [reflexivity|].
  inversion HF as [|w0 ws0 Hw HF']; subst.
  cbn [app tokens_aux].
  replace (w <=? 32) with true by (symmetry; apply Z.leb_le; exact Hw).
  apply IH. exact HF'.
Qed.

Lemma tokens_aux_ws_nil : forall ws, Forall (fun c => c <= 32) ws -> tokens_aux ws [] = [].
Proof.
  intros ws HF. rewrite <- (app_nil_r ws). rewrite (tokens_aux_ws_app ws [] HF). reflexivity.
Qed.

Lemma tokens_aux_trailing : forall ws, Forall (fun c => c <= 32) ws ->
  forall l cur, tokens_aux (l ++ ws) cur = tokens_aux l cur.
Proof.
  intros ws HF. induction l as [|c l IH]; intros cur.
  - cbn [app]. destruct ws as [|w ws']; [reflexivity|].
    inversion HF as [|w0 ws0 Hw HF']; subst.
    cbn [tokens_aux].
    replace (w <=? 32) with true by (symmetry; apply Z.leb_le; exact Hw).
    rewrite (tokens_aux_ws_nil ws' HF'). destruct cur; reflexivity.
  - cbn [app tokens_aux]. destruct (c <=? 32).
    + destruct cur; rewrite IH; reflexivity.
    + apply IH.
Qed.

Lemma trailing_ws_l : forall l ws, Forall (fun c => c <= 32) ws -> tokens (l ++ ws) = tokens l.
Proof. intros l ws HF. unfold tokens. apply tokens_aux_trailing. exact HF. Qed.

Lemma tokens_aux_inner : forall b ws, Forall (fun c => c <= 32) ws -> ws <> [] ->
  forall a cur, tokens_aux (a ++ ws ++ b) cur = tokens_aux (a ++ [32] ++ b) cur.
Proof.
  intros b ws HF Hne. induction a as [|c a IH]; intros cur.
  - destruct ws as [|w ws']; [congruence|].
    inversion HF as [|w0 ws0 Hw HF']; subst.
    cbn [app tokens_aux].
    replace (w <=? 32) with true by (symmetry; apply Z.leb_le; exact Hw).
    change (32 <=? 32) with true.
    rewrite (tokens_aux_ws_app ws' b HF'). reflexivity.
  - change ((c :: a) ++ ws ++ b) with (c :: (a ++ ws ++ b)).
    change ((c :: a) ++ [32] ++ b) with (c :: (a ++ [32] ++ b)).
    cbn [tokens_aux]. destruct (c <=? 32).
    + destruct cur; rewrite IH; reflexivity.
    + apply IH.
Qed.

Lemma inner_ws_l : forall a b ws, Forall (fun c => c <= 32) ws -> ws <> [] ->
  tokens (a ++ ws ++ b) = tokens (a ++ [32] ++ b).
Proof. intros a b ws HF Hne. unfold tokens. apply tokens_aux_inner; assumption. Qed.

(* ------------------------------------------------------------------ dots *)
Lemma dot_of_pos : forall c d, dot_of c = Some d -> 0 < d.
Proof.
  intros c d H. unfold dot_of in H.
  destruct ((49 <=? c) && (c <=? 57)) eqn:E1.
  { apply andb_true_iff in E1. destruct E1 as [Ea Eb]. apply Z.leb_le in Ea.
    inversion H; subst. rewrite Z.shiftl_1_l. apply Z.pow_pos_nonneg; lia. }
  destruct ((97 <=? c) && (c <=? 102)) eqn:E2.
  { apply andb_true_iff in E2. destruct E2 as [Ea Eb]. apply Z.leb_le in Ea.
    inversion H; subst. rewrite Z.shiftl_1_l. apply Z.pow_pos_nonneg; lia. }
  destruct ((65 <=? c) && (c <=? 70)) eqn:E3.
  { apply andb_true_iff in E3. destruct E3 as [Ea Eb]. apply Z.leb_le in Ea.
    inversion H; subst. rewrite Z.shiftl_1_l. apply Z.pow_pos_nonneg; lia. }
  discriminate.
Qed.

Lemma lor_pos_nz : forall cell d, 0 < d -> Z.lor cell d <> 0.
Proof.
  intros cell d Hd H. apply Z.lor_eq_0_iff in H. lia.
Qed.

Lemma pd_perm : forall d1 d2, Permutation d1 d2 ->
  Forall (fun c => dot_of c <> None) d1 ->
  forall cell started acc, (started = true -> cell <> 0) ->
  parse_dots_aux d1 cell started acc = parse_dots_aux d2 cell started acc.
Proof.
  induction 1 as [|x l l' HP IH|x y l|l l' l'' HP1 IH1 HP2 IH2];
    intros HF cell started acc Hinv.
  - reflexivity.
  - inversion HF as [|x0 l0 Hx HF']; subst.
    cbn [parse_dots_aux].
    destruct (dot_of x) as [d|] eqn:Ed; [|congruence].
    destruct (started && (cell =? 0)); [reflexivity|].
    destruct (negb (Z.land cell d =? 0)); [reflexivity|].
    apply IH; [exact HF'|]. intros _. apply lor_pos_nz. eapply dot_of_pos; eassumption.
  - inversion HF as [|y0 l0 Hy HF0]; subst.
    inversion HF0 as [|x0 l1 Hx HF1]; subst.
    destruct (dot_of x) as [dx|] eqn:Edx; [|congruence].
    destruct (dot_of y) as [dy|] eqn:Edy; [|congruence].
    pose proof (dot_of_pos _ _ Edx) as Hdx.
    pose proof (dot_of_pos _ _ Edy) as Hdy.
    assert (Hs : started && (cell =? 0) = false).
    { destruct started; [|reflexivity]. cbn [andb]. apply Z.eqb_neq. apply Hinv. reflexivity. }
    assert (Hnx : (Z.lor cell dx =? 0) = false) by (apply Z.eqb_neq; apply lor_pos_nz; exact Hdx).
    assert (Hny : (Z.lor cell dy =? 0) = false) by (apply Z.eqb_neq; apply lor_pos_nz; exact Hdy).
    cbn [parse_dots_aux]. rewrite Edx, Edy, Hs. cbn [andb]. rewrite Hnx, Hny.
    rewrite (Z.land_lor_distr_l cell dy dx), (Z.land_lor_distr_l cell dx dy).
    rewrite (Z.land_comm dy dx).
    replace (Z.lor (Z.lor cell dy) dx) with (Z.lor (Z.lor cell dx) dy)
      by (rewrite <- !Z.lor_assoc; f_equal; apply Z.lor_comm).
    destruct (Z.land cell dy =? 0) eqn:E1; destruct (Z.land cell dx =? 0) eqn:E2; cbn [negb].
    + apply Z.eqb_eq in E1. apply Z.eqb_eq in E2. rewrite E1, E2. reflexivity.
    + apply Z.eqb_neq in E2.
      replace (Z.lor (Z.land cell dx) (Z.land dx dy) =? 0) with false; [reflexivity|].
      symmetry. apply Z.eqb_neq. intros H0. apply Z.lor_eq_0_iff in H0. tauto.
    + apply Z.eqb_neq in E1.
      replace (Z.lor (Z.land cell dy) (Z.land dx dy) =? 0) with false; [reflexivity|].
      symmetry. apply Z.eqb_neq. intros H0. apply Z.lor_eq_0_iff in H0. tauto.
    + reflexivity.
  - rewrite (IH1 HF cell started acc Hinv).
    apply IH2; [|exact Hinv].
    eapply Permutation_Forall; eassumption.
Qed.

Lemma dots_perm_l : forall d1 d2, Permutation d1 d2 ->
  Forall (fun c => dot_of c <> None) d1 -> parse_dots d1 = parse_dots d2.
Proof.
  intros d1 d2 HP HF. unfold parse_dots. apply pd_perm; [exact HP|exact HF|].
  intros Habs. discriminate.
Qed.

(* ------------------------------------------------------------------ chars *)
(* one step of parse_chars_aux: the character pushed and the rest of the token *)
Definition step (tok : list Z) : option (Z * list Z) :=
  match tok with
  | [] => None
  | c :: r =>
      if c =? 92 then
        match r with
        | 92 :: r' => Some (92, r')
        | 101 :: r' => Some (27, r')
        | 102 :: r' => Some (12, r')
        | 110 :: r' => Some (10, r')
        | 114 :: r' => Some (13, r')
        | 115 :: r' => Some (32, r')
        | 116 :: r' => Some (9, r')
        | 118 :: r' => Some (11, r')
        | 119 :: r' => Some (LOU_ENDSEGMENT, r')
        | 120 :: a :: b :: c' :: d :: r' =>
            match hex4 a b c' d with Some v => Some (v, r') | None => None end
        | _ => None
        end
      else if c <? 128 then Some (c, r)
      else if (192 <=? c) && (c <? 224) then
        match r with
        | c1 :: r' => if (128 <=? c1) && (c1 <? 192) then Some ((c - 192) * 64 + (c1 - 128), r') else None
        | _ => None
        end
      else if (224 <=? c) && (c <? 240) then
        match r with
        | c1 :: c2 :: r' =>
            if (128 <=? c1) && (c1 <? 192) && (128 <=? c2) && (c2 <? 192)
            then Some (((c - 224) * 64 + (c1 - 128)) * 64 + (c2 - 128), r') else None
        | _ => None
        end
      else None
  end.

Ltac case_goal :=
  repeat match goal with
  | |- context [match ?x with _ => _ end] =>
      tryif is_var x then destruct x else destruct x eqn:?
  end.

Ltac case_hyp H :=
  repeat match type of H with
  | context [match ?x with _ => _ end] =>
      tryif is_var x then destruct x else destruct x eqn:?
  end.

Lemma pca_unfold : forall f tok acc,
  parse_chars_aux (S f) tok acc =
  match tok with
  | [] => Some (rev acc)
  | _ => match step tok with
         | Some (v, r') => parse_chars_aux f r' (v :: acc)
         | None => None
         end
  end.
Proof.
  intros f tok acc. destruct tok as [|c r]; [reflexivity|].
  cbn [parse_chars_aux]. unfold step.
  case_goal; reflexivity.
Qed.

Lemma step_length : forall tok v r', step tok = Some (v, r') -> (length r' < length tok)%nat.
Proof.
  intros tok v r' H. unfold step in H.
  case_hyp H; try discriminate; inversion H; subst; cbn [length]; lia.
Qed.

Lemma step_app : forall tok v r' rest, step tok = Some (v, r') ->
  step (tok ++ rest) = Some (v, r' ++ rest).
Proof.
  intros tok v r' rest H. unfold step in H.
  case_hyp H; try discriminate; inversion H; subst; cbn [app]; unfold step;
    repeat match goal with
    | E : ?b = _ |- context [?b] => rewrite E
    end; reflexivity.
Qed.

Lemma pca_fuel : forall f1 f2 tok acc, (length tok < f1)%nat -> (length tok < f2)%nat ->
  parse_chars_aux f1 tok acc = parse_chars_aux f2 tok acc.
Proof.
  induction f1 as [|f1 IH]; intros f2 tok acc H1 H2; [lia|].
  destruct f2 as [|f2]; [lia|].
  rewrite !pca_unfold. destruct tok as [|c r]; [reflexivity|].
  destruct (step (c :: r)) as [[v r']|] eqn:Es; [|reflexivity].
  apply step_length in Es. apply IH; lia.
Qed.

Lemma pca_prefix : forall f pre acc p, parse_chars_aux f pre acc = Some p ->
  forall rest f', (length (pre ++ rest) < f')%nat ->
  parse_chars_aux f' (pre ++ rest) acc = parse_chars_aux (S (length rest)) rest (rev p).
Proof.
  induction f as [|f IH]; intros pre acc p H rest f' Hf'; [discriminate|].
  rewrite pca_unfold in H. destruct pre as [|c r].
  - inversion H; subst. rewrite rev_involutive. cbn [app] in *. apply pca_fuel; lia.
  - destruct (step (c :: r)) as [[v r']|] eqn:Es; [|discriminate].
    destruct f' as [|f']; [lia|].
    rewrite pca_unfold.
    pose proof (step_app _ _ _ rest Es) as Es'.
    pose proof (step_length _ _ _ Es) as Hl.
    rewrite Es'. change ((c :: r) ++ rest) with (c :: (r ++ rest)).
    apply IH; [exact H|].
    rewrite app_length in *. cbn [length] in *. lia.
Qed.

Lemma hex_escape_l : forall pre post c p, 32 < c < 128 -> c <> 92 ->
  parse_chars pre = Some p ->
  forall a b c' d, hex4 a b c' d = Some c ->
  parse_chars (pre ++ [92; 120; a; b; c'; d] ++ post) = parse_chars (pre ++ [c] ++ post).
Proof.
  intros pre post c p Hc Hne Hpre a b c' d Hhex.
  unfold parse_chars in *.
  rewrite (pca_prefix _ _ _ _ Hpre ([92; 120; a; b; c'; d] ++ post)) by lia.
  rewrite (pca_prefix _ _ _ _ Hpre ([c] ++ post)) by lia.
  rewrite !pca_unfold. cbn [app].
  assert (E1 : step (92 :: 120 :: a :: b :: c' :: d :: post) = Some (c, post)).
  { unfold step. change (92 =? 92) with true. cbv iota. rewrite Hhex. reflexivity. }
  assert (E2 : step (c :: post) = Some (c, post)).
  { unfold step.
    replace (c =? 92) with false by (symmetry; apply Z.eqb_neq; exact Hne).
    replace (c <? 128) with true by (symmetry; apply Z.ltb_lt; lia).
    reflexivity. }
  rewrite E1, E2. apply pca_fuel; cbn [length]; lia.
Qed.
