#!/usr/bin/env python3
"""Writes seeded/<name>/meta.json from the table below, the confirmation record (confirm.json, written by
tools/seedconfirm.py) and the log of tools/seedtest.sh runs given as argument (lines `## <name>` followed by
`<check> exit=<n> <verdict lines>`).  Also prints the markdown table used in DESIGN.md section 7."""
import json
import re
import sys
from pathlib import Path

HERE = Path(__file__).resolve().parent.parent

SEEDS = {
    "C01-scratch-alloc-hoisted": dict(
        property="C01", change="wordBuffer/emphasisBuffer allocated before the pass loop (from the raw input length) instead of in pass 1",
        needs="a table whose `correct` rules lengthen the text and that has caps/emphasis, an input whose corrected length exceeds max(inlen,1024)+4, generous outlen",
        first="caught (C01: ASan heap-buffer-overflow in markEmphases/insertEmphasesAt with the exact-scratch hook)", strengthened=""),
    "C02-back-correct-ge": dict(
        property="C02", change="backward makeCorrections one-element copy guard `>=` became `>`",
        needs="back-translation with a table that has a backward `correct` rule lengthening the text, capacity exactly reached just before an unmatched character",
        first="missed by C02 (caught by C06 as an ASan crash)",
        strengthened="generated multipass tables (both directions) in the C01/C02 memory streams; the four one-element copy guards of the stage loops are regenerated (GEmit) with theorems fwd/back_stage_copy_fits"),
    "C03-pattern-loop-guard": dict(
        property="C03", change="pattern.c: the `loop consumed input` guard rewritten direction-aware with `<` instead of `<=`",
        needs="a `match` rule whose pre/post pattern has a */+ loop with an empty-matching body ((a?)*), input containing the rule's characters",
        first="caught (C03: tick budget exceeded at site 12, pattern matcher)", strengthened=""),
    "C04-repeated-srclim": dict(
        property="C04", change="skip loop after a `repeated` rule limited by the last index instead of the last position where the rule still fits",
        needs="a multi-character `repeated` rule, an input ending inside a run, matching characters directly behind the input (stale pass buffer from an earlier longer call, or the caller's own longer array)",
        first="missed",
        strengthened="inputs with runs of one character; poison-and-probe groups (a long homogeneous input, then inputs ending inside a run) in C04 and C01; half of the C04 tables run with the library's real scratch sizing"),
    "C05-backoff-at-blank": dict(
        property="C05", change="the back-off to the word start on a full output no longer skipped when the character that did not fit is a blank",
        needs="outlen exactly the cell count up to the end of a word that is not the first, a blank and more text behind it",
        first="caught (C05: engine mismatch with both model engines)", strengthened=""),
    "C06-stop-at-empty-pass": dict(
        property="C06", change="forward pass driver stops at the first later pass without forward rules",
        needs="a table with a gap between passes (pass3/4 rules but no forward pass2 rule)",
        first="caught (C06: forward mismatch)", strengthened=""),
    "C07-outputpos-ne": dict(
        property="C07", change="outputPos scan `posMapping[k] > inpos` became `!=`",
        needs="a non-monotone raw position map: an emphasis that begins and ends inside a group contracted by one rule whose first letter is a capital",
        first="missed",
        strengthened="typeform runs and capitals in the generators, a stream aimed at emphasis inside contractions; every comparison of the finishing loops regenerated (GPosMap) and tied to Model/Finish.v by theorem source_operators_are_the_model"),
    "C08-passvars-memset": dict(
        property="C08", change="memset of the pass variables lost its sizeof: only the first 50 bytes are cleared",
        needs="a table using a multipass variable with index >= 13 and an earlier call that left it set",
        first="missed",
        strengthened="a pool table using variables across the whole index range (size from the regenerated NUMVAR); reset extent and reset sites regenerated (GStatics) with theorem pass_variables_fully_reset"),
    "C09-ucbrl-mask": dict(
        property="C09", change="ucBrl output masks with ~LOU_DOTS instead of 0xff",
        needs="dotsIO|ucBrl and an output cell carrying a virtual dot (9-F), e.g. NO-BREAK SPACE in many tables",
        first="caught (C09: ucbrl-not-low8; the regenerated expression also breaks ucbrl_is_low8_in_unicode_block)", strengthened=""),
    "C10-compbrl-cursor": dict(
        property="C10", change="noCompbrlAhead no longer tests the compbrl mode bits",
        needs="forward translation, a table with joinword/largesign rules, the rule word followed by another word, cursorPos non-NULL inside that word",
        first="caught (C10: presence dependence)", strengthened=""),
    "C11-back-update-ge": dict(
        property="C11", change="back_updatePositions capacity guard `>` became `>=` (the last free slot is refused)",
        needs="back-translation with outlen exactly the result length",
        first="caught (C11: backward mismatch; the regenerated guard also breaks the C02/C10 emission proofs)", strengthened=""),
    "C12-addrule-stale-pointer": dict(
        property="C12", change="addRule re-derives the rule pointer only once at the end: the backward linking uses a stale pointer after a relocation",
        needs="a one-character rule for a character without a record whose 64-byte allocation is the one that crosses tableSize, realloc moving the block, >= 2 cells, a backward bucket holding shorter rules",
        first="missed",
        strengthened="hook that moves the image on every allocation (stale pointers show at once under ASan) in C12 and C15; rule hook + theorem every_rule_is_linked (a rule cut out of its chain is reported even without a sanitizer)"),
    "C13-finalized-flag-early": dict(
        property="C13", change="finalizeTable sets `finalized` before doing the work",
        needs="a table whose files compile but whose finalisation fails (base rule cycle, base character with the mode attribute) and a second lookup in the same process",
        first="missed", strengthened="four faults that only the finalisation rejects were added to the enumeration (each variant was already compiled twice)"),
    "C14-free-stale-size": dict(
        property="C14", change="lou_free resets sizePosMapping2 twice and sizePosMapping3 never",
        needs="a multipass table, lou_free, then a call no larger than before",
        first="caught at proof level only (free_covers_all_scratch_state; C08 found a concrete history)",
        strengthened="C14's table B uses every scratch buffer and most sequences run without the exact-scratch hook: now a concrete result-differs replay"),
    "C15-display-cache-stale": dict(
        property="C15", change="allocateSpaceInDisplayTable updates the cache entries after *table was overwritten (compares with the new address)",
        needs="run-time additions that use up the slack of a cached display table (54..560 new definitions) and a realloc that moves the block",
        first="missed", strengthened="hook that creates and grows images without slack: every allocation takes the library's own growth path (C15, C12)"),
    "C16-base-rule-sourceline": dict(
        property="C16", change="finalizeCharacter compares source line numbers instead of rule indices to decide whether the definition or the base rule came first",
        needs="a character with a definition and a `base` rule in different files, the earlier rule on a higher line number, and something that makes the choice visible",
        first="missed", strengthened="generated tables get a definition + base rule pair for a capital at random positions, a contraction and a caps sign that make the choice visible"),
    "C17-hyphen-char-offbyone": dict(
        property="C17", change="`wordStart >= 2` became `> 2` in the '2' mark after a hyphen character",
        needs="a one-letter first word followed by a hyphen character and a letter (e-mail)",
        first="caught (C17: mismatch on several shipped dictionaries)", strengthened=""),
    "C18-find-accepts-zero": dict(
        property="C18", change="lou_findTable `q > bestQuotient` became `>=`",
        needs="no table scores positive and one scores exactly 0 (weights cancel)",
        first="caught at proof level only (find_none_iff / find_in_findTables no longer check)",
        strengthened="queries aimed at score 0 built from the regenerated weights; the clauses findTable vs findTables evaluated directly on the library's answers: concrete replay"),
    "C19-log-heap-fallback-short": dict(
        property="C19", change="stack-buffer fast path in _lou_logMessage; the heap fallback allocates and formats len instead of len+1",
        needs="a message of 256 bytes or more",
        first="caught (C19: model mismatch and default-sink text)", strengthened=""),
    "C20-skip-base-for-absolute": dict(
        property="C20", change="resolveSubtable skips the base-directory candidate for absolute names",
        needs="an absolute name in an include / later list member that exists both at that path and nested under the including file's directory",
        first="caught (C20: precedence mismatch; regenerated candidate program also changes)", strengthened=""),
    # ---- second round (fresh agents, told to avoid the first round's mechanisms)
    "C01b-setbefore-endsegment": dict(
        property="C01", change="setBefore guard `pos >= 2` became `pos > 0` while the branch reads chars[pos - 2]",
        needs="an input whose very first character is U+FFFF (segment mark), at least two elements, room to reach position 1",
        first="caught (C01: ASan heap-buffer-overflow read in translateString with the exactly sized caller array)", strengthened=""),
    "C02b-texthyphens-inlen": dict(
        property="C02", change="lou_hyphenate (braille mode) sizes textHyphens by the braille length instead of the text length",
        needs="braille-mode hyphenation with a dictionary and contractions, back-translation longer than the braille",
        first="caught (C02: ASan heap-buffer-overflow in lou_hyphenate)", strengthened=""),
    "C04b-pass-copy-guard": dict(
        property="C04", change="translatePass one-element copy guard `(length + 1) > maxlength` became `length > maxlength`",
        needs="a pass2-4 rule that lengthens the text, capacity that the first pass still fits but the later pass hits exactly",
        first="missed by C04 (caught by C01 and C06 as ASan crashes; the regenerated guard also breaks fwd_stage_copy_fits)",
        strengthened="generated multipass tables with their own alphabets in the C04 table pool"),
    "C05b-endword-nocontractions": dict(
        property="C05", change="the noContractions test dropped from the endword case of for_selectRule",
        needs="noContractions mode, an endword rule, a match at a word end",
        first="caught (C05: engine mismatch)", strengthened=""),
    "C06b-lookback-literal-ge": dict(
        property="C06", change="passFindCharacters `count > lookback` became `>=`: a rule whose look-back covers its first literal exactly is chained with length 0",
        needs="a look-back rule whose first literal is exactly as long as the look-back and a later-defined rule with a literal matching at the same position",
        first="missed",
        strengthened="passFindCharacters' selection regenerated (GChain passfind_*) with theorem chaining_literal_is_the_reference; generator aimed at exact look-back cover and later competitors"),
    "C07b-back-cursor-bound": dict(
        property="C07", change="backward cursor look-up guarded by `*cursorPos < *outlen` (wrong length)",
        needs="back-translation with outputPos, output shorter than input, cursor index in [outlen, inlen) on an indicator cell",
        first="caught (C07: clause cursor = outputPos[cursor])", strengthened=""),
    "C08b-grouping-display-alone": dict(
        property="C08", change="compileGrouping adds the display mappings of the grouping characters only when the translation table is compiled too",
        needs="a table with a `grouping` rule, a display-only call (lou_charToDots) before the first translation",
        first="missed", strengthened="pool table with a grouping rule and inputs containing its characters; fixed scenarios from an empty cache: display-only call first, then a translation, and the other way round"),
    "C09b-typeform-bound": dict(
        property="C09", change="typeform marks written only for k < *inlen",
        needs="typeform supplied and an expanding translation (outlen > inlen)",
        first="caught (C09: typeform marks)", strengthened=""),
    "C10b-typebuf-memset-outlen": dict(
        property="C10", change="typebuf cleared over *outlen instead of input.length when typeform is NULL",
        needs="typeform NULL, capacity smaller than the input, no correction pass, an earlier call that left bits behind",
        first="caught (C10: presence dependence)", strengthened=""),
    "C11b-chardots-chain-if": dict(
        property="C11", change="putCharDotsMapping walks one link instead of to the end of the char-to-dots bucket chain",
        needs="at least four characters in one display bucket (values congruent mod 1123)",
        first="caught (C11: display round trip)", strengthened=""),
    "C12b-finalize-order-variable": dict(
        property="C12", change="finalizeTable's rebucketing loop tests the moved rule's opcode instead of the chain member's",
        needs="a context rule with a >= 2 character literal starting with a based capital and an always rule of equal length in the folded bucket",
        first="missed",
        strengthened="case-folding tables (based capitals, mixed-case context literals among always/word-position rules) in C12; the rebucketing condition regenerated with theorem rebucketing_uses_the_insertion_order"),
    "C13b-rulename-linked-early": dict(
        property="C13", change="addRuleName links the node into the list before validating the name; the error path frees it",
        needs="a swap/grouping line with valid operands and a non-letter in its name",
        first="caught (C13: ASan double free in deallocateRuleNames, from the byte mutations of the kitchen-sink table)", strengthened=""),
    "C14b-display-cache-stale": dict(
        property="C14", change="same display-table cache slip as C15-display-cache-stale, offered for C14",
        needs="display rules added at run time to a cached list until its display table grows and moves",
        first="missed by C14 (caught by C15)", strengthened="C14 got a display-rule operation and every fifth sequence runs without arena slack"),
    "C16b-getachar-nul-ends": dict(
        property="C16", change="getAChar loops `while ((ch1 = fgetc()) > 0)`: a NUL byte ends the file",
        needs="a table file stored as UTF-16 big-endian",
        first="caught (C16: reader mismatch on byte files and the UTF-16BE packaging variant)", strengthened=""),
    "C17b-hyph-low-clamp-removed": dict(
        property="C17", change="the low clamp of the pattern merge in hyphenateWord removed (the defect fixed by b07c8a88 re-introduced)",
        needs="a dictionary pattern with a non-zero digit before a leading dot and a word starting with its letters",
        first="caught (C17: hyphens out of bounds / mismatch on generated dictionaries; C02: ASan crash)", strengthened=""),
    "C18b-match-first-value-only": dict(
        property="C18", change="matchFeatureLists compares only the first value of a repeated key",
        needs="a table header declaring one non-language key twice with different values, a query for the later value",
        first="caught (C18: select mismatch)", strengthened=""),
    "C19b-widecharbuf-format": dict(
        property="C19", change="_lou_logWidecharBuf passes the dump (containing caller text) as the format string",
        needs="threshold ALL and a '%' in the translated text",
        first="caught at proof level only (formats_are_literals: the regenerated inventory of format call sites)",
        strengthened="an operation that translates given text and an exact oracle for the input dump logged at level ALL: concrete replay"),
    "C20b-directory-as-given": dict(
        property="C20", change="the `not a directory` test dropped from the name-as-given candidate of resolveSubtable",
        needs="a directory named like the table in the working directory / at the literal path, the table elsewhere on the path",
        first="missed", strengthened="a third state per location in the exhaustive arrangement: a directory of that name"),
    "C03c-nocont-mode-check": dict(
        property="C03", change="the noContractions test dropped from the nocont case of for_selectRule (doNocont returns at once in that mode)",
        needs="noContractions mode, a nocont rule, input containing its string",
        first="missed (C03 used dotsIO only for generated tables)", strengthened="other mode bits (noContractions, partialTrans, ...) on the generated tables"),
    # ---- third round (told the mechanisms of both earlier rounds)
    "C02c-free-keeps-passbuf-size": dict(
        property="C02", change="lou_free no longer resets sizePassbuf[k]",
        needs="(back-)translate, lou_free, back-translate again with a capacity not larger than before: NULL pass buffer",
        first="missed by C02 (caught by C14 and C08 as crashes: the call sequence is their domain)", strengthened="none for C02: its streams never call lou_free; C14's free_covers_all_scratch_state also breaks"),
    "C03d-endtest-clause-dropped": dict(
        property="C03", change="the `startReplace < startMatch` clause dropped from the forward pass_endTest",
        needs="a look-back in front of '[' so that the replaced range lies before the match start, a second rule deleting the cell in between",
        first="caught (C03: hangs at sites 0-2; C06: forward mismatch)", strengthened=""),
    "C04c-ucbrl-without-dotsio": dict(
        property="C04", change="the output loop of _lou_translate tests ucBrl before dotsIO: ucBrl alone yields Unicode cells",
        needs="forward translation with ucBrl set and dotsIO clear",
        first="missed by C04 (its predicate cannot tell display characters from U+28xx without the display table); C09 only via the translator alarm",
        strengthened="C09 runs every case also with ucBrl alone and requires the result of the same call without the bit: concrete replay"),
    "C05c-validmatch-caseless-letter": dict(
        property="C05", change="validMatch tests `attributes & CTC_Letter` instead of `!= CTC_Letter`",
        needs="plain `letter` characters mixed with lowercase/uppercase ones in a rule of length >= 3",
        first="caught (C05: engine mismatch)", strengthened=""),
    "C06c-back-compose-le": dict(
        property="C06", change="backward map composition `prevPosMapping[k] < realInlen` became `<=`",
        needs="two backward stages, the later one expanding and stopping early for lack of room",
        first="caught (C06: backward mismatch)", strengthened=""),
    "C07c-inlen-after-inputpos": dict(
        property="C07", change="*inlen assigned after the inputPos clamp instead of before",
        needs="inputPos supplied, a partial translation cut between an indicator cell and its letter in the first word",
        first="caught (C07: finish mismatch)", strengthened=""),
    "C08c-translation-direction-leak": dict(
        property="C08", change="translation_direction no longer set by the forward pass but restored at the end of the backward pass (one early return skips it)",
        needs="a backward context rule whose replacement does not fit, then a forward call with a table using attribute patterns in match rules",
        first="missed",
        strengthened="the inventory now finds non-static globals (translation_direction was missing from it); theorem direction_is_set_by_every_main_pass over the regenerated assignments; ordered scenarios in the C08 histories: concrete replay"),
    "C09c-getdotsforchar-zero": dict(
        property="C09", change="_lou_getDotsForChar returns 0 instead of the flagged blank cell for an unmapped character",
        needs="back-translation of text containing a character the display table does not map",
        first="missed", strengthened="C09 also back-translates arbitrary strings (with unmapped characters), not only forward outputs"),
    "C10c-endcomp-cursor-status": dict(
        property="C10", change="doCompTrans emits the endcomp indicator only when cursorStatus == 1",
        needs="a compbrl/literal word, endcomp defined, cursorPos non-NULL pointing behind the word",
        first="caught (C10: presence dependence, cursor sweep)", strengthened=""),
    "C11c-dotstochar-virtual-dots": dict(
        property="C11", change="lou_dotsToChar treats every cell not in 0x80xx as Unicode braille",
        needs="a character mapped one-to-one to a cell with a virtual dot (9-15)",
        first="caught (C11: display round trip; C09: default output vs lou_dotsToChar)", strengthened=""),
    "C12c-swap-offset-cast": dict(
        property="C12", change="a cast binds before the shift: the upper half of a swap rule reference in an action is stored as 0",
        needs="a swap rule behind image offset 0x10000 (512 KiB of rules) used in the action of a multipass rule",
        first="missed", strengthened="two images grown beyond 600 KiB by run-time additions, with swap/grouping rules and programs referring to them added last"),
    "C13c-compilefile-no-break": dict(
        property="C13", change="compileFile goes on behind a failing rule (lost `break`)",
        needs="an include cycle with two or more include lines on it: 2^32 compileFile calls",
        first="caught at proof level only (GErrors shape)", strengthened="self-including tables with two and three include lines: concrete compile-hang replay"),
    "C14c-finalized-flag-early": dict(
        property="C14", change="finalizeTable sets `finalized` first (same slip as C13-finalized-flag-early, offered for C14)",
        needs="a list that compiles but is rejected by the finalisation, used twice",
        first="missed by C14 (caught by C13)", strengthened="C14 got an operation using such a list"),
    "C15c-include-depth-leak": dict(
        property="C15", change="includeFile does not restore includeDepth when the included file fails",
        needs="32 rejected run-time include rules, then a valid one",
        first="missed", strengthened="bursts of 40 rejected rules of one kind followed by a valid one in the C15 sequences"),
    "C17c-cache-prefix-match": dict(
        property="C17", change="the table cache accepts a cached list of which the requested one is a prefix",
        needs="`X,dictionary` used first, then `X` alone in the same process",
        first="missed by C17 (caught by C14 and C08)", strengthened="C17 hyphenates with the list without its dictionary right after the list with it"),
    "C18c-feature-sort-case": dict(
        property="C18", change="cmpFeatures compares keys case-sensitively (the merge downstream is case-insensitive)",
        needs="a header key with an upper-case letter whose strcmp order differs from its strcasecmp order",
        first="caught (C18: select mismatch, getTableInfo)", strengthened=""),
    "C19c-null-resets-level": dict(
        property="C19", change="lou_registerLogCallback(NULL) also resets the threshold to INFO",
        needs="a non-INFO threshold, then registering NULL, then a message between INFO and the threshold",
        first="caught (C19: model mismatch, filter mismatch)", strengthened=""),
    "C20c-unresolved-not-counted": dict(
        property="C20", change="errorCount++ dropped where the translation part is compiled alone and a name cannot be resolved",
        needs="an entry point that compiles only the translation part (lou_getEmphClasses) with a name found nowhere",
        first="missed", strengthened="C20 also asks lou_getEmphClasses for every arrangement"),
    # ---- round 4
    "C01d-prehyph-inputpos-inlen": dict(
        property="C01", change="lou_translatePrehyphenated sizes its stand-in inputPos array by *inlen instead of *outlen",
        needs="inputHyphens given, inputPos NULL, more cells than characters",
        first="missed (the harness called the function without hyphen arrays)",
        strengthened="harness command Q: lou_translatePrehyphenated with hyphen arrays of exactly inlen / outlen bytes, in the C01 streams and (with an oracle for the output marks) in C10"),
    "C02d-back-lookback-noclamp": dict(
        property="C02", change="back_passDoTest no longer clamps pos to 0 after a look-back before the start",
        needs="a negated look-back (!_N) in a backward rule, tested within the first N cells",
        first="missed", strengthened="negated look-backs, literals and attributes in the generated multipass constructs, both directions"),
    "C03e-dontcontract-overwrite": dict(
        property="C03", change="translateString overwrites dontContract with 1 wherever the typeform says no_contract (the value 2 set by nocont is lost)",
        needs="nocont + seqdelimiter in the table, a word `chars delimiter chars nocont-string`, no_contract on a character before the delimiter",
        first="missed (no typeforms in C03; a quarter of the generated tables did not compile)",
        strengthened="C03 passes typeforms (no_contract, computer_braille, no_translate), builds inputs around the operand strings of the table's own special rules, "
                     "and the rule shapes the compiler rejects were corrected (all generated tables compile now)"),
    "C04d-free-wrong-size-reset": dict(
        property="C04", change="lou_free resets sizePosMapping2 instead of sizePosMapping3: later _lou_allocMem returns the freed NULL buffer",
        needs="a multi-stage table, lou_free, another call no larger than before: returns 0 without a message",
        first="missed by C04 (caught by C14 and C08)", strengthened="C04 calls lou_free at a few places of the streams that run with the library's own scratch sizing"),
    "C05d-trace-count-not-reset": dict(
        property="C05", change="_lou_translate resets the applied-rule counter only when no trace array is passed",
        needs="two traced calls in a row", first="caught (C05: engine mismatch, rule trace)", strengthened=""),
    "C06d-posbefore-startreplace": dict(
        property="C06", change="translatePass takes posBefore from patternMatch.startReplace instead of pos",
        needs="a pass2-4 rule with a prefix and an empty replaced range, another rule matching right behind the prefix",
        first="caught (C06: forward mismatch)", strengthened=""),
    "C07d-begphrase-shift": dict(
        property="C07", change="insertEmphasisBegin maps the phrase-begin indicator with shift -1 (copied from the end indicators)",
        needs="a capitals / emphasis passage starting at position 0, a table without a correct pass, position arrays",
        first="missed", strengthened="inputs whose passage (several capital or emphasised words) starts at the first character, for every table of the C07 run"),
    "C08d-back-indicator-posmap": dict(
        property="C08", change="backTranslateString skips the cells of begemph/endemph/begcomp/endcomp without writing their map entries",
        needs="back-translation of cells containing such an indicator, position arrays, an earlier call that left other values in the buffer",
        first="missed", strengthened="the C08 pool back-translates REAL forward output of the emphasis tables and shipped tables (with indicator cells) with position arrays; begcomp/endcomp in the generated emphasis tables"),
    "C09d-unicode-cells-need-ucbrl": dict(
        property="C09", change="_lou_backTranslate folds U+28xx input cells only when ucBrl is set",
        needs="back-translation with dotsIO without ucBrl of Unicode braille input", first="caught (C09: back-unicode-braille-not-accepted)", strengthened=""),
    "C10d-skip-map-composition": dict(
        property="C10", change="_lou_translate skips the composition of the position maps when neither inputPos nor outputPos is passed",
        needs="three or more stages, a capacity a later stage runs into, a middle stage that changed the length, both arrays NULL",
        first="missed", strengthened="C10 got multi-stage tables (shipped ones picked by their opcodes, generated ones) with capacities swept over the range where later stages stop"),
    "C11d-ucbrl-implies-dotsio-forward": dict(
        property="C11", change="forward output conversion treats ucBrl as implying dotsIO",
        needs="ucBrl without dotsIO: forward gives U+28xx, backward reads characters",
        first="missed by C11 (caught by C09)", strengthened="C11 round-trips one-to-one tables in the other output modes too (0, ucBrl, ucBrl|noUndefined, dotsIO|ucBrl, noUndefined)"),
    "C12d-backmatch-half-pattern": dict(
        property="C12", change="compileRule copies only the first half of a backmatch rule's pattern object into the image",
        needs="a backmatch rule (no shipped table has one)",
        first="missed (match patterns were not walked)", strengthened="the image walker steps through both compiled patterns of every match / backmatch rule (node types, links, loop counters, END reachable; "
                     "size of the object from its two stored lengths); match and backmatch rules in the kitchen-sink table and the generated constructs"),
    "C13d-includedepth-kept-on-failure": dict(
        property="C13", change="includeFile restores the nesting counter only when the included file compiled",
        needs="a table rejected inside nested includes, then lou_compileString(other, \"include valid\") without a new list compiled in between",
        first="missed by C13 (caught by C15's bursts)", strengthened="C13 adds a valid include at run time to another loaded table after every fault"),
    "C14d-resolver-leaks-paths": dict(
        property="C14", change="the failure branch of _lou_defaultTableResolver frees the array but not the path strings",
        needs="a list whose first member resolves and a later one does not; visible only as a leak after lou_free",
        first="missed (no such list; and run_stream ignored a sanitizer report at exit when every case had answered)",
        strengthened="operation `list with an unresolvable second member` in C14; run_stream turns a non-zero exit status after the last answer into a failure of the last case"),
    "C15d-display-pass-before-guard": dict(
        property="C15", change="lou_compileString compiles the rule for the display table first, then for the translation table (where the finalised guard sits)",
        needs="a rule with a display effect offered after the list was used for translation: returns 0 but the display table changed",
        first="missed", strengthened="after the use, C15 offers several kinds of rules (translation, sign, display, include, letter) and probes lou_charToDots / lou_dotsToChar on their characters and cells before and after"),
    "C16d-include-raw-token": dict(
        property="C16", change="the include opcode passes the raw token instead of the parsed file name",
        needs="an escape (\\s, \\xhhhh) in an include operand", first="missed",
        strengthened="packaging variant whose wrapper spells a character of each included file name as an escape and includes a file with a blank in its name"),
    "C17d-hyph-zero-digit-as-letter": dict(
        property="C17", change="compileHyphenation takes '0' for a letter of the pattern",
        needs="a pattern with an explicit 0 (hyph_fr_FR.dic, hyph_hu_HU.dic)", first="caught (C17: mismatch on hyph_fr_FR.dic)", strengthened=""),
    "C18d-info-first-list-hit": dict(
        property="C18", change="lou_getTableInfo keeps the first hit of the sorted feature list instead of the smallest line number",
        needs="a key repeated in the header whose later value sorts first", first="caught (C18: info-not-first-occurrence)", strengthened=""),
    "C19d-setloglevel-ignores-all": dict(
        property="C19", change="lou_setLogLevel ignores values <= LOU_LOG_ALL (meant as a range check)",
        needs="setting the threshold ALL after another one", first="caught (C19: model mismatch, filter mismatch)", strengthened=""),
    "C20d-cache-prefix-le": dict(
        property="C20", change="the table cache matches a requested name that is a prefix of a cached list string (<= instead of ==)",
        needs="a list loaded first, then its first member alone or a name that exists nowhere and begins the list string",
        first="missed by C20 (caught by C14)", strengthened="C20 asks, after the list, for its first member alone and for a non-existent beginning of the list string, and compares with a fresh state"),
    # ---- round 5
    "C01e-repword-len-le": dict(
        property="C01", change="isRepeatedWord's length loop reads input->chars[input->length] (<= instead of <)",
        needs="a repword/rependword rule, more letters before the separator than behind it, the input ending right behind them (xab-ab), an exactly sized input array",
        first="missed (no repword rule in the tables of the memory streams)",
        strengthened="the main-pass opcodes with handlers of their own (repword, nocont, compbrl, repeated, joinword, numeric mode ...) are in the generated tables of C01/C02 too, "
                     "and every table gets inputs built around the operand strings of its own special rules (lib/safety.special_operands), also for shipped tables"),
    "C02e-insertspace-mark-first": dict(
        property="C02", change="back-translation's insertSpace writes the spacing mark before it knows that the blank fits",
        needs="spacing passed to back-translation, a joinword/joinnum rule matched right before a non-blank cell, outlen exactly full",
        first="missed (the harness sized spacing and typeform for back-translation by max(inlen, outlen); no capacity sweep)",
        strengthened="spacing and typeform of back-translation are exactly outlen long in the harness; C01/C02 run a few cases per table at EVERY capacity with all optional arrays; braille inputs built from the table's special rules"),
    "C03f-compbrl-scan-from-wordstart": dict(
        property="C03", change="doCompbrl scans for the end of the word from the word start instead of from the current position",
        needs="noUndefined mode, an undefined character at the very start followed by a word with a compbrl/literal string, a table without begcomp/endcomp",
        first="caught (C03: hang at site 2)", strengthened=""),
    "C04e-pass-action-one-cell-guard": dict(
        property="C04", change="passDoAction tests room for one cell instead of the whole string/dots action",
        needs="a multi-cell action in the last pass and a capacity between L and L+n",
        first="missed by C04 (C01 catches it since the capacity sweep)", strengthened="C04 sweeps a few forward cases per table over every capacity too"),
    "C05e-numsign-unchecked": dict(
        property="C05", change="insertNumberSign ignores the result of the emission",
        needs="a number sign of two or more cells and a capacity where it does not fit but the digit does", first="caught (C05: engine mismatch)", strengthened=""),
    "C06e-copychars-ge": dict(
        property="C06", change="copyCharacters refuses a copy that fills the buffer exactly (>= instead of >)",
        needs="cells in front of a bracket or a * action ending exactly at outlen", first="caught (C06: forward mismatch)", strengthened=""),
    "C07e-swapreplace-start": dict(
        property="C07", change="swapReplace maps every character of a replaced run to the start of the run",
        needs="a quantified swapcc in a correct rule, a run of two or more class members, position arrays",
        first="missed (the identity clause was only a theorem about F)",
        strengthened="family of generated tables that map each character to one cell although rules are at work (quantified swap classes in correct and pass2): identity maps and unchanged cursor checked for every cursor position"),
    "C08e-emphasisbuffer-kept": dict(
        property="C08", change="_lou_allocMem keeps the emphasis buffer between calls and clears only srcmax of its srcmax+4 entries",
        needs="two calls, the second at least 1024 long (with the exact-scratch hook: any length)", first="caught (C08: crash in history, exact mode)", strengthened=""),
    "C09e-compbrlahead-logical-and": dict(
        property="C09", change="noCompbrlAhead tests `mode && (...)` instead of `mode & (...)`: any non-zero mode counts as compbrlAtCursor",
        needs="a cursor in the word behind a largesign/joinword word, dotsIO (or another mode bit)",
        first="missed (C09 passed no cursor)", strengthened="C09 cases carry a cursor (the same in all modes, the returned one compared too), some aimed at the word behind the table's largesign/joinword words"),
    "C10e-prehyph-partial-returns-0": dict(
        property="C10", change="lou_translatePrehyphenated returns 0 on partly consumed input also without hyphen arrays",
        needs="no hyphen arrays and a partial translation", first="caught (C10: wrapper function differs)", strengthened=""),
    "C11e-back-dotsio-low-byte": dict(
        property="C11", change="_lou_backTranslate keeps only the low byte of a dotsIO input cell",
        needs="a one-to-one table with cells that differ in a virtual dot (9-f)", first="caught (C11: backward mismatch)", strengthened=""),
    "C12e-display-tablesize-stale": dict(
        property="C12", change="allocateSpaceInDisplayTable records the old capacity after growing: the next growth zeroes everything stored since",
        needs="a display table that grows at run time (> 1124 records, or every allocation with the no-slack hook)",
        first="missed by C12 (the display image was not walked; C15 catches it since its display probes)",
        strengthened="the walker follows both hash tables of the display image (records inside the used part, in the bucket of their key, no cycle) and the Coq checker decides the facts"),
    "C13e-gettable-no-null-check": dict(
        property="C13", change="lou_getTable returns the cached translation table although compiling the display part failed",
        needs="a fault only the display compilation sees, a translation-only compilation (lou_getEmphClasses) in between",
        first="missed", strengthened="faults that only the display part rejects in the enumeration; after each fault lou_getEmphClasses and lou_checkTable once more (verdict must not change)"),
    "C14e-passvars-memset-bytes": dict(
        property="C14", change="_lou_resetPassVariables clears NUMVAR bytes instead of NUMVAR ints (the mechanism of C08-passvars-memset, offered for C14)",
        needs="a variable with index >= 13 left set, then another call / list / lou_free",
        first="caught at proof level only (pass_variables_fully_reset; C08 gives a concrete history)", strengthened="C14 got a list using variables across the index range, used before and after other operations and lou_free"),
    "C15e-free-display-chain-guard": dict(
        property="C15", change="lou_free tests the (already cleared) translation chain before freeing the display chain: display tables stay cached",
        needs="a run-time rule with a display effect, lou_free, the same list again",
        first="missed", strengthened="after the additions C15 calls lou_free and compares translation AND display conversions with the bare files; the as-if-written comparison covers lou_charToDots/lou_dotsToChar and character-mode calls"),
    "C16e-cr-ends-line-peek": dict(
        property="C16", change="_lou_getALine treats CR as a line end and peeks one raw byte for the LF",
        needs="UTF-16LE with CRLF", first="caught (C16: reader mismatch)", strengthened=""),
    "C17e-braille-hyphens-textlen": dict(
        property="C17", change="braille-mode lou_hyphenate initialises hyphens[0..textLen) instead of [0..inlen)",
        needs="mode 1 and braille of another length than the text (contractions, indicators)",
        first="missed", strengthened="C17 hyphenates real forward output of contracted / capitalised words in braille mode with an exactly sized array and checks the shape of the marks"),
    "C18e-locale-after-language-region": dict(
        property="C18", change="analyzeTable records the region of a locale line only when no language was seen before",
        needs="a header with language before locale and no region line, a query on region",
        first="missed", strengthened="tables with a language and a locale line in either order and no region; region queries for the tags of table 0"),
    "C19e-invalid-mode-logprint": dict(
        property="C19", change="_lou_backTranslate reports an invalid mode through lou_logPrint (default sink) instead of the dispatcher",
        needs="back-translation with an invalid mode", first="missed (the message is missing from every capture alike)",
        strengthened="back-translation producers; an expectation for invalid-mode calls (one error-level message each at threshold ALL); the default sink is redirected and must stay empty while a callback is registered"),
    "C20e-first-name-own-base": dict(
        property="C20", change="the first name of a list is resolved against its own directory part",
        needs="a top-level name with a relative directory part and a same-named file below that directory", first="caught (C20: precedence mismatch)", strengthened=""),
    # ---- round 6 (eight properties)
    "C01f-groupend-guard-gt": dict(
        property="C01", change="the }name action of passDoAction tests `>` instead of `>=` before storing its cell",
        needs="a grouping rule, a last-pass rule emitting }name, the capacity used up exactly there", first="caught (C01: ASan in _lou_translate, capacity sweep)", strengthened=""),
    "C02f-unknowndots-buffer-16": dict(
        property="C02", change="_lou_unknownDots' static buffer shrunk to 16 bytes",
        needs="back-translation (not noUndefined) of an undefined cell with 14 of the 15 dots set",
        first="missed (braille inputs carried dots 1-8 only)", strengthened="cells with virtual dots up to all fifteen in the braille inputs"),
    "C04f-prehyph-inpos-outpos": dict(
        property="C04", change="lou_translatePrehyphenated compares the input position with the previous OUTPUT index",
        needs="hyphen arrays and text whose braille runs two or more cells ahead (capitals, numbers)",
        first="missed by C04 (C10 has an oracle for this function)", strengthened="C04 calls lou_translatePrehyphenated with hyphen arrays, each paired with the same call through lou_translate: 0 only where the twin fails or its positions do not ascend"),
    "C07f-prehyph-private-inputpos": dict(
        property="C07", change="lou_translatePrehyphenated always translates into a private inputPos array: the caller's is never written",
        needs="hyphen arrays together with a caller-supplied inputPos", first="missed", strengthened="a share of C07's forward calls go through lou_translatePrehyphenated with hyphen arrays"),
    "C12f-finalized-guard-dropped": dict(
        property="C12", change="finalizeCharacter loses its `finalized` test again (the defect fixed by 9bd93a10 re-introduced)",
        needs="a base chain of depth two", first="caught (C12: image inconsistent, references / linked-list cycle)", strengthened=""),
    "C13f-basecycle-counter-restart": dict(
        property="C13", change="finalizeCharacter restarts the loop-detection counter in every recursive call",
        needs="base rules forming a ring of length >= 2", first="caught (C13: compile crash in finalizeCharacter)", strengthened=""),
    "C15f-cache-prefix-translation": dict(
        property="C15", change="the translation-table cache matches a name that is a prefix of a cached list string (the mechanism of C20d/C17c, offered for C15)",
        needs="a longer list loaded first, then lou_compileString on the list that is its leading substring",
        first="caught at proof level only (cache keyed by the whole string)", strengthened="every C15 sequence first loads and uses the list `base,other`: concrete add-result / not-as-if-written replays"),
    "C19f-validmode-mask": dict(
        property="C19", change="_lou_isValidMode accepts every bit below partialTrans<<1, i.e. also the unused bits 8 and 16",
        needs="a mode containing 8 or 16: no error message any more", first="missed (the invalid modes of the pool were 99999 and 262144)",
        strengthened="modes with the two unused bits and their combinations in the pool; which modes must produce the message is decided from the documented set of bits"),
    # ---- round 7 (six properties, five kept)
    "C03g-back-posincremented-early": dict(
        property="C03", change="backTranslateString sets posIncremented = 1 before back_selectRule instead of behind it: the guard for non-advancing context rules never fires",
        needs="a backward context rule with zero-width brackets and an action that writes nothing", first="caught (C03: hang at site 9)", strengthened=""),
    "C05f-eq-rule-putcharacters": dict(
        property="C05", change="the replacement step of `=` rules emits all characters at the rule's start position",
        needs="a multi-character `=` rule; position arrays, or a capacity ending inside the rule", first="caught (C05: engine mismatch)", strengthened=""),
    "C08f-cache-prefix-translation": dict(
        property="C08", change="the translation-table cache matches a requested name that is a prefix of a cached list string (the mechanism of C20d/C15f, offered for C08)",
        needs="a longer list used first, then the list that is its leading substring, the two translating differently",
        first="caught at proof level only", strengthened="the C08 pool has a list and a longer list beginning with its name that translates differently, and scenarios using them in that order from an empty cache"),
    "C10f-repeated-cursor-break": dict(
        property="C10", change="the loop that skips further repetitions of a `repeated` rule stops at the repetition holding the cursor",
        needs="a repeated rule, a run of at least two repetitions, cursorPos inside the second or a later one",
        first="missed (no runs of repeated characters among C10's inputs)", strengthened="every fourth C10 input contains runs of one repeated character (the cursor sweep then visits every position of the run)"),
    "C14f-errorcount-reset-removed": dict(
        property="C14", change="compileString no longer resets the compiler's error counter (the defect fixed by b1485cc7 re-introduced)",
        needs="a failed compilation, then lou_compileString(list, \"include valid\") on a cached, unfinalised list",
        first="missed by C14 (C15 catches it with its bursts)", strengthened="operation `add a valid include to A` in C14, in sequences behind each failing operation"),
    "C16f-list-base-resolved-path": dict(
        property="C16", change="the later members of a table list are resolved against the path where the first member was FOUND instead of its name as given",
        needs="a first member found only through the search path and a later member whose name exists both in the working directory and next to the first one",
        first="missed by C16 (caught by C20: precedence mismatch, translation-only compile) - the change is one of name resolution, which C16's packaging variants (absolute names) do not vary",
        strengthened="none for C16: which file a name denotes is C20's property, and its exhaustive arrangement reports the change with a concrete replay"),
}


def main():
    log = Path(sys.argv[1]).read_text() if len(sys.argv) > 1 else ""
    results = {}
    cur = None
    for ln in log.splitlines():
        if ln.startswith("## "):
            cur = ln[3:].strip()
            results[cur] = {}
        elif cur and re.match(r"^C\d\d exit=", ln):
            chk, rest = ln.split(" ", 1)
            code = int(rest.split()[0].split("=")[1])
            keys = re.findall(r"replays/(C\d\d-[^ |]+?)-\d+\.json( no-failing-input-found)?", rest)
            results[cur][chk] = dict(exit=code, violations=[k + (" (no-failing-input-found)" if nf else "") for k, nf in keys])
    rows = []
    for name, m in SEEDS.items():
        d = HERE / "seeded" / name
        if not d.exists():
            continue
        conf = json.loads((d / "confirm.json").read_text()) if (d / "confirm.json").exists() else {}
        meta = dict(property=m["property"], name=name, change=m["change"], needs_to_manifest=m["needs"],
                    confirmed_in_scratch_copy=conf.get("confirmed"), confirmed_against_repo_head=conf.get("repo_head"),
                    what_was_run=["tools/seedconfirm.py (fresh scratch copy of /repo: demo passes unchanged / fails with the change, build without "
                                  "new warnings, full test suite = the 6 baseline failures)",
                                  "tools/seedtest.sh seeded/%s/patch.diff <checks> (git -C /repo apply, ./check <id> --tier quick, git -C /repo checkout -- .)" % name],
                    first_result=m["first"], strengthened=m["strengthened"], final_results=results.get(name, {}))
        (d / "meta.json").write_text(json.dumps(meta, indent=1) + "\n")
        fin = "; ".join("%s: %s" % (c, ("**caught** (" + ", ".join(v["violations"][:2]) + ")") if v["exit"] == 1 else "not reported")
                        for c, v in results.get(name, {}).items())
        rows.append("| `%s` | %s | %s | %s | %s |" % (name, m["property"], m["needs"], m["first"] + ((" → " + m["strengthened"]) if m["strengthened"] else ""), fin))
    print("| seed | property | needs to manifest | first run → what was strengthened | final run (quick tier, seed 1) |")
    print("|---|---|---|---|---|")
    print("\n".join(rows))


main()
