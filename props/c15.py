"""C15 — rules added at run time behave as if written in the table.
PROVE: Properties/C15.v (append law, finalised tables reject, invalid rules change nothing, lou_free drops additions).
CORRESPOND: sequences of 0-200 generated rules (definitions, translation rules, multipass rules, display rules; some invalid)
 added through lou_compileString to empty / generated / shipped bases, interleaved with lookups that do not finalise;
 translations in both directions compared with a freshly compiled file containing base + accepted rules."""
import os
import shutil

import common
import tablegen
import trans
from common import Rng, REPO

PID = "C15"


def gen_rules(r, n, incdir=None):
    letters = [ord(c) for c in "abcdefgh"]
    cells = list(range(1, 64))
    rules, used = [], set()
    for _ in range(n):
        k = r.below(12)
        if incdir is not None and r.chance(0.08):
            # a rule that pulls in a whole (valid) file: it runs the file compiler with its own error accounting
            k2 = r.below(6)
            f = incdir / ("inc%d.uti" % k2)
            if not f.exists():
                f.write_text("sign %s %s\nalways %s%s %s\n" % (chr(0x2460 + k2), tablegen.dots_text(r.choice(cells)), chr(r.choice(letters)), chr(r.choice(letters)),
                                                                 tablegen.dots_text(r.choice(cells))))
            rules.append(("include %s" % f, True))
            continue
        if k < 3:
            c = r.choice(letters + [ord(x) for x in "ijkl"] + [r.range(0x100, 0x400)])
            rules.append(("%s %s %s" % (r.choice(["letter", "lowercase", "punctuation", "sign"]), tablegen.char_text(c), tablegen.dots_text(r.choice(cells))), True))
        elif k < 7:
            s = "".join(chr(r.choice(letters)) for _ in range(r.range(1, 4)))
            op = r.choice(["always", "word", "begword", "endword", "midword", "partword", "sufword", "prfword"])
            rules.append(("%s %s %s" % (op, s, "-".join(tablegen.dots_text(r.choice(cells)) for _ in range(r.range(1, 2)))), True))
        elif k == 7:
            rules.append(("noback pass2 @%s @%s" % (tablegen.dots_text(r.choice(cells)), tablegen.dots_text(r.choice(cells))), True))
        elif k == 8:
            rules.append(("display %s %s" % (chr(r.range(33, 126)).replace("\\", "/"), tablegen.dots_text(r.choice(cells))), True))
        elif k == 9:
            rules.append(("noback correct \"%s\" \"%s\"" % (chr(r.choice(letters)) + chr(r.choice(letters)), chr(r.choice(letters))), True))
        else:
            rules.append((r.choice(["always ab 9z", "nosuchopcode a 1", "letter ab 1", "always", "always ab", "pass2 @1", "include", "display a",
                                    # first words that mean something at the top of a FILE (encoding headers of dictionaries)
                                    "UTF-8 x 1", "ISO-8859-1", "UTF-8", "ISOLATIN a 1"]), False))
    return rules


def run(chk):
    rng = Rng(chk.seed).fork(PID)
    gen = common.gen_stage()
    prove = common.prove_stage(PID)
    common.model_driver()
    exe = common.build_harness("h_trans")
    env = {"LOUIS_TABLEPATH": str(REPO / "tables")}
    quick = chk.tier == "quick"
    work = common.BUILD / ("work-c15-%d" % os.getpid())
    shutil.rmtree(work, ignore_errors=True)
    work.mkdir(parents=True)
    nseq = 120 if quick else 3000
    for si in range(nseq):
        r = rng.fork(("s", si))
        kind = r.below(4)
        base = work / ("base%d.utb" % si)
        if kind == 0:
            base.write_text("space \\s 0\n")
        elif kind == 3:
            base.write_text("include %s\n" % (REPO / "tables" / r.choice(["en-us-comp6.ctb", "en-us-g1.ctb", "de-g0.utb"])))
        else:
            entries, alphabet = tablegen.gen_c05_table(r)
            base.write_text(tablegen.table_text(entries))
        n = r.choice([0, 3, 10, 40, 200]) if not quick else r.choice([0, 3, 10, 40, 120])
        rules = gen_rules(r, n, incdir=work)
        if r.chance(0.15):
            # a burst of rejected rules of one kind, then a valid one of the same kind: whatever a rejection leaves behind
            # (counters, nesting levels) adds up
            bad_inc = work / "incbad.uti"
            bad_inc.write_text("nosuchopcode x 1\n")     # (valid lines in front of the error would take effect: not an invalid RULE any more)
            good_inc = work / "incgood.uti"
            good_inc.write_text("sign \\x2469 12345\n")
            burst = r.choice([[("include %s" % bad_inc, False)] * 40 + [("include %s" % good_inc, True)],
                              [("include %s/nosuchfile.uti" % work, False)] * 40 + [("include %s" % good_inc, True)],
                              [("always", False)] * 40 + [("always ab 123", True)]])
            at = r.range(0, len(rules))
            rules = rules[:at] + burst + rules[at:]
            chk.tally("sequences_with_a_burst_of_rejected_rules")
        other = work / ("other%d.utb" % si)
        other.write_text("space \\s 0\nletter a 1\nletter b 12\n")
        inputs = [[r.choice([97, 98, 99, 100, 101, 102, 32, 46]) for _ in range(r.range(1, 16))] for _ in range(8)]
        tcases = [trans.case_line("T", 4, i, 6 * len(i) + 10, presence=8) for i in inputs] + \
                 [trans.case_line("B", 4, [0x8000 | r.range(0, 63) for _ in range(r.range(1, 10))], 60) for _ in range(4)]
        # the display side of the additions (display rules, and the mapping every one-cell definition adds): character -> cell
        # and cell -> character over printable ASCII, the characters the generated rules may define, and all 6-dot cells
        dchars = list(range(33, 127)) + list(range(0x100, 0x120)) + list(range(0x2460, 0x2466))
        tcases += [trans.case_line("C", 0, dchars, len(dchars)), trans.case_line("D", 0, [0x8000 | v for v in range(64)], 64),
                   trans.case_line("T", 0, inputs[0], 6 * len(inputs[0]) + 10), trans.case_line("B", 0, [r.range(33, 126) for _ in range(6)], 40)]
        # a longer list that begins with the name of the base is loaded (and used) first: additions to the base belong to the
        # base alone, whatever else is in the cache
        lines = ["Y %s,%s ;; %s" % (base, other, tcases[0])]
        lines += ["K %s | %s" % (other, "always ab 1")]      # another list: must not be affected
        accepted = []
        exp_ret = []
        for text, ok in rules:
            lines.append("K %s | %s" % (base, text))
            exp_ret.append(ok)
        nadd = len(lines)
        lines += ["Y %s ;; %s" % (base, c) for c in tcases]
        # finalised now: every further rule must be rejected AND leave no trace - neither in the translation nor in the
        # display mappings (probed with lou_charToDots / lou_dotsToChar on the characters and cells the late rules name)
        late_inc = work / "inclate.uti"
        late_inc.write_text("sign \\x2473 1234568\n")
        late_rules = ["always abc 1", "sign \\x2470 1234567", "display \\x2471 12345678", "include %s" % late_inc, "letter \\x2472 2345678"]
        probes = ["Y %s ;; %s" % (base, trans.case_line("C", 0, [0x2470, 0x2471, 0x2472, 0x2473, 97], 5)),
                  "Y %s ;; %s" % (base, trans.case_line("D", 0, [0x807f, 0x80ff, 0x80fe, 0x80bf, 0x8001], 5))]
        lines += probes
        lines += ["K %s | %s" % (base, t) for t in late_rules]
        lines += probes
        lines += ["Y %s ;; %s" % (base, tcases[0])]
        # lou_free drops every addition, the display half included: afterwards the list is what its files say
        lines += ["Y %s ;; %s" % (other, trans.case_line("T", 4, [97, 98], 10))]
        nfree = len(lines)
        lines += ["F"] + ["Y %s ;; %s" % (base, c) for c in tcases[-4:] + tcases[:2]]
        # every other sequence with the image moved to a fresh block on every arena allocation (hook): pointers into the
        # image kept across an allocation are stale at once, not only when a growth happens to fall on that allocation
        # ... and every third one with tables created and grown WITHOUT slack (hook), so that every allocation goes through
        # the library's own growth path (realloc, cache update) instead
        marena = (0, 1, -1)[si % 3]
        chk.tally({0: "sequences_with_real_growth_only", 1: "sequences_with_image_moved_on_every_allocation",
                   -1: "sequences_growing_on_every_allocation"}[marena])
        outs = common.run_stream(exe, ["e 1", "m %d" % marena], lines, env=env, timeout=900)
        key = (si,)
        if any(isinstance(o, tuple) for o in outs):
            chk.count(key)
            o = [o for o in outs if isinstance(o, tuple)][0]
            chk.violation("crash", "adding rules / translating died: %s" % o[1][:200], dict(base=base.read_text(), rules=[t for t, _ in rules]))
            continue
        rets = [int(o.split()[1]) for o in outs[2:nadd]]
        accepted = [t for (t, ok), ret in zip(rules, rets) if ret == 1]
        chk.count(key, nontrivial=len(accepted) >= 2, n=len(lines))
        chk.tally("rules_offered", len(rules))
        chk.tally("rules_accepted", len(accepted))
        wrong = [(t, ret) for (t, ok), ret in zip(rules, rets) if (ret == 1) != ok]
        if wrong:
            chk.violation("add-result", "lou_compileString accepted/rejected unexpectedly: %s" % wrong[:3], dict(base=base.read_text(), rules=[t for t, _ in rules]))
            continue
        # the reference: a file with base + accepted rules
        full = work / ("full%d.utb" % si)
        full.write_text(base.read_text() + "".join(t + "\n" for t in accepted))
        ref = common.run_stream(exe, ["e 1"], ["Y %s ;; %s" % (full, c) for c in tcases], env=env, timeout=600)
        got = outs[nadd:nadd + len(tcases)]
        sig = lambda o: tuple(p.strip() for p in o.split("|")[:4]) if not isinstance(o, tuple) else ("CRASH",)
        bad = [(c, a, b) for c, a, b in zip(tcases, got, ref) if sig(a) != sig(b)]
        if bad:
            chk.violation("not-as-if-written", "after %d run-time additions the result differs from the table file with the rules appended: %s vs %s"
                          % (len(accepted), str(sig(bad[0][1]))[:200], str(sig(bad[0][2]))[:200]),
                          dict(base=base.read_text(), accepted_rules=accepted, case_line=bad[0][0]))
            continue
        p0 = nadd + len(tcases)
        late = outs[p0 + 2:p0 + 2 + len(late_rules)]
        if any(int(o.split()[1]) != 0 for o in late):
            chk.violation("finalized-accepts", "lou_compileString returned 1 after the table had been used for translation: %s"
                          % [t for t, o in zip(late_rules, late) if int(o.split()[1]) != 0], dict(base=base.read_text()))
            continue
        after = outs[p0 + 2 + len(late_rules):p0 + 4 + len(late_rules)]
        if [sig(o) for o in after] != [sig(o) for o in outs[p0:p0 + 2]]:
            chk.violation("rejected-addition-had-effect", "rules refused because the table is finalised changed the display mappings: lou_charToDots / "
                          "lou_dotsToChar before %s, after %s" % ([sig(o)[1] for o in outs[p0:p0 + 2]], [sig(o)[1] for o in after]),
                          dict(base=base.read_text(), accepted_rules=accepted, late_rules=late_rules, commands=lines[p0:p0 + 4 + len(late_rules)]))
            continue
        if sig(outs[p0 + 4 + len(late_rules)]) != sig(got[0]):
            chk.violation("rejected-addition-had-effect", "a rejected addition changed the result", dict(base=base.read_text(), accepted_rules=accepted))
            continue
        afterfree = outs[nfree + 1:nfree + 7]
        reffree = common.run_stream(exe, ["e 1"], ["Y %s ;; %s" % (base, c) for c in tcases[-4:] + tcases[:2]], env=env, timeout=600)
        badf = [(c, a, b) for c, a, b in zip(tcases[-4:] + tcases[:2], afterfree, reffree) if sig(a) != sig(b)]
        if badf:
            chk.violation("additions-survive-free", "after lou_free the list does not behave like its files any more (%d run-time additions before): %s vs %s"
                          % (len(accepted), str(sig(badf[0][1]))[:200], str(sig(badf[0][2]))[:200]),
                          dict(base=base.read_text(), accepted_rules=accepted, case_line=badf[0][0]))
            continue
        oth = outs[nfree - 1]
        exp_other = common.run_stream(exe, ["e 1"], ["K %s | always ab 1" % other, "Y %s ;; %s" % (other, trans.case_line("T", 4, [97, 98], 10))], env=env)
        if sig(oth) != sig(exp_other[-1]):
            chk.violation("other-list-affected", "additions to one list changed another list", dict(base=base.read_text(), accepted_rules=accepted))
            continue
        chk.cov["traces_validated_against_impl"] += len(tcases) + 3
        if len(accepted) >= 3:
            chk.sample(dict(base=base.read_text().split("\n")[:6], accepted=accepted[:6], offered=len(rules)), cap=3)
    shutil.rmtree(work, ignore_errors=True)
    chk.cov["rule"] = ("per sequence: a base (empty / generated F table / include of a shipped table) + 0-200 generated rules (definitions, translation, "
                       "pass2, correct, display; ~17% invalid) added one by one through lou_compileString, then 12 forward/backward translations "
                       "compared with a freshly compiled file base + accepted rules; late addition after use; a second list; distinct = sequence")
    chk.cov["gen_status"] = gen
    chk.cov["checker_cmd"] = "make -C coq Properties/C15.vo (coqc 8.16.1)"
    chk.cov["trusted_base"] = common.TRUSTED_COMMON
    if not prove["ok"] and not chk.violations:
        chk.violation("proof", "Properties/%s.v no longer checks: %s" % (PID, prove["failed"][:5]),
                      dict(no_failing_input=True, broken=prove["failed"], log=prove["log"][-1500:], gen=gen))
    return chk.finish(prove)
