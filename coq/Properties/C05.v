(* C05 — main-pass rule choice: longest match, then table order.  Statements only.
   t ranges over ALL entry lists, inp over ALL strings, cap over all capacities.            *)
From Coq Require Import List ZArith Bool.
From Lou Require Import Gen.GConst Gen.GChain Model.Table Model.Ref Model.Compile Model.Engine.
From Lou Require Import Proofs.EngineProofs.
Import ListNotations.
Local Open Scope Z_scope.

(* the implementation-shaped selection (hash bucket of the first two characters, walked in chain
   order with the collision check, then the character's own chain) over the structure built with
   the insertion conditions REGENERATED from compileTranslationTable.c picks exactly the rule the
   reference picks over the plain entry list *)
Theorem select_refines : forall t mode inp pos,
  select_impl t (compile t) mode inp pos = select_ref t mode inp pos.
Proof. exact EngineProofs.select_refines_l. Qed.
Print Assumptions select_refines.

(* ... hence cells, consumed input, per-cell positions, applied-rule trace and the result of the
   capacity back-off are equal for every table, input, mode and capacity *)
Theorem translate_refines : forall t mode inp cap,
  translate_impl t mode inp cap = translate_ref t mode inp cap.
Proof. exact EngineProofs.translate_refines_l. Qed.
Print Assumptions translate_refines.

(* what the reference means: the chosen rule qualifies, and it is preferred (longest; then not
   `always'; then defined first; single-character rules before the character's definition) to
   every other rule that qualifies at that position *)
Theorem select_ref_qualifies : forall t mode inp pos ie,
  0 <= pos < len inp ->
  select_ref t mode inp pos = Some ie -> qualifies t mode inp pos ie.
Proof. exact EngineProofs.select_ref_qualifies_l. Qed.

Theorem select_ref_most_preferred : forall t mode inp pos ie ie',
  0 <= pos < len inp ->
  select_ref t mode inp pos = Some ie -> qualifies t mode inp pos ie' -> ie' <> ie ->
  lex4_lt (rank ie) (rank ie').
Proof. exact EngineProofs.select_ref_most_preferred_l. Qed.
Print Assumptions select_ref_most_preferred.

Theorem select_ref_none_iff : forall t mode inp pos,
  0 <= pos < len inp ->
  (select_ref t mode inp pos = None <-> forall ie, ~ qualifies t mode inp pos ie).
Proof. exact EngineProofs.select_ref_none_iff_l. Qed.

(* the engine never runs out of its fuel: every step consumes at least one character *)
Theorem engine_total : forall t mode inp cap,
  translate_ref t mode inp cap <> TOutOfFuel.
Proof. exact EngineProofs.engine_total_l. Qed.

(* reported lengths are within the supplied ones (C04, fragment F) *)
Theorem lengths_in_range : forall t mode inp cap consumed cells pm trace,
  0 <= cap ->
  translate_ref t mode inp cap = TOk consumed cells pm trace ->
  0 <= consumed <= len inp /\ len cells <= cap /\ length pm = length cells.
Proof. exact EngineProofs.lengths_in_range_l. Qed.
Print Assumptions lengths_in_range.

(* non-vacuity: a table where length, `always' and definition order all matter *)
Example choice_example :
  let t := [ mkEntry CTO_Letter [97] [32769] false false; mkEntry CTO_Letter [98] [32770] false false;
             mkEntry CTO_Space [32] [32768] false false;
             mkEntry CTO_Always [97; 98] [32771] false false; mkEntry CTO_WholeWord [97; 98] [32772] false false;
             mkEntry CTO_Always [97; 98; 97] [32773] false false ] in
  translate_ref t 0 [97; 98; 32; 97; 98; 97; 98] 100
  = TOk 7 [32772; 32768; 32773; 32770] [0; 2; 3; 6] [5; 3; 6; 2].
Proof. vm_compute. reflexivity. Qed.
