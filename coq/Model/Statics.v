(* classification of every persistent variable of the inventory Gen/GStatics.statics *)
From Coq Require Import List String Bool.
From Lou Require Import Gen.GStatics Model.Api.
Import ListNotations.
Local Open Scope string_scope.

Definition classification : list (string * string * sclass) := [
  ("commonTranslationFunctions.c", "passVariables", ResetBeforeUse);
  ("compileTranslationTable.c", "scratchBuf", OutputOnly);
  ("compileTranslationTable.c", "lastOpcode", ResetBeforeUse);        (* search hint, names unique: no observable effect *)
  ("compileTranslationTable.c", "definition", ResetBeforeUse);
  ("compileTranslationTable.c", "name", ResetBeforeUse);
  ("compileTranslationTable.c", "substitutions", ResetBeforeUse);
  ("compileTranslationTable.c", "passRuleChars", ResetBeforeUse);
  ("compileTranslationTable.c", "passRuleDots", ResetBeforeUse);
  ("compileTranslationTable.c", "characterClassNames", ConstantData);
  ("compileTranslationTable.c", "dataPathPtr", Configuration);
  ("compileTranslationTable.c", "dataPath", Configuration);
  ("compileTranslationTable.c", "destSpacing", SizedScratch);
  ("compileTranslationTable.c", "displayTableChain", CompleteKeyCache);
  ("compileTranslationTable.c", "emphasisBuffer", SizedScratch);
  ("compileTranslationTable.c", "errorCount", ResetBeforeUse);
  ("compileTranslationTable.c", "fileCount", ResetBeforeUse);
  ("compileTranslationTable.c", "opcodeLengths", IdempotentInit);
  ("compileTranslationTable.c", "opcodeNames", ConstantData);
  ("compileTranslationTable.c", "passbuf", SizedScratch);
  ("compileTranslationTable.c", "posMapping1", SizedScratch);
  ("compileTranslationTable.c", "posMapping2", SizedScratch);
  ("compileTranslationTable.c", "posMapping3", SizedScratch);
  ("compileTranslationTable.c", "reservedAttributeNames", ConstantData);
  ("compileTranslationTable.c", "sizeDestSpacing", SizedScratch);
  ("compileTranslationTable.c", "sizePassbuf", SizedScratch);
  ("compileTranslationTable.c", "sizePosMapping1", SizedScratch);
  ("compileTranslationTable.c", "sizePosMapping2", SizedScratch);
  ("compileTranslationTable.c", "sizePosMapping3", SizedScratch);
  ("compileTranslationTable.c", "sizeTypebuf", SizedScratch);
  ("compileTranslationTable.c", "tableResolver", Configuration);
  ("compileTranslationTable.c", "translationTableChain", CompleteKeyCache);
  ("compileTranslationTable.c", "typebuf", SizedScratch);
  ("compileTranslationTable.c", "warningCount", ResetBeforeUse);
  ("compileTranslationTable.c", "wordBuffer", SizedScratch);
  ("compileTranslationTable.c", "file", ResetBeforeUse);
  ("compileTranslationTable.c", "version", ConstantData);
  ("compileTranslationTable.c", "info", ResetBeforeUse);
  ("compileTranslationTable.c", "includeDepth", ResetBeforeUse);     (* balanced ++/-- around compileFile, reset by compileTable *)
  ("logging.c", "initialLogFileName", Configuration);
  ("logging.c", "logCallbackFunction", Configuration);
  ("logging.c", "logFile", Configuration);
  ("logging.c", "logLevel", Configuration);
  ("lou_backTranslateString.c", "pseudoRule", ResetBeforeUse);
  ("lou_backTranslateString.c", "stringBufferPool", IdempotentInit);
  ("lou_backTranslateString.c", "notFound", ResetBeforeUse);
  ("lou_backTranslateString.c", "stringBuffers", ResetBeforeUse);
  ("lou_backTranslateString.c", "stringBuffersInUse", ResetBeforeUse);
  ("pattern.c", "translation_direction", ResetBeforeUse);            (* set by both main-pass functions before their first loop: Properties/C08 direction_is_set_by_every_main_pass *)
  ("lou_translateString.c", "appliedRules", ResetBeforeUse);
  ("lou_translateString.c", "appliedRulesCount", ResetBeforeUse);
  ("lou_translateString.c", "maxAppliedRules", ResetBeforeUse);
  ("lou_translateString.c", "stringBufferPool", IdempotentInit);
  ("lou_translateString.c", "pseudoRule", ResetBeforeUse);
  ("lou_translateString.c", "notFound", ResetBeforeUse);
  ("lou_translateString.c", "stringBuffers", ResetBeforeUse);
  ("lou_translateString.c", "stringBuffersInUse", ResetBeforeUse);
  ("lou_translateString.c", "stringStore", ResetBeforeUse);
  ("metadata.c", "fileName", ResetBeforeUse);
  ("metadata.c", "tableIndex", Configuration);
  ("metadata.c", "subtag", ResetBeforeUse);
  ("metadata.c", "value", IdempotentInit);
  ("pattern.c", "space", ConstantData);
  ("pattern.c", "spaces", ConstantData);
  ("pattern.c", "noChar", ResetBeforeUse);
  ("pattern.c", "noDots", ResetBeforeUse);
  ("utils.c", "scratchBuf", OutputOnly);
  ("utils.c", "buffer", OutputOnly);
  ("utils.c", "character", ResetBeforeUse);
  ("utils.c", "offset", ResetBeforeUse)
].

Definition classified (file name : string) : bool :=
  existsb (fun c => let '(f, n, _) := c in String.eqb f file && String.eqb n name) classification.

(* scratch pointers and sizes that lou_free must reset *)
Definition must_be_reset_by_free : list string := [
  "translationTableChain"; "displayTableChain"; "typebuf"; "sizeTypebuf"; "wordBuffer"; "emphasisBuffer";
  "destSpacing"; "sizeDestSpacing"; "passbuf"; "sizePassbuf"; "posMapping1"; "sizePosMapping1";
  "posMapping2"; "sizePosMapping2"; "posMapping3"; "sizePosMapping3" ].
