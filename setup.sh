#!/bin/sh
# Builds the framework from files on disk only (offline): generated facts, Coq development,
# extracted model + driver, and the instrumented library.
set -e
cd "$(dirname "$0")"
python3 - <<'PY'
import sys
sys.path.insert(0, "lib")
import common
st = common.gen_stage()
print("gen:", st)
ok, log = common.coq_make([])
print(log[-3000:])
if not ok:
    print("WARNING: coq build incomplete (checks will report which obligation fails)")
common.model_driver()
common.build_lib("asan")
PY
