From Lou Require Import Model.Image.
