(* M3 (forward main pass for F) — implementation-shaped rule selection (for_selectRule) over the
   compiled structure, and the main translation loop (translateString) with emission through
   for_updatePositions, number sign, and the capacity back-off.  The loop is parameterised by
   the selection function so that the reference engine (select_ref) shares it.               *)
From Coq Require Import List ZArith Bool.
From Lou Require Import Gen.GConst Gen.GChain Model.Table Model.Compile Model.Ref.
Import ListNotations.
Local Open Scope Z_scope.

(* ---------------------------------------------------------------- selection, as the C code walks *)

(* tryThis = 0: the bucket of the first two characters; a chain member is a candidate when it is
   not longer than the remaining input and validMatch holds *)
Definition bucket_candidates (t : table) (ct : ctable) (inp : list Z) (pos : Z) : chain :=
  let remaining := len inp - pos in
  if 2 <=? remaining then
    let h := string_hash_lower (fun c => c) (nth_z inp pos) (nth_z inp (pos + 1)) in
    filter (fun r => (len (e_chars (snd r)) <=? remaining) && valid_match t inp pos (e_chars (snd r)))
           (assoc h (ct_buckets ct))
  else [].

(* tryThis = 1: the character's own chain, no comparison of characters *)
Definition char_candidates (ct : ctable) (inp : list Z) (pos : Z) : chain :=
  assoc (nth_z inp pos) (ct_chars ct).

Definition select_impl (t : table) (ct : ctable) (mode : Z) (inp : list Z) (pos : Z) : option crule :=
  find (fun r => cand_ok t mode inp pos (snd r)) (bucket_candidates t ct inp pos ++ char_candidates ct inp pos).

(* ---------------------------------------------------------------- the main loop *)

Record tstate := mkTS {
  ts_pos : Z;
  ts_out : list Z;        (* cells, most recent first *)
  ts_pm : list Z;         (* posMapping per cell, most recent first *)
  ts_lw_in : Z;           (* lastWord.inPos *)
  ts_lw_out : Z;          (* lastWord.outPos *)
  ts_trace : list Z       (* applied rule indexes, most recent first *)
}.

Inductive tresult :=
| TOk (consumed : Z) (cells : list Z) (pm : list Z) (trace : list Z)
| TUnsupported            (* left fragment F: character without definition *)
| TOutOfFuel.

Section Loop.
  Variable t : table.
  Variable sel : list Z -> Z -> option crule.
  Variable inp : list Z.
  Variable cap : Z.        (* output->maxlength *)

  Definition n := len inp.

  (* for_updatePositions(dots, inLength, outLength, 0, pos): all or nothing *)
  Definition emit (s : tstate) (dots : list Z) (inLength : Z) : option tstate :=
    if (len (ts_out s) + len dots >? cap) || (ts_pos s + inLength >? n) then None
    else Some (mkTS (ts_pos s) (rev dots ++ ts_out s) (repeat (ts_pos s) (length dots) ++ ts_pm s)
                    (ts_lw_in s) (ts_lw_out s) (ts_trace s)).

  Definition advance (s : tstate) (k : Z) : tstate :=
    mkTS (ts_pos s + k) (ts_out s) (ts_pm s) (ts_lw_in s) (ts_lw_out s) (ts_trace s).

  (* the `=' operand: each character through its definition; stops at the end of input *)
  Fixpoint put_chars (k : nat) (s : tstate) : option (option tstate) :=
    (* None = left F; Some None = capacity failure (state lost: caller keeps the last good one
       separately); we therefore return the failing state too *)
    match k with
    | O => Some (Some s)
    | S k' =>
        match def_dots t (nth_z inp (ts_pos s)) with
        | None => None
        | Some d =>
            match emit s d 1 with
            | None => Some None
            | Some s' =>
                let s'' := advance s' 1 in
                if ts_pos s'' >=? n then Some (Some s'') else put_chars k' s''
            end
        end
    end.

  (* state reached when a `=' emission fails part-way: the characters before the failing one
     stay emitted and consumed *)
  Fixpoint put_chars_partial (k : nat) (s : tstate) : tstate :=
    match k with
    | O => s
    | S k' =>
        match def_dots t (nth_z inp (ts_pos s)) with
        | None => s
        | Some d =>
            match emit s d 1 with
            | None => s
            | Some s' =>
                let s'' := advance s' 1 in
                if ts_pos s'' >=? n then s'' else put_chars_partial k' s''
            end
        end
    end.

  Definition is_space_at (p : Z) : bool := has_attr (attrs t (nth_z inp p)) CTC_Space.

  (* the code after `failure:' *)
  Fixpoint skip_spaces (fuel : nat) (p : Z) : Z :=
    match fuel with
    | O => p
    | S f => if (p <? n) && is_space_at p then skip_spaces f (p + 1) else p
    end.

  Definition finish (s : tstate) : tresult :=
    let backoff := negb (ts_lw_out s =? 0) && (ts_pos s <? n) && negb (is_space_at (ts_pos s)) in
    let pos := if backoff then ts_lw_in s else ts_pos s in
    let keep := if backoff then Z.to_nat (ts_lw_out s) else length (ts_out s) in
    let out := rev (ts_out s) in
    let pm := rev (ts_pm s) in
    TOk (skip_spaces (length inp) pos) (firstn keep out) (firstn keep pm) (rev (ts_trace s)).

  (* one iteration of the main loop at pos < n; None = goto failure with the given state *)
  Inductive step_result := Next (s : tstate) | Fail (s : tstate) | Unsupported.

  Definition step (s : tstate) : step_result :=
    let pos := ts_pos s in
    let s0 :=
      if (0 <? pos) && is_space_at (pos - 1)
      then mkTS pos (ts_out s) (ts_pm s) pos (len (ts_out s)) (ts_trace s) else s in
    match sel inp pos with
    | None => Unsupported
    | Some (idx, e) =>
        (* insertNumberSign *)
        let before := attrs t (before_char inp pos) in
        let s1 :=
          match numsign t with
          | Some nd =>
              if has_attr (attrs t (nth_z inp pos)) CTC_Digit && negb (has_attr before CTC_Digit)
              then emit s0 nd 0 else Some s0
          | None => Some s0
          end in
        match s1 with
        | None => Fail s0
        | Some s1 =>
            let s2 := mkTS (ts_pos s1) (ts_out s1) (ts_pm s1) (ts_lw_in s1) (ts_lw_out s1) (idx :: ts_trace s1) in
            let l := len (e_chars e) in
            match e_dots e with
            | [] =>
                match put_chars (Z.to_nat l) s2 with
                | None => Unsupported
                | Some None => Fail (put_chars_partial (Z.to_nat l) s2)
                | Some (Some s3) => Next s3
                end
            | d =>
                match emit s2 d l with
                | None => Fail s2
                | Some s3 => Next (advance s3 l)
                end
            end
        end
    end.

  Fixpoint loop (fuel : nat) (s : tstate) : tresult :=
    match fuel with
    | O => TOutOfFuel
    | S f =>
        if ts_pos s >=? n then
          (* pos == length: record the word start if the last character was a space, then stop *)
          let s0 :=
            if (0 <? ts_pos s) && is_space_at (ts_pos s - 1)
            then mkTS (ts_pos s) (ts_out s) (ts_pm s) (ts_pos s) (len (ts_out s)) (ts_trace s) else s in
          finish s0
        else
          match step s with
          | Next s' => loop f s'
          | Fail s' => finish s'
          | Unsupported => TUnsupported
          end
    end.

  Definition run : tresult := loop (S (length inp)) (mkTS 0 [] [] 0 0 []).
End Loop.

(* the input is cut at the first NUL or at inlen by the caller (driver) *)
Definition translate_impl (t : table) (mode : Z) (inp : list Z) (cap : Z) : tresult :=
  let ct := compile t in
  run t (select_impl t ct mode) inp cap.

Definition translate_ref (t : table) (mode : Z) (inp : list Z) (cap : Z) : tresult :=
  run t (select_ref t mode) inp cap.
