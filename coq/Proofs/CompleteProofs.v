(* C04 — the lemmas used by Properties/C04.v: with a generous capacity the reference engine never
   takes the capacity-failure exit, so the whole input is consumed; and the only failure of the
   re-encoding is a cell without display mapping.                                              *)
From Coq Require Import List ZArith Bool Lia ZifyBool.
From Lou Require Import Gen.GConst Gen.GChain Model.Table Model.Ref Model.Compile Model.Engine Model.Finish.
From Lou Require Import Proofs.EngineLoop Proofs.EngineRef Proofs.EngineProofs.
Import ListNotations.
Local Open Scope Z_scope.

(* ------------------------------------------------------------------ the longest cell string *)

Definition dmax (l : list entry) (m0 : Z) : Z :=
  fold_left (fun m e => Z.max m (len (e_dots e))) l m0.

Lemma dmax_ge l : forall m0, m0 <= dmax l m0.
Proof.
  induction l as [|a l IH]; intros m0; unfold dmax in *; cbn [fold_left]; [lia|].
  specialize (IH (Z.max m0 (len (e_dots a)))). lia.
Qed.

Lemma dmax_in l : forall m0 e, In e l -> len (e_dots e) <= dmax l m0.
Proof.
  induction l as [|a l IH]; intros m0 e Hin; [destruct Hin|].
  unfold dmax in *. cbn [fold_left]. destruct Hin as [->|Hin].
  - pose proof (dmax_ge l (Z.max m0 (len (e_dots e)))) as H. unfold dmax in H. lia.
  - apply IH. exact Hin.
Qed.

(* ------------------------------------------------------------------ where emitted cells come from *)

Lemma number_from_in l : forall k idx e, In (idx, e) (number_from k l) -> In e l.
Proof.
  induction l as [|a l IH]; intros k idx e H; cbn [number_from] in H; [destruct H|].
  destruct H as [H|H].
  - injection H as _ ->. left. reflexivity.
  - right. exact (IH _ _ _ H).
Qed.

Lemma numbered_in t idx e : In (idx, e) (numbered t) -> In e (builtin :: t).
Proof. unfold numbered. apply number_from_in. Qed.

Lemma def_dots_in t c d : def_dots t c = Some d -> exists e, In e (builtin :: t) /\ d = e_dots e.
Proof.
  unfold def_dots. destruct (find (defines c) (builtin :: t)) as [e|] eqn:E; [|discriminate].
  intros H. injection H as <-. apply find_some in E. exists e. split; [apply E|reflexivity].
Qed.

Lemma numsign_fold_in l : forall acc nd,
  fold_left (fun acc e => if e_op e =? CTO_NumberSign then Some (e_dots e) else acc) l acc = Some nd ->
  acc = Some nd \/ exists e, In e l /\ nd = e_dots e.
Proof.
  induction l as [|a l IH]; intros acc nd H; cbn [fold_left] in H; [left; exact H|].
  apply IH in H. destruct H as [H|(e & Hin & He)].
  - destruct (e_op a =? CTO_NumberSign).
    + injection H as <-. right. exists a. split; [left; reflexivity|reflexivity].
    + left. exact H.
  - right. exists e. split; [right; exact Hin|exact He].
Qed.

Lemma numsign_in t nd : numsign t = Some nd -> exists e, In e (builtin :: t) /\ nd = e_dots e.
Proof.
  unfold numsign. intros H. apply numsign_fold_in in H. destruct H as [H|(e & Hin & He)]; [discriminate|].
  exists e. split; [right; exact Hin|exact He].
Qed.

(* ------------------------------------------------------------------ emission succeeds *)

Lemma emit_succeeds inp cap s d k :
  len (ts_out s) + len d <= cap -> ts_pos s + k <= n inp ->
  exists s', emit inp cap s d k = Some s' /\ ts_pos s' = ts_pos s /\
             len (ts_out s') = len (ts_out s) + len d.
Proof.
  intros Hc Hp. unfold emit. destruct (_ || _) eqn:E; [lia|].
  eexists. split; [reflexivity|]. cbn [ts_pos ts_out]. split; [reflexivity|].
  unfold len. rewrite app_length, rev_length. lia.
Qed.

Lemma word_mark_out t inp s : ts_out (word_mark t inp s) = ts_out s.
Proof. unfold word_mark. destruct (_ && _); reflexivity. Qed.

Lemma skip_spaces_end t inp fuel : skip_spaces t inp fuel (n inp) = n inp.
Proof. destruct fuel as [|f]; cbn [skip_spaces]; [reflexivity|]. rewrite Z.ltb_irrefl. reflexivity. Qed.

Lemma finish_at_end t inp s c cells pm tr :
  ts_pos s = n inp -> finish t inp s = TOk c cells pm tr -> c = n inp.
Proof.
  intros Hp H. unfold finish in H.
  assert (E : ts_pos s <? n inp = false) by lia.
  rewrite E, andb_false_r in H. cbn [andb] in H.
  injection H as Hc _ _ _. rewrite <- Hc, Hp. apply skip_spaces_end.
Qed.

(* ------------------------------------------------------------------ the loop under a generous capacity *)

Section Complete.
  Variable t : table.
  Variable mode : Z.
  Variable inp : list Z.
  Variables cap M : Z.
  Hypothesis HM0 : 0 <= M.
  Hypothesis HM : forall e, In e (builtin :: t) -> len (e_dots e) <= M.
  Hypothesis Hcap : 2 * M * len inp <= cap.

  Lemma cap_ok p : 0 <= p -> p + 1 <= n inp -> 2 * M * p + 2 * M <= cap.
  Proof.
    intros H0 H1. unfold n in H1.
    assert (H : 2 * M * (p + 1) <= 2 * M * len inp) by (apply Z.mul_le_mono_nonneg_l; lia).
    lia.
  Qed.

  Definition CInv (s : tstate) : Prop :=
    0 <= ts_pos s <= n inp /\ len (ts_out s) <= 2 * M * ts_pos s.

  Definition good_result (r : option (option tstate)) : Prop :=
    match r with
    | None => True
    | Some None => False
    | Some (Some s') => CInv s'
    end.

  (* one character of an `=' operand, from a state that may already hold the number sign *)
  Lemma put_one k s (IH : forall s', 0 <= ts_pos s' < n inp -> len (ts_out s') <= 2 * M * ts_pos s' ->
                                     good_result (put_chars t inp cap k s')) :
    0 <= ts_pos s < n inp -> len (ts_out s) <= 2 * M * ts_pos s + M ->
    good_result (put_chars t inp cap (S k) s).
  Proof.
    intros Hp Ho. cbn [put_chars].
    destruct (def_dots t (nth_z inp (ts_pos s))) as [d|] eqn:Ed; [|exact I].
    apply def_dots_in in Ed. destruct Ed as (e & Hin & ->).
    pose proof (HM e Hin) as Hd.
    pose proof (cap_ok (ts_pos s) ltac:(lia) ltac:(lia)) as Hc.
    destruct (emit_succeeds inp cap s (e_dots e) 1 ltac:(lia) ltac:(lia)) as (s1 & Ee & Hp1 & Ho1).
    rewrite Ee.
    destruct (ts_pos (advance s1 1) >=? n inp) eqn:Eg.
    - unfold good_result, CInv. cbn [advance ts_pos ts_out]. rewrite Hp1, Ho1. split; lia.
    - apply IH; cbn [advance ts_pos ts_out] in *; rewrite ?Hp1, ?Ho1 in *; lia.
  Qed.

  Lemma put_chars_A : forall k s, 0 <= ts_pos s < n inp -> len (ts_out s) <= 2 * M * ts_pos s ->
    good_result (put_chars t inp cap k s).
  Proof.
    induction k as [|k IH]; intros s Hp Ho.
    - cbn [put_chars good_result]. unfold CInv. lia.
    - apply put_one; [exact IH|exact Hp|lia].
  Qed.

  Lemma put_chars_B k s : (1 <= k)%nat -> 0 <= ts_pos s < n inp ->
    len (ts_out s) <= 2 * M * ts_pos s + M ->
    good_result (put_chars t inp cap k s).
  Proof.
    destruct k as [|k]; [lia|]. intros _ Hp Ho.
    apply put_one; [apply put_chars_A|exact Hp|exact Ho].
  Qed.

  Definition good_step (r : step_result) : Prop :=
    match r with
    | Next s' => CInv s'
    | Fail _ => False
    | Unsupported => True
    end.

  Lemma apply_rule_C s2 e :
    len (e_dots e) <= M -> 1 <= len (e_chars e) -> ts_pos s2 + len (e_chars e) <= n inp ->
    0 <= ts_pos s2 < n inp -> len (ts_out s2) <= 2 * M * ts_pos s2 + M ->
    good_step (apply_rule t inp cap s2 e).
  Proof.
    intros Hd Hl Hfit Hp Ho. unfold apply_rule.
    destruct (e_dots e) as [|d0 dr] eqn:Ed.
    - pose proof (put_chars_B (Z.to_nat (len (e_chars e))) s2 ltac:(lia) Hp Ho) as H.
      destruct (put_chars t inp cap (Z.to_nat (len (e_chars e))) s2) as [[s3|]|]; exact H.
    - pose proof (cap_ok (ts_pos s2) ltac:(lia) ltac:(lia)) as Hc.
      destruct (emit_succeeds inp cap s2 (d0 :: dr) (len (e_chars e)) ltac:(lia) Hfit)
        as (s3 & Ee & Hp3 & Ho3).
      rewrite Ee. unfold good_step, CInv. cbn [advance ts_pos ts_out]. rewrite Hp3, Ho3.
      assert (Hm : 2 * M * 1 <= 2 * M * len (e_chars e)) by (apply Z.mul_le_mono_nonneg_l; lia).
      split; lia.
  Qed.

  Lemma numsign_emit_C pos s0 :
    0 <= ts_pos s0 < n inp -> len (ts_out s0) <= 2 * M * ts_pos s0 ->
    exists s1, numsign_emit t inp cap pos s0 = Some s1 /\ ts_pos s1 = ts_pos s0 /\
               len (ts_out s1) <= len (ts_out s0) + M.
  Proof.
    intros Hp Ho. unfold numsign_emit.
    destruct (numsign t) as [nd|] eqn:En.
    - destruct (_ && _).
      + apply numsign_in in En. destruct En as (e & Hin & ->).
        pose proof (HM e Hin) as Hd.
        pose proof (cap_ok (ts_pos s0) ltac:(lia) ltac:(lia)) as Hc.
        destruct (emit_succeeds inp cap s0 (e_dots e) 0 ltac:(lia) ltac:(lia)) as (s1 & Ee & Hp1 & Ho1).
        exists s1. split; [exact Ee|]. split; [exact Hp1|lia].
      + exists s0. split; [reflexivity|]. split; [reflexivity|lia].
    - exists s0. split; [reflexivity|]. split; [reflexivity|lia].
  Qed.

  Lemma step_C s : CInv s -> ts_pos s < n inp ->
    good_step (step t (select_ref t mode) inp cap s).
  Proof.
    intros (Hp & Ho) Hlt. rewrite step_unfold.
    destruct (select_ref t mode inp (ts_pos s)) as [[idx e]|] eqn:Es; [|exact I].
    pose proof (select_ref_len t mode inp (ts_pos s) idx e Es) as Hl.
    apply select_ref_qualifies_l in Es; [|unfold n in Hlt; lia].
    destruct Es as (Hin & _ & _ & Hshape). cbn [snd] in *.
    apply numbered_in in Hin. pose proof (HM e Hin) as Hd.
    assert (Hfit : ts_pos s + len (e_chars e) <= n inp).
    { unfold n. destruct Hshape as [(_ & H & _)|H]; [lia|].
      rewrite H. unfold n in Hlt. unfold len in *. cbn [length]. lia. }
    destruct (numsign_emit_C (ts_pos s) (word_mark t inp s)) as (s1 & En & Hp1 & Ho1).
    { rewrite word_mark_pos. lia. }
    { rewrite word_mark_pos, word_mark_out. exact Ho. }
    rewrite En. rewrite word_mark_pos in Hp1. rewrite word_mark_out in Ho1.
    apply apply_rule_C; cbn [with_trace ts_pos ts_out]; rewrite ?Hp1; try assumption; lia.
  Qed.

  Lemma loop_C : forall fuel s c cells pm tr, CInv s ->
    loop t (select_ref t mode) inp cap fuel s = TOk c cells pm tr -> c = n inp.
  Proof.
    induction fuel as [|f IH]; intros s c cells pm tr Hi H; [discriminate|].
    rewrite loop_unfold in H. destruct (ts_pos s >=? n inp) eqn:Eg.
    - apply finish_at_end in H; [exact H|]. rewrite word_mark_pos. destruct Hi as (Hp & _). lia.
    - pose proof (step_C s Hi ltac:(lia)) as Hs.
      destruct (step t (select_ref t mode) inp cap s) as [s'|s'|].
      + exact (IH _ _ _ _ _ Hs H).
      + destruct Hs.
      + discriminate.
  Qed.

  Lemma run_C c cells pm tr :
    run t (select_ref t mode) inp cap = TOk c cells pm tr -> c = len inp.
  Proof.
    unfold run. intros H. apply loop_C in H; [exact H|].
    unfold CInv, n, len. cbn [ts_pos ts_out length]. lia.
  Qed.
End Complete.

(* ------------------------------------------------------------------ the three statements *)

Lemma complete_l : forall t mode inp cap consumed cells pm trace,
  2 * (fold_left (fun m e => Z.max m (len (e_dots e))) (builtin :: t) 0) * len inp <= cap ->
  translate_ref t mode inp cap = TOk consumed cells pm trace -> consumed = len inp.
Proof.
  intros t mode inp cap consumed cells pm trace Hcap H. unfold translate_ref in H.
  apply (run_C t mode inp cap (dmax (builtin :: t) 0)) in H; [exact H| | |exact Hcap].
  - apply dmax_ge.
  - intros e Hin. apply dmax_in. exact Hin.
Qed.

Lemma encode_none_iff_l : forall mode d2c cells,
  encode mode d2c cells = None <->
  (Z.land mode mode_dotsIO = 0 /\ exists c, In c cells /\ d2c c = 0).
Proof.
  intros mode d2c cells. unfold encode.
  destruct (Z.land mode mode_dotsIO =? 0) eqn:E.
  - apply Z.eqb_eq in E.
    destruct (existsb (fun c => c =? 0) (map d2c cells)) eqn:Ex.
    + split; [intros _|reflexivity]. split; [exact E|].
      apply existsb_exists in Ex. destruct Ex as (x & Hx & Hx0).
      apply in_map_iff in Hx. destruct Hx as (c & Hc & Hin).
      exists c. split; [exact Hin|]. apply Z.eqb_eq in Hx0. congruence.
    + split; [discriminate|]. intros (_ & c & Hin & Hc). exfalso.
      assert (Ht : existsb (fun c => c =? 0) (map d2c cells) = true).
      { apply existsb_exists. exists (d2c c). split; [apply in_map; exact Hin|].
        rewrite Hc. reflexivity. }
      congruence.
  - apply Z.eqb_neq in E.
    destruct (Z.land mode mode_ucBrl =? 0); (split; [discriminate|]); intros (H0 & _); contradiction.
Qed.

Lemma encode_length_l : forall mode d2c cells out,
  encode mode d2c cells = Some out -> length out = length cells.
Proof.
  intros mode d2c cells out. unfold encode.
  destruct (Z.land mode mode_dotsIO =? 0).
  - destruct (existsb _ _); [discriminate|]. intros H. injection H as <-. apply map_length.
  - destruct (Z.land mode mode_ucBrl =? 0); intros H; injection H as <-; [reflexivity|apply map_length].
Qed.

Print Assumptions complete_l.
Print Assumptions encode_none_iff_l.
Print Assumptions encode_length_l.
