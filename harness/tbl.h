/* Helpers shared by the harnesses: table walking with the declarations of internal.h,
 * line reader, exactly-sized heap arrays (so that ASan red zones sit right behind them). */
#ifndef VERIF_TBL_H
#define VERIF_TBL_H
#include <stdio.h>
#include <stdlib.h>
#include <string.h>
#include "internal.h"

static const TranslationTableCharacter *
h_getChar(const TranslationTableHeader *t, widechar c) {
	TranslationTableOffset o = t->characters[_lou_charHash(c)];
	while (o) {
		const TranslationTableCharacter *ch = (const TranslationTableCharacter *)&t->ruleArea[o];
		if (ch->value == c) return ch;
		o = ch->next;
	}
	return NULL;
}

static const TranslationTableCharacter *
h_getDots(const TranslationTableHeader *t, widechar c) {
	TranslationTableOffset o = t->dots[_lou_charHash(c)];
	while (o) {
		const TranslationTableCharacter *ch = (const TranslationTableCharacter *)&t->ruleArea[o];
		if (ch->value == c) return ch;
		o = ch->next;
	}
	return NULL;
}

static unsigned long long
h_charAttrs(const TranslationTableHeader *t, widechar c) {
	const TranslationTableCharacter *ch = h_getChar(t, c);
	return ch ? ch->attributes : CTC_Space;
}

static widechar
h_lower(const TranslationTableHeader *t, widechar v) {
	const TranslationTableCharacter *character = h_getChar(t, v);
	if (!character) return v;
	if (character->mode & CTC_UpperCase) {
		const TranslationTableCharacter *c = character;
		if (c->basechar) c = (const TranslationTableCharacter *)&t->ruleArea[c->basechar];
		while (1) {
			if ((c->mode & (character->mode & ~CTC_UpperCase)) ==
					(character->mode & ~CTC_UpperCase))
				return c->value;
			if (!c->linked) break;
			c = (const TranslationTableCharacter *)&t->ruleArea[c->linked];
		}
	}
	return character->value;
}

/* is the character a hyphen character: does it have a `hyphen' rule among its own one-character rules (the otherRules chain
 * of its character record, linked through charsnext like every chain of forward rules) */
static int
h_isHyphen(const TranslationTableHeader *t, widechar c) {
	const TranslationTableCharacter *ch = h_getChar(t, c);
	TranslationTableOffset o = ch ? ch->otherRules : 0;
	while (o) {
		const TranslationTableRule *r = (const TranslationTableRule *)&t->ruleArea[o];
		if (r->opcode == CTO_Hyphen) return 1;
		o = r->charsnext;
	}
	return 0;
}

#define H_LINE (1 << 20)
static char h_line[H_LINE];

/* parse up to max ints from s (decimal, or 0x hex); returns count */
static int
h_ints(char *s, long *out, int max) {
	int n = 0;
	char *e;
	while (n < max) {
		while (*s == ' ') s++;
		if (!*s || *s == '\n' || *s == '|') break;
		out[n++] = strtol(s, &e, 0);
		if (e == s) { n--; break; }
		s = e;
	}
	return n;
}

static void *
h_exact(size_t n) { /* n bytes, never NULL, red zone directly behind */
	void *p = malloc(n ? n : 1);
	if (!p) { fprintf(stderr, "oom\n"); exit(9); }
	return p;
}

static int h_logcount[8];
static void
h_quietlog(logLevels level, const char *message) {
	int k = level / 10000;
	if (k >= 0 && k < 8) h_logcount[k]++;
}
#endif
