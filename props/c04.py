"""C04 — reported lengths are truthful and no input is silently dropped.
PROVE: Properties/C04.v (F engine: lengths in range; with capacity >= expansion bound the whole input is consumed;
 the result is a failure only through the display mapping of Finish.encode).
CORRESPOND / runtime predicate on all streams: ret = 1 -> lengths within the supplied ones, outputs are display characters
 (or flagged / Unicode cells); capacity 32*inlen+256 -> whole input up to the first NUL consumed; ret = 0 -> invalid
 arguments, a table that does not compile, or a missing display mapping, the latter two with an error-level message."""
import os
import shutil

import common
import safety
import tablegen
import trans
from common import Rng, REPO

PID = "C04"


def run(chk):
    rng = Rng(chk.seed).fork(PID)
    gen = common.gen_stage()
    prove = common.prove_stage(PID)
    common.model_driver()
    exe = common.build_harness("h_trans")
    env = {"LOUIS_TABLEPATH": str(REPO / "tables")}
    quick = chk.tier == "quick"
    lists = [(t, True) for t in safety.shipped_tables(rng.fork("tables"), 50 if quick else 10 ** 6)]
    work = common.BUILD / ("work-c04-%d" % os.getpid())
    shutil.rmtree(work, ignore_errors=True)
    work.mkdir(parents=True)
    for i in range(40 if quick else 600):
        r = rng.fork(("gt", i))
        entries, alphabet = tablegen.gen_c05_table(r)
        tf = work / ("g%d.utb" % i)
        tf.write_text(tablegen.table_text(entries))
        lists.append((("unicode.dis," if r.chance(0.7) else "") + str(tf), True))
    # generated multipass tables (rules in every stage, both directions, insertions that lengthen the text): the stages
    # after the first have their own capacity tests
    alph = {}
    for i in range(40 if quick else 600):
        r = rng.fork(("mp", i))
        entries, rules, letters = tablegen.gen_c06_table(r, risky=r.chance(0.3), directions=("noback", "nofor"))
        tf = work / ("m%d.utb" % i)
        tf.write_text(tablegen.pass_table_text(entries, rules))
        tl_ = ("unicode.dis," if r.chance(0.7) else "") + str(tf)
        lists.append((tl_, True))
        alph[tl_] = letters + [32]
    # generated tables with capitals and emphasis indicators
    for i in range(20 if quick else 300):
        r = rng.fork(("emph", i))
        text, al = tablegen.gen_emphasis_table(r)
        tf = work / ("e%d.utb" % i)
        tf.write_text(text)
        tl_ = "unicode.dis," + str(tf)
        lists.append((tl_, True))
        alph[tl_] = al
    (work / "broken.utb").write_text("letter a 1\nnosuchopcode b 2\n")
    lists.append((str(work / "broken.utb"), False))
    lists.append(("no-such-table-anywhere.ctb", False))
    for tl, compiles in lists:
        probe = common.run_stream(exe, ["t " + tl], ["c"], env=env)
        really = (not isinstance(probe[0], tuple)) and probe[0].strip() == "C 1"
        if compiles and not really:
            chk.tally("shipped_table_list_does_not_compile_standalone")
        compiles = really
        r = rng.fork(("cases", tl))
        lines, meta = [], []
        for i in range(50 if quick else 250):
            inp = safety.gen_input(r, 36)
            if tl in alph and r.chance(0.8):
                inp = [r.choice(alph[tl]) for _ in range(r.range(1, 16))]
            k = r.below(10)
            mode = safety.gen_mode(r) & ~(2 | 32)
            fn = r.choice("TTTSBQ")        # Q: lou_translatePrehyphenated with hyphen arrays (its own reason to return 0: see below)
            if fn == "B" and mode & 4:
                inp = [0x8000 | (c & 0xff) for c in inp]
            inlen = len(inp)
            if k == 0 and len(inp) > 2:
                inp[r.range(0, len(inp) - 1)] = 0
            generous = 32 * inlen + 256
            outlen = generous if k < 6 else r.choice([r.range(0, inlen + 2), inlen, 2 * inlen])
            if k == 9:
                inlen, outlen = r.choice([(-1, 10), (3, -1)])
            pres = r.choice([0, 12, 2, 1, 13])
            tfm = safety.gen_typeform(r, len(inp)) if pres & 1 and fn != "B" else None
            if fn == "Q":
                pres |= 8           # with inputPos, so that the twin below shows whether the positions ascend
            lines.append(trans.case_line(fn, mode, inp, outlen, inlen=inlen, presence=pres, typeform=tfm))
            # the completeness clause is stated for inputs with no character marked no_translate (0x800)
            meta.append((fn, mode, inp, inlen, outlen, generous if not (tfm and any(t & 0x800 for t in tfm)) else -1))
            if fn == "Q":
                # the same call through lou_translate: the prehyphenated variant may return 0 only where this one does, or where
                # the positions it reports do not ascend (the hyphen marks cannot be mapped then)
                lines.append(trans.case_line("T", mode, inp, outlen, inlen=inlen, presence=pres, typeform=tfm))
                meta.append(("T", mode, inp, inlen, outlen, -1))
        # poison and probe: a long homogeneous input, then shorter inputs that end inside a run of the same character. Whatever
        # reads behind the end of a pass input (the caller's array is exactly sized; the internal pass buffers keep what the
        # earlier call left there) sees characters that continue the run
        for _ in range(3):
            group = safety.gen_poison_probe(r)
            for g in group:
                gm = r.choice([0, 0, 4])
                lines.append(trans.case_line("T", gm, g, 32 * len(g) + 256, presence=r.choice([0, 12])))
                meta.append(("T", gm, g, len(g), 32 * len(g) + 256, 32 * len(g) + 256))
        # capacity sweep: a few forward cases again at every capacity from 0 to a little above what they need (the reported
        # lengths must stay within the supplied ones at each of them)
        nsw = 0
        for (fn, mode, inp, inlen, outlen, gen_) in list(meta):
            if fn not in "TS" or not (0 < len(inp) <= 14) or inlen != len(inp) or 0 in inp:
                continue
            for cap in range(0, 3 * len(inp) + 4):
                lines.append(trans.case_line(fn, mode, inp, cap, presence=r.choice([0, 12])))
                meta.append((fn, mode, inp, inlen, cap, -1))
            nsw += 1
            if nsw >= (3 if quick else 10):
                break
        # every other table list with the library's real scratch sizing (buffers are kept between calls, so what an earlier,
        # longer call left behind the end of a pass input is still there)
        exact = 1 if (len(tl) + chk.seed) % 2 else 0
        chk.tally("tables_exact_scratch_%d" % exact)
        if exact:
            rs = trans.run_cases(exe, tl, lines, exact=exact, env=env, timeout=400)
        else:
            # with the library's own scratch sizing lou_free() is called at a few places of the stream: what it forgets to
            # reset must not make a later valid call fail
            fpos = set(r.range(1, len(lines) - 1) for _ in range(4))
            stream, isf = [], []
            for i, ln in enumerate(lines):
                if i in fpos:
                    stream.append("F")
                    isf.append(True)
                stream.append(ln)
                isf.append(False)
            outs = common.run_stream(exe, ["t " + tl, "e 0", "b 2000000"], stream, env=env, timeout=400)
            rs = [trans.Result(o) for o, f in zip(outs, isf) if not f]
            chk.tally("streams_with_lou_free")
        if exact:
            # the poison/probe groups once more with the real sizing
            rs += trans.run_cases(exe, tl, lines[-15:], exact=0, env=env, timeout=400)
            lines = lines + lines[-15:]
            meta = meta + meta[-15:]
        for idx, (ln, (fn, mode, inp, inlen, outlen, generous), res) in enumerate(zip(lines, meta, rs)):
            key = (tl, ln)
            case = dict(table_list=tl, case_line=ln)
            bad = safety.classify(res)
            if bad:
                chk.count(key)
                chk.violation(bad[0], "%s on %s: %s" % (bad[1], tl, ln[:150]), case)
                continue
            chk.count(key, nontrivial=res.ret == 1 and res.outlen > 0)
            chk.tally("ret_%d" % res.ret)
            invalid = inlen < 0 or outlen < 0
            if res.ret == 1:
                if invalid or not compiles:
                    chk.violation("success-on-invalid", "returned 1 although the arguments are invalid or the table does not compile", dict(case, impl=res.raw))
                    continue
                if not (0 <= res.inlen <= inlen and 0 <= res.outlen <= outlen):
                    chk.violation("lengths-out-of-range", "reported (inlen %d, outlen %d) outside the supplied (%d, %d)" % (res.inlen, res.outlen, inlen, outlen),
                                  dict(case, impl=res.raw))
                    continue
                out = res.out[:res.outlen]
                if mode & 4 and fn != "B":
                    okout = all((c & 0xff00) == 0x2800 for c in out) if mode & 64 else all(c & 0x8000 for c in out)
                else:
                    okout = all(c != 0 and c != 0x7e7e or c == 0x7e7e and False for c in out) if fn != "B" else all(c != 0x7e7e for c in out)
                if not okout:
                    chk.violation("output-not-displayable", "produced elements are not display characters / flagged cells: %s" % out, dict(case, impl=res.raw))
                    continue
                if fn != "B" and outlen == generous:
                    first_nul = next((i for i, c in enumerate(inp[:inlen]) if c == 0), inlen)
                    chk.tally("completeness_checked")
                    if res.inlen != first_nul:
                        chk.violation("input-dropped", "generous capacity %d but only %d of %d characters consumed" % (outlen, res.inlen, first_nul),
                                      dict(case, impl=res.raw, table_text=open(tl.split(",")[-1]).read() if "/work-" in tl else None))
                        continue
            else:
                # ret == 0 (or other)
                if res.ret != 0:
                    chk.violation("bad-return-value", "return value %d" % res.ret, dict(case, impl=res.raw))
                    continue
                if fn == "Q" and not invalid:
                    twin = rs[idx + 1] if idx + 1 < len(rs) else None
                    if twin is not None and not twin.crash and twin.ret == 1:
                        ip = twin.inputPos[:max(twin.outlen, 0)]
                        if all(b >= a for a, b in zip([0] + ip, ip)):
                            chk.violation("unexplained-failure", "lou_translatePrehyphenated returned 0 where lou_translate returns 1 with ascending positions and no message says why",
                                          dict(case, impl=res.raw, twin=twin.raw))
                            continue
                    chk.tally("prehyphenated_failure_explained")
                elif fn != "B" and not invalid:
                    if compiles and mode & 4:
                        chk.violation("unexplained-failure", "forward translation returned 0 in dotsIO mode with valid arguments and a valid table",
                                      dict(case, impl=res.raw))
                        continue
                    if res.errors < 1:
                        chk.violation("silent-failure", "forward translation returned 0 without an error-level message", dict(case, impl=res.raw))
                        continue
                    chk.tally("failure_no_table" if not compiles else "failure_no_display_mapping")
            chk.cov["traces_validated_against_impl"] += 1
            if res.ret == 1 and res.outlen > 3:
                chk.sample(dict(table=tl, case=ln[:140], ret=res.ret, inlen=res.inlen, outlen=res.outlen), cap=3)
    shutil.rmtree(work, ignore_errors=True)
    chk.cov["rule"] = ("per table list (shipped sample, generated F tables with/without unicode.dis, a broken table, a missing table): random "
                       "forward and backward calls, all non-cursor mode bits, NUL inside, negative lengths, capacity 32*inlen+256 or small; "
                       "the clauses of the property evaluated on every result; distinct = (table list, case); non-trivial = returned 1 with output")
    chk.cov["gen_status"] = gen
    chk.cov["checker_cmd"] = "make -C coq Properties/C04.vo (coqc 8.16.1)"
    chk.cov["trusted_base"] = common.TRUSTED_COMMON + [
        "for shipped tables outside fragment F the clauses are a runtime predicate on real results, not a theorem about the engine"]
    if not prove["ok"] and not chk.violations:
        chk.violation("proof", "Properties/%s.v no longer checks: %s" % (PID, prove["failed"][:5]),
                      dict(no_failing_input=True, broken=prove["failed"], log=prove["log"][-1500:], gen=gen))
    return chk.finish(prove)
