/* H4: lou_hyphenate, text and braille mode, exactly-sized caller arrays.
 * T <tablelist>        load; prints "T <ok> <hasdict>"   (t: same, silent)
 * C <c>                prints "C c isletter lower ishyphen"
 * W <mode> c c c ...   prints "W ret | h0 h1 ... h_inlen" (bytes as numbers, 88 = untouched)
 *                      or "W HANG <site> ticks=<n>" when the call exceeds the step budget (loop-head hook):
 *                      budget = 64 * (inlen + 4) * 64 loop heads - the automaton walk needs at most
 *                      (inlen + 2) * (longest fallback chain) of them
 */
#include <setjmp.h>
#include "tbl.h"

static jmp_buf hang_jmp;
static int hang_site = -1;
static void
tick_over(int site) {
	hang_site = site;
	_lou_verif_tick_budget = 0;
	longjmp(hang_jmp, 1);
}
int
main(void) {
	static char tl[4096];
	const TranslationTableHeader *t = NULL;
	static long v[1 << 16];
	lou_registerLogCallback(h_quietlog);
	while (fgets(h_line, H_LINE, stdin)) {
		size_t L = strlen(h_line);
		while (L && (h_line[L - 1] == '\n' || h_line[L - 1] == '\r')) h_line[--L] = 0;
		if (h_line[0] == 'T' || h_line[0] == 't') {
			strncpy(tl, h_line + 2, sizeof tl - 1);
			t = lou_getTable(tl);
			if (h_line[0] == 'T')
				printf("T %d %d\n", t != NULL, t ? (t->hyphenStatesArray != 0) : 0);
		} else if (h_line[0] == 'C') {
			int n = h_ints(h_line + 1, v, 1);
			widechar c = (widechar)v[0];
			(void)n;
			printf("C %d %d %d %d\n", c, t ? (int)((h_charAttrs(t, c) & CTC_Letter) != 0) : 0,
					t ? h_lower(t, c) : c, t ? h_isHyphen(t, c) : 0);
		} else if (h_line[0] == 'W') {
			int n = h_ints(h_line + 1, v, 1 << 16);
			int mode = (int)v[0], inlen = n - 1, k, r;
			widechar *in = h_exact(sizeof(widechar) * inlen);
			char *hy = h_exact(inlen + 1);
			for (k = 0; k < inlen; k++) in[k] = (widechar)v[k + 1];
			memset(hy, 88, inlen + 1);
			_lou_verif_tick_over = tick_over;
			_lou_verif_tick_total = 0;
			_lou_verif_tick_budget = 4096UL * (unsigned long)(inlen + 4);
			if (setjmp(hang_jmp) == 0) {
				r = lou_hyphenate(tl, in, inlen, hy, mode);
				_lou_verif_tick_budget = 0;
				printf("W %d |", r);
				for (k = 0; k <= inlen; k++) printf(" %d", (unsigned char)hy[k]);
				printf("\n");
			} else {
				/* the call was abandoned in the middle: its scratch memory is lost, the library state is reset */
				printf("W HANG %d ticks=%lu\n", hang_site, _lou_verif_tick_total);
				lou_free();
				t = lou_getTable(tl);
			}
			free(in);
			free(hy);
		}
		fflush(stdout);
	}
	return 0;
}
