(* M4 — the library as a state machine over table lists: table cache (getTable / _lou_getTable),
   finalisation, run-time rule addition (lou_compileString) and lou_free.  Names are list strings
   (lists of bytes); what a list's files contain and whether they compile are oracles.
   Executable, no proofs.                                                                     *)
From Coq Require Import List ZArith NArith Bool.
From Lou Require Import Gen.GStatics.
Import ListNotations.
Local Open Scope Z_scope.

Definition name := list Z.

Fixpoint common_prefix (a b : name) : Z :=
  match a, b with
  | x :: a', y :: b' => if x =? y then 1 + common_prefix a' b' else 0
  | _, _ => 0
  end.

(* the cache lookup of getTable with the comparison REGENERATED from the source *)
Definition key_hit (query entry : name) : bool :=
  table_cache_hit (Z.of_nat (length query)) (Z.of_nat (length entry)) (common_prefix entry query).

Record centry := mkCE { ce_name : name; ce_added : list N; ce_final : bool }.
Definition astate := list centry.          (* most recently used first *)
Definition ainit : astate := [].

Inductive aop :=
| Use (n : name)                 (* any call that looks the list up through _lou_getTable *)
| AddRule (n : name) (r : N)     (* lou_compileString(n, r) *)
| Free.                          (* lou_free *)

Inductive aevent := Compiled (n : name).

Inductive ares :=
| RTable (n : name) (added : list N)   (* the call works on the table of n's files plus these rules *)
| RFail                                (* no table *)
| RAdded (ok : bool)                   (* return value of lou_compileString *)
| RFreed.

Section Api.
  Variable compiles : name -> bool.      (* do the files of the list compile *)
  Variable valid : N -> bool.            (* does the rule text compile *)

  Fixpoint lookup (s : astate) (n : name) : option (centry * astate) :=   (* entry, rest without it *)
    match s with
    | [] => None
    | e :: s' =>
        if key_hit n (ce_name e) then Some (e, s')
        else match lookup s' n with
             | Some (e', rest) => Some (e', e :: rest)
             | None => None
             end
    end.

  (* getTable: cached entry moved to the front, or compiled and inserted on success only *)
  Definition get (s : astate) (n : name) : option centry * astate * list aevent :=
    match lookup s n with
    | Some (e, rest) => (Some e, e :: rest, [])
    | None =>
        if compiles n then let e := mkCE n [] false in (Some e, e :: s, [Compiled n])
        else (None, s, [Compiled n])
    end.

  Definition set_head (s : astate) (e : centry) : astate :=
    match s with [] => [e] | _ :: s' => e :: s' end.

  Definition astep (s : astate) (o : aop) : astate * ares * list aevent :=
    match o with
    | Free => (ainit, RFreed, [])
    | Use n =>
        match get s n with
        | (Some e, s', ev) =>
            let e' := mkCE (ce_name e) (ce_added e) true in     (* _lou_getTable finalises *)
            (set_head s' e', RTable (ce_name e) (ce_added e), ev)
        | (None, s', ev) => (s', RFail, ev)
        end
    | AddRule n r =>
        match get s n with
        | (Some e, s', ev) =>
            if ce_final e then (s', RAdded false, ev)
            else if valid r then (set_head s' (mkCE (ce_name e) (ce_added e ++ [r]) false), RAdded true, ev)
            else (s', RAdded false, ev)
        | (None, s', ev) => (s', RAdded false, ev)
        end
    end.

  Fixpoint arun (s : astate) (ops : list aop) : astate * list (ares * list aevent) :=
    match ops with
    | [] => (s, [])
    | o :: ops' =>
        let '(s', r, ev) := astep s o in
        let '(s'', rs) := arun s' ops' in
        (s'', (r, ev) :: rs)
    end.

  (* rules accepted for n since the last Free and before n was first used for translation *)
  Fixpoint accepted (ops : list aop) (n : name) (acc : list N) (final : bool) : list N * bool :=
    match ops with
    | [] => (acc, final)
    | Free :: ops' => accepted ops' n [] false
    | Use m :: ops' => if (compiles m) && key_hit m n && key_hit n m then accepted ops' n acc true else accepted ops' n acc final
    | AddRule m r :: ops' =>
        if (compiles m) && key_hit m n && key_hit n m && negb final && valid r
        then accepted ops' n (acc ++ [r]) final else accepted ops' n acc final
    end.
End Api.

(* classification of the persistent variables (by reading the code; DESIGN.md A.6) *)
Inductive sclass :=
| ResetBeforeUse        (* (re)initialised by every call / stage before it is read *)
| CompleteKeyCache      (* cache whose key determines the cached value completely *)
| SizedScratch          (* scratch buffer / its recorded size: contents written before they are read *)
| IdempotentInit        (* computed once from constants *)
| Configuration         (* set only by an explicit API call (log level, callbacks, data path, index) *)
| OutputOnly            (* formatting buffer whose address is handed out, never read back *)
| ConstantData.         (* never written after its initialiser *)
