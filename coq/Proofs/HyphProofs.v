(* Proof of C17: the automaton walk over the trie built from a dictionary equals the
   declarative pattern-matching semantics (Aho-Corasick invariant). *)
From Coq Require Import List NArith ZArith Bool Lia.
From Lou Require Import Model.Hyph Model.HyphSpec.
Import ListNotations.
Local Open Scope N_scope.

(* ------------------------------------------------------------------ *)
(* 1. applying a pattern: apply_pat vs apply_digits, stripped zeros     *)

Lemma bump_zero : forall (h : list N) (k : nat), bump h k 0 = h.
Proof.
  induction h as [|x h IH]; intros [|k]; cbn [bump]; try reflexivity.
  - assert (E : (x <? 0) = false) by (apply N.ltb_ge; apply N.le_0_l).
    rewrite E. reflexivity.
  - rewrite IH. reflexivity.
Qed.

Lemma apply_digits_ge : forall (p : list N) (h : list N) (off n : Z),
  (n <= off)%Z -> apply_digits h off p n = h.
Proof.
  induction p as [|v p IH]; intros h off n H; cbn [apply_digits]; [reflexivity|].
  replace ((0 <=? off) && (off <? n))%Z with false.
  - apply IH. lia.
  - symmetry. apply andb_false_iff. right. apply Z.ltb_ge. lia.
Qed.

Lemma apply_pat_digits : forall (pat : list N) (h : list N) (off n : Z) (oob : bool),
  fst (apply_pat h off pat n oob) = apply_digits h off pat n.
Proof.
  induction pat as [|v pat IH]; intros h off n oob; cbn [apply_pat apply_digits];
    [reflexivity|].
  destruct (off <? n)%Z eqn:E1.
  - destruct (off <? 0)%Z eqn:E2.
    + replace (0 <=? off)%Z with false
        by (symmetry; apply Z.leb_gt; apply Z.ltb_lt in E2; lia).
      cbn [andb]. apply IH.
    + replace (0 <=? off)%Z with true
        by (symmetry; apply Z.leb_le; apply Z.ltb_ge in E2; lia).
      cbn [andb]. apply IH.
  - rewrite andb_false_r. cbn [fst]. symmetry. apply apply_digits_ge.
    apply Z.ltb_ge in E1. lia.
Qed.

Lemma strip0_length : forall p : list N, (length (strip0 p) <= length p)%nat.
Proof.
  induction p as [|v p IH]; [cbn; lia|].
  destruct v as [|q]; cbn [strip0 length]; lia.
Qed.

Lemma apply_digits_strip0 : forall (p : list N) (h : list N) (off n : Z),
  apply_digits h off p n =
  apply_digits h (off + Z.of_nat (length p) - Z.of_nat (length (strip0 p)))%Z (strip0 p) n.
Proof.
  induction p as [|v p IH]; intros h off n.
  - reflexivity.
  - destruct v as [|q].
    + cbn [strip0 apply_digits]. rewrite bump_zero.
      assert (E : (if ((0 <=? off) && (off <? n))%Z then h else h) = h)
        by (destruct ((0 <=? off) && (off <? n))%Z; reflexivity).
      rewrite E. rewrite IH. f_equal. cbn [length]. lia.
    + cbn [strip0].
      replace (off + Z.of_nat (length (N.pos q :: p)) - Z.of_nat (length (N.pos q :: p)))%Z
        with off by lia.
      reflexivity.
Qed.

Lemma apply_main : forall (p : list N) (s : list char) (h : list N) (i : nat) (n : Z) (oob : bool),
  length p = S (length s) ->
  fst (apply_pat h (Z.of_nat i + 1 - Z.of_nat (length (strip0 p)))%Z (strip0 p) n oob) =
  apply_digits h (Z.of_nat i - Z.of_nat (length s))%Z p n.
Proof.
  intros p s h i n oob Hlen.
  rewrite apply_pat_digits, (apply_digits_strip0 p). f_equal. lia.
Qed.

(* ------------------------------------------------------------------ *)
(* 2. the trie: lookup after insert                                     *)

Lemma t_insert_cons : forall (a : char) (w : list char) (p : list N) (t : trie),
  t_insert (a :: w) p t =
  match t with
  | Nil => Edge a (match w with [] => Some p | _ => None end) (t_insert w p Nil) Nil
  | Edge c' p' d n =>
      if a =? c' then Edge c' (match w with [] => Some p | _ => p' end) (t_insert w p d) n
      else Edge c' p' d (t_insert (a :: w) p n)
  end.
Proof. intros a w p t. destruct t; reflexivity. Qed.

Definition old_pat (t : trie) (a : char) : option (list N) :=
  match t_find t a with Some (p', _) => p' | None => None end.

Definition old_down (t : trie) (a : char) : trie :=
  match t_find t a with Some (_, d) => d | None => Nil end.

Lemma t_find_insert_same : forall (a : char) (w : list char) (p : list N) (t : trie),
  t_find (t_insert (a :: w) p t) a =
  Some (match w with [] => Some p | _ => old_pat t a end, t_insert w p (old_down t a)).
Proof.
  intros a w p t. unfold old_pat, old_down.
  induction t as [|c' p' d _ n IHn]; rewrite t_insert_cons.
  - cbn [t_find]. rewrite N.eqb_refl. reflexivity.
  - destruct (a =? c') eqn:E; cbn [t_find]; rewrite E.
    + reflexivity.
    + exact IHn.
Qed.

Lemma t_find_insert_other : forall (a c : char) (w : list char) (p : list N) (t : trie),
  (c =? a) = false -> t_find (t_insert (a :: w) p t) c = t_find t c.
Proof.
  intros a c w p t H.
  induction t as [|c' p' d _ n IHn]; rewrite t_insert_cons.
  - cbn [t_find]. rewrite H. reflexivity.
  - destruct (a =? c') eqn:E; cbn [t_find].
    + apply N.eqb_eq in E. subst c'. rewrite H. reflexivity.
    + destruct (c =? c'); [reflexivity | exact IHn].
Qed.

Definition flat (x : option (option (list N))) : option (list N) :=
  match x with Some y => y | None => None end.

Lemma t_lookup_cons : forall (t : trie) (c : char) (r : list char),
  t_lookup t (c :: r) =
  match t_find t c with
  | None => None
  | Some (p, d) => match r with [] => Some p | _ => t_lookup d r end
  end.
Proof. intros t c r. destruct r; reflexivity. Qed.

Lemma t_lookup_insert : forall (w : list char) (p : list N) (t : trie) (c : char) (r : list char),
  t_lookup (t_insert w p t) (c :: r) =
  if eqb_chars (c :: r) w then Some (Some p)
  else if prefixb (c :: r) w then Some (flat (t_lookup t (c :: r)))
  else t_lookup t (c :: r).
Proof.
  induction w as [|a w IH]; intros p t c r.
  - reflexivity.
  - cbn [eqb_chars prefixb]. rewrite !t_lookup_cons.
    destruct (c =? a) eqn:E.
    + apply N.eqb_eq in E. subst c. rewrite t_find_insert_same. cbn [andb].
      destruct r as [|c2 r2].
      * destruct w as [|a2 w2]; cbn [eqb_chars prefixb].
        -- reflexivity.
        -- unfold old_pat. destruct (t_find t a) as [[p0 d0]|]; reflexivity.
      * rewrite IH. unfold old_down. destruct (t_find t a) as [[p0 d0]|].
        -- reflexivity.
        -- reflexivity.
    + rewrite t_find_insert_other by exact E. cbn [andb]. reflexivity.
Qed.

(* ------------------------------------------------------------------ *)
(* 3. the trie built from a dictionary                                  *)

Lemma eqb_prefixb : forall s w : list char, eqb_chars s w = true -> prefixb s w = true.
Proof.
  induction s as [|x s IH]; intros [|y w] H; cbn [eqb_chars prefixb] in *; try congruence.
  apply andb_true_iff in H as [H1 H2]. rewrite H1, (IH _ H2). reflexivity.
Qed.

Lemma eqb_length : forall s w : list char, eqb_chars s w = true -> length s = length w.
Proof.
  induction s as [|x s IH]; intros [|y w] H; cbn [eqb_chars length] in *; try congruence.
  apply andb_true_iff in H as [_ H2]. rewrite (IH _ H2). reflexivity.
Qed.

Lemma prefixb_snoc : forall (s : list char) (c : char) (w : list char),
  prefixb (s ++ [c]) w = true -> prefixb s w = true.
Proof.
  induction s as [|x s IH]; intros c [|y w] H; cbn [app prefixb] in *; try congruence.
  apply andb_true_iff in H as [H1 H2]. rewrite H1, (IH _ _ H2). reflexivity.
Qed.

Lemma pat_fold_none : forall (s : list char) (es : list (list char * list N)) (acc : option (list N)),
  existsb (fun e => prefixb s (fst e)) es = false ->
  fold_left (fun acc e => if eqb_chars s (fst e) then Some (snd e) else acc) es acc = acc.
Proof.
  intros s. induction es as [|e es IH]; intros acc H; cbn [fold_left existsb] in *.
  - reflexivity.
  - apply orb_false_iff in H as [H1 H2].
    destruct (eqb_chars s (fst e)) eqn:E.
    + apply eqb_prefixb in E. congruence.
    + apply IH. exact H2.
Qed.

Lemma build_app : forall (d : list (list char)) (tok : list char),
  build (d ++ [tok]) = add_token (build d) tok.
Proof. intros d tok. unfold build. rewrite fold_left_app. reflexivity. Qed.

Lemma lookup_build : forall (d : list (list char)) (c : char) (r : list char),
  t_lookup (build d) (c :: r) =
  if is_pat_prefix d (c :: r) then Some (option_map strip0 (pat_of d (c :: r))) else None.
Proof.
  induction d as [|tok d IHd] using rev_ind; intros c r.
  - reflexivity.
  - rewrite build_app. unfold add_token. destruct (split_token tok) as [w p] eqn:E.
    rewrite t_lookup_insert, IHd.
    unfold is_pat_prefix, pat_of, entries.
    rewrite map_app, existsb_app, fold_left_app. cbn [map existsb fold_left].
    rewrite E. cbn [fst snd]. rewrite orb_false_r.
    destruct (eqb_chars (c :: r) w) eqn:E1.
    + rewrite (eqb_prefixb _ _ E1), orb_true_r. reflexivity.
    + destruct (prefixb (c :: r) w) eqn:E2.
      * rewrite orb_true_r.
        destruct (existsb (fun e => prefixb (c :: r) (fst e)) (map split_token d)) eqn:E3.
        -- reflexivity.
        -- rewrite (pat_fold_none _ _ _ E3). reflexivity.
      * rewrite orb_false_r. reflexivity.
Qed.

Lemma is_state_build : forall (d : list (list char)) (c : char) (r : list char),
  is_state (build d) (c :: r) = is_pat_prefix d (c :: r).
Proof.
  intros d c r. unfold is_state, state_of. rewrite lookup_build.
  destruct (is_pat_prefix d (c :: r)); reflexivity.
Qed.

Lemma is_pat_prefix_snoc : forall (d : list (list char)) (s : list char) (c : char),
  is_pat_prefix d (s ++ [c]) = true -> is_pat_prefix d s = true.
Proof.
  intros d s c H. unfold is_pat_prefix in *.
  apply existsb_exists in H as [e [Hin Hp]].
  apply existsb_exists. exists e. split; [exact Hin|].
  apply prefixb_snoc in Hp. exact Hp.
Qed.

(* lengths: a pattern has one more digit than its word has letters *)

Lemma split_token_aux_length : forall (s rw : list char) (rp : list N) (cur : N),
  (length (snd (split_token_aux s rw rp cur)) + length rw =
   length (fst (split_token_aux s rw rp cur)) + length rp + 1)%nat.
Proof.
  induction s as [|c s IH]; intros rw rp cur; cbn [split_token_aux].
  - cbn [fst snd]. rewrite !rev_length. cbn [length]. lia.
  - destruct (is_digit c).
    + apply IH.
    + specialize (IH (c :: rw) (cur :: rp) 0). cbn [length] in IH. lia.
Qed.

Lemma split_token_length : forall tok : list char,
  length (snd (split_token tok)) = S (length (fst (split_token tok))).
Proof.
  intros tok. unfold split_token.
  pose proof (split_token_aux_length tok [] [] 0) as H. cbn [length] in H. lia.
Qed.

Lemma pat_fold_length : forall (s : list char) (es : list (list char * list N)) (acc : option (list N)),
  Forall (fun e => length (snd e) = S (length (fst e))) es ->
  (forall p, acc = Some p -> length p = S (length s)) ->
  forall p,
    fold_left (fun acc e => if eqb_chars s (fst e) then Some (snd e) else acc) es acc = Some p ->
    length p = S (length s).
Proof.
  intros s. induction es as [|e es IH]; intros acc HF Hacc p Hp; cbn [fold_left] in Hp.
  - apply Hacc. exact Hp.
  - inversion HF as [|e' es' He HF']; subst.
    eapply IH; [exact HF' | | exact Hp].
    intros p0 Hp0. destruct (eqb_chars s (fst e)) eqn:E.
    + injection Hp0 as <-. rewrite (eqb_length _ _ E). exact He.
    + apply Hacc. exact Hp0.
Qed.

Lemma pat_of_length : forall (d : list (list char)) (s : list char) (p : list N),
  pat_of d s = Some p -> length p = S (length s).
Proof.
  intros d s p H. unfold pat_of in H.
  eapply pat_fold_length; [ | | exact H].
  - unfold entries. apply Forall_forall. intros e Hin.
    apply in_map_iff in Hin as [tok [Htok _]]. subst e. apply split_token_length.
  - intros p0 Hp0. discriminate Hp0.
Qed.

(* ------------------------------------------------------------------ *)
(* 4. fallback and next_state: the Aho-Corasick step                    *)

(* longest suffix (possibly empty) that is a state *)
Fixpoint lss (t : trie) (l : list char) : list char :=
  match l with
  | [] => []
  | _ :: l' => if is_state t l then l else lss t l'
  end.

Definition prefix_closed (t : trie) : Prop :=
  forall (s : list char) (c : char), s <> [] -> is_state t (s ++ [c]) = true -> is_state t s = true.

Lemma fallback_lss : forall (t : trie) (l : list char) (a : char),
  fallback t (a :: l) = lss t l.
Proof.
  intros t. induction l as [|b l IH]; intros a.
  - reflexivity.
  - change (fallback t (a :: b :: l))
      with (if is_state t (b :: l) then b :: l else fallback t (b :: l)).
    cbn [lss]. destruct (is_state t (b :: l)); [reflexivity|]. apply IH.
Qed.

Lemma lss_find : forall (t : trie) (l : list char),
  lss t l = match find (is_state t) (suffixes l) with Some s => s | None => [] end.
Proof.
  intros t. induction l as [|a l IH]; [reflexivity|].
  cbn [suffixes find lss]. destruct (is_state t (a :: l)); [reflexivity | exact IH].
Qed.

Lemma lss_state : forall (t : trie) (l : list char), is_state t (lss t l) = true.
Proof.
  intros t. induction l as [|a l IH]; [reflexivity|].
  cbn [lss]. destruct (is_state t (a :: l)) eqn:E; [exact E | exact IH].
Qed.

Lemma lss_length : forall (t : trie) (l : list char), (length (lss t l) <= length l)%nat.
Proof.
  intros t. induction l as [|a l IH]; [cbn; lia|].
  cbn [lss]. destruct (is_state t (a :: l)); cbn [length] in *; lia.
Qed.

Lemma find_lss_snoc : forall (t : trie), prefix_closed t ->
  forall (l : list char) (ch : char),
  find (is_state t) (suffixes (lss t l ++ [ch])) = find (is_state t) (suffixes (l ++ [ch])).
Proof.
  intros t PC. induction l as [|a l IH]; intros ch; [reflexivity|].
  cbn [lss]. destruct (is_state t (a :: l)) eqn:E; [reflexivity|].
  rewrite IH. change ((a :: l) ++ [ch]) with (a :: (l ++ [ch])).
  cbn [suffixes find].
  destruct (is_state t (a :: l ++ [ch])) eqn:E2; [|reflexivity].
  exfalso. assert (H : is_state t (a :: l) = true).
  { apply (PC (a :: l) ch); [discriminate | exact E2]. }
  congruence.
Qed.

Lemma next_state_full : forall (t : trie), prefix_closed t ->
  forall (fuel : nat) (l : list char) (ch : char),
  (length l < fuel)%nat -> is_state t l = true ->
  next_state fuel t l ch = find (is_state t) (suffixes (l ++ [ch])).
Proof.
  intros t PC. induction fuel as [|f IHf]; intros l ch Hlen Hst; [lia|].
  cbn [next_state]. destruct l as [|a l'].
  - cbn [app suffixes find]. destruct (is_state t [ch]); reflexivity.
  - change ((a :: l') ++ [ch]) with (a :: (l' ++ [ch])). cbn [suffixes find].
    destruct (is_state t (a :: l' ++ [ch])); [reflexivity|].
    rewrite fallback_lss. rewrite IHf.
    + apply find_lss_snoc. exact PC.
    + pose proof (lss_length t l') as HL. cbn [length] in Hlen. lia.
    + apply lss_state.
Qed.

Lemma next_state_main : forall (t : trie), prefix_closed t ->
  forall (seen : list char) (ch : char),
  next_state (S (S (length (lss t seen)))) t (lss t seen) ch =
  find (is_state t) (suffixes (seen ++ [ch])).
Proof.
  intros t PC seen ch.
  rewrite (next_state_full t PC); [apply find_lss_snoc; exact PC | lia | apply lss_state].
Qed.

Lemma prefix_closed_build : forall d : list (list char), prefix_closed (build d).
Proof.
  intros d s c Hne H. destruct s as [|x r]; [congruence|].
  change ((x :: r) ++ [c]) with (x :: (r ++ [c])) in H.
  rewrite is_state_build in *.
  apply (is_pat_prefix_snoc d (x :: r) c). exact H.
Qed.

(* ------------------------------------------------------------------ *)
(* 5. the walk                                                          *)

Lemma find_suffixes_ext : forall (f g : list char -> bool),
  (forall c r, f (c :: r) = g (c :: r)) ->
  forall l : list char, find f (suffixes l) = find g (suffixes l).
Proof.
  intros f g H. induction l as [|a l IH]; [reflexivity|].
  cbn [suffixes find]. rewrite H, IH. reflexivity.
Qed.

Lemma find_suffixes_cons : forall (f : list char -> bool) (l s : list char),
  find f (suffixes l) = Some s -> exists c r, s = c :: r.
Proof.
  intros f. induction l as [|a l IH]; intros s H; cbn [suffixes find] in H.
  - discriminate H.
  - destruct (f (a :: l)).
    + injection H as <-. exists a, l. reflexivity.
    + apply IH. exact H.
Qed.

Lemma firstn_snoc : forall (seen : list char) (ch : char) (text : list char),
  firstn (S (length seen)) (seen ++ ch :: text) = seen ++ [ch].
Proof.
  induction seen as [|a seen IH]; intros ch text.
  - reflexivity.
  - cbn [length app]. change (firstn (S (S (length seen))) (a :: (seen ++ ch :: text)))
      with (a :: firstn (S (length seen)) (seen ++ ch :: text)).
    rewrite IH. reflexivity.
Qed.

Lemma walk_aux_spec : forall (d : list (list char)) (n : Z) (text seen : list char)
    (h : list N) (oob : bool),
  fst (walk_aux (build d) text (Z.of_nat (length seen)) (lss (build d) seen) n h oob) =
  fold_left (contrib d n (seen ++ text)) (seq (length seen) (length text)) h.
Proof.
  intros d n. set (t := build d).
  induction text as [|ch text IH]; intros seen h oob.
  - reflexivity.
  - assert (IH' : forall h' oob',
      fst (walk_aux t text (Z.of_nat (length seen) + 1)%Z (lss t (seen ++ [ch])) n h' oob') =
      fold_left (contrib d n (seen ++ ch :: text)) (seq (S (length seen)) (length text)) h').
    { intros h' oob'. specialize (IH (seen ++ [ch]) h' oob').
      rewrite app_length in IH. cbn [length] in IH.
      rewrite <- app_assoc in IH. cbn [app] in IH.
      replace (length seen + 1)%nat with (S (length seen)) in IH by lia.
      replace (Z.of_nat (S (length seen))) with (Z.of_nat (length seen) + 1)%Z in IH by lia.
      exact IH. }
    cbn [walk_aux length seq fold_left].
    rewrite (next_state_main t (prefix_closed_build d)).
    unfold contrib at 2. rewrite firstn_snoc.
    rewrite (find_suffixes_ext (is_pat_prefix d) (is_state t))
      by (intros c r; symmetry; apply is_state_build).
    destruct (find (is_state t) (suffixes (seen ++ [ch]))) as [st'|] eqn:F.
    + destruct (find_suffixes_cons _ _ _ F) as [c [r Hs]]. subst st'.
      assert (HL : lss t (seen ++ [ch]) = c :: r) by (rewrite lss_find, F; reflexivity).
      apply find_some in F as [_ Fst].
      unfold t in Fst. rewrite is_state_build in Fst. fold t in Fst.
      change (state_of t (c :: r)) with (t_lookup (build d) (c :: r)).
      rewrite lookup_build. rewrite Fst.
      rewrite HL in IH'.
      destruct (pat_of d (c :: r)) as [p|] eqn:Ep; cbn [option_map].
      * pose proof (apply_main p (c :: r) h (length seen) n oob (pat_of_length _ _ _ Ep)) as HA.
        destruct (apply_pat h (Z.of_nat (length seen) + 1 - Z.of_nat (length (strip0 p)))%Z
                    (strip0 p) n oob) as [h' oob'] eqn:Ea.
        cbn [fst] in HA. subst h'. apply IH'.
      * apply IH'.
    + assert (HL : lss t (seen ++ [ch]) = []) by (rewrite lss_find, F; reflexivity).
      rewrite HL in IH'. apply IH'.
Qed.

Lemma walk_build_spec : forall (d : list (list char)) (w : list char),
  fst (walk (build d) w) = Hyph_spec d w.
Proof.
  intros d w. unfold walk, Hyph_spec.
  exact (walk_aux_spec d (Z.of_nat (length w)) (dot :: w ++ [dot]) []
           (repeat 0 (length w)) false).
Qed.
