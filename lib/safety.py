"""Sanitizer streams for C01/C02: shipped and generated tables x inputs x modes x capacities x argument
presence, exact scratch sizes, exactly sized caller arrays."""
import glob
import os
import re
from pathlib import Path

import common
import trans
from common import REPO

WORDS = ("the quick brown fox jumps over lazy dog Hello WORLD 123 4.5 don't a-b x and for of with to by into in was were his be it as but "
         "child shall this which out still word rather Braille 2nd 10:30 e.g. (test) [x] {y} * + = _ / \\ \" ' ` ~ # $ % & @ ^ |").split()
POOL = [32, 32, 97, 98, 99, 65, 66, 49, 50, 46, 44, 45, 39, 10, 9, 0x2801, 0x28ff, 0xffff, 0x20ac, 0xe9, 0x3b1, 0x4e2d, 0xfffe, 1, 127, 160]
MODEBITS = [1, 2, 4, 32, 64, 128, 256]


def shipped_tables(rng, n):
    ts = sorted(glob.glob(str(REPO / "tables" / "*.ctb")) + glob.glob(str(REPO / "tables" / "*.utb")) +
                glob.glob(str(REPO / "tables" / "*.tbl")))
    if n >= len(ts):
        return ts
    keep = [t for t in ts if os.path.basename(t) in ("en-us-g2.ctb", "en-ueb-g2.ctb", "de-g2.ctb", "fr-bfu-g2.ctb", "en-us-comp8.ctb",
                                                      "hu-hu-g2.ctb", "ko-g2.ctb", "zh-tw.ctb", "nemeth.ctb", "cy-cy-g2.ctb", "ms-my-g2.ctb")]
    rest = [t for t in ts if t not in keep]
    rng.shuffle(rest)
    return (keep + rest)[:n]


_STAGES = {}


def table_stages(path, seen=None):
    """forward / backward stage opcodes (correct, pass2, pass3, pass4, context) a shipped table uses, include files followed;
    read from the table text - a generator aid for picking tables with several stages, not a model of the compiler"""
    path = str(path)
    if path in _STAGES:
        return _STAGES[path]
    seen = seen or set()
    out = set()
    if path in seen or not os.path.exists(path):
        return out
    seen.add(path)
    try:
        text = open(path, encoding="utf-8", errors="replace").read()
    except OSError:
        return out
    for line in text.splitlines():
        w = line.split()
        if not w or w[0].startswith("#"):
            continue
        d = "both"
        if w[0] in ("nofor", "noback") and len(w) > 1:
            d, w = w[0], w[1:]
        if w[0] in ("correct", "pass2", "pass3", "pass4"):
            if d != "nofor":
                out.add(("fwd", w[0]))
            if d != "noback":
                out.add(("back", w[0]))
        elif w[0] == "include" and len(w) > 1:
            out |= table_stages(os.path.join(os.path.dirname(path), w[1]), seen)
    _STAGES[path] = out
    return out


_SPECIALS = {}
SPECIAL_OPCODES = ("joinword", "joinnum", "largesign", "contraction", "nocont", "compbrl", "literal", "repword", "rependword", "repeated",
                   "replace", "syllable", "lowword", "sufword", "prfword", "partword", "exactdots", "comp6", "noletsign", "hyphen",
                   "begnum", "midnum", "endnum", "decpoint")


def special_operands(path, seen=None, limit=400):
    """character operands of the rules with opcodes that have handlers of their own in the translators (they rewind, insert,
    join, skip ...), read from the table text with includes followed; a generator aid: inputs are built around these strings
    because the handlers only run where they occur"""
    path = str(path)
    if seen is None and path in _SPECIALS:
        return _SPECIALS[path]
    top = seen is None
    seen = seen if seen is not None else set()
    out = []
    if path in seen or not os.path.exists(path):
        return out
    seen.add(path)
    try:
        text = open(path, encoding="utf-8", errors="replace").read()
    except OSError:
        return out
    for line in text.splitlines():
        w = line.split()
        if not w or w[0].startswith("#"):
            continue
        if w[0] in ("nofor", "noback", "nocross") and len(w) > 1:
            w = w[1:]
        if w[0] in SPECIAL_OPCODES and len(w) > 1 and len(out) < limit:
            sp = w[1].replace("\\s", " ")
            if "\\" not in sp and 0 < len(sp) <= 8:
                out.append((w[0], [ord(c) for c in sp if ord(c) < 0x10000]))
        elif w[0] == "include" and len(w) > 1:
            out += special_operands(os.path.join(os.path.dirname(path), w[1]), seen, limit)
    if top:
        _SPECIALS[path] = out
    return out


def gen_around_specials(rng, specials, filler):
    """a short input with one or two of the table's special strings among ordinary words: directly followed by a letter, by a
    blank and a word, at the very end, doubled with a hyphen (what repeated-word rules look for)"""
    word = lambda: [rng.choice(filler) for _ in range(rng.range(1, 4))]
    out = []
    for _ in range(rng.range(1, 2)):
        op, sp = rng.choice(specials)
        k = rng.below(6)
        if k == 0:
            out += sp + [32] + word()
        elif k == 1:
            out += word() + [32] + sp + word()
        elif k == 2:
            out += word() + sp
        elif k == 3:
            u = word()
            out += word() + u + sp + u          # xab-ab: the part behind the separator repeats the end of the part before it
        elif k == 4:
            out += sp + sp + [32] + sp
        else:
            out += word() + [32] + sp
        if rng.chance(0.5):
            out += [32]
    return out[:40]


def multistage_tables(direction="fwd", least=2):
    """shipped tables with at least `least` stages besides the main pass in the given direction"""
    ts = sorted(glob.glob(str(REPO / "tables" / "*.ctb")) + glob.glob(str(REPO / "tables" / "*.utb")))
    return [t for t in ts if len([1 for d, _ in table_stages(t) if d == direction]) >= least]


RUNCHARS = [45, 95, 46, 61, 126, 58, 42, 64, 32, 0x2014, 0x2026, 9]


def gen_runs(rng, maxlen=40):
    """words interleaved with runs of one repeated character (tables have `repeated' rules for ---, ____, ...., ===);
    often the input ends inside a run"""
    out = []
    for _ in range(rng.range(1, 4)):
        if rng.chance(0.7):
            out += [ord(c) for c in rng.choice(WORDS)] + [32]
        out += [rng.choice(RUNCHARS)] * rng.range(1, 9)
        if rng.chance(0.5):
            out += [32]
    if rng.chance(0.6):
        while out and out[-1] == 32:
            out.pop()
    return out[:maxlen] or [45]


FUNCTION_WORDS = "to by into and for of the with a in was were his be it as but not you that".split()


def gen_sentence(rng, maxlen=40):
    """short words that contracted-braille tables treat specially (joined to the next word, large signs, whole-word
    contractions), each followed by an ordinary word"""
    ws = []
    for _ in range(rng.range(1, 4)):
        ws.append(rng.choice(FUNCTION_WORDS))
        if rng.chance(0.8):
            ws.append(rng.choice(WORDS))
    s = " ".join(ws)
    inp = [ord(c) for c in s][:maxlen]
    return capitalise(rng, inp) if rng.chance(0.3) else inp


def gen_poison_probe(rng):
    """a long homogeneous input followed by shorter inputs that end inside a run of the same character: whatever reads behind
    the end of a pass input then sees characters that continue the run"""
    c = rng.choice(RUNCHARS[:8])
    group = [[c] * 40]
    for _ in range(4):
        w = [ord(x) for x in rng.choice(WORDS)] + [32] if rng.chance(0.7) else []
        group.append(w + [c] * rng.range(1, 7))
    return group


def gen_input(rng, maxlen=40):
    k = rng.below(8)
    if k == 6:
        return gen_runs(rng, maxlen)
    if k == 7:
        return gen_sentence(rng, maxlen)
    if k == 0:
        s = " ".join(rng.choice(WORDS) for _ in range(rng.range(1, 8)))
        inp = [ord(c) for c in s][:maxlen]
        if rng.chance(0.4):
            inp = capitalise(rng, inp)
    elif k == 1:
        inp = [rng.choice(POOL) for _ in range(rng.range(0, maxlen))]
    elif k == 2:
        inp = [rng.range(32, 126) for _ in range(rng.range(0, maxlen))]
    elif k == 3:
        w = rng.choice(WORDS)
        inp = [ord(c) for c in (w + " ") * rng.range(1, 6)][:maxlen]
    elif k == 4:
        inp = [rng.choice([97, 32, 0xffff, 65, 49]) for _ in range(rng.range(0, maxlen))]
    else:
        inp = [rng.range(1, 0xffff) for _ in range(rng.range(0, 12))]
    return inp


def gen_typeform(rng, n):
    """emphasis in runs (italic 1, underline 2, bold 4, emph_4 8 ... , computer_braille 0x400, no_translate 0x800,
    no_contract 0x1000: liblouis.h), often
    starting or ending inside a word - an emphasis that begins and ends inside a contracted group makes the raw
    position map non-monotone"""
    tf = [0] * n
    if n == 0 or rng.chance(0.25):
        return tf
    i = 0
    while i < n:
        run = rng.range(1, 4)
        v = rng.choice([0, 0, 0, 1, 1, 2, 4, 8, 0x10, 0x20, 1 | 4, 0x400, 0x800, 0x1000, 0x1000, 0x1001])
        for k in range(i, min(n, i + run)):
            tf[k] = v
        i += run
    return tf


def capitalise(rng, inp):
    """capital first letters / whole capital words on some words"""
    out = list(inp)
    start = True
    mode = 0
    for i, c in enumerate(out):
        if start:
            mode = rng.choice([0, 0, 1, 2])
        if 97 <= c <= 122 and ((mode == 1 and start) or mode == 2):
            out[i] = c - 32
        start = c == 32
    return out


def gen_mode(rng):
    k = rng.below(5)
    if k == 0:
        return 0
    if k == 1:
        return rng.choice(MODEBITS)
    m = 0
    for b in MODEBITS:
        if rng.chance(0.3):
            m |= b
    return m


def gen_case(rng, fns, maxlen=40, cells=False):
    inp = gen_input(rng, maxlen)
    mode = gen_mode(rng)
    fn = rng.choice(fns)
    if cells:
        # braille input: characters of a forward translation are produced elsewhere; here raw cells / chars
        if mode & 4:
            inp = [(c & 0xff) | (0x8000 if rng.chance(0.8) else 0x2800) for c in inp]
            if rng.chance(0.25) and inp:
                # cells with virtual dots (9-f), up to all fifteen: undefined in most tables, shown as \dots/ text
                heavy = [0xffff ^ (1 << b) for b in range(15)] + [0xffff, 0xfffe, 0xbfff, 0xff00, 0xaaaa, 0xd555]
                for _ in range(rng.range(1, 3)):
                    inp[rng.below(len(inp))] = rng.choice(heavy) if rng.chance(0.7) else 0x8000 | rng.range(0, 0x7fff)
        elif rng.chance(0.3):
            inp = [0x2800 | (c & 0xff) for c in inp]
    full = len(inp) * 4 + 10
    outlen = rng.choice([full, full, full, rng.range(0, len(inp) + 3), len(inp), 0, 1, 2])
    presence = rng.choice([0, 31, 12, 15, 1, 2, 3, 28, 16 + 4, 8])
    cursor = -2
    if presence & 16:
        if len(inp) > 0:
            cursor = rng.range(0, len(inp) - 1)
        else:
            presence &= ~16
    if (mode & (2 | 32)) and not (presence & 16 and cursor >= 0):
        mode &= ~(2 | 32)   # compbrlAtCursor needs a cursor
    inlen = len(inp)
    if rng.chance(0.08) and len(inp) > 2:
        # embedded NUL: the call's input ends there although inlen says more
        z = rng.range(0, len(inp) - 1)
        inp = inp[:z] + [0] + inp[z + 1:]
        if presence & 16 and cursor >= z:
            cursor = max(0, z - 1) if z > 0 else -2
            if cursor == -2:
                presence &= ~16
                mode &= ~(2 | 32)
    tf = None
    if presence & 1 and rng.chance(0.6) and not cells:
        tf = [rng.choice([0, 0, 0, 1, 2, 4, 8, 0x100, 0x200, 0x400, 0x800, 0x1000, 0x1000, 0x2000, 0x4000, 0x8000, 0xffff]) for _ in inp]
    sp = None
    if presence & 2 and rng.chance(0.5):
        sp = "".join(rng.choice("0123456789 *") for _ in range(min(len(inp), 20)))
    return trans.case_line(fn, mode, inp, outlen, inlen=inlen, cursor=cursor, presence=presence, typeform=tf, spacing=sp)


def classify(r):
    """None if fine; else (key, description)"""
    if r.crash:
        m = re.search(r" at (\w+) (\S+)$", r.crash[1])
        site = m.group(1) if m else re.sub(r"0x[0-9a-f]+", "", r.crash[1])[:60]
        return ("crash:" + site, r.crash[1])
    if r.hang is not None:
        return ("hang:site%d" % r.hang, "tick budget exceeded at loop site %d" % r.hang)
    return None
