(* vocabulary of the generated resolution facts (Gen/GResolve.v) *)
From Coq Require Import List NArith.
Import ListNotations.

(* how resolveSubtable builds the file name it tests with stat(), in program order *)
Inductive cand :=
| CBaseDir            (* directory part of `base` ++ table; only when base is given *)
| CAsGiven            (* table itself *)
| CDir                (* dir / table *)
| CDirSub (sub : list N)  (* dir / sub / table *)
| CBreakIfLast.       (* `if (last) break;` inside the search-path loop *)

(* how _lou_getTablePath assembles the search path, in order *)
Inductive pathpart :=
| PEnv                (* LOUIS_TABLEPATH, when set and non-empty (may itself contain commas) *)
| PData (sub : list N)   (* dataPath / sub, when set and non-empty *)
| PBuiltinIfNoEnv.    (* TABLESDIR, only when LOUIS_TABLEPATH was not used *)
