(* M3 (backward multipass stages, literal rules) — back_passDoTest / back_passDoAction, the backward
   translatePass / makeCorrections scanners and the pass driver of _lou_backTranslate with its
   position-map composition.  The position map of a backward stage is indexed by INPUT position;
   entries the stage never writes are modelled by the marker UNSET (the C code leaves them
   uninitialised).  Executable, no proofs.                                                    *)
From Coq Require Import List ZArith Bool.
From Lou Require Import Gen.GConst Gen.GChain Gen.GProgress Model.Table Model.Finish Model.Back Model.Pass.
Import ListNotations.
Local Open Scope Z_scope.

Definition UNSET : Z := -7777.

Fixpoint bpass_insert (new : prule) (c : list prule) : list prule :=
  match c with
  | [] => [new]
  | r :: c' => if back_pass_before (litlen new) (litlen r) then new :: c else r :: bpass_insert new c'
  end.
Definition bpass_chain (rules : list prule) : list prule := fold_left (fun c r => bpass_insert r c) rules [].

(* matchCurrentInput (backward): no end-of-input test; a literal that runs past the input makes the
   whole test fail at the next `pos > input->length' check, whatever lies behind the end *)
Fixpoint bmatch_current (inp : list Z) (pos : Z) (cs : list Z) : bool :=
  match cs with
  | [] => true
  | c :: cs' => if pos <? len inp then (nth_z inp pos =? c) && bmatch_current inp (pos + 1) cs' else false
  end.

Fixpoint bdo_test (inp : list Z) (items : list titem) (pos sr er : Z) : option (Z * Z * Z) :=
  if pos >? len inp then None
  else
    match items with
    | [] => Some (pos, sr, er)
    | TLook k :: r => if pos - k <? 0 then None else bdo_test inp r (pos - k) sr er
    | TLit cs :: r => if bmatch_current inp pos cs then bdo_test inp r (pos + len cs) sr er else None
    | TOpen :: r => bdo_test inp r pos pos er
    | TClose :: r => bdo_test inp r pos sr pos
    end.

Definition bpass_test (inp : list Z) (r : prule) (pos : Z) : option pmatch :=
  match bdo_test inp (p_test r) pos (-1) (-1) with
  | None => None
  | Some (em, sr, er) =>
      (* pass_endTest (backward): the replaced range may start before the match, but must not end before it *)
      let sr' := if sr =? -1 then pos else sr in
      let er' := if sr =? -1 then em else er in
      if er' <? pos then None else Some (mkPM pos sr' er' em)
  end.

Record bpstate := mkBP {
  bp_pos : Z;
  bp_out : list Z;       (* oldest first *)
  bp_pm : list Z;        (* indexed by input position, length = input length + 1 *)
  bp_inc : bool;
  bp_trace : list Z
}.

Fixpoint set_range (pm : list Z) (a : Z) (cnt : nat) (v : Z) : list Z :=
  match cnt with
  | O => pm
  | S c => set_range (if a <? 0 then pm else set_nth pm (Z.to_nat a) v) (a + 1) c v
  end.

(* copyCharacters (backward): posMapping[from] = output length at that moment, per element *)
Fixpoint bcopy_aux (inp : list Z) (out pm : list Z) (from : Z) (cnt : nat) : list Z * list Z :=
  match cnt with
  | O => (out, pm)
  | S c => bcopy_aux inp (out ++ [nth_z inp from]) (if from <? 0 then pm else set_nth pm (Z.to_nat from) (len out)) (from + 1) c
  end.

Definition bcopy_chars (inp : list Z) (cap : Z) (out pm : list Z) (a b : Z) : option (list Z * list Z) :=
  if b >? a then
    if len out + b - a >? cap then None else Some (bcopy_aux inp out pm a (Z.to_nat (b - a)))
  else Some (out, pm).

Definition bdo_action (inp : list Z) (cap : Z) (r : prule) (m : pmatch) (out pm : list Z)
  : list Z * list Z * option Z :=
  let dsm := len out in
  match bcopy_chars inp cap out pm (m_start m) (m_sr m) with
  | None => (out, pm, None)
  | Some (out1, pm1) =>
      let dsr := len out1 in
      let pm1' := set_range pm1 (m_sr m) (Z.to_nat (m_er m - m_sr m)) (len out1) in
      match p_act r with
      | ALit cs =>
          if len out1 + len cs >? cap then (out1, pm1', None) else (out1 ++ cs, pm1', Some (m_er m))
      | AOmit => (out1, pm1', Some (m_er m))
      | ACopy =>
          let count := dsr - dsm in
          (* the same capacity test as the forward direction (memmove of the cells copied in front of the brackets) *)
          if (count >? 0) && (dsr + count >? cap) then (out1, pm1', None)
          else
          let out2 := if count >? 0 then firstn (Z.to_nat dsm) out1 else out1 in
          match bcopy_chars inp cap out2 pm1' (m_sr m) (m_er m) with
          | None => (out2, pm1', None)
          | Some (out3, pm3) =>
              (out3, set_range pm3 (m_er m) (Z.to_nat (m_end m - m_er m)) (len out3), Some (Z.max (m_er m) (m_end m)))
          end
      end
  end.

Section BStage.
  Variable kind : stage_kind.
  Variable chain : list prule.
  Variable is_space : Z -> bool.
  Variable inp : list Z.
  Variable cap : Z.

  Definition bsn := len inp.
  Definition bstage_inc := match kind with KCorrect => back_correct_inc | KPass => back_pass_inc end.

  Fixpoint bfind_rule (c : list prule) (pos : Z) : option (prule * pmatch) :=
    match c with
    | [] => None
    | r :: c' => match bpass_test inp r pos with Some m => Some (r, m) | None => bfind_rule c' pos end
    end.

  Fixpoint bsskip (fuel : nat) (p : Z) : Z :=
    match fuel with
    | O => p
    | S f => if (p <? bsn) && is_space (nth_z inp p) then bsskip f (p + 1) else p
    end.

  Definition bsfinish (s : bpstate) : sresult :=
    let consumed := match kind with KCorrect => bp_pos s | KPass => bsskip (length inp) (bp_pos s) end in
    (* the blanks skipped at the end are mapped to the final output length *)
    SOk consumed (bp_out s) (set_range (bp_pm s) (bp_pos s) (Z.to_nat (consumed - bp_pos s)) (len (bp_out s))) (rev (bp_trace s)).

  Definition bsstep (s : bpstate) : bpstate * bool :=
    let pos := bp_pos s in
    let hit := if bp_inc s then bfind_rule chain pos else None in
    match hit with
    | Some (r, m) =>
        match bdo_action inp cap r m (bp_out s) (bp_pm s) with
        | (out, pm, None) => (mkBP pos out pm (bp_inc s) (p_idx r :: bp_trace s), false)
        | (out, pm, Some newpos) =>
            (* posIncremented after a rule: the expression REGENERATED from the backward makeCorrections / translatePass *)
            (mkBP newpos out pm (bstage_inc newpos pos (len out) (len (bp_out s))) (p_idx r :: bp_trace s), true)
        end
    | None =>
        if len (bp_out s) + 1 >? cap then (s, false)
        else (mkBP (pos + 1) (bp_out s ++ [nth_z inp pos]) (set_nth (bp_pm s) (Z.to_nat pos) (len (bp_out s))) true (bp_trace s), true)
    end.

  Fixpoint bsloop (fuel : nat) (s : bpstate) : sresult :=
    match fuel with
    | O => SOutOfFuel
    | S f =>
        if bp_pos s >=? bsn then bsfinish s
        else let '(s', go) := bsstep s in if go then bsloop f s' else bsfinish s'
    end.
End BStage.

(* a backward match never moves the position backwards (pass_endTest), but the replaced range may start
   before the match; every step that does not advance is followed by a copy that emits one element and
   the output never shrinks, so at most capacity + 1 such events happen, with at most length + 1
   advancing steps between two of them (a generous bound) *)
Definition bstage_fuel (inp : list Z) (cap : Z) : nat := S ((length inp + 2) * (Z.to_nat cap + 3)).

Definition run_bstage (kind : stage_kind) (rules : list prule) (is_space : Z -> bool) (inp : list Z) (cap : Z) : sresult :=
  bsloop kind (bpass_chain rules) is_space inp cap (bstage_fuel inp cap)
         (mkBP 0 [] (repeat UNSET (S (length inp))) true []).

(* ---------------------------------------------------------------- the backward driver *)

(* composition of _lou_backTranslate for the second and later stages: prev maps original input
   positions to positions in this stage's input; stage maps those to its output.
   Returns the new map and the new *inlen. *)
Fixpoint compose_back_aux (prev stage : list Z) (k : Z) (todo : nat) (realInlen outlen : Z)
         (backtracked : bool) (acc : list Z) : list Z * option Z :=
  match todo with
  | O => (rev acc, None)
  | S td =>
      let p := nth_z prev k in
      if p <? 0 then compose_back_aux prev stage (k + 1) td realInlen outlen backtracked (nth_z stage 0 :: acc)
      else if p <? realInlen then compose_back_aux prev stage (k + 1) td realInlen outlen backtracked (nth_z stage p :: acc)
      else if p =? realInlen then
        if backtracked then (rev (outlen :: acc), Some k)
        else compose_back_aux prev stage (k + 1) td realInlen outlen backtracked (nth_z stage p :: acc)
      else (rev (outlen :: acc), Some k)
  end.

Inductive bdresult :=
| BDOk (consumed : Z) (chars : list Z) (pm : list Z) (trace : list Z)    (* pm: entries [0, consumed) *)
| BDUnsupported
| BDOutOfFuel.

(* state between stages: current text, map (original input position -> position in current text,
   length = inlen + 1 conceptually), *inlen, trace *)
Definition bafter (acc : option (list Z * list Z * Z * list Z)) (stage_in_len : Z) (r : sresult)
  : option (list Z * list Z * Z * list Z) :=
  match r with
  | SOutOfFuel => None
  | SOk realInlen out pm tr =>
      let stagemap := set_nth pm (Z.to_nat realInlen) (len out) in
      match acc with
      | None =>
          (* first stage: the map is the stage map; *inlen shrinks when the stage stopped early *)
          Some (out, stagemap, realInlen, tr)
      | Some (_, prevmap, inlen, tr0) =>
          let '(newmap, cut) :=
            compose_back_aux prevmap stagemap 0 (S (Z.to_nat inlen)) realInlen (len out) (realInlen <? stage_in_len) [] in
          Some (out, newmap, match cut with Some k => k | None => inlen end, tr0 ++ tr)
      end
  end.

Definition backward (pt : ptable) (inp : list Z) (cap : Z) : bdresult :=
  let t := pt_main pt in
  let np := num_passes pt in
  let run_pass (acc : option (option (list Z * list Z * Z * list Z))) (rules : list prule) :=
    match acc with
    | None => None
    | Some a =>
        let i := match a with Some (o, _, _, _) => o | None => inp end in
        match bafter a (len i) (run_bstage KPass rules (cell_space t) i cap) with
        | None => None
        | Some x => Some (Some x)
        end
    end in
  let a4 := if 4 <=? np then run_pass (Some None) (pt_pass4 pt) else Some None in
  let a3 := if 3 <=? np then run_pass a4 (pt_pass3 pt) else a4 in
  let a2 := if 2 <=? np then run_pass a3 (pt_pass2 pt) else a3 in
  match a2 with
  | None => BDOutOfFuel
  | Some a =>
      let i := match a with Some (o, _, _, _) => o | None => inp end in
      match back_run t i cap with
      | BUnsupported => BDUnsupported
      | BOutOfFuel => BDOutOfFuel
      | BOk consumed chars pm =>
          (* the main pass as a stage: its map has one entry per processed input cell *)
          let stagepm := pm ++ repeat UNSET (S (length i) - length pm) in
          match bafter a (len i) (SOk consumed chars stagepm []) with
          | None => BDOutOfFuel
          | Some a1 =>
              let a0 :=
                if pt_corr pt then
                  let '(o, _, _, _) := a1 in
                  bafter (Some a1) (len o) (run_bstage KCorrect (pt_correct pt) (fun _ => false) o cap)
                else Some a1 in
              match a0 with
              | None => BDOutOfFuel
              | Some (out, map, inlen, tr) => BDOk inlen out (firstn (Z.to_nat inlen) map) tr
              end
          end
      end
  end.
