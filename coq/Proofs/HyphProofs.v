From Coq Require Import List NArith ZArith Bool.
From Lou Require Import Model.Hyph Model.HyphSpec.
