(* Proofs for C18 (metadata scoring and selection).  The proofs go through the bodies of the
   generated definitions of Gen/GMeta.v (weights, find_better, tables_keep, info_replaces). *)
From Coq Require Import List ZArith NArith Bool Lia Permutation.
From Lou Require Import Gen.GMeta Model.Meta.
Import ListNotations.
Local Open Scope Z_scope.

(* lia sees [@cons feat] and [@cons (N * list N)] as different atoms *)
Ltac flia := unfold feat in *; lia.

(* ---------- matchLanguageTags ---------- *)

Lemma walk_nil_range : forall tag q,
  tags_walk tag [] q = q + L_EXTRA * Z.of_nat (length tag).
Proof.
  induction tag as [|t tag IH]; intros q; cbn [tags_walk length].
  - lia.
  - rewrite IH. rewrite Nat2Z.inj_succ. unfold L_EXTRA. lia.
Qed.

Lemma walk_prefix : forall r e q,
  tags_walk (r ++ e) r q = q + L_EXTRA * Z.of_nat (length e).
Proof.
  induction r as [|a r IH]; intros e q.
  - cbn [app]. apply walk_nil_range.
  - cbn [app tags_walk]. rewrite N.eqb_refl. apply IH.
Qed.

Lemma walk_refl : forall t q, tags_walk t t q = q.
Proof.
  intros t q. pose proof (walk_prefix t [] q) as H. rewrite app_nil_r in H.
  rewrite H. cbn [length]. lia.
Qed.

(* if (!tag) return 0: a range with more subtags than the tag never matches *)
Lemma walk_short : forall tag range q,
  (length tag < length range)%nat -> tags_walk tag range q = 0.
Proof.
  induction tag as [|t tag IH]; intros range q Hlen.
  - destruct range as [|r range]; [cbn [length] in Hlen; lia|]. reflexivity.
  - destruct range as [|r range]; [cbn [length] in Hlen; lia|].
    cbn [tags_walk]. cbn [length] in Hlen.
    destruct (N.eqb t r) eqn:Etr.
    + apply IH. lia.
    + destruct (single t) eqn:Es; [reflexivity|].
      apply IH. cbn [length]. lia.
Qed.

(* subtags of the tag that the range does not mention are skipped at the cost of EXTRA each,
   provided none of them is one character long *)
Lemma walk_subseq : forall tag range q,
  subseq range tag = true ->
  forallb (fun s => negb (single s)) tag = true ->
  tags_walk tag range q = q + L_EXTRA * (Z.of_nat (length tag) - Z.of_nat (length range)).
Proof.
  induction tag as [|t tag IH]; intros range q Hsub Hns.
  - destruct range as [|r range]; [|cbn [subseq] in Hsub; discriminate Hsub].
    cbn [tags_walk length]. lia.
  - destruct range as [|r range].
    + rewrite walk_nil_range. cbn [length]. lia.
    + cbn [forallb] in Hns. apply andb_prop in Hns. destruct Hns as [Ht Hns].
      apply negb_true_iff in Ht.
      cbn [subseq] in Hsub. cbn [tags_walk].
      destruct (N.eqb_spec t r) as [Etr|Etr].
      * subst r. rewrite N.eqb_refl in Hsub.
        rewrite (IH range q Hsub Hns). cbn [length]. rewrite !Nat2Z.inj_succ. lia.
      * assert (Ert : N.eqb r t = false) by (apply N.eqb_neq; congruence).
        rewrite Ert in Hsub. rewrite Ht.
        rewrite (IH (r :: range) (q + L_EXTRA) Hsub Hns).
        cbn [length]. rewrite !Nat2Z.inj_succ. unfold L_EXTRA. lia.
Qed.

Lemma no_wild_head_inv : forall v,
  no_wild_head v = true -> exists s v', v = s :: v' /\ is_wild s = false.
Proof.
  intros [|s v'] H; cbn [no_wild_head] in H; [discriminate H|].
  exists s, v'. split; [reflexivity|]. apply negb_true_iff. exact H.
Qed.

Lemma match_same : forall t, no_wild_head t = true -> match_tags t t = L_POS_MATCH.
Proof.
  intros t H. destruct (no_wild_head_inv t H) as (s & t' & Ht & Hw). subst t.
  cbn [match_tags]. rewrite Hw, N.eqb_refl. apply walk_refl.
Qed.

Lemma match_self_cases : forall t, t <> [] ->
  match_tags t t = L_POS_MATCH \/ match_tags t t = L_POS_MATCH + L_EXTRA.
Proof.
  intros [|s t'] H; [congruence|]. cbn [match_tags].
  destruct (is_wild s).
  - right. apply walk_refl.
  - left. rewrite N.eqb_refl. apply walk_refl.
Qed.

Lemma match_prefix : forall r e, no_wild_head r = true ->
  match_tags (r ++ e) r = L_POS_MATCH + L_EXTRA * Z.of_nat (length e).
Proof.
  intros r e H. destruct (no_wild_head_inv r H) as (s & r' & Hr & Hw). subst r.
  cbn [app match_tags]. rewrite Hw, N.eqb_refl. apply walk_prefix.
Qed.

Lemma match_subseq : forall s t' r',
  is_wild s = false -> subseq r' t' = true ->
  forallb (fun x => negb (single x)) t' = true ->
  match_tags (s :: t') (s :: r') =
  L_POS_MATCH + L_EXTRA * (Z.of_nat (length t') - Z.of_nat (length r')).
Proof.
  intros s t' r' Hw Hsub Hns. cbn [match_tags]. rewrite Hw, N.eqb_refl.
  apply walk_subseq; assumption.
Qed.

Lemma match_short : forall tag range,
  (length tag < length range)%nat -> match_tags tag range = 0.
Proof.
  intros [|t tag] [|r range] Hlen; try reflexivity.
  cbn [length] in Hlen. cbn [match_tags].
  assert (Hw : forall q, tags_walk tag range q = 0) by (intros q; apply walk_short; lia).
  destruct (is_wild r); [apply Hw|]. destruct (N.eqb t r); [apply Hw|reflexivity].
Qed.

Lemma match_diff_head : forall a t' b r',
  is_wild b = false -> a <> b -> match_tags (a :: t') (b :: r') = 0.
Proof.
  intros a t' b r' Hw Hab. cbn [match_tags]. rewrite Hw.
  assert (E : N.eqb a b = false) by (apply N.eqb_neq; exact Hab).
  rewrite E. reflexivity.
Qed.

(* ---------- the language loop of matchFeatureLists ---------- *)

Lemma lang_loop_hit : forall v1 (k : N) v g el,
  match_tags v1 v = L_POS_MATCH ->
  lang_loop v1 ((k, v) :: g) W_NEG_MATCH el = lang_loop v1 g L_POS_MATCH el.
Proof. intros v1 k v g el H. cbn [lang_loop]. rewrite H. reflexivity. Qed.

Lemma lang_best_one : forall v1 k v,
  lang_best v1 [(k, v)] = if match_tags v1 v >? 0 then match_tags v1 v else W_NEG_MATCH.
Proof.
  intros v1 k v. unfold lang_best. cbn [lang_loop].
  destruct (match_tags v1 v >? 0) eqn:Epos.
  - pose proof Epos as Hpos. apply Z.gtb_lt in Hpos.
    assert (E2 : match_tags v1 v >? W_NEG_MATCH = true)
      by (apply Z.gtb_lt; unfold W_NEG_MATCH; lia).
    rewrite E2. cbn [andb fst snd]. rewrite Epos.
    unfold lang_penalty. change (Z.quot (0 + 4) 5) with 0. lia.
  - cbn [andb]. destruct (match_tags v1 v =? 0); cbn [fst snd]; reflexivity.
Qed.

Lemma lang_loop_zero : forall v1 (k : N) vs g best el,
  (forall v, In v vs -> match_tags v1 v = 0) ->
  lang_loop v1 (map (pair k) vs ++ g) best el =
  lang_loop v1 g best (el + W_EXTRA * Z.of_nat (length vs)).
Proof.
  intros v1 k vs g. induction vs as [|v vs IH]; intros best el Hz.
  - cbn [map app length]. f_equal. lia.
  - cbn [map app lang_loop].
    rewrite (Hz v (or_introl eq_refl)). cbn [andb].
    change (0 >? 0) with false. change (0 =? 0) with true. cbv iota. cbn [andb].
    rewrite IH.
    + f_equal. cbn [length]. rewrite Nat2Z.inj_succ. lia.
    + intros v' HIn. apply Hz. right. exact HIn.
Qed.

Section Score.
  Variables kur ucs2 ucs4 : N.
  Variable islang : N -> bool.

  Notation score := (score kur ucs2 ucs4 islang).
  Notation mfl := (mfl kur ucs2 ucs4 islang).
  Notation best_of := (best_of kur ucs2 ucs4).
  Notation key_best := (key_best kur ucs2 ucs4 islang).
  Notation find_step := (find_step kur ucs2 ucs4 islang).
  Notation find_table := (find_table kur ucs2 ucs4 islang).
  Notation tables_step := (tables_step kur ucs2 ucs4 islang).
  Notation find_tables := (find_tables kur ucs2 ucs4 islang).

  (* ---------- lou_findTable: the fold invariant ---------- *)

  Lemma find_step_eq : forall q b o n f,
    find_step q (b, o) (n, f) = if score q f >? b then (score q f, Some n) else (b, o).
  Proof. intros q b o n f. unfold Meta.find_step, find_better. cbn [fst snd]. reflexivity. Qed.

  Lemma fold_find : forall q index b o b' o',
    fold_left (find_step q) index (b, o) = (b', o') ->
    b <= b' /\
    (forall n f, In (n, f) index -> score q f <= b') /\
    ((b' = b /\ o' = o) \/
     (b' > b /\ exists n f, o' = Some n /\ In (n, f) index /\ score q f = b')).
  Proof.
    intros q index.
    induction index as [|[n0 f0] index IH]; intros b o b' o' H; cbn [fold_left] in H.
    - injection H as Hb Ho. subst b' o'.
      split; [lia|]. split; [intros n f []|]. left. split; reflexivity.
    - rewrite find_step_eq in H.
      destruct (score q f0 >? b) eqn:E.
      + apply Z.gtb_lt in E.
        apply IH in H. destruct H as (H1 & H2 & H3).
        split; [lia|]. split.
        * intros n f [Heq|HIn].
          -- injection Heq as Hn Hf. subst n f. exact H1.
          -- apply (H2 n f HIn).
        * right. destruct H3 as [[Hb Ho]|(Hgt & n & f & Ho & HIn & Hs)].
          -- split; [lia|]. exists n0, f0. split; [exact Ho|]. split; [left; reflexivity|lia].
          -- split; [lia|]. exists n, f. split; [exact Ho|]. split; [right; exact HIn|exact Hs].
      + rewrite Z.gtb_ltb in E. apply Z.ltb_ge in E.
        apply IH in H. destruct H as (H1 & H2 & H3).
        split; [lia|]. split.
        * intros n f [Heq|HIn].
          -- injection Heq as Hn Hf. subst n f. lia.
          -- apply (H2 n f HIn).
        * destruct H3 as [[Hb Ho]|(Hgt & n & f & Ho & HIn & Hs)].
          -- left. split; assumption.
          -- right. split; [lia|]. exists n, f. split; [exact Ho|]. split; [right; exact HIn|exact Hs].
  Qed.

  Lemma find_table_some : forall index q n,
    find_table index q = Some n -> exists f, In (n, f) index /\ score q f > 0.
  Proof.
    intros index q n H. unfold Meta.find_table, find_initial_best in H.
    destruct (fold_left (find_step q) index (0, None)) as [b' o'] eqn:E.
    cbn [snd] in H. subst o'.
    apply fold_find in E. destruct E as (H1 & H2 & [[Hb Ho]|(Hgt & n1 & f1 & Ho & HIn & Hs)]).
    - discriminate Ho.
    - injection Ho as Ho. subst n1. exists f1. split; [exact HIn|lia].
  Qed.

  Lemma find_table_none : forall index q,
    find_table index q = None -> forall n f, In (n, f) index -> score q f <= 0.
  Proof.
    intros index q H n f HIn. unfold Meta.find_table, find_initial_best in H.
    destruct (fold_left (find_step q) index (0, None)) as [b' o'] eqn:E.
    cbn [snd] in H. subst o'.
    apply fold_find in E. destruct E as (H1 & H2 & [[Hb Ho]|(Hgt & n1 & f1 & Ho & HIn1 & Hs)]).
    - subst b'. apply (H2 n f HIn).
    - discriminate Ho.
  Qed.

  Lemma find_table_ge : forall index q n f,
    In (n, f) index -> score q f > 0 ->
    exists n2 f2, find_table index q = Some n2 /\ In (n2, f2) index /\ score q f <= score q f2.
  Proof.
    intros index q n f HIn Hpos. unfold Meta.find_table, find_initial_best.
    destruct (fold_left (find_step q) index (0, None)) as [b' o'] eqn:E.
    cbn [snd].
    apply fold_find in E. destruct E as (H1 & H2 & [[Hb Ho]|(Hgt & n1 & f1 & Ho & HIn1 & Hs)]).
    - subst b'. specialize (H2 n f HIn). lia.
    - exists n1, f1. split; [exact Ho|]. split; [exact HIn1|]. specialize (H2 n f HIn). lia.
  Qed.

  (* ---------- lou_findTables ---------- *)

  Lemma insert_match_in : forall (m : N * Z) l x, In x (insert_match m l) <-> x = m \/ In x l.
  Proof.
    intros m l x. induction l as [|e l IH]; cbn [insert_match].
    - cbn [In]. split; intros [H|H]; auto.
    - destruct (match_stays_before (snd e) (snd m)); cbn [In].
      + rewrite IH. tauto.
      + split; intros [H|H]; auto.
  Qed.

  Lemma tables_step_eq : forall q acc n f,
    tables_step q acc (n, f) =
    if score q f >? 0 then insert_match (n, score q f) acc else acc.
  Proof. intros q acc n f. unfold Meta.tables_step, tables_keep. cbn [fst snd]. reflexivity. Qed.

  Lemma fold_tables : forall q index acc n s,
    In (n, s) (fold_left (tables_step q) index acc) <->
    In (n, s) acc \/ exists f, In (n, f) index /\ s = score q f /\ s > 0.
  Proof.
    intros q index.
    induction index as [|[n0 f0] index IH]; intros acc n s; cbn [fold_left].
    - split.
      + intros H. left. exact H.
      + intros [H|(f & [] & _)]. exact H.
    - rewrite IH. rewrite tables_step_eq.
      destruct (score q f0 >? 0) eqn:E.
      + apply Z.gtb_lt in E. rewrite insert_match_in. split.
        * intros [[Heq|H]|(f & HIn & Hs & Hp)].
          -- injection Heq as Hn Hs. subst n s. right. exists f0.
             split; [left; reflexivity|]. split; [reflexivity|lia].
          -- left. exact H.
          -- right. exists f. split; [right; exact HIn|]. split; assumption.
        * intros [H|(f & [Heq|HIn] & Hs & Hp)].
          -- left. right. exact H.
          -- injection Heq as Hn Hf. subst n0 f0. left. left. subst s. reflexivity.
          -- right. exists f. split; [exact HIn|]. split; assumption.
      + rewrite Z.gtb_ltb in E. apply Z.ltb_ge in E. split.
        * intros [H|(f & HIn & Hs & Hp)].
          -- left. exact H.
          -- right. exists f. split; [right; exact HIn|]. split; assumption.
        * intros [H|(f & [Heq|HIn] & Hs & Hp)].
          -- left. exact H.
          -- injection Heq as Hn Hf. subst n0 f0. lia.
          -- right. exists f. split; [exact HIn|]. split; assumption.
  Qed.

  Lemma find_tables_positive_l : forall index q n,
    In n (find_tables index q) <-> exists f, In (n, f) index /\ score q f > 0.
  Proof.
    intros index q n. unfold Meta.find_tables. rewrite in_map_iff. split.
    - intros ([n1 s] & Hfst & HIn). cbn [fst] in Hfst. subst n1.
      apply fold_tables in HIn. destruct HIn as [[]|(f & HIn & Hs & Hp)].
      exists f. split; [exact HIn|]. subst s. exact Hp.
    - intros (f & HIn & Hp). exists (n, score q f). split; [reflexivity|].
      apply fold_tables. right. exists f. split; [exact HIn|]. split; [reflexivity|exact Hp].
  Qed.

  Lemma find_in_tables_l : forall index q n,
    find_table index q = Some n -> In n (find_tables index q).
  Proof.
    intros index q n H. apply find_tables_positive_l. apply find_table_some. exact H.
  Qed.

  Lemma find_none_iff_l : forall index q,
    find_table index q = None <-> find_tables index q = [].
  Proof.
    intros index q. split; intros H.
    - destruct (find_tables index q) as [|n l] eqn:E; [reflexivity|].
      assert (HIn : In n (find_tables index q)) by (rewrite E; left; reflexivity).
      apply find_tables_positive_l in HIn. destruct HIn as (f & HIn & Hp).
      pose proof (find_table_none index q H n f HIn) as Hle. lia.
    - destruct (find_table index q) as [n|] eqn:E; [|reflexivity].
      apply find_in_tables_l in E. rewrite H in E. destruct E.
  Qed.

  (* ---------- exact metadata ---------- *)

  Lemma ss_tail : forall a l, strictly_sorted (a :: l) = true -> strictly_sorted l = true.
  Proof.
    intros [k v] [|[k2 v2] l] H; [reflexivity|].
    cbn [strictly_sorted] in H. apply andb_prop in H. destruct H as [_ H]. exact H.
  Qed.

  Lemma ss_keys : forall k v l,
    strictly_sorted ((k, v) :: l) = true -> drop_key k l = l /\ take_key k l = [].
  Proof.
    intros k v [|[k2 v2] l] H; [split; reflexivity|].
    cbn [strictly_sorted] in H. apply andb_prop in H. destruct H as [H _].
    apply N.ltb_lt in H.
    assert (E : N.eqb k2 k = false) by (apply N.eqb_neq; lia).
    cbn [drop_key take_key]. rewrite E. split; reflexivity.
  Qed.

  (* what one feature scores against itself *)
  Definition self_val (f : feat) : Z := key_best (fst f) (snd f) [f].

  Fixpoint self_sum (q : list feat) : Z :=
    match q with [] => 0 | f :: q' => self_val f + self_sum q' end.

  Lemma self_sum_cons : forall f q, self_sum (f :: q) = self_val f + self_sum q.
  Proof. reflexivity. Qed.

  Lemma mfl_self : forall q fuel acc,
    strictly_sorted q = true -> (length q < fuel)%nat ->
    mfl fuel q q acc = acc + self_sum q.
  Proof.
    induction q as [|[k v] q IH]; intros fuel acc Hs Hf;
      (destruct fuel as [|fuel]; [cbn [length] in Hf; lia|]).
    - cbn [Meta.mfl self_sum]. lia.
    - cbn [Meta.mfl]. rewrite N.ltb_irrefl.
      destruct (ss_keys k v q Hs) as [Hd Ht]. rewrite Hd, Ht.
      rewrite IH.
      + rewrite self_sum_cons. unfold self_val. cbn [fst snd]. unfold feat. lia.
      + apply ss_tail in Hs. exact Hs.
      + cbn [length] in Hf. lia.
  Qed.

  Lemma self_val_plain : forall k v, islang k = false -> self_val (k, v) = W_POS_MATCH.
  Proof.
    intros k v Hl. unfold self_val, Meta.key_best. cbn [fst snd]. rewrite Hl.
    cbn [Meta.best_of]. unfold W_NEG_MATCH at 1.
    change (-100 <? 0) with true. cbv iota. rewrite N.eqb_refl. reflexivity.
  Qed.

  Lemma self_val_lang : forall k v, islang k = true ->
    self_val (k, v) = if match_tags v v >? 0 then match_tags v v else W_NEG_MATCH.
  Proof.
    intros k v Hl. unfold self_val, Meta.key_best. cbn [fst snd]. rewrite Hl.
    apply lang_best_one.
  Qed.

  Lemma self_sum_exact : forall q,
    (forall k v, In (k, v) q -> islang k = true -> no_wild_head v = true) ->
    self_sum q = W_POS_MATCH * Z.of_nat (length q).
  Proof.
    induction q as [|[k v] q IH]; intros Hok.
    - cbn [self_sum length]. lia.
    - rewrite self_sum_cons. cbn [length]. rewrite Nat2Z.inj_succ. rewrite IH.
      + assert (Hv : self_val (k, v) = W_POS_MATCH).
        { destruct (islang k) eqn:Hl.
          - rewrite (self_val_lang k v Hl).
            rewrite (match_same v (Hok k v (or_introl eq_refl) Hl)).
            unfold L_POS_MATCH, W_POS_MATCH. reflexivity.
          - apply self_val_plain. exact Hl. }
        rewrite Hv. lia.
      + intros k' v' HIn. apply Hok. right. exact HIn.
  Qed.

  Lemma self_sum_bound : forall q,
    (forall k v, In (k, v) q -> islang k = true -> v <> []) ->
    (L_POS_MATCH + L_EXTRA) * Z.of_nat (length q) <= self_sum q <= W_POS_MATCH * Z.of_nat (length q).
  Proof.
    induction q as [|[k v] q IH]; intros Hok.
    - cbn [self_sum length]. lia.
    - rewrite self_sum_cons. cbn [length]. rewrite Nat2Z.inj_succ.
      assert (Hq : (L_POS_MATCH + L_EXTRA) * Z.of_nat (length q) <= self_sum q
                   <= W_POS_MATCH * Z.of_nat (length q)).
      { apply IH. intros k' v' HIn. apply Hok. right. exact HIn. }
      assert (Hv : L_POS_MATCH + L_EXTRA <= self_val (k, v) <= W_POS_MATCH).
      { destruct (islang k) eqn:Hl.
        - rewrite (self_val_lang k v Hl).
          destruct (match_self_cases v (Hok k v (or_introl eq_refl) Hl)) as [E|E];
            rewrite E; unfold L_POS_MATCH, L_EXTRA, W_POS_MATCH; cbn; lia.
        - rewrite (self_val_plain k v Hl). unfold L_POS_MATCH, L_EXTRA, W_POS_MATCH. lia. }
      lia.
  Qed.

  (* no language value starts with the wildcard: 10 per feature, as for plain keys *)
  Lemma exact_score_l : forall q,
    strictly_sorted q = true -> q <> [] ->
    (forall k v, In (k, v) q -> islang k = true -> no_wild_head v = true) ->
    score q q = W_POS_MATCH * Z.of_nat (length q).
  Proof.
    intros q Hs _ Hok. unfold Meta.score. rewrite mfl_self; [|exact Hs|lia].
    rewrite (self_sum_exact q Hok). apply Z.add_0_l.
  Qed.

  (* any language values (a wildcard head costs EXTRA): between 8 and 10 per feature *)
  Lemma exact_score_bound_l : forall q,
    strictly_sorted q = true -> q <> [] ->
    (forall k v, In (k, v) q -> islang k = true -> v <> []) ->
    (L_POS_MATCH + L_EXTRA) * Z.of_nat (length q) <= score q q <= W_POS_MATCH * Z.of_nat (length q).
  Proof.
    intros q Hs _ Hok. unfold Meta.score. rewrite mfl_self; [|exact Hs|lia].
    pose proof (self_sum_bound q Hok) as H. unfold feat in *. lia.
  Qed.

  Lemma exact_found_l : forall index q n,
    strictly_sorted q = true -> q <> [] ->
    (forall k v, In (k, v) q -> islang k = true -> v <> []) ->
    In (n, q) index ->
    find_table index q <> None.
  Proof.
    intros index q n Hs Hne Hok HIn.
    assert (Hp : score q q > 0).
    { pose proof (exact_score_bound_l q Hs Hne Hok) as H. unfold L_POS_MATCH, L_EXTRA in H.
      destruct q as [|a q]; [congruence|]. cbn [length] in H. lia. }
    destruct (find_table_ge index q n q HIn Hp) as (n2 & f2 & Hf & _ & _).
    rewrite Hf. discriminate.
  Qed.

  (* ---------- dominance ---------- *)

  Lemma dominant_wins_l : forall index index' q n f,
    Permutation index index' ->
    In (n, f) index -> score q f > 0 ->
    (forall n' f', In (n', f') index -> (n', f') <> (n, f) -> score q f' < score q f) ->
    find_table index' q = Some n.
  Proof.
    intros index index' q n f HP HIn Hp Hdom.
    assert (HIn' : In (n, f) index') by (apply (Permutation_in _ HP); exact HIn).
    destruct (find_table_ge index' q n f HIn' Hp) as (n2 & f2 & Hf & HIn2 & Hle).
    rewrite Hf. f_equal.
    destruct (N.eq_dec n2 n) as [Heq|Hneq]; [exact Heq|].
    exfalso.
    assert (HIn2' : In (n2, f2) index)
      by (apply (Permutation_in _ (Permutation_sym HP)); exact HIn2).
    assert (Hlt : score q f2 < score q f).
    { apply (Hdom n2 f2 HIn2'). intros Heq. injection Heq as Hn _. contradiction. }
    lia.
  Qed.

  (* ---------- one queried feature ---------- *)

  Lemma score_missing : forall k v, score [(k, v)] [] = W_UNDEFINED.
  Proof. intros k v. unfold Meta.score. cbn [length Nat.add Meta.mfl]. lia. Qed.

  Lemma take_key_map : forall (k : N) vs, take_key k (map (pair k) vs) = map (pair k) vs.
  Proof.
    intros k vs. induction vs as [|v vs IH]; [reflexivity|].
    cbn [map take_key]. rewrite N.eqb_refl, IH. reflexivity.
  Qed.

  Lemma drop_key_map : forall (k : N) vs, drop_key k (map (pair k) vs) = [].
  Proof.
    intros k vs. induction vs as [|v vs IH]; [reflexivity|].
    cbn [map drop_key]. rewrite N.eqb_refl. exact IH.
  Qed.

  (* one queried key against a table that only has entries of that key *)
  Lemma score_group : forall k v1 vs, vs <> [] ->
    score [(k, v1)] (map (pair k) vs) = key_best k v1 (map (pair k) vs).
  Proof.
    intros k v1 [|v vs] Hne; [congruence|].
    unfold Meta.score. cbn [map length Nat.add Meta.mfl]. rewrite N.ltb_irrefl.
    rewrite take_key_map, drop_key_map. cbn [Meta.mfl]. flia.
  Qed.

  Lemma score_one : forall k v1 v, score [(k, v1)] [(k, v)] = key_best k v1 [(k, v)].
  Proof. intros k v1 v. apply (score_group k v1 [v]). discriminate. Qed.

  (* an unrelated extra field of the table costs EXTRA *)
  Lemma score_plus_extra : forall k v1 v k' w, k <> k' ->
    score [(k, v1)] (if (k <? k')%N then [(k, v); (k', w)] else [(k', w); (k, v)]) =
    key_best k v1 [(k, v)] + W_EXTRA.
  Proof.
    intros k v1 v k' w Hkk.
    destruct (N.ltb_spec k k') as [Hlt|Hge].
    - assert (E : N.eqb k' k = false) by (apply N.eqb_neq; lia).
      unfold Meta.score. cbn [length Nat.add Meta.mfl Meta.drop_key Meta.take_key].
      rewrite N.ltb_irrefl, E. cbn [Meta.mfl Meta.drop_key]. flia.
    - assert (Hlt : (k' < k)%N) by lia.
      assert (E : N.eqb k k' = false) by (apply N.eqb_neq; lia).
      assert (E1 : N.ltb k k' = false) by (apply N.ltb_ge; lia).
      assert (E2 : N.ltb k' k = true) by (apply N.ltb_lt; lia).
      unfold Meta.score. cbn [length Nat.add Meta.mfl Meta.drop_key Meta.take_key].
      rewrite E1, E2, E. rewrite N.ltb_irrefl. cbn [Meta.mfl Meta.take_key Meta.drop_key]. flia.
  Qed.

  Lemma key_best_plain_same : forall k v v', islang k = false ->
    plain_id v = plain_id v' -> key_best k v [(k, v')] = W_POS_MATCH.
  Proof.
    intros k v v' Hl Hv. unfold Meta.key_best. rewrite Hl. cbn [Meta.best_of].
    unfold W_NEG_MATCH at 1. change (-100 <? 0) with true. cbv iota.
    rewrite Hv, N.eqb_refl. reflexivity.
  Qed.

  Lemma key_best_plain_diff : forall k v v', islang k = false -> (k =? kur)%N = false ->
    plain_id v <> plain_id v' -> key_best k v [(k, v')] = W_NEG_MATCH.
  Proof.
    intros k v v' Hl Hk Hv. unfold Meta.key_best. rewrite Hl. cbn [Meta.best_of].
    unfold W_NEG_MATCH at 1. change (-100 <? 0) with true. cbv iota.
    assert (E : N.eqb (plain_id v) (plain_id v') = false) by (apply N.eqb_neq; exact Hv).
    rewrite E, Hk. cbn [andb]. reflexivity.
  Qed.

  (* plain key; values are any lists, compared through their string id *)
  Lemma single_feature_order_gen : forall k v v' k' w,
    islang k = false ->
    plain_id v <> plain_id v' -> (k =? kur)%N = false -> k <> k' ->
    let same := score [(k, v)] [(k, v)] in
    let missing := score [(k, v)] [] in
    let different := score [(k, v)] [(k, v')] in
    let same_plus_extra :=
      score [(k, v)] (if (k <? k')%N then [(k, v); (k', w)] else [(k', w); (k, v)]) in
    same > missing /\ missing > different /\ same - same_plus_extra = 1 /\ same_plus_extra > missing.
  Proof.
    intros k v v' k' w Hl Hv Hk Hkk. cbv zeta.
    rewrite (score_plus_extra k v v k' w Hkk), !score_one, score_missing.
    rewrite (key_best_plain_same k v v Hl eq_refl).
    rewrite (key_best_plain_diff k v v' Hl Hk Hv).
    unfold W_POS_MATCH, W_NEG_MATCH, W_UNDEFINED, W_EXTRA. lia.
  Qed.

  (* ... in particular for the singleton values the tokeniser produces *)
  Lemma single_feature_order_l : forall k v v' k' w,
    islang k = false ->
    v <> v' -> (k =? kur)%N = false -> k <> k' ->
    let same := score [(k, [v])] [(k, [v])] in
    let missing := score [(k, [v])] [] in
    let different := score [(k, [v])] [(k, [v'])] in
    let same_plus_extra :=
      score [(k, [v])] (if (k <? k')%N then [(k, [v]); (k', w)] else [(k', w); (k, [v])]) in
    same > missing /\ missing > different /\ same - same_plus_extra = 1 /\ same_plus_extra > missing.
  Proof.
    intros k v v' k' w Hl Hv Hk Hkk.
    apply (single_feature_order_gen k [v] [v'] k' w Hl); [|exact Hk|exact Hkk].
    cbn [plain_id]. exact Hv.
  Qed.

  (* ---------- one queried language feature ---------- *)

  Lemma key_best_lang_one : forall k v1 v, islang k = true ->
    key_best k v1 [(k, v)] = if match_tags v1 v >? 0 then match_tags v1 v else W_NEG_MATCH.
  Proof. intros k v1 v Hl. unfold Meta.key_best. rewrite Hl. apply lang_best_one. Qed.

  (* a table range r that is a prefix of the queried tag r ++ e (table "en", query "en-US"):
     two points less per additional subtag; with five or more the table is rejected *)
  Lemma lang_prefix_score : forall k r e,
    islang k = true -> no_wild_head r = true ->
    score [(k, r ++ e)] [(k, r)] =
    if (length e <? 5)%nat then L_POS_MATCH + L_EXTRA * Z.of_nat (length e) else W_NEG_MATCH.
  Proof.
    intros k r e Hl Hr. rewrite score_one, (key_best_lang_one _ _ _ Hl), (match_prefix r e Hr).
    unfold L_POS_MATCH, L_EXTRA.
    destruct (Nat.ltb_spec (length e) 5) as [Hlt|Hge].
    - assert (E : 10 + -2 * Z.of_nat (length e) >? 0 = true) by (apply Z.gtb_lt; lia).
      rewrite E. reflexivity.
    - assert (E : 10 + -2 * Z.of_nat (length e) >? 0 = false)
        by (rewrite Z.gtb_ltb; apply Z.ltb_ge; lia).
      rewrite E. reflexivity.
  Qed.

  Lemma lang_single_feature_order_l : forall k r e d k' w,
    islang k = true -> no_wild_head r = true -> no_wild_head d = true ->
    hd 0%N d <> hd 0%N r ->
    e <> [] -> (length e <= 4)%nat -> k <> k' ->
    let t := r ++ e in
    let same := score [(k, t)] [(k, t)] in
    let prefix := score [(k, t)] [(k, r)] in
    let missing := score [(k, t)] [] in
    let different := score [(k, t)] [(k, d)] in
    let same_plus_extra :=
      score [(k, t)] (if (k <? k')%N then [(k, t); (k', w)] else [(k', w); (k, t)]) in
    same = L_POS_MATCH /\
    prefix = L_POS_MATCH + L_EXTRA * Z.of_nat (length e) /\
    same > prefix /\ prefix > missing /\ missing > different /\ different = W_NEG_MATCH /\
    same - same_plus_extra = 1 /\ same_plus_extra > prefix.
  Proof.
    intros k r e d k' w Hl Hr Hd Hdr Hne Hlen Hkk. cbv zeta.
    assert (Ht : no_wild_head (r ++ e) = true).
    { destruct (no_wild_head_inv r Hr) as (s & r' & Er & Hw). subst r. exact Hr. }
    assert (Hpre : score [(k, r ++ e)] [(k, r)] = L_POS_MATCH + L_EXTRA * Z.of_nat (length e)).
    { rewrite (lang_prefix_score k r e Hl Hr).
      assert (E : (length e <? 5)%nat = true) by (apply Nat.ltb_lt; lia).
      rewrite E. reflexivity. }
    assert (Hdiff : match_tags (r ++ e) d = 0).
    { destruct (no_wild_head_inv r Hr) as (s & r' & Er & Hw). subst r.
      destruct (no_wild_head_inv d Hd) as (b & d' & Ed & Hwd). subst d.
      cbn [hd] in Hdr. cbn [app]. apply match_diff_head; [exact Hwd|congruence]. }
    rewrite (score_plus_extra k (r ++ e) (r ++ e) k' w Hkk), Hpre, !score_one, score_missing.
    rewrite !(key_best_lang_one _ _ _ Hl), (match_same _ Ht), Hdiff.
    assert (Hle : 1 <= Z.of_nat (length e) <= 4).
    { destruct e as [|x e]; [congruence|]. cbn [length] in Hlen |- *. lia. }
    unfold L_POS_MATCH, L_EXTRA, W_NEG_MATCH, W_UNDEFINED, W_EXTRA.
    change (10 >? 0) with true. change (0 >? 0) with false. cbv iota.
    repeat split; lia.
  Qed.

  (* the query may be more specific than the table: subtags of the queried tag that the table's
     range skips (none of them one character long) cost two points each; the table is still
     listed by lou_findTables and a table is found *)
  Lemma lang_more_specific_l : forall k s t' r' index n,
    islang k = true -> is_wild s = false ->
    subseq r' t' = true -> forallb (fun x => negb (single x)) t' = true ->
    (length t' - length r' <= 4)%nat ->
    In (n, [(k, s :: r')]) index ->
    score [(k, s :: t')] [(k, s :: r')] =
      L_POS_MATCH + L_EXTRA * (Z.of_nat (length t') - Z.of_nat (length r')) /\
    score [(k, s :: t')] [(k, s :: r')] > 0 /\
    In n (find_tables index [(k, s :: t')]) /\
    find_table index [(k, s :: t')] <> None.
  Proof.
    intros k s t' r' index n Hl Hw Hsub Hns Hlen HIn.
    assert (Hlenle : (length r' <= length t')%nat).
    { clear - Hsub. revert r' Hsub. induction t' as [|b t' IH]; intros [|a r'] Hsub;
        cbn [length]; try lia.
      - cbn [subseq] in Hsub. discriminate Hsub.
      - cbn [subseq] in Hsub. destruct (N.eqb a b).
        + specialize (IH r' Hsub). lia.
        + specialize (IH (a :: r') Hsub). cbn [length] in IH. lia. }
    assert (Hs : score [(k, s :: t')] [(k, s :: r')] =
                 L_POS_MATCH + L_EXTRA * (Z.of_nat (length t') - Z.of_nat (length r'))).
    { rewrite score_one, (key_best_lang_one _ _ _ Hl), (match_subseq s t' r' Hw Hsub Hns).
      unfold L_POS_MATCH, L_EXTRA.
      assert (E : 10 + -2 * (Z.of_nat (length t') - Z.of_nat (length r')) >? 0 = true)
        by (apply Z.gtb_lt; lia).
      rewrite E. reflexivity. }
    assert (Hp : score [(k, s :: t')] [(k, s :: r')] > 0).
    { rewrite Hs. unfold L_POS_MATCH, L_EXTRA. lia. }
    split; [exact Hs|]. split; [exact Hp|]. split.
    - apply find_tables_positive_l. exists [(k, s :: r')]. split; [exact HIn|exact Hp].
    - destruct (find_table_ge index _ n _ HIn Hp) as (n2 & f2 & Hf & _ & _).
      rewrite Hf. discriminate.
  Qed.

  (* the converse does not hold: a table range with more subtags than the queried tag (table
     "en-US", query "en") is a negative match *)
  Lemma lang_longer_range_l : forall k t r,
    islang k = true -> (length t < length r)%nat ->
    score [(k, t)] [(k, r)] = W_NEG_MATCH.
  Proof.
    intros k t r Hl Hlen. rewrite score_one, (key_best_lang_one _ _ _ Hl).
    rewrite (match_short t r Hlen). reflexivity.
  Qed.

  (* one entry with the queried tag among n entries of the same key that do not match: the
     extra languages cost (n * EXTRA + 4) / 5, rounded toward zero -- nothing up to 8 *)
  Lemma lang_extra_languages_l : forall k t pre post,
    islang k = true -> no_wild_head t = true ->
    (forall v, In v pre -> match_tags t v = 0) ->
    (forall v, In v post -> match_tags t v = 0) ->
    let n := Z.of_nat (length pre + length post) in
    let s := score [(k, t)] (map (pair k) (pre ++ t :: post)) in
    s = L_POS_MATCH + lang_penalty (n * W_EXTRA) /\
    (n <= 8 -> s = L_POS_MATCH) /\
    (n >= 9 -> s < L_POS_MATCH) /\
    5 * (L_POS_MATCH - s) <= n.
  Proof.
    intros k t pre post Hl Ht Hpre Hpost. cbv zeta.
    assert (Hs : score [(k, t)] (map (pair k) (pre ++ t :: post)) =
                 L_POS_MATCH + lang_penalty (Z.of_nat (length pre + length post) * W_EXTRA)).
    { rewrite score_group by (destruct pre; discriminate).
      unfold Meta.key_best. rewrite Hl. unfold lang_best.
      rewrite map_app. rewrite (lang_loop_zero t k pre _ _ _ Hpre).
      cbn [map]. rewrite (lang_loop_hit t k t _ _ (match_same t Ht)).
      pose proof (lang_loop_zero t k post [] L_POS_MATCH
                    (0 + W_EXTRA * Z.of_nat (length pre)) Hpost) as Hz.
      rewrite app_nil_r in Hz. rewrite Hz. cbn [lang_loop fst snd].
      unfold L_POS_MATCH at 1. change (10 >? 0) with true. cbv iota.
      f_equal. f_equal. rewrite Nat2Z.inj_add. lia. }
    rewrite Hs. unfold lang_penalty, L_POS_MATCH, W_EXTRA.
    set (n := Z.of_nat (length pre + length post)).
    assert (Hn : 0 <= n) by (unfold n; lia).
    pose proof (Z.quot_rem' (n * -1 + 4) 5) as Hqr.
    assert (Hsign : n <= 4 -> 0 <= Z.rem (n * -1 + 4) 5 < 5).
    { intros H. apply Z.rem_bound_pos_pos; lia. }
    assert (Hsign2 : n >= 4 -> -5 < Z.rem (n * -1 + 4) 5 <= 0).
    { intros H. pose proof (Z.rem_bound_pos_neg (n * -1 + 4) 5 ltac:(lia) ltac:(lia)). lia. }
    split; [reflexivity|]. repeat split; intros; lia.
  Qed.
End Score.

(* ---------- lou_getTableInfo ---------- *)

Lemma sbk_tail : forall a l, sorted_by_key (a :: l) = true -> sorted_by_key l = true.
Proof.
  intros [[k v] ln] [|[[k2 v2] ln2] l] H; [reflexivity|].
  cbn [sorted_by_key] in H. apply andb_prop in H. destruct H as [_ H]. exact H.
Qed.

Lemma sbk_head_le : forall l k v ln k' v' ln',
  sorted_by_key ((k, v, ln) :: l) = true -> In (k', v', ln') l -> (k <= k')%N.
Proof.
  induction l as [|[[k2 v2] ln2] l IH]; intros k v ln k' v' ln' H HIn; [destruct HIn|].
  cbn [sorted_by_key] in H. apply andb_prop in H. destruct H as [H1 H2].
  apply N.leb_le in H1. destruct HIn as [Heq|HIn].
  - injection Heq as Hk _ _. subst k'. exact H1.
  - specialize (IH k2 v2 ln2 k' v' ln' H2 HIn). lia.
Qed.

(* once the minimal occurrence is the current one, nothing replaces it *)
Lemma info_after : forall key v line l,
  0 <= line ->
  (forall v' line', In (key, v', line') l -> (v', line') = (v, line) \/ line < line') ->
  info_aux key l line (Some v) = Some v.
Proof.
  intros key v line l Hline.
  induction l as [|[[k v0] l0] l IH]; intros Hmin; cbn [info_aux]; [reflexivity|].
  assert (Hmin' : forall v' line', In (key, v', line') l -> (v', line') = (v, line) \/ line < line').
  { intros v' line' HIn. apply Hmin. right. exact HIn. }
  destruct (N.eqb_spec k key) as [Hk|Hk].
  - subst k.
    assert (E : info_replaces line l0 = false).
    { unfold info_replaces. apply orb_false_iff. split.
      - apply Z.ltb_ge. exact Hline.
      - rewrite Z.gtb_ltb. apply Z.ltb_ge.
        destruct (Hmin v0 l0 (or_introl eq_refl)) as [Heq|Hlt].
        + injection Heq as _ Hl. lia.
        + lia. }
    rewrite E. apply IH. exact Hmin'.
  - destruct (N.ltb key k); [reflexivity|]. apply IH. exact Hmin'.
Qed.

Lemma info_before : forall key v line l cur val,
  sorted_by_key l = true ->
  0 <= line ->
  cur < 0 \/ line < cur ->
  In (key, v, line) l ->
  (forall v' line', In (key, v', line') l -> (v', line') = (v, line) \/ line < line') ->
  info_aux key l cur val = Some v.
Proof.
  intros key v line l.
  induction l as [|[[k v0] l0] l IH]; intros cur val Hs Hline Hcur HIn Hmin; [destruct HIn|].
  assert (Hs' : sorted_by_key l = true) by (apply sbk_tail in Hs; exact Hs).
  assert (Hmin' : forall v' line', In (key, v', line') l -> (v', line') = (v, line) \/ line < line').
  { intros v' line' HIn'. apply Hmin. right. exact HIn'. }
  cbn [info_aux].
  destruct (N.eqb_spec k key) as [Hk|Hk].
  - subst k.
    destruct (Hmin v0 l0 (or_introl eq_refl)) as [Heq|Hlt].
    + injection Heq as Hv Hl. subst v0 l0.
      assert (E : info_replaces cur line = true).
      { unfold info_replaces. apply orb_true_iff. destruct Hcur as [Hc|Hc].
        - left. apply Z.ltb_lt. exact Hc.
        - right. apply Z.gtb_lt. exact Hc. }
      rewrite E. apply info_after; [exact Hline|exact Hmin'].
    + assert (HIn' : In (key, v, line) l).
      { destruct HIn as [Heq|HIn]; [|exact HIn]. injection Heq as _ Hl. lia. }
      destruct (info_replaces cur l0).
      * apply IH; [exact Hs'|exact Hline|right; exact Hlt|exact HIn'|exact Hmin'].
      * apply IH; [exact Hs'|exact Hline|exact Hcur|exact HIn'|exact Hmin'].
  - assert (HIn' : In (key, v, line) l).
    { destruct HIn as [Heq|HIn]; [|exact HIn]. injection Heq as Hk' _ _. contradiction. }
    destruct (N.ltb_spec key k) as [Hlt|Hge].
    + pose proof (sbk_head_le l k v0 l0 key v line Hs HIn') as Hle. lia.
    + apply IH; [exact Hs'|exact Hline|exact Hcur|exact HIn'|exact Hmin'].
Qed.

Lemma info_first_l : forall l key v line,
  sorted_by_key l = true ->
  In (key, v, line) l -> 0 <= line ->
  (forall v' line', In (key, v', line') l -> (v', line') <> (v, line) -> line < line') ->
  (forall k v' line', In (k, v', line') l -> 0 <= line') ->
  get_info l key = Some v.
Proof.
  intros l key v line Hs HIn Hline Hmin _.
  unfold get_info. apply (info_before key v line l (-1) None Hs Hline); [left; lia|exact HIn|].
  intros v' line' HIn'.
  destruct (N.eq_dec v' v) as [Hv|Hv].
  - destruct (Z.eq_dec line' line) as [Hl|Hl].
    + left. subst. reflexivity.
    + right. apply (Hmin v' line' HIn'). intros Heq. injection Heq as _ Hl'. contradiction.
  - right. apply (Hmin v' line' HIn'). intros Heq. injection Heq as Hv' _. contradiction.
Qed.

(* ---- the regenerated operators of the language branch are the model's ---- *)
Lemma source_language_operators_l :
  lang_head_is_reference = true /\ lang_walk_is_reference = true /\ lang_branch_tests_every_entry = true /\
  (forall q best, src_lang_keeps q best = ((q >? 0) && (q >? best))) /\
  (forall q, src_lang_counts_extra q = (q =? 0)) /\
  (forall best, src_lang_penalty_applies best = (best >? 0)) /\
  (forall e, src_lang_penalty e = lang_penalty e).
Proof.
  repeat split; try reflexivity.
  intro q. unfold src_lang_counts_extra. destruct (q =? 0); reflexivity.
Qed.
