(* C08 — results are a pure function of table sources and arguments.  Statements only. *)
From Coq Require Import List ZArith NArith Bool String.
From Lou Require Import Gen.GStatics Model.Api Model.Statics Proofs.ApiProofs.
Import ListNotations.
Local Open Scope Z_scope.

(* every persistent variable found in the CURRENT sources is classified (a new or renamed static
   breaks this until someone has looked at it); all classes are of a kind that cannot carry
   information from one call to the next *)
Theorem statics_all_classified :
  forallb (fun s => let '(f, _, n) := s in classified f n) statics = true.
Proof. exact ApiProofs.statics_classified_l. Qed.
Print Assumptions statics_all_classified.

(* the multipass variables (classified "reset before use"): the REGENERATED reset clears every byte of the
   REGENERATED array, before the first loop of every stage function, and only the pass interpreters touch them *)
Theorem pass_variables_fully_reset :
  passvars_reset_bytes = passvars_elem_bytes * passvars_count /\
  forallb ApiProofs.resets_first ApiProofs.stage_functions = true /\
  forallb (fun u => existsb (String.eqb (snd u)) ["passDoTest"; "passDoAction"; "doPassSearch"; "back_passDoTest"; "back_passDoAction"]%string) passvars_users = true.
Proof. exact ApiProofs.passvars_reset_l. Qed.
Print Assumptions pass_variables_fully_reset.

(* translation_direction (which table attribute patterns consult): the REGENERATED list of its assignments is exactly
   "the forward main pass sets 1, the backward main pass sets 0, each before its first loop" *)
Theorem direction_is_set_by_every_main_pass :
  direction_assignments =
  [("lou_backTranslateString.c", "backTranslateString", 0, true); ("lou_translateString.c", "translateString", 1, true)]%string.
Proof. exact ApiProofs.direction_l. Qed.
Print Assumptions direction_is_set_by_every_main_pass.

(* the table cache is keyed by the complete list string: the REGENERATED comparison holds exactly
   for equal names (a prefix, or a name sharing a prefix, is a different key) *)
Theorem cache_key_is_the_whole_name : forall a b, key_hit a b = true <-> a = b.
Proof. exact ApiProofs.key_hit_iff_l. Qed.
Print Assumptions cache_key_is_the_whole_name.

(* after ANY history, a call that uses list n works on the table of n's files plus exactly the
   rules accepted for n since the last lou_free - nothing else of the history matters *)
Theorem history_is_irrelevant : forall compiles valid ops n,
  compiles n = true ->
  snd (fst (astep compiles valid (fst (arun compiles valid ainit ops)) (Use n))) =
  RTable n (fst (accepted compiles valid ops n [] false)).
Proof. exact ApiProofs.history_irrelevant_l. Qed.
Print Assumptions history_is_irrelevant.

(* in particular without run-time additions the result is the one of a fresh process *)
Theorem same_as_fresh_process : forall compiles valid ops n,
  compiles n = true -> (forall m r, ~ In (AddRule m r) ops) ->
  snd (fst (astep compiles valid (fst (arun compiles valid ainit ops)) (Use n))) =
  snd (fst (astep compiles valid ainit (Use n))).
Proof. exact ApiProofs.same_as_fresh_l. Qed.
Print Assumptions same_as_fresh_process.
