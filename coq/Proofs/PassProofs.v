(* C06 — the lemmas used by Properties/C06.v: the pass chains, the first-match scanner, the shape
   of accepted matches, the literal action, map composition and two driver facts.             *)
From Coq Require Import List ZArith Bool Lia ZifyBool Permutation Sorted.
From Lou Require Import Gen.GConst Gen.GChain Model.Table Model.Ref Model.Compile Model.Engine Model.Pass Model.BackPass.
From Lou Require Import Proofs.EngineLoop.
Import ListNotations.
Local Open Scope Z_scope.

(* ------------------------------------------------------------------ the chain is a permutation *)

Lemma pass_insert_perm new c : Permutation (pass_insert new c) (new :: c).
Proof.
  induction c as [|r c IH]; cbn [pass_insert]; [apply Permutation_refl|].
  destruct (fwd_pass_before (litlen new) (litlen r)); [apply Permutation_refl|].
  eapply perm_trans; [apply perm_skip; exact IH|apply perm_swap].
Qed.

Lemma fold_insert_perm rules : forall acc,
  Permutation (fold_left (fun c r => pass_insert r c) rules acc) (acc ++ rules).
Proof.
  induction rules as [|r rules IH]; intros acc; cbn [fold_left].
  - rewrite app_nil_r. apply Permutation_refl.
  - eapply perm_trans; [apply IH|].
    eapply perm_trans; [apply Permutation_app_tail; apply pass_insert_perm|].
    cbn [app]. apply Permutation_middle.
Qed.

Lemma chain_perm_l : forall rules, Permutation (pass_chain rules) rules.
Proof. intros rules. unfold pass_chain. exact (fold_insert_perm rules []). Qed.

(* ------------------------------------------------------------------ the chain is ordered *)

Definition before (a b : prule) : Prop :=
  litlen a > litlen b \/ (litlen a = litlen b /\ p_idx a < p_idx b).

Definition idx_before (a b : prule) : Prop := p_idx a < p_idx b.

Lemma pass_insert_in new c x : In x (pass_insert new c) <-> x = new \/ In x c.
Proof.
  split.
  - intros H. apply (Permutation_in _ (pass_insert_perm new c)) in H.
    destruct H as [H|H]; [left; symmetry; exact H|right; exact H].
  - intros H. apply (Permutation_in _ (Permutation_sym (pass_insert_perm new c))).
    destruct H as [H|H]; [left; symmetry; exact H|right; exact H].
Qed.

Lemma pass_insert_sorted new : forall c,
  StronglySorted before c -> (forall x, In x c -> p_idx x < p_idx new) ->
  StronglySorted before (pass_insert new c).
Proof.
  induction c as [|r c IH]; intros Hs Hi; cbn [pass_insert].
  - constructor; constructor.
  - (* the generated insertion condition of addForwardPassRule *)
    unfold fwd_pass_before.
    inversion Hs as [|r0 c0 Hs' Hf]; subst.
    rewrite Forall_forall in Hf.
    destruct (litlen new >? litlen r) eqn:E.
    + constructor; [exact Hs|]. constructor.
      * left. lia.
      * rewrite Forall_forall. intros x Hx. specialize (Hf x Hx). unfold before in Hf. left. lia.
    + constructor.
      * apply IH; [exact Hs'|]. intros x Hx. apply Hi. right. exact Hx.
      * rewrite Forall_forall. intros x Hx. apply pass_insert_in in Hx.
        destruct Hx as [->|Hx]; [|exact (Hf x Hx)].
        assert (Hr : p_idx r < p_idx new) by (apply Hi; left; reflexivity).
        unfold before. lia.
Qed.

Lemma fold_insert_sorted rules : forall acc,
  StronglySorted before acc -> StronglySorted idx_before rules ->
  (forall a b, In a acc -> In b rules -> p_idx a < p_idx b) ->
  StronglySorted before (fold_left (fun c r => pass_insert r c) rules acc).
Proof.
  induction rules as [|r rules IH]; intros acc Hs Hr Hab; cbn [fold_left]; [exact Hs|].
  inversion Hr as [|r0 c0 Hr' Hf]; subst. rewrite Forall_forall in Hf.
  apply IH.
  - apply pass_insert_sorted; [exact Hs|]. intros x Hx. apply Hab; [exact Hx|left; reflexivity].
  - exact Hr'.
  - intros a b Ha Hb. apply pass_insert_in in Ha. destruct Ha as [->|Ha].
    + apply Hf. exact Hb.
    + apply Hab; [exact Ha|right; exact Hb].
Qed.

Lemma sorted_nth {A} (R : A -> A -> Prop) (d : A) : forall l, StronglySorted R l ->
  forall i j, (i < j < length l)%nat -> R (nth i l d) (nth j l d).
Proof.
  induction l as [|x l IH]; intros Hs i j Hij; [cbn [length] in Hij; lia|].
  inversion Hs as [|x0 l0 Hs' Hf]; subst.
  cbn [length] in Hij. destruct j as [|j]; [lia|]. destruct i as [|i]; cbn [nth].
  - rewrite Forall_forall in Hf. apply Hf. apply nth_In. lia.
  - apply IH; [exact Hs'|lia].
Qed.

Lemma nth_sorted {A} (R : A -> A -> Prop) (d : A) : forall l,
  (forall i j, (i < j < length l)%nat -> R (nth i l d) (nth j l d)) -> StronglySorted R l.
Proof.
  induction l as [|x l IH]; intros H; constructor.
  - apply IH. intros i j Hij. apply (H (S i) (S j)). cbn [length]. lia.
  - rewrite Forall_forall. intros y Hy. destruct (In_nth _ _ d Hy) as (k & Hk & <-).
    apply (H 0%nat (S k)). cbn [length]. lia.
Qed.

Lemma chain_order_l : forall rules i j,
  (forall a b, (a < b < length rules)%nat -> p_idx (nth a rules (mkPR 0 [] AOmit)) < p_idx (nth b rules (mkPR 0 [] AOmit))) ->
  (i < j < length (pass_chain rules))%nat ->
  let ri := nth i (pass_chain rules) (mkPR 0 [] AOmit) in
  let rj := nth j (pass_chain rules) (mkPR 0 [] AOmit) in
  litlen ri > litlen rj \/ (litlen ri = litlen rj /\ p_idx ri < p_idx rj).
Proof.
  intros rules i j Hidx Hij ri rj. subst ri rj.
  apply (sorted_nth before); [|exact Hij].
  unfold pass_chain. apply fold_insert_sorted.
  - constructor.
  - apply (nth_sorted idx_before (mkPR 0 [] AOmit)). exact Hidx.
  - intros a b [].
Qed.

(* ------------------------------------------------------------------ first match *)

Lemma find_rule_first_l : forall inp chain pos r m,
  find_rule inp chain pos = Some (r, m) ->
  exists pre post, chain = pre ++ r :: post /\ pass_test inp r pos = Some m /\
                   forall r', In r' pre -> pass_test inp r' pos = None.
Proof.
  intros inp chain pos r m. induction chain as [|r0 c IH]; cbn [find_rule]; [discriminate|].
  destruct (pass_test inp r0 pos) as [m0|] eqn:Et.
  - intros H. injection H as <- <-. exists [], c. split; [reflexivity|]. split; [exact Et|].
    intros r' [].
  - intros H. destruct (IH H) as (pre & post & -> & Hm & Hn).
    exists (r0 :: pre), post. split; [reflexivity|]. split; [exact Hm|].
    intros r' [<-|Hi]; [exact Et|exact (Hn r' Hi)].
Qed.

Lemma find_rule_none_l : forall inp chain pos,
  find_rule inp chain pos = None -> forall r, In r chain -> pass_test inp r pos = None.
Proof.
  intros inp chain pos. induction chain as [|r0 c IH]; cbn [find_rule]; intros H r Hi; [destruct Hi|].
  destruct (pass_test inp r0 pos) as [m0|] eqn:Et; [discriminate|].
  destruct Hi as [<-|Hi]; [exact Et|exact (IH H r Hi)].
Qed.

(* ------------------------------------------------------------------ the shape of a match *)

Lemma do_test_range inp : forall items pos sr er em sr' er',
  -1 <= er <= len inp ->
  do_test inp items pos sr er = Some (em, sr', er') -> 0 <= em <= len inp /\ -1 <= er' <= len inp.
Proof.
  induction items as [|it items IH]; intros pos sr er em sr' er' He; cbn [do_test];
    destruct ((pos >? len inp) || (pos <? 0)) eqn:G; try discriminate.
  - intros H. injection H as <- <- <-. lia.
  - destruct it as [cs|k| |].
    + destruct (match_current inp pos cs); [apply IH; exact He|discriminate].
    + destruct (pos - k <? 0); [discriminate|apply IH; exact He].
    + apply IH; exact He.
    + apply IH; lia.
Qed.

(* after a look-back the match may end before the replaced range (m_end < m_er); the position a
   successful action continues at is never smaller than m_er (do_action) *)
Lemma match_shape_l : forall inp r pos m, pass_test inp r pos = Some m ->
  m_start m = pos /\ pos <= m_sr m /\ m_sr m <= m_er m /\ m_er m <= len inp /\ 0 <= m_end m <= len inp.
Proof.
  intros inp r pos m. unfold pass_test.
  destruct (do_test inp (p_test r) pos (-1) (-1)) as [[[em sr] er]|] eqn:Et; [|discriminate].
  apply do_test_range in Et; [|unfold len; lia].
  destruct (_ || _) eqn:G; [discriminate|]. intros H. injection H as <-.
  cbn [m_start m_sr m_er m_end].
  destruct (sr =? -1); lia.
Qed.

(* ------------------------------------------------------------------ the literal action *)

Lemma slice_len inp a b : 0 <= a -> a <= b -> b <= len inp -> len (slice inp a b) = b - a.
Proof. unfold slice, len. intros Ha Hab Hb. rewrite firstn_length, skipn_length. lia. Qed.

Lemma literal_action_l : forall inp cap r m out pm cs,
  p_act r = ALit cs -> 0 <= m_start m -> m_start m <= m_sr m -> m_sr m <= len inp ->
  len out + (m_sr m - m_start m) + len cs <= cap ->
  do_action inp cap r m out pm =
    (out ++ slice inp (m_start m) (m_sr m) ++ cs,
     pm ++ zrange (m_start m) (m_sr m) ++ repeat (m_sr m) (length cs),
     Some (m_er m)).
Proof.
  intros inp cap r m out pm cs Ha H0 H1 H2 Hc.
  assert (Hcs : 0 <= len cs) by (unfold len; lia).
  unfold do_action, copy_chars. rewrite Ha.
  destruct (m_sr m >? m_start m) eqn:E.
  - pose proof (slice_len inp (m_start m) (m_sr m) H0 H1 H2) as Hl.
    destruct (len out + m_sr m - m_start m >? cap) eqn:E1; [lia|].
    assert (Hl2 : len (out ++ slice inp (m_start m) (m_sr m)) = len out + (m_sr m - m_start m)).
    { unfold len in *. rewrite app_length. lia. }
    rewrite Hl2.
    destruct (len out + (m_sr m - m_start m) + len cs >? cap) eqn:E2; [lia|].
    rewrite <- !app_assoc. reflexivity.
  - assert (He : m_sr m = m_start m) by lia. rewrite He in *.
    destruct (len out + len cs >? cap) eqn:E2; [lia|].
    unfold slice, zrange. rewrite Z.sub_diag. cbn [Z.to_nat firstn seq map app]. reflexivity.
Qed.

(* ------------------------------------------------------------------ composition *)

Lemma compose_nth_l : forall prev stage k, (k < length stage)%nat -> 0 <= nth k stage 0 ->
  nth k (compose_fwd prev stage) 0 = nth_z prev (nth k stage 0).
Proof.
  intros prev stage k Hk Hn. unfold compose_fwd.
  set (f := fun x : Z => if x <? 0 then nth_z prev 0 else nth_z prev x).
  rewrite (nth_indep _ 0 (f 0)) by (rewrite map_length; exact Hk).
  rewrite map_nth. unfold f. destruct (nth k stage 0 <? 0) eqn:E; [lia|reflexivity].
Qed.

(* ------------------------------------------------------------------ the main pass alone *)

(* the part of EngineLoop.Inv that does not need 0 <= cap *)
Definition InvL (s : tstate) : Prop := length (ts_pm s) = length (ts_out s).

Lemma word_mark_invl t inp s : InvL s -> InvL (word_mark t inp s).
Proof. unfold word_mark, InvL. destruct (_ && _); [|tauto]. cbn [ts_out ts_pm]. tauto. Qed.

Lemma emit_invl inp cap s d k s' : InvL s -> emit inp cap s d k = Some s' -> InvL s'.
Proof.
  unfold emit, InvL. destruct (_ || _); [discriminate|]. intros H He. injection He as <-.
  cbn [ts_out ts_pm]. rewrite !app_length, rev_length, repeat_length. lia.
Qed.

Lemma advance_invl s k : InvL s -> InvL (advance s k).
Proof. unfold InvL, advance. cbn [ts_out ts_pm]. tauto. Qed.

Lemma numsign_emit_invl t inp cap pos s0 s1 : InvL s0 ->
  numsign_emit t inp cap pos s0 = Some s1 -> InvL s1.
Proof.
  intros Hi. unfold numsign_emit. destruct (numsign t) as [nd|].
  - destruct (_ && _).
    + apply emit_invl. exact Hi.
    + intros H. injection H as <-. exact Hi.
  - intros H. injection H as <-. exact Hi.
Qed.

Lemma with_trace_invl idx s : InvL s -> InvL (with_trace idx s).
Proof. unfold InvL, with_trace. cbn [ts_out ts_pm]. tauto. Qed.

Lemma put_chars_invl t inp cap k : forall s s', InvL s ->
  put_chars t inp cap k s = Some (Some s') -> InvL s'.
Proof.
  induction k as [|k IH]; intros s s' Hi; cbn [put_chars].
  - intros H. injection H as <-. exact Hi.
  - destruct (def_dots t (nth_z inp (ts_pos s))) as [d|]; [|discriminate].
    destruct (emit inp cap s d 1) as [s1|] eqn:Ee; [|discriminate].
    assert (Hi1 : InvL (advance s1 1)) by (apply advance_invl; exact (emit_invl _ _ _ _ _ _ Hi Ee)).
    destruct (ts_pos (advance s1 1) >=? n inp).
    + intros H. injection H as <-. exact Hi1.
    + apply IH. exact Hi1.
Qed.

Lemma put_chars_partial_invl t inp cap k : forall s, InvL s ->
  InvL (put_chars_partial t inp cap k s).
Proof.
  induction k as [|k IH]; intros s Hi; cbn [put_chars_partial]; [exact Hi|].
  destruct (def_dots t (nth_z inp (ts_pos s))) as [d|]; [|exact Hi].
  destruct (emit inp cap s d 1) as [s1|] eqn:Ee; [|exact Hi].
  assert (Hi1 : InvL (advance s1 1)) by (apply advance_invl; exact (emit_invl _ _ _ _ _ _ Hi Ee)).
  destruct (ts_pos (advance s1 1) >=? n inp); [exact Hi1|apply IH; exact Hi1].
Qed.

Lemma apply_rule_invl t inp cap s2 e : InvL s2 ->
  match apply_rule t inp cap s2 e with
  | Next s' => InvL s'
  | Fail s' => InvL s'
  | Unsupported => True
  end.
Proof.
  intros Hi. unfold apply_rule. destruct (e_dots e) as [|d0 dr].
  - destruct (put_chars t inp cap (Z.to_nat (len (e_chars e))) s2) as [[s3|]|] eqn:Ep.
    + exact (put_chars_invl _ _ _ _ _ _ Hi Ep).
    + apply put_chars_partial_invl. exact Hi.
    + exact I.
  - destruct (emit inp cap s2 (d0 :: dr) (len (e_chars e))) as [s3|] eqn:Ee; [|exact Hi].
    apply advance_invl. exact (emit_invl _ _ _ _ _ _ Hi Ee).
Qed.

Lemma step_invl t sel inp cap s : InvL s ->
  match step t sel inp cap s with
  | Next s' => InvL s'
  | Fail s' => InvL s'
  | Unsupported => True
  end.
Proof.
  intros Hi. rewrite step_unfold.
  destruct (sel inp (ts_pos s)) as [[idx e]|]; [|exact I].
  assert (Hw := word_mark_invl t inp s Hi).
  destruct (numsign_emit t inp cap (ts_pos s) (word_mark t inp s)) as [s1|] eqn:En; [|exact Hw].
  apply apply_rule_invl. apply with_trace_invl. exact (numsign_emit_invl _ _ _ _ _ _ Hw En).
Qed.

Definition res_len (r : tresult) : Prop :=
  match r with TOk _ cells pm _ => length pm = length cells | _ => True end.

Lemma finish_len t inp s : InvL s -> res_len (finish t inp s).
Proof.
  unfold InvL, finish, res_len. intros H. rewrite !firstn_length, !rev_length, H. reflexivity.
Qed.

Lemma loop_len t sel inp cap : forall fuel s, InvL s -> res_len (loop t sel inp cap fuel s).
Proof.
  induction fuel as [|f IH]; intros s Hi; [exact I|].
  rewrite loop_unfold. destruct (ts_pos s >=? n inp).
  - apply finish_len. apply word_mark_invl. exact Hi.
  - pose proof (step_invl t sel inp cap s Hi) as Hs.
    destruct (step t sel inp cap s) as [s'|s'|].
    + apply IH. exact Hs.
    + apply finish_len. exact Hs.
    + exact I.
Qed.

Lemma translate_ref_len t mode inp cap consumed cells pm tr :
  translate_ref t mode inp cap = TOk consumed cells pm tr -> length pm = length cells.
Proof.
  intros H. pose proof (loop_len t (select_ref t mode) inp cap (S (length inp)) (mkTS 0 [] [] 0 0 [])) as Hl.
  unfold translate_ref, run in H. rewrite H in Hl. apply Hl. reflexivity.
Qed.

Lemma driver_main_only_l : forall t mode inp cap,
  forward (mkPT t [] [] [] [] false 1) mode inp cap =
  match translate_ref t mode inp cap with
  | TOk consumed cells pm tr => DOk consumed cells pm tr
  | TUnsupported => DUnsupported
  | TOutOfFuel => DOutOfFuel
  end.
Proof.
  intros t mode inp cap. unfold forward, num_passes.
  cbn [pt_corr pt_main pt_np pt_correct pt_pass2 pt_pass3 pt_pass4].
  destruct (translate_ref t mode inp cap) as [consumed cells pm tr| |] eqn:Et; [|reflexivity|reflexivity].
  apply translate_ref_len in Et.
  cbn [after_stage]. change (2 <=? 1) with false. change (3 <=? 1) with false. change (4 <=? 1) with false.
  cbv iota.
  f_equal.
  - unfold nth_z, len. destruct (Z.of_nat (length cells) <? 0) eqn:E; [lia|].
    rewrite Nat2Z.id, <- Et, app_nth2 by lia. rewrite Nat.sub_diag. reflexivity.
  - rewrite <- Et, firstn_app, Nat.sub_diag, firstn_all. cbn [firstn]. apply app_nil_r.
Qed.

(* ------------------------------------------------------------------ a stage without rules *)

Lemma firstn_snoc_nth (l : list Z) (k : nat) : (k < length l)%nat ->
  firstn k l ++ [nth k l 0] = firstn (S k) l.
Proof.
  revert k. induction l as [|x l IH]; intros k Hk; cbn [length] in Hk; [lia|].
  destruct k as [|k]; [reflexivity|]. cbn [firstn nth app]. f_equal. apply IH. lia.
Qed.

Lemma zrange_snoc (k : nat) : zrange 0 (Z.of_nat k) ++ [Z.of_nat k] = zrange 0 (Z.of_nat (S k)).
Proof.
  unfold zrange. rewrite !Z.sub_0_r, !Nat2Z.id, seq_S, map_app. reflexivity.
Qed.

Lemma sskip_end is_space inp fuel : sskip is_space inp fuel (len inp) = len inp.
Proof.
  destruct fuel as [|f]; cbn [sskip]; [reflexivity|].
  unfold sn. rewrite Z.ltb_irrefl. reflexivity.
Qed.

Lemma empty_loop kind is_space inp cap : len inp <= cap ->
  forall fuel k, (k <= length inp)%nat -> (length inp - k < fuel)%nat ->
  sloop kind [] is_space inp cap fuel (mkPS (Z.of_nat k) (firstn k inp) (zrange 0 (Z.of_nat k)) true []) =
  SOk (len inp) inp (zrange 0 (len inp)) [].
Proof.
  intros Hc. induction fuel as [|f IH]; intros k Hk Hf; [lia|].
  cbn [sloop ps_pos]. unfold sn. destruct (Z.of_nat k >=? len inp) eqn:E.
  - assert (k = length inp) by (unfold len in E; lia). subst k.
    unfold sfinish. cbn [ps_pos ps_out ps_pm ps_trace rev]. rewrite firstn_all.
    fold (len inp). destruct kind; [reflexivity|]. rewrite sskip_end. reflexivity.
  - unfold len in E, Hc.
    unfold sstep. cbn [ps_inc ps_pos ps_out ps_pm ps_trace find_rule].
    assert (Hl : len (firstn k inp) = Z.of_nat k) by (unfold len; rewrite firstn_length; lia).
    rewrite Hl. destruct (Z.of_nat k + 1 >? cap) eqn:E2; [lia|].
    unfold nth_z. destruct (Z.of_nat k <? 0) eqn:E3; [lia|]. rewrite Nat2Z.id.
    rewrite firstn_snoc_nth by lia. rewrite zrange_snoc.
    replace (Z.of_nat k + 1) with (Z.of_nat (S k)) by lia.
    apply IH; lia.
Qed.

Lemma empty_stage_l : forall kind is_space inp cap, len inp <= cap -> 0 <= cap ->
  run_stage kind [] is_space inp cap = SOk (len inp) inp (zrange 0 (len inp)) [].
Proof.
  intros kind is_space inp cap Hc _. unfold run_stage, pass_chain. cbn [fold_left].
  apply (empty_loop kind is_space inp cap Hc (stage_fuel inp cap) 0%nat); unfold stage_fuel; lia.
Qed.

Print Assumptions chain_perm_l.
Print Assumptions chain_order_l.
Print Assumptions find_rule_first_l.
Print Assumptions find_rule_none_l.
Print Assumptions match_shape_l.
Print Assumptions literal_action_l.
Print Assumptions compose_nth_l.
Print Assumptions driver_main_only_l.
Print Assumptions empty_stage_l.

(* ------------------------------------------------------------------ the literal a rule is chained by *)
(* the REGENERATED condition and length of passFindCharacters are the ones of the reference (litlen_aux): a literal is
   taken when it is longer than the pending look-back, with the part behind the look-back as its length *)
Lemma passfind_is_the_reference_l : forall count lookback,
  passfind_takes count lookback = (count >? lookback) /\ passfind_length count lookback = count - lookback.
Proof. intros count lookback. unfold passfind_takes, passfind_length. split; reflexivity. Qed.
