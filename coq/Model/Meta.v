(* M6 — metadata scoring and selection (metadata.c: matchFeatureLists for string-valued keys,
   lou_findTable, lou_findTables, lou_getTableInfo) over the generated weights (Gen/GMeta.v).
   Keys and values are numbers: the key order is the case-insensitive alphabetical order of the
   C code, values compare by (case-insensitive) equality.  Executable, no proofs.          *)
From Coq Require Import List ZArith NArith Bool.
From Lou Require Import Gen.GMeta.
Import ListNotations.
Local Open Scope Z_scope.

Definition feat := (N * N)%type.       (* key, value *)

Section Score.
  (* the key "unicode-range" and its values "ucs2", "ucs4" *)
  Variables (kur ucs2 ucs4 : N).

  (* value of one queried feature (k, v1) against the table's group of entries with that key:
     C: best = negMatch; for each entry while best < 0: same value -> posMatch; the
     unicode-range special case -> posMatch - 1 *)
  Fixpoint best_of (k v1 : N) (group : list feat) (best : Z) : Z :=
    match group with
    | [] => best
    | (_, v) :: g =>
        let best' :=
          if best <? 0 then
            if N.eqb v1 v then W_POS_MATCH
            else if N.eqb k kur && N.eqb v1 ucs4 && N.eqb v ucs2 then W_POS_MATCH - 1
            else best
          else best in
        best_of k v1 g best'
    end.

  Fixpoint take_key (k : N) (l : list feat) : list feat :=
    match l with
    | (k', v) :: l' => if N.eqb k' k then (k', v) :: take_key k l' else []
    | [] => []
    end.

  Fixpoint drop_key (k : N) (l : list feat) : list feat :=
    match l with
    | (k', v) :: l' => if N.eqb k' k then drop_key k l' else l
    | [] => []
    end.

  (* matchFeatureLists(query, table, fuzzy = 0); both lists sorted by key *)
  Fixpoint mfl (fuel : nat) (q t : list feat) (acc : Z) : Z :=
    match fuel with
    | O => acc
    | S f =>
        match q, t with
        | [], [] => acc
        | [], (k2, _) :: t' => mfl f [] (drop_key k2 t') (acc + W_EXTRA)
        | _ :: q', [] => mfl f q' [] (acc + W_UNDEFINED)
        | (k1, v1) :: q', (k2, v2) :: t' =>
            if N.ltb k1 k2 then mfl f q' t (acc + W_UNDEFINED)
            else if N.ltb k2 k1 then mfl f q (drop_key k2 t') (acc + W_EXTRA)
            else mfl f q' (drop_key k2 t') (acc + best_of k1 v1 ((k2, v2) :: take_key k2 t') W_NEG_MATCH)
        end
    end.

  Definition score (q t : list feat) : Z := mfl (S (length q + length t)) q t 0.

  (* lou_findTable over the index (in index order): strictly better replaces *)
  Definition find_step (q : list feat) (st : Z * option N) (tb : N * list feat) : Z * option N :=
    let s := score q (snd tb) in
    if find_better s (fst st) then (s, Some (fst tb)) else st.

  Definition find_table (index : list (N * list feat)) (q : list feat) : option N :=
    snd (fold_left (find_step q) index (find_initial_best, None)).

  (* lou_findTables: positive scores, kept sorted by list_conj with cmpMatches *)
  Fixpoint insert_match (m : N * Z) (l : list (N * Z)) : list (N * Z) :=
    match l with
    | [] => [m]
    | e :: l' => if match_stays_before (snd e) (snd m) then e :: insert_match m l' else m :: l
    end.

  Definition tables_step (q : list feat) (acc : list (N * Z)) (tb : N * list feat) : list (N * Z) :=
    let s := score q (snd tb) in
    if tables_keep s then insert_match (fst tb, s) acc else acc.

  Definition find_tables (index : list (N * list feat)) (q : list feat) : list N :=
    map fst (fold_left (tables_step q) index []).
End Score.

(* lou_getTableInfo: entries (key, value, line) sorted by key; the value with the smallest
   line number among the entries of the key *)
Fixpoint info_aux (key : N) (l : list (N * N * Z)) (cur : Z) (val : option N) : option N :=
  match l with
  | [] => val
  | (k, v, line) :: l' =>
      if N.eqb k key then
        if info_replaces cur line then info_aux key l' line (Some v) else info_aux key l' cur val
      else if N.ltb key k then val
      else info_aux key l' cur val
  end.
Definition get_info (l : list (N * N * Z)) (key : N) : option N := info_aux key l (-1) None.

(* well-formedness predicates used by the statements *)
Fixpoint strictly_sorted (l : list feat) : bool :=
  match l with
  | (k1, _) :: (((k2, _) :: _) as r) => N.ltb k1 k2 && strictly_sorted r
  | _ => true
  end.

Fixpoint sorted_by_key (l : list (N * N * Z)) : bool :=
  match l with
  | (k1, _, _) :: (((k2, _, _) :: _) as r) => N.leb k1 k2 && sorted_by_key r
  | _ => true
  end.
