"""C01 — forward translation never accesses memory outside its buffers.
PROVE: Properties/C01.v — the scratch-buffer plan regenerated from _lou_allocMem provides at least what a
 call demands, for all lengths; the emission choke point keeps every write below maxlength.
CORRESPOND: (1) black-box identification of the plan (allocated bytes on a grid vs the extracted plan);
 (2) ASan+UBSan streams with exact scratch sizes and exactly sized caller arrays over shipped and generated
 tables; (3) long inputs (> 1024) without the exact hook; reported lengths stay within the supplied ones."""
import json
import os
import shutil

import common
import safety
import tablegen
import trans
from common import Rng, REPO

PID = "C01"
FNS = "TTTSRPQQ"   # Q: lou_translatePrehyphenated with hyphen arrays of exactly inlen / outlen bytes
ELEM = {0: 2, 1: 4, 2: 8, 3: 1, 4: 2, 5: 4, 6: 4, 7: 4}


def plan_identification(chk, drv):
    exe = common.build_harness("h_alloc")
    grid = [0, 1, 5, 1020, 1023, 1024, 1025, 3000]
    lines, mlines, cases = [], [], []
    for ex in (0, 1):
        for kind in range(8):
            for s in grid:
                for d in grid:
                    lines.append("A %d %d 0 %d %d" % (ex, kind, s, d))
                    mlines.append("AP %d %d %d %d" % (ex, kind, s, d))
                    cases.append((ex, kind, s, d))
    co = common.run_stream(exe, [], lines)
    mo = common.run_model(drv, mlines)
    for case, c, m in zip(cases, co, mo):
        chk.count(("plan",) + case, nontrivial=case[2] != case[3])
        if isinstance(c, tuple):
            chk.violation("plan-crash", "_lou_allocMem died: %s" % (c,), dict(case=case))
            continue
        got = int(c.split()[1])
        exp = int(m.split()[1]) * ELEM[case[1]]
        if got == exp:
            chk.cov["traces_validated_against_impl"] += 1
        else:
            chk.violation("plan-mismatch", "_lou_allocMem(buffer %d, srcmax %d, destmax %d, exact %d) allocates %d bytes, the generated plan says %d"
                          % (case[1], case[2], case[3], case[0], got, exp), dict(case=case, impl=got, model=exp))


def run_streams(chk, rng, fns, cells, pid):
    exe = common.build_harness("h_trans")
    env = {"LOUIS_TABLEPATH": str(REPO / "tables")}
    quick = chk.tier == "quick"
    tables = safety.shipped_tables(rng.fork("tables"), 45 if quick else 10 ** 6)
    ncase = 100 if quick else 400
    work = common.BUILD / ("work-%s-%d" % (pid.lower(), os.getpid()))
    shutil.rmtree(work, ignore_errors=True)
    work.mkdir(parents=True)
    # generated tables of fragment F
    gen_tables = []
    for i in range(40 if quick else 600):
        r = rng.fork(("gt", i))
        entries, alphabet = tablegen.gen_c05_table(r, collide=r.chance(0.3))
        tf = work / ("g%d.utb" % i)
        tf.write_text(tablegen.table_text(entries))
        gen_tables.append(("unicode.dis," + str(tf), alphabet))
    # generated multipass tables (correct / context / pass2-4 literal rules in both directions, look-backs, zero-width
    # brackets, insertions that lengthen the text): every stage writes its own output buffer and position map
    for i in range(40 if quick else 600):
        r = rng.fork(("mp", i))
        entries, rules, letters = tablegen.gen_c06_table(r, risky=r.chance(0.3), directions=("noback", "nofor"))
        tf = work / ("m%d.utb" % i)
        text = tablegen.pass_table_text(entries, rules)
        if r.chance(0.5):
            # swap classes, grouping pairs, attribute tests with counts, multi-cell indicators
            text += "\n".join(tablegen.gen_group_swap_rules(r, letters, [0x8000 | e.dots[0] for e in entries])) + "\n"
        if r.chance(0.4):
            # main-pass opcodes with handlers of their own (repword, nocont, compbrl, repeated, joinword, numeric mode ...)
            text += "\n".join(tablegen.gen_exotic_rules(r, letters)) + "\n"
            letters = letters + [45, 45, 49, 46]
        tf.write_text(text)
        gen_tables.append(("unicode.dis," + str(tf), letters + [32]))
    # corpus first: minimised cases that failed once (corpus/<pid>/*.json: table_list, case_line, exact)
    for cf in sorted((common.VERIF / "corpus" / pid.lower()).glob("*.json")):
        c = json.loads(cf.read_text())
        if "table_text" in c:
            tp = work / ("corpus_" + cf.stem + ".utb")
            tp.write_text(c["table_text"])
            c["table_list"] = c.get("prefix", "") + str(tp)
        res = trans.run_cases(exe, c["table_list"], [c["case_line"]], exact=c.get("exact", 1), env=env, timeout=120)[0]
        chk.count(("corpus", cf.name), nontrivial=True)
        chk.tally("corpus_cases")
        bad = safety.classify(res)
        f = c["case_line"].split("|")[0].split()
        if not bad and res.ret == 1 and f[1] not in "CD" and not (0 <= res.inlen <= int(f[3]) and 0 <= res.outlen <= int(f[4])):
            bad = ("lengths-out-of-range", "reported lengths (%d,%d) exceed the supplied (%s,%s)" % (res.inlen, res.outlen, f[3], f[4]))
        if bad:
            chk.violation(bad[0], "corpus case %s: %s" % (cf.name, bad[1]), dict(table_list=c["table_list"], case_line=c["case_line"], impl=list(res.crash) if res.crash else res.raw))
        else:
            chk.cov["traces_validated_against_impl"] += 1
    # generated tables with capitals and emphasis classes (letter / word / phrase indicators in random combinations)
    for i in range(30 if quick else 400):
        r = rng.fork(("emph", i))
        text, alph = tablegen.gen_emphasis_table(r)
        tf = work / ("e%d.utb" % i)
        tf.write_text(text)
        gen_tables.append(("unicode.dis," + str(tf), alph))
    streams = [(t, None) for t in tables] + gen_tables
    for tl, alphabet in streams:
        r = rng.fork(("cases", tl))
        lines = []
        for i in range(ncase if alphabet is None else 25):
            ln = safety.gen_case(r, fns, cells=cells)
            if alphabet is not None and r.chance(0.6):
                inp = [r.choice(alphabet) for _ in range(r.range(0, 25))]
                pres = r.choice([0, 12, 15, 13, 1])
                ln = trans.case_line(r.choice(fns), r.choice([0, 1, 4, 5, 128, 256]), inp,
                                     r.choice([4 * len(inp) + 8, r.range(0, len(inp) + 2), len(inp), 2 * len(inp)]), presence=pres,
                                     typeform=safety.gen_typeform(r, len(inp)) if pres & 1 and not cells else None)
            lines.append(ln)
        # inputs built around the operand strings of the table's own special rules (joinword, repword, nocont, compbrl ...),
        # placed first so that the capacity sweep below takes them
        tpath = tl.split(",")[-1]
        specials = safety.special_operands(tpath if os.path.isabs(tpath) else str(REPO / "tables" / tpath))
        aimed = []
        if specials:
            filler = [c for c in (alphabet or [97, 98, 99, 100, 101, 111, 116, 110]) if c > 32] or [97]
            for _ in range(6 if quick else 20):
                inp = safety.gen_around_specials(r, specials, filler)
                aimed.append(trans.case_line("T", r.choice([0, 0, 4]), inp, 6 * len(inp) + 20, presence=r.choice([0, 12, 15])))
            if cells:
                # the braille side: back-translate what the forward translation of these inputs gives
                back = []
                for fln, fres in zip(aimed, trans.run_cases(exe, tl, aimed, exact=1, env=env, timeout=300)):
                    if fres.crash or fres.hang is not None or fres.ret != 1 or not (0 < fres.outlen <= 40):
                        continue
                    br = fres.out[:fres.outlen]
                    back.append(trans.case_line(r.choice("BU"), int(fln.split()[2]) & 4, br, 4 * len(br) + 10, presence=r.choice([3, 15, 0])))
                aimed = back
            chk.tally("inputs_around_special_rules", len(aimed))
        lines = aimed + lines
        if alphabet is None and not cells:
            for g in safety.gen_poison_probe(r) + safety.gen_poison_probe(r):
                lines.append(trans.case_line(r.choice("TS"), r.choice([0, 0, 4]), g, 8 * len(g) + 20, presence=r.choice([0, 12])))
        if cells:
            # half of the braille inputs are real forward translations of text (then possibly cut or mutated)
            fl = []
            for i in range(len(lines) // 2):
                txt = safety.gen_input(r, 30) if alphabet is None else [r.choice(alphabet) for _ in range(r.range(1, 20))]
                txt = [c for c in txt if c] or [97]
                fl.append(trans.case_line("T", r.choice([0, 4]), txt, 6 * len(txt) + 20))
            fr = trans.run_cases(exe, tl, fl, exact=1, env=env, timeout=400)
            for i, (fln, fres) in enumerate(zip(fl, fr)):
                if fres.crash or fres.hang is not None or fres.ret != 1 or fres.outlen <= 0:
                    continue
                br = fres.out[:fres.outlen]
                if r.chance(0.3):
                    br = br[:r.range(1, len(br))]
                if r.chance(0.2):
                    br[r.below(len(br))] = r.choice([0x8000 | r.range(0, 255), r.range(33, 126), 0xffff])
                fmode = int(fln.split()[2])
                mode = (fmode & 4) | r.choice([0, 0, 128, 256, 1])
                pres = r.choice([0, 12, 15, 31, 3])
                cur = r.range(0, len(br) - 1) if pres & 16 else -2
                lines[2 * i] = trans.case_line(r.choice(fns), mode, br, r.choice([4 * len(br) + 10, r.range(0, len(br) + 2), len(br)]),
                                               cursor=cur, presence=pres)
        # capacity sweep: a few of the cases again at EVERY capacity from 0 to a little above what they can need, with all
        # optional arrays present (each exactly as long as documented): whatever is written when the output is just full, one
        # short or one too long shows at one of them
        nsw = 0
        for l in list(lines):
            sf = l.split("|")
            f = sf[0].split()
            inp = [int(x) for x in sf[1].split()] if len(sf) > 1 else []
            if f[1] not in "TSBU" or not (0 < len(inp) <= 16) or int(f[3]) != len(inp):
                continue
            for cap in range(0, 3 * len(inp) + 4):
                lines.append(trans.case_line(f[1], int(f[2]), inp, cap, presence=15 if f[1] in "TB" else 3))
            nsw += 1
            if nsw >= (3 if quick else 12):
                break
        rs = trans.run_cases(exe, tl, lines, exact=1, env=env, timeout=400)
        for ln, res in zip(lines, rs):
            f = ln.split("|")[0].split()
            inlen, outlen = int(f[3]), int(f[4])
            chk.count((tl, ln), nontrivial=not res.crash and res.hang is None and res.ret == 1 and res.outlen > 0)
            chk.tally("fn_" + f[1])
            bad = safety.classify(res)
            if bad:
                chk.violation(bad[0], "%s on table %s: %s" % (bad[1], os.path.basename(tl), ln[:200]),
                              dict(table_list=tl, case_line=ln, exact=1, impl=list(res.crash) if res.crash else res.raw,
                                   table_text=Path_read(tl)))
                continue
            if res.ret == 1 and f[1] not in "CD":
                if not (0 <= res.inlen <= inlen and 0 <= res.outlen <= outlen):
                    chk.violation("lengths-out-of-range", "reported lengths (%d,%d) exceed the supplied (%d,%d): %s"
                                  % (res.inlen, res.outlen, inlen, outlen, ln[:200]), dict(table_list=tl, case_line=ln, impl=res.raw))
                    continue
            chk.cov["traces_validated_against_impl"] += 1
            if res.ret == 1 and res.outlen > 3:
                chk.sample(dict(table=os.path.basename(tl), case=ln[:160], ret=res.ret, inlen=res.inlen, outlen=res.outlen), cap=4)
    # long inputs without the exact hook: the 1024 floor and the "grow only" reuse are exercised
    long_tables = [t for t in tables if os.path.basename(t) in ("en-us-g2.ctb", "en-ueb-g2.ctb", "de-g2.ctb", "cy-cy-g2.ctb", "en-us-comp8.ctb")]
    for tl in long_tables[: (3 if quick else 5)]:
        r = rng.fork(("long", tl))
        lines = []
        for i in range(10 if quick else 60):
            L = r.choice([1023, 1024, 1025, 1029, 1500, 2100, 3000])
            inp = safety.gen_input(r, 60)
            inp = (inp * (L // max(1, len(inp)) + 1))[:L] if inp else [97] * L
            if cells:
                inp = [0x2800 | (c & 0xff) if r.chance(0.3) else c for c in inp]
            if r.chance(0.2):
                inp[r.range(0, 40)] = 0
            outlen = r.choice([0, 1, 10, 1024, 1030, L, 2 * L + 10])
            pres = r.choice([0, 12, 15, 3, 31])
            cur = r.range(0, L - 1) if pres & 16 else -2
            if pres & 16 and 0 in inp and cur >= inp.index(0):
                pres &= ~16
                cur = -2
            tf = [r.choice([0, 1, 2, 4, 8]) for _ in range(L)] if pres & 1 and not cells else None
            lines.append(trans.case_line(r.choice(fns), safety.gen_mode(r) & ~(2 | 32), inp, outlen, cursor=cur, presence=pres, typeform=tf,
                                         spacing="1" * 10 if pres & 2 else None))
        rs = trans.run_cases(exe, tl, lines, exact=0, env=env, timeout=600, budget=20000000)
        for ln, res in zip(lines, rs):
            chk.count((tl, "long", ln[:80], len(ln)), nontrivial=not res.crash and res.ret == 1)
            chk.tally("long_inputs")
            bad = safety.classify(res)
            if bad:
                chk.violation(bad[0], "%s on table %s (long input, no exact hook): %s" % (bad[1], os.path.basename(tl), ln[:120]),
                              dict(table_list=tl, case_line=ln, exact=0, impl=list(res.crash) if res.crash else res.raw))
            else:
                chk.cov["traces_validated_against_impl"] += 1
    shutil.rmtree(work, ignore_errors=True)


def Path_read(tl):
    out = {}
    for p in tl.split(","):
        if "/work-" in p:
            try:
                out[p] = open(p).read()
            except OSError:
                pass
    return out


def run(chk):
    rng = Rng(chk.seed).fork(PID)
    gen = common.gen_stage()
    prove = common.prove_stage(PID)
    drv = common.model_driver()
    plan_identification(chk, drv)
    run_streams(chk, rng, FNS, False, PID)
    chk.cov["rule"] = ("(1) _lou_allocMem on a grid of (buffer, srcmax, destmax, exact) vs the extracted generated plan; (2) per table "
                       "(shipped sample + generated F tables) random calls of lou_translate / lou_translateString / _lou_translate / "
                       "lou_translatePrehyphenated: inputs (words, undefined characters, U+FFFF, NUL inside, Unicode braille), all mode "
                       "bits, capacities 0..generous, presence patterns, cursor, typeform, spacing; exact scratch sizes, exact caller "
                       "arrays, ASan+UBSan; (3) inputs of 1023..3000 characters without the hook; distinct = (table, case); non-trivial "
                       "= returned 1 with output")
    chk.cov["gen_status"] = gen
    chk.cov["checker_cmd"] = "make -C coq Properties/C01.vo (coqc 8.16.1)"
    chk.cov["trusted_base"] = common.TRUSTED_COMMON + [
        "tools/gen/g_alloc.py, g_emit.py: sizing plan, call-site arguments and the rejecting guards of the emission primitives",
        "demands in Model/BufPlan.v are read off the code by hand; they are validated, not proved, by the sanitizer runs",
        "partial: undefined behaviour and reads outside the modelled buffers (rule matching, table objects) are observed by ASan/UBSan only"]
    chk.assumptions = ["memory safety of code paths other than the sizing plan and the emission choke point is observed under sanitizers, not proved"]
    if not prove["ok"] and not chk.violations:
        chk.violation("proof", "Properties/%s.v no longer checks: %s" % (PID, prove["failed"][:5]),
                      dict(no_failing_input=True, broken=prove["failed"], log=prove["log"][-1500:], gen=gen))
    return chk.finish(prove)
