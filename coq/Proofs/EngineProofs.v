(* C05 — the lemmas used by Properties/C05.v.  Part A (compiled structure = reference candidate
   list) is in EngineSel.v, part C (meaning of the reference selection) in EngineRef.v, parts
   B/D/E (the loop for an arbitrary selection function) in EngineLoop.v.                       *)
From Coq Require Import List ZArith Bool Lia.
From Lou Require Import Gen.GConst Gen.GChain Model.Table Model.Ref Model.Compile Model.Engine.
From Lou Require Import Proofs.EngineSel Proofs.EngineLoop Proofs.EngineRef.
Import ListNotations.
Local Open Scope Z_scope.

Lemma select_refines_l : forall t mode inp pos,
  select_impl t (compile t) mode inp pos = select_ref t mode inp pos.
Proof. exact EngineSel.select_refines_l. Qed.

Lemma translate_refines_l : forall t mode inp cap,
  translate_impl t mode inp cap = translate_ref t mode inp cap.
Proof.
  intros t mode inp cap. unfold translate_impl, translate_ref.
  apply run_ext. intros i p. apply select_refines_l.
Qed.

Lemma select_ref_qualifies_l : forall t mode inp pos ie,
  0 <= pos < len inp ->
  select_ref t mode inp pos = Some ie -> qualifies t mode inp pos ie.
Proof. exact EngineRef.select_ref_qualifies_l. Qed.

Lemma select_ref_most_preferred_l : forall t mode inp pos ie ie',
  0 <= pos < len inp ->
  select_ref t mode inp pos = Some ie -> qualifies t mode inp pos ie' -> ie' <> ie ->
  lex4_lt (rank ie) (rank ie').
Proof. exact EngineRef.select_ref_most_preferred_l. Qed.

Lemma select_ref_none_iff_l : forall t mode inp pos,
  0 <= pos < len inp ->
  (select_ref t mode inp pos = None <-> forall ie, ~ qualifies t mode inp pos ie).
Proof. exact EngineRef.select_ref_none_iff_l. Qed.

Lemma select_ref_good t mode : sel_good (select_ref t mode).
Proof. intros i p idx e H. exact (select_ref_len t mode i p idx e H). Qed.

Lemma engine_total_l : forall t mode inp cap,
  translate_ref t mode inp cap <> TOutOfFuel.
Proof.
  intros t mode inp cap. unfold translate_ref. apply run_total. apply select_ref_good.
Qed.

Lemma lengths_in_range_l : forall t mode inp cap consumed cells pm trace,
  0 <= cap ->
  translate_ref t mode inp cap = TOk consumed cells pm trace ->
  0 <= consumed <= len inp /\ len cells <= cap /\ length pm = length cells.
Proof.
  intros t mode inp cap consumed cells pm trace Hc H.
  pose proof (run_ok t (select_ref t mode) inp cap Hc) as Hok.
  unfold translate_ref in H. rewrite H in Hok. exact Hok.
Qed.

Print Assumptions select_refines_l.
Print Assumptions translate_refines_l.
Print Assumptions select_ref_qualifies_l.
Print Assumptions select_ref_most_preferred_l.
Print Assumptions select_ref_none_iff_l.
Print Assumptions engine_total_l.
Print Assumptions lengths_in_range_l.
