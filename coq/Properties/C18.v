(* C18 — metadata queries select tables by the documented scoring order.  Statements only.
   kur/ucs2/ucs4 are the ids of the key "unicode-range" and its two values.               *)
From Coq Require Import List ZArith NArith Bool Permutation.
From Lou Require Import Gen.GMeta Model.Meta Proofs.MetaProofs.
Import ListNotations.
Local Open Scope Z_scope.

(* lou_findTable returns NULL exactly when lou_findTables returns no table *)
Theorem find_none_iff : forall kur ucs2 ucs4 index q,
  find_table kur ucs2 ucs4 index q = None <-> find_tables kur ucs2 ucs4 index q = [].
Proof. exact MetaProofs.find_none_iff_l. Qed.
Print Assumptions find_none_iff.

(* ... and otherwise one of the tables lou_findTables lists *)
Theorem find_in_findTables : forall kur ucs2 ucs4 index q n,
  find_table kur ucs2 ucs4 index q = Some n -> In n (find_tables kur ucs2 ucs4 index q).
Proof. exact MetaProofs.find_in_tables_l. Qed.

(* lou_findTables lists exactly the tables with a positive score *)
Theorem findTables_positive : forall kur ucs2 ucs4 index q n,
  In n (find_tables kur ucs2 ucs4 index q) <->
  exists f, In (n, f) index /\ score kur ucs2 ucs4 q f > 0.
Proof. exact MetaProofs.find_tables_positive_l. Qed.

(* a table whose metadata equals the query (sorted, one value per key, non-empty) scores
   10 per feature, hence is always found *)
Theorem exact_metadata_scores : forall kur ucs2 ucs4 q,
  strictly_sorted q = true -> q <> [] ->
  score kur ucs2 ucs4 q q = W_POS_MATCH * Z.of_nat (length q).
Proof. exact MetaProofs.exact_score_l. Qed.

Theorem exact_metadata_found : forall kur ucs2 ucs4 index q n,
  strictly_sorted q = true -> q <> [] -> In (n, q) index ->
  find_table kur ucs2 ucs4 index q <> None.
Proof. exact MetaProofs.exact_found_l. Qed.

(* for one queried feature: same value > key missing > different value; an unrelated extra
   field costs less than either *)
Theorem single_feature_order : forall kur ucs2 ucs4 k v v' k' w,
  v <> v' -> (k =? kur)%N = false -> k <> k' ->
  let same := score kur ucs2 ucs4 [(k, v)] [(k, v)] in
  let missing := score kur ucs2 ucs4 [(k, v)] [] in
  let different := score kur ucs2 ucs4 [(k, v)] [(k, v')] in
  let same_plus_extra := score kur ucs2 ucs4 [(k, v)] (if (k <? k')%N then [(k, v); (k', w)] else [(k', w); (k, v)]) in
  same > missing /\ missing > different /\ same - same_plus_extra = 1 /\ same_plus_extra > missing.
Proof. exact MetaProofs.single_feature_order_l. Qed.

(* a table that strictly dominates all others with a positive score is returned whatever the
   order in which tables were indexed *)
Theorem dominant_wins_any_order : forall kur ucs2 ucs4 index index' q n f,
  Permutation index index' ->
  In (n, f) index -> score kur ucs2 ucs4 q f > 0 ->
  (forall n' f', In (n', f') index -> (n', f') <> (n, f) -> score kur ucs2 ucs4 q f' < score kur ucs2 ucs4 q f) ->
  find_table kur ucs2 ucs4 index' q = Some n.
Proof. exact MetaProofs.dominant_wins_l. Qed.
Print Assumptions dominant_wins_any_order.

(* lou_getTableInfo returns the value of the occurrence with the smallest line number *)
Theorem info_first_occurrence : forall l key v line,
  sorted_by_key l = true ->
  In (key, v, line) l -> 0 <= line ->
  (forall v' line', In (key, v', line') l -> (v', line') <> (v, line) -> line < line') ->
  (forall k v' line', In (k, v', line') l -> 0 <= line') ->
  get_info l key = Some v.
Proof. exact MetaProofs.info_first_l. Qed.
Print Assumptions info_first_occurrence.

Example dominance_is_satisfiable :
  find_table 9%N 1%N 2%N [(1%N, [(3%N, 5%N)]); (2%N, [(3%N, 6%N)])] [(3%N, 6%N)] = Some 2%N.
Proof. reflexivity. Qed.
