(* Proofs for C08 / C14 / C15: the table cache as a state machine (Model/Api.v) and the
   inventory of persistent variables (Gen/GStatics.v, Model/Statics.v).                       *)
From Coq Require Import String List ZArith NArith Bool Lia Permutation.
From Lou Require Import Gen.GStatics Model.Api Model.Statics.
Import ListNotations.
Local Open Scope Z_scope.

(* ------------------------------------------------------------------------------------------ *)
(* inventory                                                                                    *)

Lemma statics_classified_l :
  forallb (fun s => let '(f, _, n) := s in classified f n) statics = true.
Proof. vm_compute. reflexivity. Qed.

(* the per-call state that is reset explicitly (the multipass variables): the reset clears the whole array,
   it happens before the first loop of each of the six stage functions, and the variables are only touched
   by the pass interpreters, which are reached from those functions only *)
Definition stage_functions : list (string * string) :=
  [("lou_translateString.c", "makeCorrections"); ("lou_translateString.c", "translateString"); ("lou_translateString.c", "translatePass");
   ("lou_backTranslateString.c", "makeCorrections"); ("lou_backTranslateString.c", "backTranslateString"); ("lou_backTranslateString.c", "translatePass")]%string.

Definition resets_first (f : string * string) : bool :=
  existsb (fun r => let '(a, b, early) := r in String.eqb a (fst f) && String.eqb b (snd f) && early) passvars_resetters.

Lemma passvars_reset_l :
  passvars_reset_bytes = (passvars_elem_bytes * passvars_count)%Z /\
  forallb resets_first stage_functions = true /\
  forallb (fun u => existsb (String.eqb (snd u)) ["passDoTest"; "passDoAction"; "doPassSearch"; "back_passDoTest"; "back_passDoAction"]%string) passvars_users = true.
Proof. vm_compute. repeat split; reflexivity. Qed.

(* translation_direction: the forward main pass sets it to 1 and the backward main pass to 0, each before its first
   loop, and nothing else assigns it *)
Lemma direction_l :
  direction_assignments =
  [("lou_backTranslateString.c", "backTranslateString", 0%Z, true); ("lou_translateString.c", "translateString", 1%Z, true)]%string.
Proof. reflexivity. Qed.

Lemma free_covers_l :
  forallb (fun v => existsb (String.eqb v) free_resets) must_be_reset_by_free = true.
Proof. vm_compute. reflexivity. Qed.

Lemma cache_shape_l :
  cache_insert_only_after_successful_compile = true /\ lookup_finalizes_table = true /\
  (forall q e c, display_cache_hit q e c = table_cache_hit q e c).
Proof. split; [reflexivity|]. split; [reflexivity|]. intros q e c. reflexivity. Qed.

(* ------------------------------------------------------------------------------------------ *)
(* the cache key                                                                                *)

Lemma cp_cons : forall x a y b,
  common_prefix (x :: a) (y :: b) = if x =? y then 1 + common_prefix a b else 0.
Proof. reflexivity. Qed.

Lemma cp_refl : forall a, common_prefix a a = Z.of_nat (length a).
Proof.
  induction a as [|x a IH]; [reflexivity|].
  rewrite cp_cons, Z.eqb_refl, IH. cbn [length]. lia.
Qed.

Lemma cp_full : forall a b,
  length a = length b -> Z.of_nat (length a) <= common_prefix b a -> a = b.
Proof.
  induction a as [|x a IH]; intros [|y b] Hl Hc; cbn [length] in *; try discriminate; [reflexivity|].
  rewrite cp_cons in Hc. destruct (y =? x) eqn:E.
  - apply Z.eqb_eq in E. subst y. f_equal. apply IH; [congruence | lia].
  - lia.
Qed.

Lemma key_hit_iff_l : forall a b, key_hit a b = true <-> a = b.
Proof.
  intros a b. unfold key_hit, table_cache_hit.
  rewrite andb_true_iff, Z.eqb_eq, Z.geb_le. split.
  - intros [Hl Hc]. apply cp_full; [apply Nat2Z.inj; exact Hl | exact Hc].
  - intros ->. split; [reflexivity | rewrite cp_refl; lia].
Qed.

Lemma key_hit_refl : forall n, key_hit n n = true.
Proof. intros n. apply key_hit_iff_l. reflexivity. Qed.

Lemma key_hit_neq : forall a b, a <> b -> key_hit a b = false.
Proof.
  intros a b H. destruct (key_hit a b) eqn:K; [|reflexivity].
  apply key_hit_iff_l in K. contradiction.
Qed.

(* ------------------------------------------------------------------------------------------ *)
(* lookup                                                                                       *)

Lemma lookup_some : forall s n e rest,
  lookup s n = Some (e, rest) -> ce_name e = n /\ Permutation s (e :: rest).
Proof.
  induction s as [|x s IH]; intros n e rest H; cbn [lookup] in H; [discriminate|].
  destruct (key_hit n (ce_name x)) eqn:K.
  - inversion H; subst. apply key_hit_iff_l in K. split; [symmetry; exact K | apply Permutation_refl].
  - destruct (lookup s n) as [[e' r']|] eqn:L; [|discriminate]. inversion H; subst.
    destruct (IH _ _ _ L) as [Hn Hp]. split; [exact Hn|].
    eapply perm_trans; [apply perm_skip; exact Hp | apply perm_swap].
Qed.

Lemma lookup_none : forall s n, lookup s n = None -> ~ In n (map ce_name s).
Proof.
  induction s as [|x s IH]; intros n H; cbn [lookup] in H; cbn [map In]; [tauto|].
  destruct (key_hit n (ce_name x)) eqn:K; [discriminate|].
  destruct (lookup s n) as [[e' r']|] eqn:L; [discriminate|].
  intros [Ha|Hi].
  - rewrite Ha, key_hit_refl in K. discriminate.
  - exact (IH _ L Hi).
Qed.

(* ------------------------------------------------------------------------------------------ *)

Definition is_comp (n : name) (ev : aevent) : bool :=
  match ev with Compiled m => if list_eq_dec Z.eq_dec m n then true else false end.

Definition compile_events (n : name) (rs : list (ares * list aevent)) : nat :=
  length (filter (is_comp n) (flat_map snd rs)).

Section Inv.
  Variable compiles : name -> bool.
  Variable valid : N -> bool.

  Local Notation acc_ := (accepted compiles valid).
  Local Notation astep_ := (astep compiles valid).
  Local Notation arun_ := (arun compiles valid).

  Definition A (ops : list aop) (n : name) : list N * bool := acc_ ops n [] false.
  Definition A1 (o : aop) (n : name) (p : list N * bool) : list N * bool := acc_ [o] n (fst p) (snd p).

  Lemma accepted_app : forall ops1 ops2 n acc f,
    acc_ (ops1 ++ ops2) n acc f =
    acc_ ops2 n (fst (acc_ ops1 n acc f)) (snd (acc_ ops1 n acc f)).
  Proof.
    induction ops1 as [|o ops1 IH]; intros ops2 n acc f; [reflexivity|].
    rewrite <- app_comm_cons. destruct o as [m|m r|]; cbn [accepted].
    - match goal with |- context [if ?c then _ else _] => destruct c end; apply IH.
    - match goal with |- context [if ?c then _ else _] => destruct c end; apply IH.
    - apply IH.
  Qed.

  Lemma A_snoc : forall ops o n, A (ops ++ [o]) n = A1 o n (A ops n).
  Proof. intros ops o n. unfold A, A1. apply accepted_app. Qed.

  Lemma A1_use_eq : forall m p, compiles m = true -> A1 (Use m) m p = (fst p, true).
  Proof. intros m p H. unfold A1. cbn [accepted]. rewrite H, key_hit_refl. reflexivity. Qed.

  Lemma A1_use_neq : forall m n p, n <> m -> A1 (Use m) n p = p.
  Proof.
    intros m n p H. unfold A1. cbn [accepted].
    rewrite (key_hit_neq m n) by congruence. rewrite andb_false_r. cbn [andb].
    destruct p; reflexivity.
  Qed.

  Lemma A1_use_nocompile : forall m n p, compiles m = false -> A1 (Use m) n p = p.
  Proof. intros m n p H. unfold A1. cbn [accepted]. rewrite H. cbn [andb]. destruct p; reflexivity. Qed.

  Lemma A1_add_eq : forall m r p, compiles m = true ->
    A1 (AddRule m r) m p = if negb (snd p) && valid r then (fst p ++ [r], snd p) else p.
  Proof.
    intros m r p H. unfold A1. cbn [accepted]. rewrite H, key_hit_refl. cbn [andb].
    destruct (negb (snd p) && valid r); destruct p; reflexivity.
  Qed.

  Lemma A1_add_neq : forall m r n p, n <> m -> A1 (AddRule m r) n p = p.
  Proof.
    intros m r n p H. unfold A1. cbn [accepted].
    rewrite (key_hit_neq m n) by congruence. rewrite andb_false_r. cbn [andb].
    destruct p; reflexivity.
  Qed.

  Lemma A1_add_nocompile : forall m r n p, compiles m = false -> A1 (AddRule m r) n p = p.
  Proof. intros m r n p H. unfold A1. cbn [accepted]. rewrite H. cbn [andb]. destruct p; reflexivity. Qed.

  Lemma A1_free : forall n p, A1 Free n p = ([], false).
  Proof. reflexivity. Qed.

  (* the invariant relating the concrete cache to [accepted] *)
  Record Inv (s : astate) (ops : list aop) : Prop := mkInv {
    inv_nodup : NoDup (map ce_name s);
    inv_entry : forall e, In e s ->
      compiles (ce_name e) = true /\ (ce_added e, ce_final e) = A ops (ce_name e);
    inv_absent : forall n, ~ In n (map ce_name s) -> A ops n = ([], false) }.

  Lemma inv_init : Inv ainit [].
  Proof.
    constructor.
    - constructor.
    - intros e [].
    - intros n _. reflexivity.
  Qed.

  Lemma inv_same : forall s ops o,
    Inv s ops -> (forall n, A1 o n (A ops n) = A ops n) -> Inv s (ops ++ [o]).
  Proof.
    intros s ops o [Hd He Ha] Hsame. constructor.
    - exact Hd.
    - intros e Hin. rewrite A_snoc, Hsame. exact (He e Hin).
    - intros n Hn. rewrite A_snoc, Hsame. exact (Ha n Hn).
  Qed.

  Lemma inv_update : forall s ops o e' rest,
    Inv s ops ->
    NoDup (map ce_name (e' :: rest)) ->
    (forall x, In x rest -> In x s) ->
    (forall n, In n (map ce_name s) -> In n (map ce_name (e' :: rest))) ->
    compiles (ce_name e') = true ->
    (ce_added e', ce_final e') = A1 o (ce_name e') (A ops (ce_name e')) ->
    (forall n, n <> ce_name e' -> A1 o n (A ops n) = A ops n) ->
    Inv (e' :: rest) (ops ++ [o]).
  Proof.
    intros s ops o e' rest [Hd He Ha] Hnd Hsub Hnames Hc Hhead Hoth. constructor.
    - exact Hnd.
    - intros e [Heq|Hin].
      + subst e. split; [exact Hc|]. rewrite A_snoc. exact Hhead.
      + destruct (He e (Hsub e Hin)) as [Hce Hacc]. split; [exact Hce|].
        rewrite A_snoc, Hoth; [exact Hacc|].
        cbn [map] in Hnd. inversion Hnd as [|? ? Hnotin Hnd']; subst.
        intros Heq. apply Hnotin. rewrite <- Heq. apply in_map. exact Hin.
    - intros n Hn. rewrite A_snoc.
      assert (Hne : n <> ce_name e') by (intros ->; apply Hn; left; reflexivity).
      rewrite (Hoth n Hne). apply Ha. intros Hin. apply Hn. apply Hnames. exact Hin.
  Qed.

  (* consequences of a successful lookup under the invariant *)
  Lemma lookup_some_inv : forall s ops m e rest,
    Inv s ops -> lookup s m = Some (e, rest) ->
    ce_name e = m /\ compiles m = true /\ A ops m = (ce_added e, ce_final e) /\
    NoDup (m :: map ce_name rest) /\
    (forall x, In x rest -> In x s) /\
    (forall n, In n (map ce_name s) -> In n (m :: map ce_name rest)).
  Proof.
    intros s ops m e rest HI L. destruct (lookup_some _ _ _ _ L) as [Hn Hp].
    destruct HI as [Hd He Ha].
    assert (Hin : In e s) by (eapply Permutation_in; [apply Permutation_sym; exact Hp | left; reflexivity]).
    destruct (He e Hin) as [Hc Hacc]. rewrite Hn in Hc, Hacc.
    assert (Hpm : Permutation (map ce_name s) (m :: map ce_name rest)).
    { rewrite <- Hn. change (ce_name e :: map ce_name rest) with (map ce_name (e :: rest)).
      apply Permutation_map. exact Hp. }
    repeat split.
    - exact Hn.
    - exact Hc.
    - symmetry. exact Hacc.
    - eapply Permutation_NoDup; [exact Hpm | exact Hd].
    - intros x Hx. eapply Permutation_in; [apply Permutation_sym; exact Hp | right; exact Hx].
    - intros n Hin'. eapply Permutation_in; [exact Hpm | exact Hin'].
  Qed.

  Lemma inv_step : forall s ops o, Inv s ops -> Inv (fst (fst (astep_ s o))) (ops ++ [o]).
  Proof.
    intros s ops o HI. destruct o as [m|m r|].
    - (* Use *)
      unfold astep, get. destruct (lookup s m) as [[e rest]|] eqn:L.
      + destruct (lookup_some_inv _ _ _ _ _ HI L) as (Hn & Hc & HA & Hnd & Hsub & Hnames).
        cbn [fst snd set_head]. rewrite Hn.
        refine (inv_update _ _ _ _ _ HI _ _ _ _ _ _); cbn [ce_name ce_added ce_final map]; try assumption.
        * rewrite A1_use_eq by exact Hc. rewrite HA. reflexivity.
        * intros n Hne. apply A1_use_neq. exact Hne.
      + destruct (compiles m) eqn:Hc.
        * cbn [fst snd set_head ce_name ce_added].
          refine (inv_update _ _ _ _ _ HI _ _ _ _ _ _); cbn [ce_name ce_added ce_final map].
          -- constructor; [apply lookup_none; exact L | exact (inv_nodup _ _ HI)].
          -- intros x Hx; exact Hx.
          -- intros n Hn. right. exact Hn.
          -- exact Hc.
          -- rewrite A1_use_eq by exact Hc.
             rewrite (inv_absent _ _ HI m (lookup_none _ _ L)). reflexivity.
          -- intros n Hne. apply A1_use_neq. exact Hne.
        * cbn [fst snd]. apply inv_same; [exact HI|].
          intros n. apply A1_use_nocompile. exact Hc.
    - (* AddRule *)
      unfold astep, get. destruct (lookup s m) as [[e rest]|] eqn:L.
      + destruct (lookup_some_inv _ _ _ _ _ HI L) as (Hn & Hc & HA & Hnd & Hsub & Hnames).
        destruct (ce_final e) eqn:F; [|destruct (valid r) eqn:V]; cbn [fst snd set_head].
        * refine (inv_update _ _ _ _ _ HI _ _ _ _ _ _); rewrite ?Hn; cbn [map]; rewrite ?Hn; try assumption.
          -- rewrite A1_add_eq by exact Hc. rewrite HA, F. reflexivity.
          -- intros n Hne. apply A1_add_neq. exact Hne.
        * rewrite Hn.
          refine (inv_update _ _ _ _ _ HI _ _ _ _ _ _); cbn [ce_name ce_added ce_final map]; try assumption.
          -- rewrite A1_add_eq by exact Hc. rewrite HA. cbn [fst snd negb andb]. rewrite V. reflexivity.
          -- intros n Hne. apply A1_add_neq. exact Hne.
        * refine (inv_update _ _ _ _ _ HI _ _ _ _ _ _); rewrite ?Hn; cbn [map]; rewrite ?Hn; try assumption.
          -- rewrite A1_add_eq by exact Hc. rewrite HA, F. cbn [fst snd negb andb]. rewrite V. reflexivity.
          -- intros n Hne. apply A1_add_neq. exact Hne.
      + destruct (compiles m) eqn:Hc.
        * cbn [ce_final ce_name ce_added]. destruct (valid r) eqn:V; cbn [fst snd set_head].
          -- refine (inv_update _ _ _ _ _ HI _ _ _ _ _ _); cbn [ce_name ce_added ce_final map].
             ++ constructor; [apply lookup_none; exact L | exact (inv_nodup _ _ HI)].
             ++ intros x Hx; exact Hx.
             ++ intros n Hn. right. exact Hn.
             ++ exact Hc.
             ++ rewrite A1_add_eq by exact Hc.
                rewrite (inv_absent _ _ HI m (lookup_none _ _ L)). cbn [fst snd negb andb]. rewrite V. reflexivity.
             ++ intros n Hne. apply A1_add_neq. exact Hne.
          -- refine (inv_update _ _ _ _ _ HI _ _ _ _ _ _); cbn [ce_name ce_added ce_final map].
             ++ constructor; [apply lookup_none; exact L | exact (inv_nodup _ _ HI)].
             ++ intros x Hx; exact Hx.
             ++ intros n Hn. right. exact Hn.
             ++ exact Hc.
             ++ rewrite A1_add_eq by exact Hc.
                rewrite (inv_absent _ _ HI m (lookup_none _ _ L)). cbn [fst snd negb andb]. rewrite V. reflexivity.
             ++ intros n Hne. apply A1_add_neq. exact Hne.
        * cbn [fst snd]. apply inv_same; [exact HI|].
          intros n. apply A1_add_nocompile. exact Hc.
    - (* Free *)
      cbn [astep fst]. constructor.
      + constructor.
      + intros e [].
      + intros n _. rewrite A_snoc. reflexivity.
  Qed.

  Lemma arun_snoc_fst : forall ops s o,
    fst (arun_ s (ops ++ [o])) = fst (fst (astep_ (fst (arun_ s ops)) o)).
  Proof.
    induction ops as [|a ops IH]; intros s o.
    - cbn [app arun fst]. destruct (astep_ s o) as [[s' r] ev]. reflexivity.
    - rewrite <- app_comm_cons. cbn [arun].
      destruct (astep_ s a) as [[s' r] ev]. specialize (IH s' o).
      destruct (arun_ s' (ops ++ [o])) as [s2 rs2]. destruct (arun_ s' ops) as [s3 rs3].
      exact IH.
  Qed.

  Lemma inv_run : forall ops, Inv (fst (arun_ ainit ops)) ops.
  Proof.
    induction ops as [|o ops IH] using rev_ind.
    - exact inv_init.
    - rewrite arun_snoc_fst. apply inv_step. exact IH.
  Qed.

  (* results of single calls on a state satisfying the invariant *)
  Lemma use_result : forall s ops n, Inv s ops -> compiles n = true ->
    snd (fst (astep_ s (Use n))) = RTable n (fst (A ops n)).
  Proof.
    intros s ops n HI Hc. unfold astep, get. destruct (lookup s n) as [[e rest]|] eqn:L.
    - destruct (lookup_some_inv _ _ _ _ _ HI L) as (Hn & _ & HA & _).
      cbn [fst snd]. rewrite HA, Hn. reflexivity.
    - rewrite Hc. cbn [fst snd ce_name ce_added].
      rewrite (inv_absent _ _ HI n (lookup_none _ _ L)). reflexivity.
  Qed.

  Lemma add_result : forall s ops n r, Inv s ops -> compiles n = true ->
    snd (fst (astep_ s (AddRule n r))) = RAdded (valid r && negb (snd (A ops n))).
  Proof.
    intros s ops n r HI Hc. unfold astep, get. destruct (lookup s n) as [[e rest]|] eqn:L.
    - destruct (lookup_some_inv _ _ _ _ _ HI L) as (Hn & _ & HA & _).
      rewrite HA. cbn [snd].
      destruct (ce_final e); [|destruct (valid r)]; cbn [fst snd negb andb];
        rewrite ?andb_false_r; reflexivity.
    - rewrite Hc. cbn [ce_final].
      rewrite (inv_absent _ _ HI n (lookup_none _ _ L)).
      destruct (valid r); reflexivity.
  Qed.

  Lemma noadd_fst : forall ops n,
    (forall m r, ~ In (AddRule m r) ops) -> forall f, fst (acc_ ops n [] f) = [].
  Proof.
    induction ops as [|o ops IH]; intros n H f; [reflexivity|].
    assert (H' : forall m r, ~ In (AddRule m r) ops) by (intros m r Hin; apply (H m r); right; exact Hin).
    destruct o as [m|m r|]; cbn [accepted].
    - match goal with |- context [if ?c then _ else _] => destruct c end; apply IH; exact H'.
    - exfalso. apply (H m r). left. reflexivity.
    - apply IH. exact H'.
  Qed.

  (* ---------------------------------------------------------------------------------------- *)
  (* compile events                                                                           *)

  Definition cnt (n : name) (ev : list aevent) : nat := length (filter (is_comp n) ev).

  Lemma cnt_single : forall n m, cnt n [Compiled m] = if list_eq_dec Z.eq_dec m n then 1%nat else 0%nat.
  Proof. intros n m. unfold cnt. cbn [filter is_comp]. destruct (list_eq_dec Z.eq_dec m n); reflexivity. Qed.

  Lemma get_events : forall n s m oe s' ev,
    compiles n = true -> get compiles s m = (oe, s', ev) ->
    (forall x, In x (map ce_name s) -> In x (map ce_name s')) /\
    (forall e, oe = Some e -> exists rest, s' = e :: rest) /\
    (In n (map ce_name s) -> cnt n ev = 0%nat) /\
    (cnt n ev = 0%nat \/ (cnt n ev = 1%nat /\ In n (map ce_name s'))).
  Proof.
    intros n s m oe s' ev Hc G. unfold get in G.
    destruct (lookup s m) as [[e rest]|] eqn:L.
    - inversion G; subst. destruct (lookup_some _ _ _ _ L) as [Hn Hp].
      repeat split.
      + intros x Hx. eapply Permutation_in; [apply Permutation_map; exact Hp | exact Hx].
      + intros e0 He0. inversion He0; subst. eexists; reflexivity.
      + left. reflexivity.
    - pose proof (lookup_none _ _ L) as Hnot.
      destruct (compiles m) eqn:Hm; inversion G; subst; rewrite cnt_single.
      + repeat split.
        * intros x Hx. right. exact Hx.
        * intros e0 He0. inversion He0; subst. eexists; reflexivity.
        * intros Hin. destruct (list_eq_dec Z.eq_dec m n) as [->|]; [contradiction | reflexivity].
        * destruct (list_eq_dec Z.eq_dec m n) as [->|]; [right; split; [reflexivity | left; reflexivity] | left; reflexivity].
      + assert (Hne : m <> n) by (intros ->; congruence).
        destruct (list_eq_dec Z.eq_dec m n) as [Heq|_]; [contradiction|].
        repeat split.
        * intros x Hx; exact Hx.
        * intros e0 He0. discriminate.
        * left. reflexivity.
  Qed.

  Lemma astep_events : forall n s o s' r ev,
    compiles n = true -> o <> Free -> astep_ s o = (s', r, ev) ->
    (forall x, In x (map ce_name s) -> In x (map ce_name s')) /\
    (In n (map ce_name s) -> cnt n ev = 0%nat) /\
    (cnt n ev = 0%nat \/ (cnt n ev = 1%nat /\ In n (map ce_name s'))).
  Proof.
    intros n s o s' r ev Hc Hnf E.
    destruct o as [m|m r0|]; [| |contradiction]; unfold astep in E.
    - destruct (get compiles s m) as [[oe s1] ev1] eqn:G.
      destruct (get_events n _ _ _ _ _ Hc G) as (H1 & H2 & H3 & H4).
      destruct oe as [e|].
      + destruct (H2 e eq_refl) as [rest ->]. inversion E; subst. cbn [set_head map ce_name] in *.
        repeat split; assumption.
      + inversion E; subst. repeat split; assumption.
    - destruct (get compiles s m) as [[oe s1] ev1] eqn:G.
      destruct (get_events n _ _ _ _ _ Hc G) as (H1 & H2 & H3 & H4).
      destruct oe as [e|].
      + destruct (H2 e eq_refl) as [rest ->].
        destruct (ce_final e); [|destruct (valid r0)]; inversion E; subst;
          cbn [set_head map ce_name] in *; repeat split; assumption.
      + inversion E; subst. repeat split; assumption.
  Qed.

  Lemma compile_events_cons : forall n r ev rs,
    compile_events n ((r, ev) :: rs) = (cnt n ev + compile_events n rs)%nat.
  Proof.
    intros n r ev rs. unfold compile_events, cnt. cbn [flat_map snd].
    rewrite filter_app, app_length. reflexivity.
  Qed.

  Lemma events_run : forall n, compiles n = true -> forall ops s, ~ In Free ops ->
    (In n (map ce_name s) -> compile_events n (snd (arun_ s ops)) = 0%nat) /\
    (compile_events n (snd (arun_ s ops)) <= 1)%nat.
  Proof.
    intros n Hc. induction ops as [|o ops IH]; intros s Hnf.
    - cbn [arun snd]. unfold compile_events. cbn. split; [reflexivity | lia].
    - cbn [arun].
      destruct (astep_ s o) as [[s' r] ev] eqn:E.
      assert (Ho : o <> Free) by (intros ->; apply Hnf; left; reflexivity).
      assert (Hnf' : ~ In Free ops) by (intros Hin; apply Hnf; right; exact Hin).
      destruct (astep_events n _ _ _ _ _ Hc Ho E) as (H1 & H3 & H4).
      destruct (IH s' Hnf') as [IH0 IH1].
      destruct (arun_ s' ops) as [s'' rs]. cbn [snd] in *.
      rewrite compile_events_cons. split.
      + intros Hin. rewrite (H3 Hin), (IH0 (H1 n Hin)). reflexivity.
      + destruct H4 as [H4|[H4 Hin]].
        * rewrite H4. cbn. exact IH1.
        * rewrite H4, (IH0 Hin). lia.
  Qed.

End Inv.

(* ------------------------------------------------------------------------------------------ *)
(* C08                                                                                          *)

Lemma history_irrelevant_l : forall compiles valid ops n,
  compiles n = true ->
  snd (fst (astep compiles valid (fst (arun compiles valid ainit ops)) (Use n))) =
  RTable n (fst (accepted compiles valid ops n [] false)).
Proof.
  intros compiles valid ops n Hc.
  exact (use_result compiles valid _ ops n (inv_run compiles valid ops) Hc).
Qed.

Lemma same_as_fresh_l : forall compiles valid ops n,
  compiles n = true -> (forall m r, ~ In (AddRule m r) ops) ->
  snd (fst (astep compiles valid (fst (arun compiles valid ainit ops)) (Use n))) =
  snd (fst (astep compiles valid ainit (Use n))).
Proof.
  intros compiles valid ops n Hc Hno.
  rewrite history_irrelevant_l by exact Hc.
  rewrite (noadd_fst compiles valid ops n Hno false).
  unfold astep, get. cbn [lookup ainit]. rewrite Hc. reflexivity.
Qed.

(* ------------------------------------------------------------------------------------------ *)
(* C14                                                                                          *)

Lemma compile_once_l : forall compiles valid ops n,
  compiles n = true -> ~ In Free ops ->
  (compile_events n (snd (arun compiles valid ainit ops)) <= 1)%nat.
Proof.
  intros compiles valid ops n Hc Hnf.
  exact (proj2 (events_run compiles valid n Hc ops ainit Hnf)).
Qed.

Lemma failed_not_cached_l : forall compiles valid ops n,
  compiles n = false ->
  lookup (fst (arun compiles valid ainit ops)) n = None.
Proof.
  intros compiles valid ops n Hc.
  destruct (lookup (fst (arun compiles valid ainit ops)) n) as [[e rest]|] eqn:L; [|reflexivity].
  destruct (lookup_some_inv compiles valid _ _ _ _ _ (inv_run compiles valid ops) L) as (_ & Hc' & _).
  congruence.
Qed.

Lemma isolated_l : forall compiles valid ops n m r,
  compiles n = true -> n <> m ->
  fst (accepted compiles valid (ops ++ [AddRule m r]) n [] false) = fst (accepted compiles valid ops n [] false).
Proof.
  intros compiles valid ops n m r _ Hne.
  change (fst (A compiles valid (ops ++ [AddRule m r]) n) = fst (A compiles valid ops n)).
  rewrite A_snoc, A1_add_neq by exact Hne. reflexivity.
Qed.

Lemma free_init_l : forall compiles valid s,
  fst (fst (astep compiles valid s Free)) = ainit.
Proof. reflexivity. Qed.

(* ------------------------------------------------------------------------------------------ *)
(* C15                                                                                          *)

Lemma add_appends_l : forall compiles valid ops n r,
  compiles n = true -> valid r = true ->
  snd (accepted compiles valid ops n [] false) = false ->
  fst (accepted compiles valid (ops ++ [AddRule n r]) n [] false) =
  fst (accepted compiles valid ops n [] false) ++ [r].
Proof.
  intros compiles valid ops n r Hc Hv Hf.
  change (fst (A compiles valid (ops ++ [AddRule n r]) n) = fst (A compiles valid ops n) ++ [r]).
  fold (A compiles valid ops n) in Hf.
  rewrite A_snoc, A1_add_eq by exact Hc. rewrite Hf, Hv. reflexivity.
Qed.

Lemma add_result_l : forall compiles valid ops n r,
  compiles n = true ->
  snd (fst (astep compiles valid (fst (arun compiles valid ainit ops)) (AddRule n r))) =
  RAdded (valid r && negb (snd (accepted compiles valid ops n [] false))).
Proof.
  intros compiles valid ops n r Hc.
  exact (add_result compiles valid _ ops n r (inv_run compiles valid ops) Hc).
Qed.

Lemma finalized_rejects_l : forall compiles valid ops n r,
  compiles n = true ->
  fst (accepted compiles valid (ops ++ [Use n; AddRule n r]) n [] false) =
  fst (accepted compiles valid ops n [] false).
Proof.
  intros compiles valid ops n r Hc.
  change (ops ++ [Use n; AddRule n r]) with (ops ++ [Use n] ++ [AddRule n r]).
  rewrite app_assoc.
  change (fst (A compiles valid ((ops ++ [Use n]) ++ [AddRule n r]) n) = fst (A compiles valid ops n)).
  rewrite !A_snoc, A1_add_eq, A1_use_eq by exact Hc. reflexivity.
Qed.

Lemma invalid_keeps_l : forall compiles valid ops n r r',
  compiles n = true -> valid r = false -> valid r' = true ->
  snd (accepted compiles valid ops n [] false) = false ->
  fst (accepted compiles valid (ops ++ [AddRule n r; AddRule n r']) n [] false) =
  fst (accepted compiles valid ops n [] false) ++ [r'].
Proof.
  intros compiles valid ops n r r' Hc Hv Hv' Hf.
  change (ops ++ [AddRule n r; AddRule n r']) with (ops ++ [AddRule n r] ++ [AddRule n r']).
  rewrite app_assoc.
  change (fst (A compiles valid ((ops ++ [AddRule n r]) ++ [AddRule n r']) n) = fst (A compiles valid ops n) ++ [r']).
  fold (A compiles valid ops n) in Hf.
  rewrite !A_snoc, !A1_add_eq by exact Hc.
  rewrite Hf, Hv. cbn [negb andb]. rewrite Hf, Hv'. reflexivity.
Qed.

Lemma free_drops_l : forall compiles valid ops n,
  fst (accepted compiles valid (ops ++ [Free]) n [] false) = [].
Proof.
  intros compiles valid ops n.
  change (fst (A compiles valid (ops ++ [Free]) n) = []).
  rewrite A_snoc. reflexivity.
Qed.
