(* C13 — table compilation is total: a table or a clean, reported failure.  Statements only. *)
From Coq Require Import List ZArith Bool String.
From Lou Require Import Gen.GConst Gen.GErrors Model.Reader Model.CompileCtl Proofs.CtlProofs.
Import List ListNotations.   (* re-import List: String.length must not shadow List.length *)
Local Open Scope Z_scope.

(* the reader is total and bounded for ANY byte content: every line has at most MAXSTRING - 1
   characters, every token is non-empty, free of delimiters and no longer than its line *)
Theorem lines_are_bounded : forall cs l, In l (lines_of cs) -> Z.of_nat (length l) <= MAXSTRING - 1.
Proof. exact CtlProofs.lines_bounded_l. Qed.
Print Assumptions lines_are_bounded.

Theorem tokens_are_well_formed : forall l t, In t (tokens l) ->
  t <> [] /\ Forall (fun c => 32 < c) t /\ (length t <= length l)%nat.
Proof. exact CtlProofs.tokens_wf_l. Qed.
Print Assumptions tokens_are_well_formed.

(* operands never grow: a dots operand yields at most one cell per character, each flagged as a
   dot pattern; a characters operand at most one character per byte *)
Theorem dots_operand_bounded : forall tok cells, parse_dots tok = Some cells ->
  (length cells <= length tok)%nat /\ Forall (fun c => Z.land c LOU_DOTS = LOU_DOTS) cells.
Proof. exact CtlProofs.dots_bounded_l. Qed.
Print Assumptions dots_operand_bounded.

Theorem chars_operand_bounded : forall tok cs, parse_chars tok = Some cs -> (length cs <= length tok)%nat.
Proof. exact CtlProofs.chars_bounded_l. Qed.

(* outcome: success exactly when no error-level message was delivered; a failure delivers at
   least one; the outcome is a function of the events (file contents) only *)
Theorem success_iff_no_error_message : forall es,
  (fst (outcome es) = true <-> snd (outcome es) = 0) /\ (fst (outcome es) = false -> 1 <= snd (outcome es)).
Proof. exact CtlProofs.outcome_iff_l. Qed.
Print Assumptions success_iff_no_error_message.

(* read off the current source: every increment of the error counter comes with an error-level
   message; compileFile returns !errorCount; a failing rule without message gets one; counters are
   reset at entry; failure frees the partial tables and logs *)
Theorem error_accounting_shape :
  forallb snd error_increments = true /\ compileError_logs_at_error_level_and_counts = true /\
  compileFile_returns_not_errorCount = true /\ failed_rule_without_message_gets_one = true /\
  unopenable_file_logs_and_counts = true /\ compileTable_resets_counters_at_entry = true /\
  compileTable_succeeds_iff_no_error_and_logs_on_failure = true /\
  compileTable_frees_partial_tables_on_failure = true.
Proof. exact CtlProofs.shape_l. Qed.
Print Assumptions error_accounting_shape.
