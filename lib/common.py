"""Shared machinery for the liblouis verification checks.

Stages (see DESIGN.md 1.1): GEN -> PROVE -> EXTRACT -> CORRESPOND -> DECIDE.
Everything is rebuilt from /repo's current working tree, keyed by a content hash.
"""
import fcntl
import hashlib
import json
import os
import re
import shutil
import subprocess
import sys
import time
from contextlib import contextmanager
from pathlib import Path

VERIF = Path(__file__).resolve().parent.parent
REPO = Path(os.environ.get("VERIF_REPO", "/repo"))
BUILD = VERIF / "build"
COQ = VERIF / "coq"
GUARD = "LIBLOUIS_VERIF"
LIB_SOURCES = [
    "commonTranslationFunctions", "compileTranslationTable", "logging",
    "lou_backTranslateString", "lou_translateString", "metadata", "pattern", "utils",
]
MASK64 = (1 << 64) - 1


class Rng:
    """splitmix64; every random choice of a check derives from one of these."""

    def __init__(self, seed):
        self.s = (seed * 0x9E3779B97F4A7C15 + 0x1234567) & MASK64

    def next(self):
        self.s = (self.s + 0x9E3779B97F4A7C15) & MASK64
        z = self.s
        z = ((z ^ (z >> 30)) * 0xBF58476D1CE4E5B9) & MASK64
        z = ((z ^ (z >> 27)) * 0x94D049BB133111EB) & MASK64
        return z ^ (z >> 31)

    def below(self, n):
        return self.next() % n if n > 0 else 0

    def range(self, a, b):
        """inclusive"""
        return a + self.below(b - a + 1)

    def choice(self, xs):
        return xs[self.below(len(xs))]

    def chance(self, p):
        return (self.next() >> 11) / float(1 << 53) < p

    def shuffle(self, xs):
        for i in range(len(xs) - 1, 0, -1):
            j = self.below(i + 1)
            xs[i], xs[j] = xs[j], xs[i]

    def sample(self, xs, k):
        xs = list(xs)
        self.shuffle(xs)
        return xs[:k]

    def fork(self, tag):
        h = int.from_bytes(hashlib.sha256(str(tag).encode()).digest()[:8], "big")
        return Rng((self.s ^ h) & MASK64)


@contextmanager
def locked(name):
    BUILD.mkdir(exist_ok=True)
    with open(BUILD / (".lock-" + name), "w") as fh:
        fcntl.flock(fh, fcntl.LOCK_EX)
        try:
            yield
        finally:
            fcntl.flock(fh, fcntl.LOCK_UN)


def sh(cmd, timeout=600, input=None, env=None, cwd=None, binary=False):
    e = dict(os.environ)
    if env:
        e.update(env)
    try:
        p = subprocess.run(cmd, input=input, capture_output=True, timeout=timeout, env=e,
                           cwd=cwd, text=not binary, shell=isinstance(cmd, str),
                           errors=None if binary else "replace")
        return p.returncode, p.stdout, p.stderr
    except subprocess.TimeoutExpired as ex:
        out = ex.stdout or ("" if not binary else b"")
        err = ex.stderr or ("" if not binary else b"")
        if not binary:
            if isinstance(out, bytes):
                out = out.decode("utf-8", "replace")
            if isinstance(err, bytes):
                err = err.decode("utf-8", "replace")
        return -999, out, err


def repo_files():
    d = REPO / "liblouis"
    return sorted(list(d.glob("*.c")) + list(d.glob("*.h")))


def src_hash():
    h = hashlib.sha256()
    for f in repo_files():
        h.update(f.name.encode())
        h.update(f.read_bytes())
    for f in sorted((VERIF / "harness").glob("*.h")):
        h.update(f.read_bytes())
    return h.hexdigest()[:16]


VARIANTS = {
    # name: (compiler, flags)
    "asan": ("clang", ["-O1", "-g", "-fsanitize=address,undefined",
                       "-fno-sanitize-recover=undefined", "-fno-omit-frame-pointer",
                       # TranslationTableRule.charsdots[DEFAULTRULESIZE] is a "struct hack" trailing array that is
                       # deliberately indexed beyond 50 inside a larger allocation; ASan still guards the allocation
                       "-fno-sanitize=bounds"]),
    "plain": ("gcc", ["-O1", "-g"]),
}


# coverage of the library sources by the correspondence runs (a diagnostic for the generators, not part of any check):
#   VERIF_COV=<dir> ./check Cxx ; tools/covreport.sh <dir>
if os.environ.get("VERIF_COV"):
    VARIANTS["asan"][1].extend(["-fprofile-instr-generate", "-fcoverage-mapping"])
    os.environ["LLVM_PROFILE_FILE"] = os.environ["VERIF_COV"] + "/cov-%8m.profraw"


def _prune(prefix, keep):
    """drop old cached builds, but never one used in the last two hours (a long-running check may still execute from it)"""
    ds = sorted([d for d in BUILD.glob(prefix + "*") if d.is_dir()], key=lambda d: d.stat().st_mtime)
    now = time.time()
    for d in ds[:-keep] if keep else ds:
        if now - d.stat().st_mtime > 7200:
            shutil.rmtree(d, ignore_errors=True)


def cflags():
    return ["-I" + str(REPO / "liblouis"), "-I" + str(REPO), "-I" + str(VERIF / "harness"),
            "-DHAVE_CONFIG_H", "-D" + GUARD,
            '-DTABLESDIR="%s"' % (REPO / "tables")]


def build_lib(variant="asan"):
    """Compile /repo/liblouis/*.c (current working tree) with the guard on."""
    h = hashlib.sha256((src_hash() + repr(VARIANTS[variant]) + repr(cflags())).encode()).hexdigest()[:16]
    d = BUILD / ("lib-%s-%s" % (variant, h))
    with locked("lib-" + variant):
        if (d / "ok").exists():
            os.utime(d)
            return d
        d.mkdir(parents=True, exist_ok=True)
        cc, fl = VARIANTS[variant]
        procs = []
        for s in LIB_SOURCES:
            cmd = [cc] + fl + cflags() + ["-c", str(REPO / "liblouis" / (s + ".c")), "-o", str(d / (s + ".o"))]
            procs.append((s, subprocess.Popen(cmd, stdout=subprocess.PIPE, stderr=subprocess.STDOUT, text=True)))
        bad = []
        for s, p in procs:
            out, _ = p.communicate(timeout=600)
            if p.returncode != 0:
                bad.append((s, out))
        if bad:
            raise BuildError("library build failed:\n" + "\n".join("%s: %s" % b for b in bad)[-4000:])
        (d / "ok").write_text(h)
        _prune("lib-%s-" % variant, 3)
    return d


class BuildError(Exception):
    pass


def build_harness(name, variant="asan", extra=()):
    d = build_lib(variant)
    src = VERIF / "harness" / (name + ".c")
    hh = hashlib.sha256(src.read_bytes()).hexdigest()[:10]
    exe = d / ("%s-%s" % (name, hh))
    with locked("h-%s-%s" % (name, variant)):
        if exe.exists():
            return exe
        cc, fl = VARIANTS[variant]
        objs = [str(d / (s + ".o")) for s in LIB_SOURCES]
        cmd = [cc] + fl + cflags() + [str(src)] + objs + list(extra) + ["-o", str(exe) + ".tmp"]
        rc, out, err = sh(cmd, timeout=600)
        if rc != 0:
            raise BuildError("harness %s failed: %s" % (name, (out + err)[-3000:]))
        os.replace(str(exe) + ".tmp", exe)
    return exe


ASAN_ENV = {
    "ASAN_OPTIONS": "detect_leaks=0:abort_on_error=0:exitcode=77:allocator_may_return_null=1",
    "UBSAN_OPTIONS": "print_stacktrace=1:halt_on_error=1:exitcode=78",
}
LSAN_ENV = {
    "ASAN_OPTIONS": "detect_leaks=1:abort_on_error=0:exitcode=77",
    "UBSAN_OPTIONS": "print_stacktrace=1:halt_on_error=1:exitcode=78",
}


# ------------------------------------------------------------------ Coq side

def gen_stage():
    """Regenerate coq/Gen/*.v from the current source. Returns dict fact -> status."""
    sys.path.insert(0, str(VERIF / "tools" / "gen"))
    import gen_all
    global LAST_GEN
    with locked("coq"):
        LAST_GEN = gen_all.generate(REPO, COQ / "Gen", COQ / "Gen.ref")
    return LAST_GEN


LAST_GEN = {}


def gen_deps(pid):
    """generated modules (Gen/<X>.v) that Properties/<pid>.v depends on, transitively (Require closure)"""
    seen, todo, gens = set(), ["Properties/%s" % pid], set()
    while todo:
        m = todo.pop()
        if m in seen:
            continue
        seen.add(m)
        f = COQ / (m + ".v")
        if not f.exists():
            continue
        for line in re.findall(r"From Lou Require (?:Import |Export )?([^.]*(?:\.[A-Za-z][^.]*)*)\.\s", f.read_text() + " "):
            for name in line.split():
                path = name.replace(".", "/")
                if path.startswith("Gen/"):
                    gens.add(path[4:])
                todo.append(path)
    return sorted(gens)


def coq_make(targets, timeout=1500):
    """Full .vo build of the given targets (paths relative to coq/)."""
    with locked("coq"):
        if not (COQ / "Makefile").exists() or \
                (COQ / "Makefile").stat().st_mtime < (COQ / "_CoqProject").stat().st_mtime:
            rc, out, err = sh(["coq_makefile", "-f", "_CoqProject", "-o", "Makefile"], cwd=COQ)
            if rc != 0:
                return False, out + err
        rc, out, err = sh(["make", "-k", "-j16"] + list(targets), cwd=COQ, timeout=timeout)
        return rc == 0, out + err


def prop_theorems(pid):
    """Names of the Theorem statements in Properties/<pid>.v"""
    src = (COQ / "Properties" / (pid + ".v")).read_text()
    return re.findall(r"^\s*Theorem\s+(\w+)", src, flags=re.M)


def forbidden_scan():
    """No Admitted/admit/Axiom/... anywhere in the development."""
    bad = []
    pat = re.compile(r"\b(Admitted|admit|Axiom|Axioms|Parameter|Parameters|Conjecture|Abort All|"
                     r"Unset Guard Checking|Unset Positivity Checking|Unset Universe Checking|"
                     r"bypass_check|Admit Obligations|give_up)\b")
    for f in sorted(COQ.rglob("*.v")):
        if "Gen.ref" in f.parts:
            continue
        txt = re.sub(r"\(\*.*?\*\)", "", f.read_text(), flags=re.S)
        for m in pat.finditer(txt):
            bad.append("%s: %s" % (f.relative_to(COQ), m.group(1)))
    return bad


def prove_stage(pid):
    """Build Properties/<pid>.vo. Returns dict(ok, theorems, discharged, axioms, log, failed)."""
    thms = prop_theorems(pid)
    tgt = "Properties/%s.vo" % pid
    # force the property file itself to be re-run so that Print Assumptions output is captured
    for ext in (".vo", ".vok", ".vos", ".glob"):
        p = COQ / "Properties" / (pid + ext)
        if p.exists():
            p.unlink()
    ok, log = coq_make([tgt])
    bad = forbidden_scan()
    axioms = []
    closed = 0
    for m in re.finditer(r"Closed under the global context", log):
        closed += 1
    for m in re.finditer(r"^Axioms:\n((?:.+\n)+?)(?=\n|\Z)", log, flags=re.M):
        for ln in m.group(1).splitlines():
            mm = re.match(r"^(\S+)\s*:", ln)
            if mm:
                axioms.append(mm.group(1))
    failed = []
    if not ok:
        for m in re.finditer(r'File "\./([^"]+)", line (\d+)', log):
            failed.append("%s:%s" % (m.group(1), m.group(2)))
    if bad:
        ok = False
        failed += ["forbidden:" + b for b in bad]
    return dict(ok=ok, theorems=thms, discharged=len(thms) if ok else 0,
                axioms=sorted(set(axioms)), closed=closed, log=log[-6000:], failed=failed)


def model_driver():
    """Extract the executable models and build the OCaml driver (keyed by content)."""
    ok, log = coq_make(["Extract.vo"])
    if not ok:
        raise BuildError("extraction failed:\n" + log[-4000:])
    ml = (VERIF / "ocaml" / "model.ml")
    h = hashlib.sha256()
    for f in [ml, VERIF / "ocaml" / "model.mli", VERIF / "ocaml" / "driver.ml"]:
        h.update(f.read_bytes())
    d = BUILD / ("model-" + h.hexdigest()[:16])
    exe = d / "driver"
    with locked("model"):
        if exe.exists():
            os.utime(d)
            return exe
        d.mkdir(parents=True, exist_ok=True)
        for f in ("model.ml", "model.mli", "driver.ml"):
            shutil.copy(VERIF / "ocaml" / f, d / f)
        rc, out, err = sh(["ocamlfind", "ocamlopt", "-w", "-a", "-package", "str,unix", "-linkpkg",
                               "model.mli", "model.ml", "driver.ml", "-o", "driver"], cwd=d)
        if rc != 0:
            raise BuildError("ocaml build failed: " + (out + err)[-3000:])
        _prune("model-", 3)
    return exe


# ------------------------------------------------------------------ findings, evidence, verdict

def load_findings():
    known, fixed = [], []
    p = VERIF / "known_findings.txt"
    if p.exists():
        for ln in p.read_text().splitlines():
            ln = ln.strip()
            if ln.startswith("known:"):
                m = re.match(r"known:\s*property=(\S+)\s+key=(\S+)\s+(.*)", ln)
                if m:
                    known.append(dict(property=m.group(1), key=m.group(2), what=m.group(3)))
            elif ln.startswith("fixed:"):
                fixed.append(ln)
    return known, fixed


class Check:
    """Book-keeping of one run of one property's check."""

    def __init__(self, pid, tier, seed):
        self.pid, self.tier, self.seed = pid, tier, seed
        self.t0 = time.time()
        self.cov = dict(evaluations=0, distinct_nontrivial=0, rule="", samples=[],
                        traces_validated_against_impl=0, obligations=0, discharged=0,
                        checker_cmd="", trusted_base=[])
        self.assumptions = []
        self.violations = []      # (key, description, replay-dict)
        self.known_hits = []
        self.notes = []
        self._distinct = set()
        self.dist = {}
        self.known, _ = load_findings()

    # ---- counting
    def count(self, case_key, nontrivial=True, n=1):
        self.cov["evaluations"] += n
        if nontrivial:
            self._distinct.add(case_key if isinstance(case_key, (str, int, tuple)) else repr(case_key))

    def tally(self, name, k=1):
        self.dist[name] = self.dist.get(name, 0) + k

    def sample(self, s, cap=6):
        if len(self.cov["samples"]) < cap:
            self.cov["samples"].append(s)

    # ---- violations
    def violation(self, key, what, replay):
        """key identifies the failing site/input class; listed keys are known findings."""
        for k in self.known:
            if k["property"] == self.pid and k["key"] == key:
                if key not in [h[0] for h in self.known_hits]:
                    self.known_hits.append((key, k["what"]))
                return False
        self.violations.append((key, what, replay))
        return True

    def finish(self, prove=None, extra=None):
        c = self.cov
        c["distinct_nontrivial"] = len(self._distinct)
        c["distribution"] = self.dist
        if prove is not None:
            c["obligations"] = len(prove["theorems"])
            c["discharged"] = prove["discharged"]
            c["theorems"] = prove["theorems"]
            c["axioms_reported_by_Print_Assumptions"] = prove["axioms"] or ["none (Closed under the global context) x%d" % prove["closed"]]
        if extra:
            c.update(extra)
        # the tie to the source: a generated fact this property's theorems rest on whose shape the translator no longer
        # recognises is replaced by the golden copy - the theorems then say nothing about the current source
        deps = gen_deps(self.pid)
        c["generated_facts_used"] = {d: LAST_GEN.get(d, "not generated in this run") for d in deps}
        stale = [d for d in deps if str(LAST_GEN.get(d, "")).startswith("fallback")]
        if stale and not self.violations:
            self.violation("translator:" + ",".join(stale),
                           "the translator no longer recognises the source shape of %s (%s): the theorems of Properties/%s.v are not tied "
                           "to the current source and the correspondence found no failing input" % (stale, LAST_GEN.get(stale[0]), self.pid),
                           dict(no_failing_input=True, translator_status={d: LAST_GEN.get(d) for d in stale}))
        if self.notes:
            c["notes"] = self.notes
        ev = dict(property_id=self.pid, tier=self.tier, seed=self.seed, level="proof",
                  coverage=c, assumptions=self.assumptions,
                  wall_s=round(time.time() - self.t0, 2), violations=len(self.violations))
        (VERIF / "evidence").mkdir(exist_ok=True)
        (VERIF / "evidence" / (self.pid + ".json")).write_text(json.dumps(ev, indent=1, sort_keys=True) + "\n")
        for key, what in self.known_hits:
            print("KNOWN-FINDING: property=%s key=%s %s" % (self.pid, key, what))
        if self.violations:
            (VERIF / "replays").mkdir(exist_ok=True)
            seen = set()
            for i, (key, what, replay) in enumerate(self.violations):
                if key in seen:
                    continue
                seen.add(key)
                path = VERIF / "replays" / ("%s-%s-%d.json" % (self.pid, re.sub(r"[^A-Za-z0-9_.-]", "_", key)[:60], self.seed))
                replay = dict(replay)
                replay.update(property=self.pid, key=key, what=what)
                path.write_text(json.dumps(replay, indent=1) + "\n")
                tail = " no-failing-input-found" if replay.get("no_failing_input") else ""
                print("VIOLATION property=%s replay=%s%s" % (self.pid, path, tail))
                print("  " + what[:400])
            return 1
        print("OK property=%s tier=%s seed=%d evaluations=%d distinct=%d obligations=%d/%d wall=%.1fs" % (
            self.pid, self.tier, self.seed, c["evaluations"], c["distinct_nontrivial"],
            c["discharged"], c["obligations"], time.time() - self.t0))
        return 0


TRUSTED_COMMON = [
    "Coq 8.16.1 kernel (coqc, full .vo build; vm_compute used for finite sweeps and witnesses; no native_compute)",
    "translator tools/gen (Python, reads /repo/liblouis/*.c text/AST and prints Gallina terms)",
    "extraction: Coq Extraction with ExtrOcamlBasic only (bool, option, unit, list, prod, sumbool -> OCaml types); no Extract Constant; numbers stay positive/N/Z",
    "ocaml/driver.ml line protocol, harness/*.c built from /repo/liblouis/*.c with -DLIBLOUIS_VERIF under clang ASan+UBSan, Python generators and differ",
]


# ------------------------------------------------------------------ running case streams

def asan_summary(err):
    m = re.search(r"(ERROR: AddressSanitizer[^\n]*|runtime error:[^\n]*|ERROR: LeakSanitizer[^\n]*)", err)
    where = re.findall(r"#\d+ 0x[0-9a-f]+ in (\S+) ([^\s]+:\d+)", err)
    loc = ""
    for fn, pos in where:
        if "/liblouis/" in pos:
            loc = " at %s %s" % (fn, pos.split("/")[-1])
            break
    return (m.group(1) if m else err.strip().splitlines()[-1] if err.strip() else "died") + loc


def run_stream(exe, prelude, cases, timeout=120, env=None, per_case_timeout=None):
    """Feed prelude (silent commands only) + cases (one line each, one output line each) to exe.  A crash or
    hang at case k is recorded as ('CRASH'|'HANG', summary) and the stream resumes at k+1.
    Returns list of str | tuple."""
    e = dict(ASAN_ENV)
    if env:
        e.update(env)
    res = []
    k = 0
    n = len(cases)
    while k < n:
        data = "".join(l + "\n" for l in prelude) + "".join(l + "\n" for l in cases[k:])
        rc, out, err = sh([str(exe)], input=data, timeout=timeout, env=e)
        lines = out.split("\n")
        if lines and lines[-1] == "":
            lines.pop()
        got = len(lines)
        if rc == 0 and got == n - k:
            res.extend(lines)
            break
        if got == n - k and rc not in (0, -999):
            # every case answered, but the process ended with an error status: a sanitizer report at exit (LeakSanitizer with
            # detect_leaks=1, or an error in an atexit handler). The last case carries the report.
            res.extend(lines[:-1])
            res.append(("CRASH", "rc=%s at exit %s" % (rc, asan_summary(err))))
            break
        good = min(got, n - k)
        res.extend(lines[:good])
        k += good
        if k >= n:
            break
        if rc == -999:
            res.append(("HANG", "no result within %ss" % timeout))
        else:
            res.append(("CRASH", "rc=%s %s" % (rc, asan_summary(err))))
        k += 1
    return res


def run_model(exe, lines, timeout=600):
    rc, out, err = sh([str(exe)], input="".join(l + "\n" for l in lines), timeout=timeout)
    if rc != 0:
        raise BuildError("model driver failed rc=%s: %s" % (rc, err[-2000:]))
    o = out.split("\n")
    if o and o[-1] == "":
        o.pop()
    return o
