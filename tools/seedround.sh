#!/bin/bash
# confirm a seed in a scratch copy, then run the named checks against it:  tools/seedround.sh <name> <seed dir> '<demo cmd>' C06 ...
cd "$(dirname "$0")/.."
name="$1"; dir="$2"; demo="$3"; shift 3
python3 tools/seedconfirm.py "$name" "$dir" "$demo" 2>&1 | tail -1
echo "## $name"
tools/seedtest.sh "seeded/$name/patch.diff" "$@" 2>&1 | grep -v '^seedtest' | cut -c1-220
