(* The main loop of Model/Engine.v with an arbitrary observer threaded through every successful
   emission.  The cursor bookkeeping of for_updatePositions (cursorPosition, cursorStatus) is
   one such observer: it is updated from the state at the emission and never read by it.      *)
From Coq Require Import List ZArith Bool.
From Lou Require Import Gen.GConst Gen.GChain Model.Table Model.Compile Model.Ref Model.Engine.
Import ListNotations.
Local Open Scope Z_scope.

Section Obs.
  Variable Ob : Type.
  (* state before the emission, cells, characters consumed, observer -> observer *)
  Variable upd : tstate -> list Z -> Z -> Ob -> Ob.
  Variable t : table.
  Variable sel : list Z -> Z -> option crule.
  Variable inp : list Z.
  Variable cap : Z.

  Definition emit_o (s : tstate) (o : Ob) (dots : list Z) (inLength : Z) : option (tstate * Ob) :=
    match emit inp cap s dots inLength with
    | None => None
    | Some s' => Some (s', upd s dots inLength o)
    end.

  Fixpoint put_chars_o (k : nat) (s : tstate) (o : Ob) : option (option (tstate * Ob)) :=
    match k with
    | O => Some (Some (s, o))
    | S k' =>
        match def_dots t (nth_z inp (ts_pos s)) with
        | None => None
        | Some d =>
            match emit_o s o d 1 with
            | None => Some None
            | Some (s', o') =>
                let s'' := advance s' 1 in
                if ts_pos s'' >=? n inp then Some (Some (s'', o')) else put_chars_o k' s'' o'
            end
        end
    end.

  Inductive step_result_o := NextO (s : tstate) (o : Ob) | FailO (s : tstate) | UnsupportedO.

  Definition step_o (s : tstate) (o : Ob) : step_result_o :=
    let pos := ts_pos s in
    let s0 :=
      if (0 <? pos) && is_space_at t inp (pos - 1)
      then mkTS pos (ts_out s) (ts_pm s) pos (len (ts_out s)) (ts_trace s) else s in
    match sel inp pos with
    | None => UnsupportedO
    | Some (idx, e) =>
        let before := attrs t (before_char inp pos) in
        let s1 :=
          match numsign t with
          | Some nd =>
              if has_attr (attrs t (nth_z inp pos)) CTC_Digit && negb (has_attr before CTC_Digit)
              then emit_o s0 o nd 0 else Some (s0, o)
          | None => Some (s0, o)
          end in
        match s1 with
        | None => FailO s0
        | Some (s1, o1) =>
            let s2 := mkTS (ts_pos s1) (ts_out s1) (ts_pm s1) (ts_lw_in s1) (ts_lw_out s1) (idx :: ts_trace s1) in
            let l := len (e_chars e) in
            match e_dots e with
            | [] =>
                match put_chars_o (Z.to_nat l) s2 o1 with
                | None => UnsupportedO
                | Some None => FailO (put_chars_partial t inp cap (Z.to_nat l) s2)
                | Some (Some (s3, o3)) => NextO s3 o3
                end
            | d =>
                match emit_o s2 o1 d l with
                | None => FailO s2
                | Some (s3, o3) => NextO (advance s3 l) o3
                end
            end
        end
    end.

  Fixpoint loop_o (fuel : nat) (s : tstate) (o : Ob) : tresult :=
    match fuel with
    | O => TOutOfFuel
    | S f =>
        if ts_pos s >=? n inp then
          let s0 :=
            if (0 <? ts_pos s) && is_space_at t inp (ts_pos s - 1)
            then mkTS (ts_pos s) (ts_out s) (ts_pm s) (ts_pos s) (len (ts_out s)) (ts_trace s) else s in
          finish t inp s0
        else
          match step_o s o with
          | NextO s' o' => loop_o f s' o'
          | FailO s' => finish t inp s'
          | UnsupportedO => TUnsupported
          end
    end.

  Definition run_o (o0 : Ob) : tresult := loop_o (S (length inp)) (mkTS 0 [] [] 0 0 []) o0.
End Obs.

(* the cursor bookkeeping of for_updatePositions as an observer: (cursorPosition, cursorStatus) *)
Definition cursor_upd (inp : list Z) (s : tstate) (dots : list Z) (inLength : Z) (c : Z * Z) : Z * Z :=
  let '(cp, cs) := c in
  let pos := ts_pos s in
  let outlen := len (ts_out s) in
  if cs =? 0 then
    if (pos <=? cp) && (cp <? pos + inLength) then (outlen, 1)
    else if (cp =? pos + inLength) && (nth_z inp cp =? 0) then (outlen + Z.quot (len dots) 2 + 1, 1)
    else (cp, cs)
  else if (cs =? 2) && (cp =? pos) then (outlen, cs)
  else (cp, cs).
