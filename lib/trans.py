"""Building cases for harness/h_trans.c and parsing its result lines."""
import common

MODES = dict(noContractions=1, compbrlAtCursor=2, dotsIO=4, compbrlLeftCursor=32, ucBrl=64, noUndefined=128, partialTrans=256)
P_TYPEFORM, P_SPACING, P_OUTPUTPOS, P_INPUTPOS, P_CURSOR = 1, 2, 4, 8, 16


def case_line(fn, mode, inp, outlen, inlen=None, cursor=-2, presence=0, typeform=None, spacing=None):
    if inlen is None:
        inlen = len(inp)
    return "X %s %d %d %d %d %d | %s | %s | %s" % (
        fn, mode, inlen, outlen, cursor, presence, " ".join(str(c) for c in inp),
        " ".join(str(t) for t in (typeform or [])), spacing or "")


class Result:
    __slots__ = ("raw", "crash", "ret", "inlen", "outlen", "cursor", "out", "inputPos", "outputPos", "typeform",
                 "spacing", "rules", "ticks", "rawmap", "errors", "hang", "opens")

    def __init__(self, line):
        self.raw = line
        self.crash = None
        self.hang = None
        self.opens = 0
        if isinstance(line, tuple):
            self.crash = line
            return
        parts = [p.strip() for p in line.split("|")]
        h = parts[0].split()
        self.ret, self.inlen, self.outlen, self.cursor = int(h[1]), int(h[2]), int(h[3]), int(h[4])
        self.out = [int(x, 16) for x in parts[1].split()]
        self.inputPos = [int(x) for x in parts[2].split()]
        self.outputPos = [int(x) for x in parts[3].split()]
        self.typeform = [int(x, 16) for x in parts[4].split()]
        self.spacing = bytes.fromhex(parts[5]) if parts[5] else b""
        self.rules = [tuple(int(y) for y in x.split(":")) for x in parts[6].split()]
        self.ticks = {int(x.split(":")[0]): int(x.split(":")[1]) for x in parts[7].split()}
        self.rawmap = None
        if parts[8]:
            hd, _, tl = parts[8].partition(":")
            d, il, ol = [int(x) for x in hd.split()]
            self.rawmap = (d, il, ol, [int(x) for x in tl.split()])
        tail = parts[9].split()
        self.errors = int(tail[0].split("=")[1])
        self.opens = int(tail[1].split("=")[1]) if len(tail) > 1 and tail[1].startswith("opens=") else 0
        if "HANG" in tail:
            self.hang = int(tail[tail.index("HANG") + 1])


def run_cases(exe, table_list, lines, exact=1, budget=2000000, env=None, timeout=300, extra_prelude=()):
    pre = ["t " + table_list, "e %d" % exact, "b %d" % budget] + list(extra_prelude)
    return [Result(r) for r in common.run_stream(exe, pre, lines, env=env, timeout=timeout)]
