From Lou Require Import Model.Reader.
