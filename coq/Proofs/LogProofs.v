From Coq Require Import List ZArith NArith Bool Lia.
From Lou Require Import Gen.GLog Model.Log.
Import ListNotations.
Local Open Scope Z_scope.

Lemma suppressed_spec : forall lv t, log_suppressed lv t = (lv <? t).
Proof. intros; unfold log_suppressed; reflexivity. Qed.

Lemma deliver_iff_l : forall s lv t,
  snd (lstep s (Emit lv t)) = if thr s <=? lv then Some (snk s, lv, t) else None.
Proof.
  intros s lv t; cbn [lstep snd]. rewrite suppressed_spec.
  destruct (lv <? thr s) eqn:E1; destruct (thr s <=? lv) eqn:E2; try reflexivity; lia.
Qed.

Lemma emit_keeps_state : forall s lv t, fst (lstep s (Emit lv t)) = s.
Proof. reflexivity. Qed.

(* the same operations (none of which changes the level) under a higher threshold deliver exactly
   the sub-sequence of messages at or above it: text, level, sink and order untouched *)
Lemma raise_threshold_l : forall ops s s',
  forallb (fun o => negb (is_setlevel o)) ops = true ->
  snk s = snk s' -> thr s <= thr s' ->
  lrun s' ops = filter (fun d => thr s' <=? level_of d) (lrun s ops).
Proof.
  induction ops as [|o ops IH]; intros s s' Hno Hs Ht; [reflexivity|].
  cbn [forallb] in Hno. apply andb_prop in Hno as [Ho Hno].
  destruct o as [l|cb|lv t]; [discriminate Ho| |].
  - destruct cb as [id|]; cbn [lrun lstep].
    + exact (IH {| thr := thr s; snk := SUser id |} {| thr := thr s'; snk := SUser id |} Hno eq_refl Ht).
    + exact (IH {| thr := thr s; snk := SDefault |} {| thr := thr s'; snk := SDefault |} Hno eq_refl Ht).
  - cbn [lrun lstep]. unfold log_suppressed.
    destruct (lv <? thr s) eqn:E1; destruct (lv <? thr s') eqn:E2; try lia.
    + apply IH; auto.
    + cbn [filter level_of fst snd]. destruct (thr s' <=? lv) eqn:E3; try lia. apply IH; auto.
    + cbn [filter level_of fst snd]. destruct (thr s' <=? lv) eqn:E3; try lia.
      rewrite Hs. f_equal. apply IH; auto.
Qed.

Lemma setlevel_then : forall s l ops, lrun s (SetLevel l :: ops) = lrun {| thr := l; snk := snk s |} ops.
Proof. reflexivity. Qed.

Lemma off_silent : forall s lv t, thr s = LOU_LOG_OFF -> lv < LOU_LOG_OFF -> snd (lstep s (Emit lv t)) = None.
Proof. intros s lv t H1 H2. rewrite deliver_iff_l. destruct (thr s <=? lv) eqn:E; [lia|reflexivity]. Qed.

Lemma defaults_l : thr linit = LOU_LOG_INFO /\ snk linit = SDefault.
Proof. split; reflexivity. Qed.

Lemma null_restores_l : forall s, snk (fst (lstep s (Register None))) = SDefault /\ thr (fst (lstep s (Register None))) = thr s.
Proof. intros; split; reflexivity. Qed.

Lemma source_shape_l :
  log_sink_called_once_with_level = true /\ log_text_is_vsnprintf_of_format = true /\
  log_initial_sink_is_default = true /\ log_register_null_restores_default = true /\
  log_setlevel_assigns = true /\ log_default_sink_passes_message_as_argument = true.
Proof. repeat split; reflexivity. Qed.

Lemma formats_literal_l : forallb (fun x => snd x) log_call_sites = true.
Proof. vm_compute. reflexivity. Qed.
