#!/usr/bin/env python3
"""Confirm a seeded change in a scratch copy of the CURRENT /repo (never in /repo itself):
   tools/seedconfirm.py <name> <seed dir with patch.diff + demo files> '<demo command, $R = scratch root>'
 1. scratch copy of /repo under /var/tmp, seed files copied to $R/_seed (paths of the author's scratch rewritten)
 2. unchanged tree: build, demo must PASS (exit 0)
 3. apply patch.diff: build without new warnings, demo must FAIL (exit != 0)
 4. full test suite with the change: the list of failing tests must equal the baseline list
 5. scratch copy removed
 Result written to /verif/seeded/<name>/confirm.json; text deliverables copied to /verif/seeded/<name>/."""
import json, os, re, shutil, subprocess, sys, time

BASELINE = sorted("""braille-specs/da-dk-g26-dictionary_harness.yaml
braille-specs/da-dk-g26-dictionary_harness_1993.yaml
braille-specs/da-dk-g28-dictionary_harness.yaml
braille-specs/da-dk-g28-dictionary_harness_1993.yaml
braille-specs/en-ueb-g2-dictionary_harness.yaml
braille-specs/hu-hu-g1_dictionary_special_consonants.yaml""".split())


def sh(cmd, cwd=None, timeout=3600, env=None):
    e = dict(os.environ)
    e.update(env or {})
    p = subprocess.run(cmd, shell=True, cwd=cwd, stdout=subprocess.PIPE, stderr=subprocess.STDOUT, timeout=timeout, env=e)
    return p.returncode, p.stdout.decode("utf-8", "replace")


def main():
    name, seed, demo = sys.argv[1], os.path.abspath(sys.argv[2]), sys.argv[3]
    orig = None
    for f in os.listdir(seed):
        try:
            m = re.search(r"/tmp/mut\d*-C\d\d", open(os.path.join(seed, f), errors="ignore").read())
        except Exception:
            m = None
        if m:
            orig = m.group(0)
            break
    R = "/var/tmp/sc-%s" % name
    shutil.rmtree(R, ignore_errors=True)
    subprocess.check_call(["cp", "-a", "/repo", R])
    sh("git checkout -- . && make clean", cwd=R)  # full rebuild: libtool wrappers must point into the scratch copy
    out = "/verif/seeded/%s" % name
    os.makedirs(out, exist_ok=True)
    os.makedirs(R + "/_seed", exist_ok=True)
    kept = []
    for f in sorted(os.listdir(seed)):
        p = os.path.join(seed, f)
        if not os.path.isfile(p):
            continue
        data = open(p, "rb").read()
        if b"\0" in data[:4096] and not f.endswith((".utb", ".ctb", ".dic", ".txt")):
            continue  # built binaries
        if f.endswith(".log") or len(data) > 200000:
            continue
        if orig and f != "patch.diff":
            data = data.replace(orig.encode(), R.encode())
        open(os.path.join(R, "_seed", f), "wb").write(data)
        # the committed copy keeps a placeholder instead of a scratch path
        cdata = open(p, "rb").read()
        if orig:
            cdata = cdata.replace(orig.encode(), b"$SCRATCH")
        open(os.path.join(out, f), "wb").write(cdata)
        kept.append(f)
    res = dict(name=name, scratch=R, demo_cmd=demo, files=kept, repo_head=sh("git rev-parse HEAD", cwd="/repo")[1].strip())
    env = dict(R=R, LOUIS_TABLEPATH=R + "/tables")
    rc, o = sh("make -j16 2>&1 | tail -3", cwd=R)
    res["wrappers_in_scratch"] = (R + "/liblouis/.libs") in open(R + "/tools/lou_checkyaml").read()
    rc, o = sh(demo, cwd=R, env=env, timeout=600)
    res["demo_unchanged"] = dict(exit=rc, tail=o[-600:])
    rc, o = sh("git apply _seed/patch.diff", cwd=R)
    res["apply"] = dict(exit=rc, out=o[-300:])
    rc, o = sh("make -j16 2>&1", cwd=R)
    res["build_with_change"] = dict(exit=rc, warnings=[l for l in o.splitlines() if "warning:" in l][:10])
    try:
        rc, o = sh(demo, cwd=R, env=env, timeout=600)
    except subprocess.TimeoutExpired:
        rc, o = 124, "demo timed out after 600 s"
    res["demo_with_change"] = dict(exit=rc, tail=o[-800:])
    t0 = time.time()
    rc, o = sh("make -k -j16 check 2>&1", cwd=R, timeout=3600)
    fails = sorted(set(l.split("FAIL: ", 1)[1].strip() for l in o.splitlines() if l.startswith("FAIL: ")))
    errors = sorted(set(l for l in o.splitlines() if l.startswith("ERROR: ")))
    res["suite_with_change"] = dict(failing=fails, errors=errors, equals_baseline=(fails == BASELINE and not errors), seconds=round(time.time() - t0))
    res["confirmed"] = bool(res["demo_unchanged"]["exit"] == 0 and res["demo_with_change"]["exit"] != 0 and res["apply"]["exit"] == 0
                            and res["build_with_change"]["exit"] == 0 and res["suite_with_change"]["equals_baseline"])
    shutil.rmtree(R, ignore_errors=True)
    json.dump(res, open(os.path.join(out, "confirm.json"), "w"), indent=1)
    print(name, "confirmed" if res["confirmed"] else "NOT CONFIRMED", "demo", res["demo_unchanged"]["exit"], "->", res["demo_with_change"]["exit"],
          "suite", "baseline" if res["suite_with_change"]["equals_baseline"] else fails)


main()
