#!/usr/bin/env python3
"""Writes MANIFEST.json from the per-property table below (keeps it valid at all times)."""
import json
import subprocess
from pathlib import Path

HERE = Path(__file__).resolve().parent.parent
NOTE = ("Trusted: Coq 8.16.1 kernel; translator tools/gen; extraction (ExtrOcamlBasic only, no Extract Constant); "
        "ocaml/driver.ml; harness built from /repo sources with -DLIBLOUIS_VERIF under ASan+UBSan; generators/differ. "
        "The theorem is about the model; the tie to the code is the regenerated facts plus the correspondence run.")

CHECKS = {
    "C17": dict(
        text="Machine-checked proof (Coq) that the hyphenation automaton built from ANY dictionary, walked over ANY word, "
             "yields exactly the digits of the declarative pattern semantics (longest suffix that is a prefix of a pattern, "
             "counted when itself a pattern); the model is tied to the code by running lou_hyphenate (ASan, exact arrays) and "
             "the extracted model on the shipped dictionaries and on generated dictionaries with overlapping patterns.",
        design="4/C17", technique="Coq proof of automaton = pattern semantics (Aho-Corasick invariant) + differential correspondence of the extracted model with lou_hyphenate"),
}

CHECKS["C19"] = dict(
    text="Machine-checked proof (Coq) over the guard regenerated from logging.c on every run: a message is delivered iff its level "
         "is at or above the threshold, raising the threshold yields exactly the filtered sub-sequence (text, level, sink, order "
         "preserved) for every operation sequence, defaults, OFF, NULL restores the default sink, and every format argument in "
         "the sources is a string literal; tied to the code by callback captures versus the extracted state machine and versus "
         "the filtered ALL-level capture under all seven thresholds.",
    design="4/C19", technique="Coq proof over a guard regenerated from the C source + differential correspondence with the log callback")

CHECKS["C20"] = dict(
    text="Machine-checked proof (Coq), for an ARBITRARY file-system predicate, that resolution returns the first existing file of a "
         "candidate list whose order (including file's directory, name as given, search-path directories in listed order) is "
         "regenerated from resolveSubtable/_lou_getTablePath on every run; not-found fails; the result depends only on the files "
         "at the candidate locations. Tied to the code by an exhaustive enumeration of real directory arrangements "
         "(presence patterns x name forms x include/list) comparing _lou_resolveTable and the active marker rule with the extracted model.",
    design="4/C20", technique="Coq proof over candidate programs regenerated from the C source + exhaustive differential run on real directory trees")

CHECKS["C18"] = dict(
    text="Machine-checked proof (Coq) over weights and comparison directions regenerated from metadata.c: lou_findTable is NULL iff "
         "lou_findTables is empty and otherwise one of its members; findTables lists exactly the positively scored tables; a table "
         "whose metadata equals the query scores 10 per feature and is found; same > missing > different and an extra field costs 1; "
         "a strictly dominant positive table wins under every permutation of the index; getTableInfo returns the smallest-line "
         "occurrence. Tied to the code by running the four API functions on generated header sets under all index orders against "
         "the extracted model.",
    design="4/C18", technique="Coq proof over scoring constants regenerated from the C source + differential correspondence with lou_findTable/lou_findTables/lou_getTableInfo")

CHECKS["C01"] = dict(
    text="Machine-checked proof (Coq) for the part of forward memory safety that is logic: for ALL input lengths and capacities the "
         "scratch-buffer plan regenerated from _lou_allocMem and its call sites provides at least what a call demands (typebuf, "
         "position maps, destSpacing, word/emphasis buffers, pass buffers, with and without the 1024 floor), and every sequence of "
         "emissions through the choke point with its regenerated guard stays below maxlength (all-or-nothing). Tied to the code by "
         "black-box identification of the plan and by ASan+UBSan streams with exact scratch sizes and exactly sized caller arrays. "
         "Partial: undefined behaviour and reads outside the modelled buffers are observed under sanitizers, not proved.",
    design="4/C01", technique="Coq proof over sizing plan and emission guards regenerated from the C source + sanitizer-instrumented differential/fault streams")
CHECKS["C02"] = dict(
    text="Machine-checked proof (Coq): backward scratch plan (first pass buffer with sentinel, position maps) for all lengths, backward "
         "emission choke points with regenerated guards, and on the hyphenation model the hyphens array keeps its length and holds only "
         "'0'/'1'/'2' for every dictionary and word. Tied to the code by ASan+UBSan streams over lou_backTranslate(String), "
         "lou_charToDots/lou_dotsToChar and lou_hyphenate (text and braille mode) with exact sizes. Partial: the backward matcher and "
         "multipass interpreter are observed under sanitizers, not proved.",
    design="4/C02", technique="Coq proof over sizing plan and emission guards regenerated from the C source + sanitizer-instrumented streams")

CHECKS["C05"] = dict(
    text="Machine-checked refinement proof (Coq, ~1000 lines): for ALL entry lists, inputs, modes and capacities the implementation-shaped "
         "selection (hash bucket of the first two characters walked in chain order with collision check, then the character's chain) "
         "over the structure built with the insertion conditions and hash functions REGENERATED from the C source equals the reference "
         "over the plain entry list; the whole main-pass loop (cells, consumed input, per-cell positions, rule trace, capacity back-off) "
         "is equal; the reference picks a qualifying rule that is preferred (longest, then not `always', then first defined; "
         "single-character rules before the definition) to every other qualifying rule; the loop never runs out of fuel and lengths stay "
         "in range. Tied to the code by running _lou_translate (rule trace, raw position map, dotsIO cells) on grammar-generated tables "
         "against both extracted engines.",
    design="4/C05", technique="Coq refinement proof (hash-chain selection = reference over the entry list) over comparators regenerated from the C source + differential correspondence with _lou_translate")

CHECKS["C07"] = dict(
    text="Machine-checked proof (Coq). Layer A, valid for EVERY table: the finishing code (raw position map -> inputPos/outputPos/"
         "cursor) produces valid indices, a non-decreasing scanned map and mutually consistent maps for ANY integer position map whose "
         "first entry is >= 0 (no bound or monotonicity assumed), writes nothing beyond the consumed range, is the identity on the "
         "identity map, and the hypothesis cannot be dropped (refutation witness). Layer B: the F engine's map is non-negative and "
         "non-decreasing. Tied to the code by pushing the hooked raw posMapping of every real call through the extracted model "
         "(must reproduce the returned arrays exactly) and by evaluating the clauses on the returned arrays.",
    design="4/C07", technique="Coq proof about the finishing code for arbitrary position maps + hook-based correspondence on every real call")
CHECKS["C09"] = dict(
    text="Machine-checked proof (Coq) over the re-encoding expressions regenerated from _lou_translate/_lou_backTranslate/"
         "lou_dotsToChar/lou_charToDots: ucBrl = low eight dots in U+2800, dotsIO = raw cell, typeform '8' iff dot 7 or 8 (16-bit "
         "sweeps lifted by lemma), Unicode braille accepted by lou_dotsToChar and by dotsIO back-translation, and the inventory of "
         "`mode & mask' tests shows dotsIO/ucBrl are tested only in finishing/decoding functions. Tied to the code by running each "
         "input under the three encodings and back-translating characters vs their dots images.",
    design="4/C09", technique="Coq proof over expressions regenerated from the C source (finite sweeps lifted) + differential runs under the three encodings")

CHECKS["C10"] = dict(
    text="Machine-checked proof (Coq) on the F engine: ANY observer state of any type threaded through and updated at the emissions - the "
         "cursor bookkeeping of for_updatePositions being one instance - leaves cells, positions, consumed length and rule trace "
         "unchanged, and the regenerated emission guard mentions lengths and positions only. Tied to the code by running every case "
         "under all 32 presence patterns of the five optional arguments in both directions plus the wrapper functions and comparing "
         "return value, lengths and output.",
    design="4/C10", technique="Coq non-interference proof (observer threading) + exhaustive presence-pattern differential runs")

CHECKS["C04"] = dict(
    text="Machine-checked proof (Coq) on the F engine: reported lengths lie within the supplied ones; with capacity at least twice the "
         "longest emission per character the whole input is consumed (no back-off, no drop); the only failure of a call with a "
         "compiled table is a cell without display mapping and only when the display table is consulted; re-encoding preserves "
         "length. For all shipped tables the clauses of the property (lengths, displayable output, completeness with capacity "
         "32*inlen+256, failure reasons with an error-level message, invalid arguments rejected) are evaluated on real results: a "
         "runtime predicate, not a theorem, outside fragment F.",
    design="4/C04", technique="Coq proof (length and completeness invariants of the main-pass loop) + property clauses evaluated on sanitizer-instrumented real calls")

CHECKS["C11"] = dict(
    text="Machine-checked proof (Coq): for every one-to-one table (single-cell definitions, no character or cell defined twice - a "
         "computable predicate) forward translation of any string over its characters is one cell per character with identity map, "
         "back-translating it returns the string, forward-translating the back-translation of any string of its cells returns the cells, "
         "and the display maps invert each other. Tied to the code by generated definition tables (injective and deliberately "
         "non-injective) run through lou_translate/lou_backTranslate/lou_charToDots/lou_dotsToChar against both extracted engines.",
    design="4/C11", technique="Coq proof of round trips on the forward/backward engine models + differential correspondence on generated one-to-one tables")

CHECKS["C06"] = dict(
    text="Machine-checked proof (Coq) on the multipass stage model (literal tests with look-back and replace brackets; literal/omit/copy "
         "actions): the pass chain built with the REGENERATED insertion condition is the rule list ordered by decreasing literal length "
         "then definition; the scanner applies the first chain rule whose test matches; accepted matches are nested ranges that never lie "
         "before the position; a literal action emits the matched prefix verbatim, then the replacement, and continues after the "
         "bracketed part; map composition is composition; the driver without stages is the main pass and an empty stage copies. Tied "
         "to the code by lou_translate / lou_backTranslate (dotsIO output, raw composed map, rule trace) on generated tables with 0-3 "
         "rules per stage in both directions against the extracted forward and backward drivers.",
    design="4/C06", technique="Coq proof on stage scanners and map composition over comparators regenerated from the C source + differential correspondence in both directions")
CHECKS["C03"] = dict(
    text="Machine-checked proof (Coq): the forward stage scanner terminates for ANY rules, input and capacity within 2*length+1 iterations; "
         "the backward stage scanner, the two main-pass engines and the whole forward driver never exhaust their fuel; hyphenation "
         "fallbacks are strictly shorter and the automaton step's fuel suffices. Tied to the code by per-site loop-head counters "
         "(hook) compared with the proved bound on tables generated to provoke non-progress, with a tick budget that aborts a "
         "runaway call. Partial: pattern.c (match/backmatch) is observed through the budget only.",
    design="4/C03", technique="Coq termination proofs (decreasing measures) on the loop models + tick-count correspondence with budget watchdog")

CHECKS["C08"] = dict(
    text="Machine-checked proof (Coq): every persistent (static/file-scope, non-const) variable inventoried from the CURRENT sources is "
         "classified into a class that cannot carry information between calls; the table cache comparison REGENERATED from getTable "
         "holds exactly for equal list strings; on the API state machine a call after ANY history works on the table of its list's "
         "files plus exactly the rules accepted for that list since the last lou_free, hence equals the call in a fresh process. "
         "Tied to the code by random histories (with and without the exact-scratch hook) in which every call's full result is compared "
         "with the same call made first in a fresh process. The classification itself is by reading the code (modelled).",
    design="4/C08", technique="Coq proof on the API state machine + inventory of statics regenerated from the C source + fresh-process differential histories")
CHECKS["C14"] = dict(
    text="Machine-checked proof (Coq) on the API state machine with the cache comparison regenerated from getTable: between lou_free calls "
         "a list that compiles is compiled at most once, a list that does not compile is never cached, lists are isolated (also when one "
         "name is a prefix of another), lou_free returns to the initial state and its statements reset every cache head, scratch pointer "
         "and size. Tied to the code by all operation sequences up to length 3 (thorough 4) over 10 operations and random long ones: "
         "files opened per step (hook), pointer identity, lou_compileString results, results vs a fresh process, LeakSanitizer.",
    design="4/C14", technique="Coq proof on the API state machine over a cache comparison regenerated from the C source + exhaustive short operation sequences with file-open hook and LSan")
CHECKS["C15"] = dict(
    text="Machine-checked proof (Coq) on the API state machine: an accepted rule is appended to the list's table, lou_compileString "
         "returns 1 iff the rule is valid and the table not yet used for translation, finalised tables reject additions without "
         "effect, an invalid rule changes nothing and later valid additions still work, additions last until lou_free and never "
         "touch another list. Tied to the code by sequences of up to 200 generated rules added through lou_compileString and compared, "
         "in both translation directions, with a freshly compiled file containing base + accepted rules.",
    design="4/C15", technique="Coq proof (append law on the API state machine) + differential comparison with the concatenated table file")

CHECKS["C16"] = dict(
    text="Machine-checked proof (Coq) of the reader laws for ARBITRARY contents: CR is ignored wherever it stands (CRLF = LF), ASCII "
         "content as UTF-16LE/BE with BOM decodes like the 8-bit file, trailing and repeated whitespace is irrelevant for tokens, the "
         "order of the dots of a cell is irrelevant, a \\xhhhh escape equals the literal character. Tied to the code by running "
         "_lou_getALine / _lou_extParseDots / _lou_extParseChars against the extracted reader model on random and mutated bytes, and by "
         "translating with 11 packagings of generated tables (plus shipped tables as wrapper / CRLF copy / list) in both directions. "
         "The fold of entries over list members and includes is compared behaviourally, not modelled.",
    design="4/C16", technique="Coq proof of reader equivalences + differential correspondence of the reader and of packaging variants")
CHECKS["C13"] = dict(
    text="Machine-checked proof (Coq): the reader is total and bounded for ANY bytes (lines <= MAXSTRING-1, well-formed tokens, operands "
         "never grow, dot cells flagged); the outcome accounting (success iff no error-level message, failure delivers at least one) and "
         "the error-counter sites of the CURRENT source are each paired with an error-level message. Fault enumeration on the real code: "
         "14 line corruptions x every rule line of valid tables (kitchen-sink table of ~70 opcode kinds, generated, shipped), whole-file "
         "faults, byte mutations, include loops; each compiled twice between uses of a known-good table under ASan/UBSan/LSan with a "
         "watchdog. Partial: crash/hang/leak freedom of the operand compilers is observed, not proved.",
    design="4/C13", technique="Coq proof (reader bounds, outcome accounting over error sites regenerated from the C source) + systematic fault enumeration under sanitizers")

CHECKS["C12"] = dict(
    text="Machine-checked proof (Coq): (a) soundness of the executable image checker - what it accepts has allocations that are inside "
         "the used part, never overlap and never use offset 0; every stored reference is null where allowed or the START of an "
         "allocation large enough for its object; forward chains are finite, allocated, in the bucket of their first two characters "
         "(case-folded for context rules) and ordered by the REGENERATED insertion condition; character records sit in their bucket "
         "with translation rules before definitions; (b) the bump allocator for EVERY sequence of sizes: growth never changes earlier "
         "offsets or sizes and its output passes the checker. Tied to the code by a walker (arena hook for exact extents) that dumps "
         "the real image of shipped tables, generated tables and tables grown by run-time additions; the extracted checker judges each "
         "dump. Every rule object (rule hook) is linked where lookups search for it; multipass programs are stepped through (embedded rule references, instruction bounds, variable numbers) and the hyphenation automaton is walked. Partial: match patterns are not walked; outside fragment F the statement "
         "is the checker's verdict per image.",
    design="4/C12", technique="Coq-verified image checker (soundness proof) run on walker dumps of real compiled tables + allocator proof")

PENDING = {}


def main():
    props = [json.loads(l) for l in (HERE / "properties.jsonl").read_text().splitlines() if l.strip()]
    commits = subprocess.run(["git", "-C", "/repo", "log", "--format=%H %s", "-80"], capture_output=True, text=True).stdout.splitlines()
    hook_commits = [c.split()[0] for c in commits if "verif hook" in c]
    m = dict(
        version=1,
        setup_cmd="./setup.sh",
        hooks=dict(guard="LIBLOUIS_VERIF",
                   enable="checks compile /repo/liblouis/*.c directly with -DLIBLOUIS_VERIF -DHAVE_CONFIG_H (clang -fsanitize=address,undefined); no autotools involved",
                   baseline_off_cmd="make -C /repo -k check",
                   source_commits=hook_commits, add_only=True),
        engines=[dict(name="coq-model", path="coq/", serves_properties=sorted(CHECKS),
                      kind_free_text="Coq 8.16.1 development: Gen (regenerated from source) + Model + Proofs + Properties; extracted to OCaml for the correspondence stage")],
        checks=[], not_applicable=[],
        notes="See DESIGN.md. ./check <id> --tier quick|thorough; known findings in known_findings.txt.")
    for p in props:
        pid = p["id"]
        if pid in CHECKS:
            c = CHECKS[pid]
            m["checks"].append(dict(
                property_id=pid,
                quick_cmd="./check %s --tier quick" % pid,
                thorough_cmd="./check %s --tier thorough" % pid,
                evidence_file="evidence/%s.json" % pid,
                replay_cmd_template="./check %s --replay {path}" % pid,
                engine="coq-model",
                level_claimed=dict(category="proof", text=c["text"], design_ref="DESIGN.md section " + c["design"]),
                level_note=c.get("note", NOTE),
                technique=c["technique"]))
        else:
            m["not_applicable"].append(dict(property_id=pid, reason=PENDING.get(pid, "check not built yet in this round (designed in DESIGN.md section 4; the technique applies)")))
    (HERE / "MANIFEST.json").write_text(json.dumps(m, indent=1) + "\n")


if __name__ == "__main__":
    main()
