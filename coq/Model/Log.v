(* M7 — log filtering and sink registration (logging.c) as a state machine over the
   generated guard GLog.log_suppressed.  Executable, no proofs. *)
From Coq Require Import List ZArith NArith Bool.
From Lou Require Import Gen.GLog.
Import ListNotations.
Local Open Scope Z_scope.

Inductive sink := SDefault | SUser (id : N).
Definition text := list N.

Record lstate := { thr : Z; snk : sink }.
Definition linit : lstate := {| thr := log_default_level; snk := SDefault |}.

Inductive lop :=
| SetLevel (l : Z)                 (* lou_setLogLevel *)
| Register (cb : option N)         (* lou_registerLogCallback; None = NULL *)
| Emit (level : Z) (t : text).     (* _lou_logMessage(level, fmt, ...) whose formatted text is t *)

Definition delivery := (sink * Z * text)%type.

Definition lstep (s : lstate) (o : lop) : lstate * option delivery :=
  match o with
  | SetLevel l => ({| thr := l; snk := snk s |}, None)
  | Register None => ({| thr := thr s; snk := SDefault |}, None)
  | Register (Some id) => ({| thr := thr s; snk := SUser id |}, None)
  | Emit lv t => (s, if log_suppressed lv (thr s) then None else Some (snk s, lv, t))
  end.

Fixpoint lrun (s : lstate) (ops : list lop) : list delivery :=
  match ops with
  | [] => []
  | o :: ops' =>
      let '(s', d) := lstep s o in
      match d with Some x => x :: lrun s' ops' | None => lrun s' ops' end
  end.

Definition level_of (d : delivery) : Z := snd (fst d).
Definition is_setlevel (o : lop) : bool := match o with SetLevel _ => true | _ => false end.
