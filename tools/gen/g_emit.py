"""G3 (choke points): the rejecting guards of the emission primitives."""
import cparse
from g_common import *
from g_log import show_stmt

NAME = "GEmit"
ENV = {"output->length": "out_len", "outLength": "out_n", "output->maxlength": "maxlen", "pos": "pos",
       "inLength": "in_n", "input->length": "in_len", "count": "count", "buflen": "buflen"}


def first_reject(body):
    for st in body:
        if st[0] == "if" and st[3] is None and show_stmt(st[2]) in ("return 0;", "{ return 0; }"):
            return st[1]
        if st[0] in ("decl", "empty"):
            continue
        # statements before the first rejecting test are allowed only if they do not write memory
        txt = show_stmt(st)
        if "[" in txt and "=" in txt and st[0] == "expr":
            return ("PRECEDED_BY_WRITE", txt)
    return None


def generate(repo):
    out = [HEADER]
    pr = cparse.ToZ(dict(ENV))
    specs = [
        ("fwd_emit_rejects", "lou_translateString.c", "for_updatePositions", "(out_len out_n maxlen pos in_n in_len : Z)"),
        ("back_emit_rejects", "lou_backTranslateString.c", "back_updatePositions", "(out_len out_n maxlen pos in_n in_len : Z)"),
        ("back_putchars_rejects", "lou_backTranslateString.c", "putchars", "(out_len count maxlen : Z)"),
    ]
    for name, f, fn, args in specs:
        _, body = func(repo, f, fn)
        g = first_reject(body)
        if g is None or g[0] == "PRECEDED_BY_WRITE":
            raise cparse.ParseError("%s: no rejecting guard before the first write (%s)" % (fn, g))
        out.append("(* %s returns 0 without writing when this holds *)\n" % fn)
        out.append("Definition %s %s : bool := %s.\n\n" % (name, args, pr.b(g)))
    # undefinedDots: posMapping[pos] is written first, then the capacity test guards the characters
    _, body = func(repo, "lou_backTranslateString.c", "undefinedDots")
    g = None
    for st in body:
        if st[0] == "if" and st[3] is None and show_stmt(st[2]) in ("return 0;", "{ return 0; }"):
            g = st[1]
    if g is None:
        raise cparse.ParseError("undefinedDots guard")
    out.append("Definition back_undefined_rejects (out_len buflen maxlen : Z) : bool := %s.\n\n" % pr.b(g))
    # the statements of for_updatePositions after the guard: memcpy to chars[out_len..], posMapping[out_len + k]
    _, body = func(repo, "lou_translateString.c", "for_updatePositions")
    txt = " ".join(show_stmt(s) for s in body)
    ok = "memcpy(&output->chars[output->length], outChars, (outLength * CHARSIZE));" in txt and \
        "for (decl int k=0;" not in txt and "posMapping[(output->length + k)] = (pos + shift);" in txt and \
        "output->length += outLength;" in txt
    out.append("Definition fwd_emit_writes_at_out_len : bool := %s.\n" % ("true" if ok else "false"))
    _, body = func(repo, "lou_backTranslateString.c", "back_updatePositions")
    txt = " ".join(show_stmt(s) for s in body)
    ok = "posMapping[(pos + k)] = output->length;" in txt and "(k < inLength)" in txt
    out.append("Definition back_emit_maps_input_positions : bool := %s.\n" % ("true" if ok else "false"))
    out.append(stage_copy_guards(repo, pr))
    return "".join(out)


def stage_copy_guards(repo, pr):
    """the plain copy of one element in the four stage loops (case CTO_Always of makeCorrections / translatePass, both
    directions): the capacity test that precedes the two writes"""
    import re
    out = ["\n(* the one-element copy of the stage loops fails (goto failure) without writing when this holds *)\n"]
    for name, f, fn in (("fwd_correct_copy_rejects", "lou_translateString.c", "makeCorrections"),
                        ("fwd_pass_copy_rejects", "lou_translateString.c", "translatePass"),
                        ("back_correct_copy_rejects", "lou_backTranslateString.c", "makeCorrections"),
                        ("back_pass_copy_rejects", "lou_backTranslateString.c", "translatePass")):
        src = source(repo, f)
        body = cparse.find_function(src, fn)
        body = body if isinstance(body, str) else body[1]
        flat = " ".join(body.split())
        m = re.search(r"case CTO_Always: if \(((?:[^()]|\([^()]*\))*)\) goto failure; "
                      r"posMapping\[(output->length|pos)\] = (pos|output->length); "
                      r"output->chars\[\(?output->length\)?\+\+\] = input->chars\[pos\+\+\]; break;", flat)
        if not m:
            raise cparse.ParseError("%s/%s: one-element copy not recognised" % (f, fn))
        fwd = f == "lou_translateString.c"
        if (m.group(2), m.group(3)) != (("output->length", "pos") if fwd else ("pos", "output->length")):
            raise cparse.ParseError("%s/%s: the copy maps %s to %s" % (f, fn, m.group(2), m.group(3)))
        out.append("Definition %s (out_len maxlen : Z) : bool := %s.\n" % (name, pr.b(cparse.parse_expr(m.group(1)))))
    return "".join(out)
