(* Proofs for C18 (metadata scoring and selection).  The proofs go through the bodies of the
   generated definitions of Gen/GMeta.v (weights, find_better, tables_keep, info_replaces). *)
From Coq Require Import List ZArith NArith Bool Lia Permutation.
From Lou Require Import Gen.GMeta Model.Meta.
Import ListNotations.
Local Open Scope Z_scope.

Section Score.
  Variables kur ucs2 ucs4 : N.

  Notation score := (score kur ucs2 ucs4).
  Notation mfl := (mfl kur ucs2 ucs4).
  Notation best_of := (best_of kur ucs2 ucs4).
  Notation find_step := (find_step kur ucs2 ucs4).
  Notation find_table := (find_table kur ucs2 ucs4).
  Notation tables_step := (tables_step kur ucs2 ucs4).
  Notation find_tables := (find_tables kur ucs2 ucs4).

  (* ---------- lou_findTable: the fold invariant ---------- *)

  Lemma find_step_eq : forall q b o n f,
    find_step q (b, o) (n, f) = if score q f >? b then (score q f, Some n) else (b, o).
  Proof. intros q b o n f. unfold Meta.find_step, find_better. cbn [fst snd]. reflexivity. Qed.

  Lemma fold_find : forall q index b o b' o',
    fold_left (find_step q) index (b, o) = (b', o') ->
    b <= b' /\
    (forall n f, In (n, f) index -> score q f <= b') /\
    ((b' = b /\ o' = o) \/
     (b' > b /\ exists n f, o' = Some n /\ In (n, f) index /\ score q f = b')).
  Proof.
    intros q index.
    induction index as [|[n0 f0] index IH]; intros b o b' o' H; cbn [fold_left] in H.
    - injection H as Hb Ho. subst b' o'.
      split; [lia|]. split; [intros n f []|]. left. split; reflexivity.
    - rewrite find_step_eq in H.
      destruct (score q f0 >? b) eqn:E.
      + apply Z.gtb_lt in E.
        apply IH in H. destruct H as (H1 & H2 & H3).
        split; [lia|]. split.
        * intros n f [Heq|HIn].
          -- injection Heq as Hn Hf. subst n f. exact H1.
          -- apply (H2 n f HIn).
        * right. destruct H3 as [[Hb Ho]|(Hgt & n & f & Ho & HIn & Hs)].
          -- split; [lia|]. exists n0, f0. split; [exact Ho|]. split; [left; reflexivity|lia].
          -- split; [lia|]. exists n, f. split; [exact Ho|]. split; [right; exact HIn|exact Hs].
      + rewrite Z.gtb_ltb in E. apply Z.ltb_ge in E.
        apply IH in H. destruct H as (H1 & H2 & H3).
        split; [lia|]. split.
        * intros n f [Heq|HIn].
          -- injection Heq as Hn Hf. subst n f. lia.
          -- apply (H2 n f HIn).
        * destruct H3 as [[Hb Ho]|(Hgt & n & f & Ho & HIn & Hs)].
          -- left. split; assumption.
          -- right. split; [lia|]. exists n, f. split; [exact Ho|]. split; [right; exact HIn|exact Hs].
  Qed.

  Lemma find_table_some : forall index q n,
    find_table index q = Some n -> exists f, In (n, f) index /\ score q f > 0.
  Proof.
    intros index q n H. unfold Meta.find_table, find_initial_best in H.
    destruct (fold_left (find_step q) index (0, None)) as [b' o'] eqn:E.
    cbn [snd] in H. subst o'.
    apply fold_find in E. destruct E as (H1 & H2 & [[Hb Ho]|(Hgt & n1 & f1 & Ho & HIn & Hs)]).
    - discriminate Ho.
    - injection Ho as Ho. subst n1. exists f1. split; [exact HIn|lia].
  Qed.

  Lemma find_table_none : forall index q,
    find_table index q = None -> forall n f, In (n, f) index -> score q f <= 0.
  Proof.
    intros index q H n f HIn. unfold Meta.find_table, find_initial_best in H.
    destruct (fold_left (find_step q) index (0, None)) as [b' o'] eqn:E.
    cbn [snd] in H. subst o'.
    apply fold_find in E. destruct E as (H1 & H2 & [[Hb Ho]|(Hgt & n1 & f1 & Ho & HIn1 & Hs)]).
    - subst b'. apply (H2 n f HIn).
    - discriminate Ho.
  Qed.

  Lemma find_table_ge : forall index q n f,
    In (n, f) index -> score q f > 0 ->
    exists n2 f2, find_table index q = Some n2 /\ In (n2, f2) index /\ score q f <= score q f2.
  Proof.
    intros index q n f HIn Hpos. unfold Meta.find_table, find_initial_best.
    destruct (fold_left (find_step q) index (0, None)) as [b' o'] eqn:E.
    cbn [snd].
    apply fold_find in E. destruct E as (H1 & H2 & [[Hb Ho]|(Hgt & n1 & f1 & Ho & HIn1 & Hs)]).
    - subst b'. specialize (H2 n f HIn). lia.
    - exists n1, f1. split; [exact Ho|]. split; [exact HIn1|]. specialize (H2 n f HIn). lia.
  Qed.

  (* ---------- lou_findTables ---------- *)

  Lemma insert_match_in : forall (m : N * Z) l x, In x (insert_match m l) <-> x = m \/ In x l.
  Proof.
    intros m l x. induction l as [|e l IH]; cbn [insert_match].
    - cbn [In]. split; intros [H|H]; auto.
    - destruct (match_stays_before (snd e) (snd m)); cbn [In].
      + rewrite IH. tauto.
      + split; intros [H|H]; auto.
  Qed.

  Lemma tables_step_eq : forall q acc n f,
    tables_step q acc (n, f) =
    if score q f >? 0 then insert_match (n, score q f) acc else acc.
  Proof. intros q acc n f. unfold Meta.tables_step, tables_keep. cbn [fst snd]. reflexivity. Qed.

  Lemma fold_tables : forall q index acc n s,
    In (n, s) (fold_left (tables_step q) index acc) <->
    In (n, s) acc \/ exists f, In (n, f) index /\ s = score q f /\ s > 0.
  Proof.
    intros q index.
    induction index as [|[n0 f0] index IH]; intros acc n s; cbn [fold_left].
    - split.
      + intros H. left. exact H.
      + intros [H|(f & [] & _)]. exact H.
    - rewrite IH. rewrite tables_step_eq.
      destruct (score q f0 >? 0) eqn:E.
      + apply Z.gtb_lt in E. rewrite insert_match_in. split.
        * intros [[Heq|H]|(f & HIn & Hs & Hp)].
          -- injection Heq as Hn Hs. subst n s. right. exists f0.
             split; [left; reflexivity|]. split; [reflexivity|lia].
          -- left. exact H.
          -- right. exists f. split; [right; exact HIn|]. split; assumption.
        * intros [H|(f & [Heq|HIn] & Hs & Hp)].
          -- left. right. exact H.
          -- injection Heq as Hn Hf. subst n0 f0. left. left. subst s. reflexivity.
          -- right. exists f. split; [exact HIn|]. split; assumption.
      + rewrite Z.gtb_ltb in E. apply Z.ltb_ge in E. split.
        * intros [H|(f & HIn & Hs & Hp)].
          -- left. exact H.
          -- right. exists f. split; [right; exact HIn|]. split; assumption.
        * intros [H|(f & [Heq|HIn] & Hs & Hp)].
          -- left. exact H.
          -- injection Heq as Hn Hf. subst n0 f0. lia.
          -- right. exists f. split; [exact HIn|]. split; assumption.
  Qed.

  Lemma find_tables_positive_l : forall index q n,
    In n (find_tables index q) <-> exists f, In (n, f) index /\ score q f > 0.
  Proof.
    intros index q n. unfold Meta.find_tables. rewrite in_map_iff. split.
    - intros ([n1 s] & Hfst & HIn). cbn [fst] in Hfst. subst n1.
      apply fold_tables in HIn. destruct HIn as [[]|(f & HIn & Hs & Hp)].
      exists f. split; [exact HIn|]. subst s. exact Hp.
    - intros (f & HIn & Hp). exists (n, score q f). split; [reflexivity|].
      apply fold_tables. right. exists f. split; [exact HIn|]. split; [reflexivity|exact Hp].
  Qed.

  Lemma find_in_tables_l : forall index q n,
    find_table index q = Some n -> In n (find_tables index q).
  Proof.
    intros index q n H. apply find_tables_positive_l. apply find_table_some. exact H.
  Qed.

  Lemma find_none_iff_l : forall index q,
    find_table index q = None <-> find_tables index q = [].
  Proof.
    intros index q. split; intros H.
    - destruct (find_tables index q) as [|n l] eqn:E; [reflexivity|].
      assert (HIn : In n (find_tables index q)) by (rewrite E; left; reflexivity).
      apply find_tables_positive_l in HIn. destruct HIn as (f & HIn & Hp).
      pose proof (find_table_none index q H n f HIn) as Hle. lia.
    - destruct (find_table index q) as [n|] eqn:E; [|reflexivity].
      apply find_in_tables_l in E. rewrite H in E. destruct E.
  Qed.

  (* ---------- exact metadata ---------- *)

  Lemma ss_tail : forall a l, strictly_sorted (a :: l) = true -> strictly_sorted l = true.
  Proof.
    intros [k v] [|[k2 v2] l] H; [reflexivity|].
    cbn [strictly_sorted] in H. apply andb_prop in H. destruct H as [_ H]. exact H.
  Qed.

  Lemma ss_keys : forall k v l,
    strictly_sorted ((k, v) :: l) = true -> drop_key k l = l /\ take_key k l = [].
  Proof.
    intros k v [|[k2 v2] l] H; [split; reflexivity|].
    cbn [strictly_sorted] in H. apply andb_prop in H. destruct H as [H _].
    apply N.ltb_lt in H.
    assert (E : N.eqb k2 k = false) by (apply N.eqb_neq; lia).
    cbn [drop_key take_key]. rewrite E. split; reflexivity.
  Qed.

  Lemma mfl_self : forall q fuel acc,
    strictly_sorted q = true -> (length q < fuel)%nat ->
    mfl fuel q q acc = acc + W_POS_MATCH * Z.of_nat (length q).
  Proof.
    induction q as [|[k v] q IH]; intros fuel acc Hs Hf;
      (destruct fuel as [|fuel]; [cbn [length] in Hf; lia|]).
    - cbn [Meta.mfl length]. unfold W_POS_MATCH. lia.
    - cbn [Meta.mfl]. rewrite N.ltb_irrefl.
      destruct (ss_keys k v q Hs) as [Hd Ht]. rewrite Hd, Ht.
      cbn [Meta.best_of]. unfold W_NEG_MATCH at 1.
      change (-100 <? 0) with true. cbv iota. rewrite N.eqb_refl.
      rewrite IH.
      + cbn [length]. rewrite Nat2Z.inj_succ. unfold W_POS_MATCH. lia.
      + apply ss_tail in Hs. exact Hs.
      + cbn [length] in Hf. lia.
  Qed.

  Lemma exact_score_l : forall q,
    strictly_sorted q = true -> q <> [] ->
    score q q = W_POS_MATCH * Z.of_nat (length q).
  Proof.
    intros q Hs _. unfold Meta.score. rewrite mfl_self; [lia|exact Hs|lia].
  Qed.

  Lemma exact_found_l : forall index q n,
    strictly_sorted q = true -> q <> [] -> In (n, q) index ->
    find_table index q <> None.
  Proof.
    intros index q n Hs Hne HIn.
    assert (Hp : score q q > 0).
    { rewrite (exact_score_l q Hs Hne). unfold W_POS_MATCH.
      destruct q as [|a q]; [congruence|]. cbn [length]. lia. }
    destruct (find_table_ge index q n q HIn Hp) as (n2 & f2 & Hf & _ & _).
    rewrite Hf. discriminate.
  Qed.

  (* ---------- dominance ---------- *)

  Lemma dominant_wins_l : forall index index' q n f,
    Permutation index index' ->
    In (n, f) index -> score q f > 0 ->
    (forall n' f', In (n', f') index -> (n', f') <> (n, f) -> score q f' < score q f) ->
    find_table index' q = Some n.
  Proof.
    intros index index' q n f HP HIn Hp Hdom.
    assert (HIn' : In (n, f) index') by (apply (Permutation_in _ HP); exact HIn).
    destruct (find_table_ge index' q n f HIn' Hp) as (n2 & f2 & Hf & HIn2 & Hle).
    rewrite Hf. f_equal.
    destruct (N.eq_dec n2 n) as [Heq|Hneq]; [exact Heq|].
    exfalso.
    assert (HIn2' : In (n2, f2) index)
      by (apply (Permutation_in _ (Permutation_sym HP)); exact HIn2).
    assert (Hlt : score q f2 < score q f).
    { apply (Hdom n2 f2 HIn2'). intros Heq. injection Heq as Hn _. contradiction. }
    lia.
  Qed.

  (* ---------- one queried feature ---------- *)

  Lemma single_feature_order_l : forall k v v' k' w,
    v <> v' -> (k =? kur)%N = false -> k <> k' ->
    let same := score [(k, v)] [(k, v)] in
    let missing := score [(k, v)] [] in
    let different := score [(k, v)] [(k, v')] in
    let same_plus_extra :=
      score [(k, v)] (if (k <? k')%N then [(k, v); (k', w)] else [(k', w); (k, v)]) in
    same > missing /\ missing > different /\ same - same_plus_extra = 1 /\ same_plus_extra > missing.
  Proof.
    intros k v v' k' w Hv Hk Hkk.
    assert (Hsame : score [(k, v)] [(k, v)] = 10).
    { unfold Meta.score. cbn [length Nat.add Meta.mfl Meta.drop_key Meta.take_key].
      rewrite N.ltb_irrefl. cbn [Meta.best_of]. unfold W_NEG_MATCH, W_POS_MATCH.
      change (-100 <? 0) with true. cbv iota. rewrite N.eqb_refl. reflexivity. }
    assert (Hmissing : score [(k, v)] [] = -20).
    { unfold Meta.score. cbn [length Nat.add Meta.mfl]. unfold W_UNDEFINED. reflexivity. }
    assert (Hdiff : score [(k, v)] [(k, v')] = -100).
    { unfold Meta.score. cbn [length Nat.add Meta.mfl Meta.drop_key Meta.take_key].
      rewrite N.ltb_irrefl. cbn [Meta.best_of]. unfold W_NEG_MATCH, W_POS_MATCH.
      change (-100 <? 0) with true. cbv iota.
      assert (E : N.eqb v v' = false) by (apply N.eqb_neq; exact Hv).
      rewrite E, Hk. cbn [andb]. reflexivity. }
    assert (Hextra :
      score [(k, v)] (if (k <? k')%N then [(k, v); (k', w)] else [(k', w); (k, v)]) = 9).
    { destruct (N.ltb_spec k k') as [Hlt|Hge].
      - assert (E : N.eqb k' k = false) by (apply N.eqb_neq; lia).
        unfold Meta.score. cbn [length Nat.add Meta.mfl Meta.drop_key Meta.take_key].
        rewrite N.ltb_irrefl, E. cbn [Meta.best_of Meta.mfl Meta.drop_key].
        unfold W_NEG_MATCH, W_POS_MATCH, W_EXTRA.
        change (-100 <? 0) with true. cbv iota. rewrite N.eqb_refl. reflexivity.
      - assert (Hlt : (k' < k)%N) by lia.
        assert (E : N.eqb k k' = false) by (apply N.eqb_neq; lia).
        assert (E1 : N.ltb k k' = false) by (apply N.ltb_ge; lia).
        assert (E2 : N.ltb k' k = true) by (apply N.ltb_lt; lia).
        unfold Meta.score. cbn [length Nat.add Meta.mfl Meta.drop_key Meta.take_key].
        rewrite E1, E2, E. rewrite N.ltb_irrefl. cbn [Meta.best_of].
        unfold W_NEG_MATCH, W_POS_MATCH, W_EXTRA.
        change (-100 <? 0) with true. cbv iota. rewrite N.eqb_refl. reflexivity. }
    cbv zeta. rewrite Hsame, Hmissing, Hdiff, Hextra. lia.
  Qed.
End Score.

(* ---------- lou_getTableInfo ---------- *)

Lemma sbk_tail : forall a l, sorted_by_key (a :: l) = true -> sorted_by_key l = true.
Proof.
  intros [[k v] ln] [|[[k2 v2] ln2] l] H; [reflexivity|].
  cbn [sorted_by_key] in H. apply andb_prop in H. destruct H as [_ H]. exact H.
Qed.

Lemma sbk_head_le : forall l k v ln k' v' ln',
  sorted_by_key ((k, v, ln) :: l) = true -> In (k', v', ln') l -> (k <= k')%N.
Proof.
  induction l as [|[[k2 v2] ln2] l IH]; intros k v ln k' v' ln' H HIn; [destruct HIn|].
  cbn [sorted_by_key] in H. apply andb_prop in H. destruct H as [H1 H2].
  apply N.leb_le in H1. destruct HIn as [Heq|HIn].
  - injection Heq as Hk _ _. subst k'. exact H1.
  - specialize (IH k2 v2 ln2 k' v' ln' H2 HIn). lia.
Qed.

(* once the minimal occurrence is the current one, nothing replaces it *)
Lemma info_after : forall key v line l,
  0 <= line ->
  (forall v' line', In (key, v', line') l -> (v', line') = (v, line) \/ line < line') ->
  info_aux key l line (Some v) = Some v.
Proof.
  intros key v line l Hline.
  induction l as [|[[k v0] l0] l IH]; intros Hmin; cbn [info_aux]; [reflexivity|].
  assert (Hmin' : forall v' line', In (key, v', line') l -> (v', line') = (v, line) \/ line < line').
  { intros v' line' HIn. apply Hmin. right. exact HIn. }
  destruct (N.eqb_spec k key) as [Hk|Hk].
  - subst k.
    assert (E : info_replaces line l0 = false).
    { unfold info_replaces. apply orb_false_iff. split.
      - apply Z.ltb_ge. exact Hline.
      - rewrite Z.gtb_ltb. apply Z.ltb_ge.
        destruct (Hmin v0 l0 (or_introl eq_refl)) as [Heq|Hlt].
        + injection Heq as _ Hl. lia.
        + lia. }
    rewrite E. apply IH. exact Hmin'.
  - destruct (N.ltb key k); [reflexivity|]. apply IH. exact Hmin'.
Qed.

Lemma info_before : forall key v line l cur val,
  sorted_by_key l = true ->
  0 <= line ->
  cur < 0 \/ line < cur ->
  In (key, v, line) l ->
  (forall v' line', In (key, v', line') l -> (v', line') = (v, line) \/ line < line') ->
  info_aux key l cur val = Some v.
Proof.
  intros key v line l.
  induction l as [|[[k v0] l0] l IH]; intros cur val Hs Hline Hcur HIn Hmin; [destruct HIn|].
  assert (Hs' : sorted_by_key l = true) by (apply sbk_tail in Hs; exact Hs).
  assert (Hmin' : forall v' line', In (key, v', line') l -> (v', line') = (v, line) \/ line < line').
  { intros v' line' HIn'. apply Hmin. right. exact HIn'. }
  cbn [info_aux].
  destruct (N.eqb_spec k key) as [Hk|Hk].
  - subst k.
    destruct (Hmin v0 l0 (or_introl eq_refl)) as [Heq|Hlt].
    + injection Heq as Hv Hl. subst v0 l0.
      assert (E : info_replaces cur line = true).
      { unfold info_replaces. apply orb_true_iff. destruct Hcur as [Hc|Hc].
        - left. apply Z.ltb_lt. exact Hc.
        - right. apply Z.gtb_lt. exact Hc. }
      rewrite E. apply info_after; [exact Hline|exact Hmin'].
    + assert (HIn' : In (key, v, line) l).
      { destruct HIn as [Heq|HIn]; [|exact HIn]. injection Heq as _ Hl. lia. }
      destruct (info_replaces cur l0).
      * apply IH; [exact Hs'|exact Hline|right; exact Hlt|exact HIn'|exact Hmin'].
      * apply IH; [exact Hs'|exact Hline|exact Hcur|exact HIn'|exact Hmin'].
  - assert (HIn' : In (key, v, line) l).
    { destruct HIn as [Heq|HIn]; [|exact HIn]. injection Heq as Hk' _ _. contradiction. }
    destruct (N.ltb_spec key k) as [Hlt|Hge].
    + pose proof (sbk_head_le l k v0 l0 key v line Hs HIn') as Hle. lia.
    + apply IH; [exact Hs'|exact Hline|exact Hcur|exact HIn'|exact Hmin'].
Qed.

Lemma info_first_l : forall l key v line,
  sorted_by_key l = true ->
  In (key, v, line) l -> 0 <= line ->
  (forall v' line', In (key, v', line') l -> (v', line') <> (v, line) -> line < line') ->
  (forall k v' line', In (k, v', line') l -> 0 <= line') ->
  get_info l key = Some v.
Proof.
  intros l key v line Hs HIn Hline Hmin _.
  unfold get_info. apply (info_before key v line l (-1) None Hs Hline); [left; lia|exact HIn|].
  intros v' line' HIn'.
  destruct (N.eq_dec v' v) as [Hv|Hv].
  - destruct (Z.eq_dec line' line) as [Hl|Hl].
    + left. subst. reflexivity.
    + right. apply (Hmin v' line' HIn'). intros Heq. injection Heq as _ Hl'. contradiction.
  - right. apply (Hmin v' line' HIn'). intros Heq. injection Heq as Hv' _. contradiction.
Qed.
