"""C10 — optional output arguments do not perturb the translation.
PROVE: Properties/C10.v — on the F engine any observer threaded through the emissions (the cursor bookkeeping is one)
 leaves cells, positions, consumed length and trace unchanged; the emission guard (regenerated) does not mention the cursor.
CORRESPOND: every case under all 2^5 presence patterns of (typeform, spacing, outputPos, inputPos, cursorPos), both
 directions, plus the wrapper functions: return value, lengths and output text must be identical."""
import os
import shutil

import common
import safety
import tablegen
import trans
from common import Rng, REPO

PID = "C10"


def run(chk):
    rng = Rng(chk.seed).fork(PID)
    gen = common.gen_stage()
    prove = common.prove_stage(PID)
    common.model_driver()
    exe = common.build_harness("h_trans")
    env = {"LOUIS_TABLEPATH": str(REPO / "tables")}
    quick = chk.tier == "quick"
    lists = list(safety.shipped_tables(rng.fork("tables"), 24 if quick else 10 ** 6))
    work = common.BUILD / ("work-c10-%d" % os.getpid())
    shutil.rmtree(work, ignore_errors=True)
    work.mkdir(parents=True)
    for i in range(16 if quick else 300):
        r = rng.fork(("gt", i))
        entries, alphabet = tablegen.gen_c05_table(r)
        tf = work / ("g%d.utb" % i)
        tf.write_text(tablegen.table_text(entries))
        lists.append("unicode.dis," + str(tf))
    for i in range(10 if quick else 200):
        r = rng.fork(("emph", i))
        text, _al = tablegen.gen_emphasis_table(r)
        tf = work / ("e%d.utb" % i)
        tf.write_text(text)
        lists.append("unicode.dis," + str(tf))
    # tables with several stages: what a later stage does with the maps of the earlier ones must not depend on which optional
    # arguments were passed - shipped ones and generated ones (0-3 literal rules per stage, both directions)
    ms = safety.multistage_tables("fwd")
    rng.fork("ms").shuffle(ms)
    multi = set(ms[:6 if quick else 10 ** 6])
    lists += [t for t in multi if t not in lists]
    for i in range(10 if quick else 200):
        r = rng.fork(("mp", i))
        entries, rules, letters = tablegen.gen_c06_table(r, directions=("noback", "nofor"))
        tf = work / ("m%d.utb" % i)
        tf.write_text(tablegen.pass_table_text(entries, rules))
        lists.append(str(tf))
        multi.add(str(tf))
    for tl in lists:
        r = rng.fork(("cases", tl))
        fwd = []
        for i in range(8 if quick else 40):
            if "/m" in tl and tl.endswith(".utb") and "/work-" in tl:
                inp = [r.choice([97, 98, 99, 100, 32]) for _ in range(r.range(2, 9))]
            else:
                # (every fourth input has runs of one repeated character: tables have `repeated' rules for ----, ...., ====)
                inp = [c for c in (safety.gen_runs(r, 24) if i % 4 == 2 else safety.gen_sentence(r, 28) if i % 2 else safety.gen_input(r, 28)) if c] or [97, 98]
            mode = r.choice([0, 0, 1, 4, 128, 256, 4 | 64])       # no compbrlAtCursor / compbrlLeftCursor
            outlen = r.choice([4 * len(inp) + 10, 4 * len(inp) + 10, r.range(1, len(inp) + 2), len(inp)])
            if tl in multi and i % 2:
                # a capacity that some stage behind the first one runs into
                outlen = r.range(1, 2 * len(inp))
            fwd.append((inp, mode, outlen, r.range(0, len(inp) - 1)))
        lines = []
        for inp, mode, outlen, cur in fwd:
            for pres in range(32):
                lines.append(trans.case_line("T", mode, inp, outlen, cursor=cur if pres & 16 else -2, presence=pres,
                                             typeform=[0] * len(inp) if pres & 1 else None))
            lines.append(trans.case_line("S", mode, inp, outlen))
            lines.append(trans.case_line("P", mode, inp, outlen))
            lines.append(trans.case_line("Q", mode, inp, outlen))              # hyphen arrays, no inputPos
            lines.append(trans.case_line("Q", mode, inp, outlen, presence=8))  # hyphen arrays and inputPos
        rs = trans.run_cases(exe, tl, lines, exact=1, env=env, timeout=600)
        # cursor sweep: the cursor at EVERY position of the input (with and without the position arrays) against no cursor
        sweep, smeta = [], []
        for inp, mode, outlen, cur in fwd:
            grp = [trans.case_line("T", mode, inp, outlen, presence=0)]
            for c in range(len(inp)):
                for pres in (16, 28):
                    grp.append(trans.case_line("T", mode, inp, outlen, cursor=c, presence=pres))
            smeta.append((inp, mode, outlen, len(sweep), len(grp)))
            sweep += grp
        ss = trans.run_cases(exe, tl, sweep, exact=1, env=env, timeout=900)
        for inp, mode, outlen, a, n in smeta:
            judge(chk, tl, "forward-cursor-sweep", inp, mode, outlen, ss[a:a + n], sweep[a:a + n])
        blines, bmeta = [], []
        for j, (inp, mode, outlen, cur) in enumerate(fwd):
            grp = rs[36 * j:36 * j + 34]
            glines = lines[36 * j:36 * j + 34]
            judge(chk, tl, "forward", inp, mode, outlen, grp, glines)
            judge_prehyphenated(chk, tl, inp, mode, outlen, grp[8], rs[36 * j + 34:36 * j + 36], lines[36 * j + 34:36 * j + 36])
            g0 = grp[0]
            if not g0.crash and g0.ret == 1 and g0.outlen > 0:
                br = g0.out[:g0.outlen]
                ol = r.choice([4 * len(br) + 10, r.range(1, len(br) + 1)])
                bmode = (mode & 4) | r.choice([0, 128, 256])
                bmeta.append((br, bmode, ol, r.range(0, len(br) - 1)))
        for br, bmode, ol, cur in bmeta:
            for pres in range(32):
                blines.append(trans.case_line("B", bmode, br, ol, cursor=cur if pres & 16 else -2, presence=pres))
            blines.append(trans.case_line("U", bmode, br, ol))
        bs = trans.run_cases(exe, tl, blines, exact=1, env=env, timeout=600) if blines else []
        for j, (br, bmode, ol, cur) in enumerate(bmeta):
            judge(chk, tl, "backward", br, bmode, ol, bs[33 * j:33 * j + 33], blines[33 * j:33 * j + 33])
    shutil.rmtree(work, ignore_errors=True)
    chk.cov["rule"] = ("per table (shipped sample + generated F tables): inputs x modes without cursor-dependent bits x capacities, each under "
                       "all 32 presence patterns of the five optional arguments (typeform all zero when present) plus lou_translateString / "
                       "lou_translatePrehyphenated (forward) and lou_backTranslateString (backward, on the forward output); forward also with the "
                       "cursor at every position of the input; distinct = "
                       "(table, direction, input, mode, capacity); non-trivial = returned 1 with output")
    chk.cov["gen_status"] = gen
    chk.cov["checker_cmd"] = "make -C coq Properties/C10.vo (coqc 8.16.1)"
    chk.cov["trusted_base"] = common.TRUSTED_COMMON
    if not prove["ok"] and not chk.violations:
        chk.violation("proof", "Properties/%s.v no longer checks: %s" % (PID, prove["failed"][:5]),
                      dict(no_failing_input=True, broken=prove["failed"], log=prove["log"][-1500:], gen=gen))
    return chk.finish(prove)


def judge_prehyphenated(chk, tl, inp, mode, outlen, ref, qs, qlines):
    """lou_translatePrehyphenated with hyphen arrays against lou_translate with inputPos (presence pattern 8): same text
    and lengths; it returns 0 exactly when the position array is not ascending; output mark k is the input mark at
    inputPos[k] where that is larger than inputPos[k-1] (0 before the first cell), and '0' elsewhere"""
    if safety.classify(ref) or ref.ret != 1:
        return
    ipos = ref.inputPos[:ref.outlen]
    asc = all(b >= a for a, b in zip([0] + ipos, ipos))
    marks = [49 if (k * 5 + mode) % 3 == 0 else 48 for k in range(len(inp))]
    want, prev = [], 0
    for p in ipos:
        if p < prev:
            break
        want.append(marks[p] if p > prev and p < len(marks) else 48)
        prev = p
    for q, ql in zip(qs, qlines):
        bad = safety.classify(q)
        if bad:
            chk.violation(bad[0], "%s on %s (prehyphenated)" % (bad[1], tl), dict(table_list=tl, case_lines=[ql]))
            return
        got = [b for _, b in q.rules][:len(want)]
        ok = (q.ret == (1 if asc else 0)) and (q.inlen, q.outlen, q.out[:max(q.outlen, 0)]) == (ref.inlen, ref.outlen, ref.out[:max(ref.outlen, 0)]) \
            and (not asc or got == want)
        chk.tally("prehyphenated")
        if not ok:
            chk.violation("prehyphenated", "lou_translatePrehyphenated with hyphen arrays differs from lou_translate + inputPos on %s: ret %d "
                          "(ascending positions: %s), lengths %s vs %s, marks %s, expected %s" % (tl, q.ret, asc, (q.inlen, q.outlen), (ref.inlen, ref.outlen), got, want),
                          dict(table_list=tl, input=inp, mode=mode, outlen=outlen, case_lines=[ql], impl=[ref.raw, q.raw]))
            return
    chk.cov["traces_validated_against_impl"] += len(qs)


def judge(chk, tl, direction, inp, mode, outlen, grp, glines):
    key = (tl, direction, tuple(inp), mode, outlen)
    bad = [safety.classify(x) for x in grp if safety.classify(x)]
    if bad:
        chk.count(key)
        chk.violation(bad[0][0], "%s on %s (%s)" % (bad[0][1], tl, direction),
                      dict(table_list=tl, case_lines=[l for l, x in zip(glines, grp) if safety.classify(x)][:3]))
        return
    sig = lambda x: (x.ret, x.inlen, x.outlen, tuple(x.out[:max(x.outlen, 0)]) if x.ret == 1 else ())
    ref = sig(grp[0])
    chk.count(key, nontrivial=grp[0].ret == 1 and grp[0].outlen > 0, n=len(grp))
    chk.tally(direction)
    for k, x in enumerate(grp):
        if sig(x) != ref:
            what = ("presence pattern %d" % k) if k < 32 and "sweep" not in direction else "wrapper function" if "sweep" not in direction else "a cursor position"
            chk.violation("presence-dependence:" + direction.split("-")[0], "%s changes the result: %s vs %s (pattern 0)" % (what, sig(x), ref),
                          dict(table_list=tl, direction=direction, input=inp, mode=mode, outlen=outlen,
                               case_lines=[glines[0], glines[k]], impl=[grp[0].raw, x.raw]))
            return
    chk.cov["traces_validated_against_impl"] += len(grp)
    if grp[0].ret == 1 and grp[0].outlen > 2:
        chk.sample(dict(table=tl, direction=direction, input=inp, mode=mode, outlen=outlen, result=list(ref[:3])), cap=3)
