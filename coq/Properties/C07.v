(* C07 — position maps and cursor are valid, ordered and mutually consistent.  Statements only.

   Layer A is about the finishing code alone (Model/Finish.v, validated on every real call by
   pushing the hooked raw map through it), so it holds for EVERY table: pm is an arbitrary
   integer list - no bound on its entries, no monotonicity - whose first entry is >= 0.
   Forward translation: n = outlen, bound = inlen, direct = inputPos, inverse = outputPos;
   back-translation: n = inlen, bound = outlen, direct = outputPos, inverse = inputPos.        *)
From Coq Require Import List ZArith Bool.
From Lou Require Import Gen.GConst Model.Finish Model.Table Model.Ref Model.Compile Model.Engine.
From Lou Require Import Proofs.FinishProofs Gen.GPosMap Proofs.PosMapTie.
Import ListNotations.
Local Open Scope Z_scope.

(* Layer 0: Model/Finish.v is written with exactly the comparisons and values of the CURRENT source: the operators
   REGENERATED from the finishing loops of _lou_translate and _lou_backTranslate (Gen/GPosMap.v) equal the ones the
   model's scan, fill, tail and clamp are made of (PosMapTie.scan_unfold / fill_unfold / inverse_unfold). *)
Theorem source_operators_are_the_model : forall p a b bound,
  fwd_scan_enter p a = model_enter p a /\
  fwd_scan_fill_while a p = (a <? p) /\
  fwd_scan_store_guard a bound = model_store_guard a bound /\
  fwd_scan_store_value b = model_store_value b /\
  (if fwd_scan_tail_reset a then 0 else a) = model_tail_start a /\
  fwd_scan_tail_while a bound = (a <? bound) /\
  fwd_clamp p bound = clamp bound p /\
  back_scan_enter p a = model_enter p a /\
  back_scan_fill_while a p = (a <? p) /\
  back_scan_store_guard a bound = model_store_guard a bound /\
  back_scan_store_value b = model_store_value b /\
  (if back_scan_tail_reset a then 0 else a) = model_tail_start a /\
  back_scan_tail_while a bound = (a <? bound) /\
  back_clamp p bound = clamp bound p.
Proof. exact PosMapTie.source_operators_are_the_model_l. Qed.
Print Assumptions source_operators_are_the_model.

Definition H (pm : list Z) (n : nat) (bound : Z) (arr0 : list Z) : Prop :=
  (1 <= n)%nat /\ (n <= length pm)%nat /\ 1 <= bound /\ 0 <= nth 0 pm 0 /\ bound <= Z.of_nat (length arr0).

Theorem direct_valid : forall pm n bound k, 1 <= bound -> (k < length (direct_map pm n bound))%nat ->
  0 <= nth k (direct_map pm n bound) 0 <= bound - 1.
Proof. exact FinishProofs.direct_valid_l. Qed.

Theorem inverse_valid : forall pm n bound arr0 i, H pm n bound arr0 -> 0 <= i < bound ->
  0 <= nthz (inverse_map pm n bound arr0) i (-1) <= Z.of_nat n - 1.
Proof. exact FinishProofs.inverse_valid_l. Qed.
Print Assumptions inverse_valid.

Theorem inverse_monotone : forall pm n bound arr0 i j, H pm n bound arr0 -> 0 <= i -> i <= j -> j < bound ->
  nthz (inverse_map pm n bound arr0) i (-1) <= nthz (inverse_map pm n bound arr0) j (-1).
Proof. exact FinishProofs.inverse_monotone_l. Qed.
Print Assumptions inverse_monotone.

(* following one map and then the other never moves forward *)
Theorem maps_consistent : forall pm n bound arr0 k, H pm n bound arr0 -> (k < n)%nat ->
  nthz (inverse_map pm n bound arr0) (nth k (direct_map pm n bound) 0) (-1) <= Z.of_nat k.
Proof. exact FinishProofs.maps_consistent_l. Qed.
Print Assumptions maps_consistent.

(* nothing outside the consumed range is written, the array keeps its length *)
Theorem inverse_frame : forall pm n bound arr0 i,
  length (inverse_map pm n bound arr0) = length arr0 /\
  (bound <= i -> nthz (inverse_map pm n bound arr0) i (-1) = nthz arr0 i (-1)).
Proof. exact FinishProofs.inverse_frame_l. Qed.

(* one cell per character: both maps are the identity *)
Theorem identity_maps : forall n arr0, (1 <= n)%nat -> Z.of_nat n <= Z.of_nat (length arr0) ->
  let pm := map Z.of_nat (seq 0 n) ++ [Z.of_nat n] in
  direct_map pm n (Z.of_nat n) = map Z.of_nat (seq 0 n) /\
  firstn n (inverse_map pm n (Z.of_nat n) arr0) = map Z.of_nat (seq 0 n).
Proof. exact FinishProofs.identity_maps_l. Qed.
Print Assumptions identity_maps.

(* the hypothesis on the first entry cannot be dropped: with pm = (-1, 0) and one input element
   the two maps disagree (outputPos[inputPos[0]] = 1 > 0) *)
Theorem consistency_refuted_without_H :
  exists pm n bound arr0 k, (k < n)%nat /\
    nthz (inverse_map pm n bound arr0) (nth k (direct_map pm n bound) 0) (-1) > Z.of_nat k.
Proof. exact FinishProofs.refuted_neg_l. Qed.

(* Layer B (fragment F): the engine's own map satisfies the hypothesis: every entry is a
   position >= 0 below the consumed length or equal... and the map is non-decreasing *)
Theorem engine_map_ok : forall t mode inp cap consumed cells pm trace,
  0 <= cap -> translate_ref t mode inp cap = TOk consumed cells pm trace ->
  Forall (fun x => 0 <= x < len inp) pm /\
  (forall i j, (i <= j)%nat -> (j < length pm)%nat -> nth i pm 0 <= nth j pm 0).
Proof. exact FinishProofs.engine_map_ok_l. Qed.
Print Assumptions engine_map_ok.
