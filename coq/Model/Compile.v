(* M2 (forward part for F) — the compiled lookup structure: hash buckets of multi-character
   rules and per-character chains, built by inserting entries one by one with the insertion
   conditions regenerated from compileTranslationTable.c (Gen/GChain.v).                     *)
From Coq Require Import List ZArith Bool.
From Lou Require Import Gen.GConst Gen.GChain Model.Table.
Import ListNotations.
Local Open Scope Z_scope.

Definition crule := (Z * entry)%type.       (* rule index, entry *)
Definition chain := list crule.

Record ctable := mkCT {
  ct_buckets : list (Z * chain);     (* forRules[hash] *)
  ct_chars : list (Z * chain)        (* character -> otherRules *)
}.

Definition ct_empty : ctable := mkCT [] [].

Fixpoint assoc (k : Z) (l : list (Z * chain)) : chain :=
  match l with
  | [] => []
  | (k', v) :: l' => if k =? k' then v else assoc k l'
  end.

Fixpoint assoc_set (k : Z) (v : chain) (l : list (Z * chain)) : list (Z * chain) :=
  match l with
  | [] => [(k, v)]
  | (k', v') :: l' => if k =? k' then (k, v) :: l' else (k', v') :: assoc_set k v l'
  end.

(* walk the chain until the insertion condition holds, link the new rule in there *)
Fixpoint insert_where (before : crule -> bool) (new : crule) (c : chain) : chain :=
  match c with
  | [] => [new]
  | r :: c' => if before r then new :: c else r :: insert_where before new c'
  end.

Definition multi_before (new r : crule) : bool :=
  fwd_multi_before (len (e_chars (snd new))) (e_op (snd new)) (len (e_chars (snd r))) (e_op (snd r)).

Definition single_before (new r : crule) : bool :=
  fwd_single_before (e_op (snd new)) (len (e_chars (snd r))) (e_op (snd r)).

Definition add_rule (ct : ctable) (r : crule) : ctable :=
  let e := snd r in
  if negb (is_fwd_rule e) then ct
  else
    match e_chars e with
    | [c] =>
        mkCT (ct_buckets ct)
             (assoc_set c (insert_where (single_before r) r (assoc c (ct_chars ct))) (ct_chars ct))
    | c0 :: c1 :: _ =>
        let h := string_hash_raw c0 c1 in
        mkCT (assoc_set h (insert_where (multi_before r) r (assoc h (ct_buckets ct))) (ct_buckets ct))
             (ct_chars ct)
    | [] => ct
    end.

Definition compile (t : table) : ctable := fold_left add_rule (numbered t) ct_empty.
