(* M5 — the table reader: byte decoding (getAChar), line splitting (_lou_getALine), tokens
   (getToken), dot patterns (parseDots) and character operands (parseChars, for ASCII with escape
   sequences and well-formed UTF-8 of up to three bytes).  Executable, no proofs.            *)
From Coq Require Import List ZArith Bool.
From Lou Require Import Gen.GConst.
Import ListNotations.
Local Open Scope Z_scope.

(* ---- getAChar: the encoding is decided from the first two bytes *)
Fixpoint pairs_be (bs : list Z) : list Z :=
  match bs with
  | h :: l :: r => (h * 256 + l) :: pairs_be r
  | _ => []
  end.
Fixpoint pairs_le (bs : list Z) : list Z :=
  match bs with
  | l :: h :: r => (h * 256 + l) :: pairs_le r
  | _ => []
  end.

Inductive decoded := DChars (cs : list Z) | DBadEncoding.

Definition decode (bytes : list Z) : decoded :=
  match bytes with
  | b0 :: b1 :: rest =>
      if (b0 =? 254) && (b1 =? 255) then DChars (pairs_be rest)
      else if (b0 =? 255) && (b1 =? 254) then DChars (pairs_le rest)
      else if (b0 <? 128) && (b1 <? 128) then DChars (b0 :: b1 :: rest)
      else DBadEncoding
  | _ => DChars []          (* fewer than two bytes: nothing is delivered *)
  end.

(* ---- _lou_getALine: CR dropped, LF ends the line, a line is cut when it holds MAXSTRING - 1
   characters (the character that hits the limit is consumed and lost) *)
Fixpoint lines_aux (cs : list Z) (cur : list Z) (n : Z) : list (list Z) :=
  match cs with
  | [] => match cur with [] => [] | _ => [rev cur] end
  | c :: cs' =>
      if c =? 13 then lines_aux cs' cur n
      else if (c =? 10) || (n >=? MAXSTRING - 1) then rev cur :: lines_aux cs' [] 0
      else lines_aux cs' (c :: cur) (n + 1)
  end.
Definition lines_of (cs : list Z) : list (list Z) := lines_aux cs [] 0.

(* ---- getToken: maximal runs of characters > 32 *)
Fixpoint tokens_aux (l : list Z) (cur : list Z) : list (list Z) :=
  match l with
  | [] => match cur with [] => [] | _ => [rev cur] end
  | c :: l' =>
      if c <=? 32 then match cur with [] => tokens_aux l' [] | _ => rev cur :: tokens_aux l' [] end
      else tokens_aux l' (c :: cur)
  end.
Definition tokens (l : list Z) : list (list Z) := tokens_aux l [].

(* a line that compiles to nothing: blank, or its first token starts with '#' or '<' *)
Definition is_noop_line (l : list Z) : bool :=
  match tokens l with
  | [] => true
  | (c :: _) :: _ => (c =? 35) || (c =? 60)
  | [] :: _ => true
  end.

(* ---- parseDots *)
Definition dot_of (c : Z) : option Z :=
  if (49 <=? c) && (c <=? 57) then Some (Z.shiftl 1 (c - 49))            (* '1'..'9' *)
  else if (97 <=? c) && (c <=? 102) then Some (Z.shiftl 1 (c - 97 + 9))  (* 'a'..'f' *)
  else if (65 <=? c) && (c <=? 70) then Some (Z.shiftl 1 (c - 65 + 9))   (* 'A'..'F' *)
  else None.

Fixpoint parse_dots_aux (tok : list Z) (cell : Z) (started : bool) (acc : list Z) : option (list Z) :=
  match tok with
  | [] => if started then Some (rev (Z.lor cell LOU_DOTS :: acc)) else None
  | c :: tok' =>
      match dot_of c with
      | Some d =>
          if started && (cell =? 0) then None
          else if negb (Z.land cell d =? 0) then None
          else parse_dots_aux tok' (Z.lor cell d) true acc
      | None =>
          if c =? 48 then (if started then None else parse_dots_aux tok' cell true acc)
          else if c =? 45 then (if started then parse_dots_aux tok' 0 false (Z.lor cell LOU_DOTS :: acc) else None)
          else None
      end
  end.
Definition parse_dots (tok : list Z) : option (list Z) := parse_dots_aux tok 0 false [].

(* ---- parseChars: ASCII with escapes, well-formed 2- and 3-byte UTF-8; anything else is outside
   this model (None) *)
Definition hexval (c : Z) : option Z :=
  if (48 <=? c) && (c <=? 57) then Some (c - 48)
  else if (97 <=? c) && (c <=? 102) then Some (c - 87)
  else if (65 <=? c) && (c <=? 70) then Some (c - 55)
  else None.

Definition hex4 (a b c d : Z) : option Z :=
  match hexval a, hexval b, hexval c, hexval d with
  | Some x, Some y, Some z, Some w => Some (((x * 16 + y) * 16 + z) * 16 + w)
  | _, _, _, _ => None
  end.

Fixpoint parse_chars_aux (fuel : nat) (tok : list Z) (acc : list Z) : option (list Z) :=
  match fuel with
  | O => None
  | S f =>
      match tok with
      | [] => Some (rev acc)
      | c :: r =>
          if c =? 92 then                      (* backslash *)
            match r with
            | 92 :: r' => parse_chars_aux f r' (92 :: acc)
            | 101 :: r' => parse_chars_aux f r' (27 :: acc)
            | 102 :: r' => parse_chars_aux f r' (12 :: acc)
            | 110 :: r' => parse_chars_aux f r' (10 :: acc)
            | 114 :: r' => parse_chars_aux f r' (13 :: acc)
            | 115 :: r' => parse_chars_aux f r' (32 :: acc)
            | 116 :: r' => parse_chars_aux f r' (9 :: acc)
            | 118 :: r' => parse_chars_aux f r' (11 :: acc)
            | 119 :: r' => parse_chars_aux f r' (LOU_ENDSEGMENT :: acc)
            | 120 :: a :: b :: c' :: d :: r' =>
                match hex4 a b c' d with Some v => parse_chars_aux f r' (v :: acc) | None => None end
            | _ => None
            end
          else if c <? 128 then parse_chars_aux f r (c :: acc)
          else if (192 <=? c) && (c <? 224) then
            match r with
            | c1 :: r' => if (128 <=? c1) && (c1 <? 192) then parse_chars_aux f r' (((c - 192) * 64 + (c1 - 128)) :: acc) else None
            | _ => None
            end
          else if (224 <=? c) && (c <? 240) then
            match r with
            | c1 :: c2 :: r' =>
                if (128 <=? c1) && (c1 <? 192) && (128 <=? c2) && (c2 <? 192)
                then parse_chars_aux f r' ((((c - 224) * 64 + (c1 - 128)) * 64 + (c2 - 128)) :: acc) else None
            | _ => None
            end
          else None
      end
  end.
Definition parse_chars (tok : list Z) : option (list Z) := parse_chars_aux (S (length tok)) tok [].

(* helpers used by the statements *)
Definition crlf (cs : list Z) : list Z := flat_map (fun c => if c =? 10 then [13; 10] else [c]) cs.
Definition utf16le (cs : list Z) : list Z := 255 :: 254 :: flat_map (fun c => [c mod 256; c / 256]) cs.
Definition utf16be (cs : list Z) : list Z := 254 :: 255 :: flat_map (fun c => [c / 256; c mod 256]) cs.
