(* M3 (multipass stages, literal rules) — the per-stage scanners translatePass / makeCorrections,
   the test and action interpreters passDoTest / passDoAction restricted to literal tests
   (look-back, strings/dots, replace brackets) and literal / omit / copy actions, and the
   forward pass driver of _lou_translate with its position-map composition.
   Executable, no proofs.                                                                     *)
From Coq Require Import List ZArith Bool.
From Lou Require Import Gen.GConst Gen.GChain Gen.GProgress Model.Table Model.Ref Model.Compile Model.Engine.
Import ListNotations.
Local Open Scope Z_scope.

Inductive titem :=
| TLit (cs : list Z)      (* "string" or @dots: compared element-wise *)
| TLook (k : Z)           (* _k : look back k elements *)
| TOpen                   (* [ *)
| TClose.                 (* ] *)

Inductive taction :=
| ALit (cs : list Z)
| AOmit                   (* ? *)
| ACopy.                  (* * *)

Record prule := mkPR { p_idx : Z; p_test : list titem; p_act : taction }.

(* passFindCharacters: length of the first literal that extends beyond the look-back; the pass
   chains are ordered by it (addForwardPassRule) *)
Fixpoint litlen_aux (items : list titem) (lookback : Z) : Z :=
  match items with
  | [] => 0
  | TLit cs :: r => if len cs >? lookback then len cs - lookback else litlen_aux r (lookback - len cs)
  | TLook k :: r => litlen_aux r (lookback + k)
  | _ :: r => litlen_aux r lookback
  end.
Definition litlen (r : prule) : Z := litlen_aux (p_test r) 0.

(* the chain as addForwardPassRule builds it: walk until the generated condition holds *)
Fixpoint pass_insert (new : prule) (c : list prule) : list prule :=
  match c with
  | [] => [new]
  | r :: c' => if fwd_pass_before (litlen new) (litlen r) then new :: c else r :: pass_insert new c'
  end.
Definition pass_chain (rules : list prule) : list prule := fold_left (fun c r => pass_insert r c) rules [].

(* ---------------------------------------------------------------- the test (forward) *)

Record pmatch := mkPM { m_start : Z; m_sr : Z; m_er : Z; m_end : Z }.

(* matchCurrentInput (forward): stops comparing at the end of the input *)
Fixpoint match_current (inp : list Z) (pos : Z) (cs : list Z) : bool :=
  match cs with
  | [] => true
  | c :: cs' =>
      if pos <? len inp then
        if (nth_z inp pos =? LOU_ENDSEGMENT) || negb (nth_z inp pos =? c) then false
        else match_current inp (pos + 1) cs'
      else true
  end.

Fixpoint do_test (inp : list Z) (items : list titem) (pos sr er : Z) : option (Z * Z * Z) :=
  if (pos >? len inp) || (pos <? 0) then None
  else
    match items with
    | [] => Some (pos, sr, er)
    | TLook k :: r => if pos - k <? 0 then None else do_test inp r (pos - k) sr er
    | TLit cs :: r => if match_current inp pos cs then do_test inp r (pos + len cs) sr er else None
    | TOpen :: r => do_test inp r pos pos er
    | TClose :: r => do_test inp r pos sr pos
    end.

(* pass_endTest *)
Definition pass_test (inp : list Z) (r : prule) (pos : Z) : option pmatch :=
  match do_test inp (p_test r) pos (-1) (-1) with
  | None => None
  | Some (em, sr, er) =>
      let sr' := if sr =? -1 then pos else sr in
      let er' := if sr =? -1 then em else er in
      if (sr' <? pos) || (er' =? -1) || (er' <? sr') then None else Some (mkPM pos sr' er' em)
  end.

(* ---------------------------------------------------------------- the action (forward) *)

Record pstate := mkPS {
  ps_pos : Z;
  ps_out : list Z;        (* oldest first *)
  ps_pm : list Z;         (* posMapping per output element, oldest first *)
  ps_inc : bool;          (* posIncremented *)
  ps_trace : list Z
}.

Definition slice (l : list Z) (a b : Z) : list Z :=
  firstn (Z.to_nat (b - a)) (skipn (Z.to_nat a) l).
Definition zrange (a b : Z) : list Z := map (fun k => a + Z.of_nat k) (seq 0 (Z.to_nat (b - a))).

(* copyCharacters (not CTO_Context): all or nothing *)
Definition copy_chars (inp : list Z) (cap : Z) (out pm : list Z) (a b : Z) : option (list Z * list Z) :=
  if b >? a then
    if len out + b - a >? cap then None
    else Some (out ++ slice inp a b, pm ++ zrange a b)
  else Some (out, pm).

(* passDoAction: returns the output so far and the new position, or None for the position when a
   capacity test fails part-way (what was already copied stays in the output) *)
Definition do_action (inp : list Z) (cap : Z) (r : prule) (m : pmatch) (out pm : list Z)
  : list Z * list Z * option Z :=
  let dsm := len out in
  match copy_chars inp cap out pm (m_start m) (m_sr m) with
  | None => (out, pm, None)
  | Some (out1, pm1) =>
      let dsr := len out1 in
      match p_act r with
      | ALit cs =>
          if len out1 + len cs >? cap then (out1, pm1, None)
          else (out1 ++ cs, pm1 ++ repeat (m_sr m) (length cs), Some (m_er m))
      | AOmit => (out1, pm1, Some (m_er m))
      | ACopy =>
          let count := dsr - dsm in
          if (count >? 0) && (dsr + count >? cap) then (out1, pm1, None)
          else
            let out2 := if count >? 0 then firstn (Z.to_nat dsm) out1 else out1 in
            let pm2 := if count >? 0 then firstn (Z.to_nat dsm) pm1 else pm1 in
            match copy_chars inp cap out2 pm2 (m_sr m) (m_er m) with
            | None => (out2, pm2, None)
            | Some (out3, pm3) => (out3, pm3, Some (Z.max (m_er m) (m_end m)))
            end
      end
  end.

(* ---------------------------------------------------------------- the stage scanners *)

Inductive stage_kind := KCorrect | KPass.

Inductive sresult := SOk (consumed : Z) (out : list Z) (pm : list Z) (trace : list Z) | SOutOfFuel.

Section Stage.
  Variable kind : stage_kind.
  Variable chain : list prule.
  Variable is_space : Z -> bool.      (* checkDotsAttr(c, CTC_Space) for pass stages *)
  Variable inp : list Z.
  Variable cap : Z.

  Definition sn := len inp.
  Definition stage_inc := match kind with KCorrect => fwd_correct_inc | KPass => fwd_pass_inc end.

  Fixpoint find_rule (c : list prule) (pos : Z) : option (prule * pmatch) :=
    match c with
    | [] => None
    | r :: c' => match pass_test inp r pos with Some m => Some (r, m) | None => find_rule c' pos end
    end.

  Fixpoint sskip (fuel : nat) (p : Z) : Z :=
    match fuel with
    | O => p
    | S f => if (p <? sn) && is_space (nth_z inp p) then sskip f (p + 1) else p
    end.

  Definition sfinish (s : pstate) : sresult :=
    let consumed := match kind with KCorrect => ps_pos s | KPass => sskip (length inp) (ps_pos s) end in
    SOk consumed (ps_out s) (ps_pm s) (rev (ps_trace s)).

  (* one iteration; the boolean tells whether to go on (false = goto failure) *)
  Definition sstep (s : pstate) : pstate * bool :=
    let pos := ps_pos s in
    let hit := if ps_inc s then find_rule chain pos else None in
    match hit with
    | Some (r, m) =>
        match do_action inp cap r m (ps_out s) (ps_pm s) with
        | (out, pm, None) => (mkPS pos out pm (ps_inc s) (p_idx r :: ps_trace s), false)
        | (out, pm, Some newpos) =>
            (* posIncremented after a rule: the expression REGENERATED from makeCorrections / translatePass *)
            (mkPS newpos out pm (stage_inc newpos pos (len out) (len (ps_out s))) (p_idx r :: ps_trace s), true)
        end
    | None =>
        if len (ps_out s) + 1 >? cap then (s, false)
        else (mkPS (pos + 1) (ps_out s ++ [nth_z inp pos]) (ps_pm s ++ [pos]) true (ps_trace s), true)
    end.

  Fixpoint sloop (fuel : nat) (s : pstate) : sresult :=
    match fuel with
    | O => SOutOfFuel
    | S f =>
        if ps_pos s >=? sn then sfinish s
        else let '(s', go) := sstep s in if go then sloop f s' else sfinish s'
    end.
End Stage.

(* fuel: generous but finite; the theorems of C03 say when it suffices *)
Definition stage_fuel (inp : list Z) (cap : Z) : nat := S (2 * length inp + 2 * Z.to_nat cap + 2).

Definition run_stage (kind : stage_kind) (rules : list prule) (is_space : Z -> bool) (inp : list Z) (cap : Z) : sresult :=
  sloop kind (pass_chain rules) is_space inp cap (stage_fuel inp cap) (mkPS 0 [] [] true []).

(* ---------------------------------------------------------------- the forward driver *)

(* posMapping composition of _lou_translate: prev has one entry per element of the stage input
   plus the consumed length; stage likewise for the stage output *)
Definition compose_fwd (prev stage : list Z) : list Z :=
  map (fun x => if x <? 0 then nth_z prev 0 else nth_z prev x) stage.

Inductive dresult :=
| DOk (consumed : Z) (cells : list Z) (pm : list Z) (trace : list Z)   (* pm: one entry per cell *)
| DUnsupported
| DOutOfFuel.

(* the rule lists hold the rules of ONE direction; the two table-wide flags are set by rules of
   either direction (table->corrections, table->numPasses) *)
Record ptable := mkPT {
  pt_main : table;
  pt_correct : list prule;
  pt_pass2 : list prule;
  pt_pass3 : list prule;
  pt_pass4 : list prule;
  pt_corr : bool;         (* the table has a correct rule *)
  pt_np : Z               (* highest pass number that has a rule (1 if none) *)
}.

Definition num_passes (pt : ptable) : Z := pt_np pt.

(* cells of pass stages are "space" when the cell's definitions say so *)
Definition cell_space (t : table) (d : Z) : bool :=
  let ds := filter (fun e => is_chardef e && match e_dots e with [d'] => d =? d' | _ => false end) (builtin :: t) in
  match ds with
  | [] => true       (* unknown cell: the static notFound record has CTC_Space *)
  | _ => existsb (fun e => has_attr (class_attr (e_op e)) CTC_Space) ds
  end.

Definition after_stage (acc : option (list Z * list Z * list Z)) (r : sresult)
  : option (option (list Z * list Z * list Z)) :=     (* None = out of fuel *)
  match r with
  | SOutOfFuel => None
  | SOk consumed out pm tr =>
      let stagemap := pm ++ [consumed] in
      match acc with
      | None => Some (Some (out, stagemap, tr))
      | Some (_, prevmap, tr0) => Some (Some (out, compose_fwd prevmap stagemap, tr0 ++ tr))
      end
  end.

Definition forward (pt : ptable) (mode : Z) (inp : list Z) (cap : Z) : dresult :=
  let t := pt_main pt in
  (* stage 0: corrections *)
  let s0 :=
    if pt_corr pt then after_stage None (run_stage KCorrect (pt_correct pt) (fun _ => false) inp cap)
    else Some None in
  match s0 with
  | None => DOutOfFuel
  | Some acc0 =>
      let in1 := match acc0 with Some (o, _, _) => o | None => inp end in
      match translate_ref t mode in1 cap with
      | TUnsupported => DUnsupported
      | TOutOfFuel => DOutOfFuel
      | TOk consumed cells pm tr =>
          match after_stage acc0 (SOk consumed cells pm tr) with
          | None => DOutOfFuel
          | Some acc1 =>
              let run_pass (acc : option (option (list Z * list Z * list Z))) (rules : list prule) :=
                match acc with
                | None => None
                | Some a =>
                    let i := match a with Some (o, _, _) => o | None => [] end in
                    after_stage a (run_stage KPass rules (cell_space t) i cap)
                end in
              let np := num_passes pt in
              let a2 := if 2 <=? np then run_pass (Some acc1) (pt_pass2 pt) else Some acc1 in
              let a3 := if 3 <=? np then run_pass a2 (pt_pass3 pt) else a2 in
              let a4 := if 4 <=? np then run_pass a3 (pt_pass4 pt) else a3 in
              match a4 with
              | None => DOutOfFuel
              | Some None => DUnsupported
              | Some (Some (out, map, tr)) =>
                  DOk (nth_z map (len out)) out (firstn (length out) map) tr
              end
          end
      end
  end.
