"""A small C reader for the translator: comment stripping, function extraction, an expression
parser (precedence climbing) and a statement parser that covers the constructs used by the
functions the generated facts are read from.  Anything it does not understand raises
ParseError, which makes the caller fall back to the golden copy (DESIGN.md 2.1)."""
import re


class ParseError(Exception):
    pass


def strip_comments(src):
    out = []
    i, n = 0, len(src)
    while i < n:
        c = src[i]
        if c == '"' or c == "'":
            j = i + 1
            while j < n and src[j] != c:
                if src[j] == "\\":
                    j += 1
                j += 1
            out.append(src[i:j + 1])
            i = j + 1
        elif src.startswith("//", i):
            j = src.find("\n", i)
            i = n if j < 0 else j
        elif src.startswith("/*", i):
            j = src.find("*/", i + 2)
            seg = src[i:(n if j < 0 else j + 2)]
            out.append("\n" * seg.count("\n"))
            i = n if j < 0 else j + 2
        else:
            out.append(c)
            i += 1
    return "".join(out)


def strip_guarded(src, guard="LIBLOUIS_VERIF", defined=()):
    """Minimal conditional-compilation pass: `#ifdef X` blocks are kept only when X is in
    `defined` (the verification guard never is: hooks are not part of the facts), `#ifndef X`
    blocks unless it is; `#if <expr>` blocks are kept; `#define`/`#include`/other directive
    lines are blanked.  Line structure is preserved."""
    lines = src.split("\n")
    out = []
    stack = []  # entries: True = emitting, False = skipping (own condition), None = skipping (parent)
    cont = False
    for ln in lines:
        s = ln.strip()
        if cont:
            cont = s.endswith("\\")
            out.append("")
            continue
        emitting = all(x is True for x in stack)
        if s.startswith("#"):
            d = s[1:].strip()
            m = re.match(r"(ifdef|ifndef|if|elif|else|endif)\b\s*(.*)", d)
            if m:
                kw, arg = m.group(1), m.group(2).strip()
                if kw == "ifdef":
                    stack.append((arg in defined) if emitting else None)
                elif kw == "ifndef":
                    stack.append((arg not in defined) if emitting else None)
                elif kw == "if":
                    if arg == "0":
                        stack.append(False if emitting else None)
                    else:
                        stack.append(True if emitting else None)
                elif kw == "else":
                    if stack and stack[-1] is not None:
                        stack[-1] = not stack[-1]
                elif kw == "elif":
                    if stack and stack[-1] is not None:
                        stack[-1] = not stack[-1]
                elif kw == "endif":
                    if stack:
                        stack.pop()
            else:
                cont = s.endswith("\\")
            out.append("")
            continue
        out.append(ln if emitting else "")
    return "\n".join(out)


def load(path, guard="LIBLOUIS_VERIF"):
    return strip_guarded(strip_comments(open(path, encoding="utf-8", errors="replace").read()), guard)


def match_brace(src, i, open_c="{", close_c="}"):
    """src[i] == open_c; returns index of the matching close."""
    depth = 0
    n = len(src)
    j = i
    while j < n:
        c = src[j]
        if c == '"' or c == "'":
            k = j + 1
            while k < n and src[k] != c:
                if src[k] == "\\":
                    k += 1
                k += 1
            j = k
        elif c == open_c:
            depth += 1
        elif c == close_c:
            depth -= 1
            if depth == 0:
                return j
        j += 1
    raise ParseError("unbalanced " + open_c)


def find_function(src, name):
    """Returns (params_text, body_text) of the definition of `name`."""
    for m in re.finditer(r"(?m)^[ \t]*%s\s*\(" % re.escape(name), src):
        p0 = src.index("(", m.start())
        p1 = match_brace(src, p0, "(", ")")
        k = p1 + 1
        while k < len(src) and src[k] in " \t\n":
            k += 1
        if k < len(src) and src[k] == "{":
            e = match_brace(src, k)
            return src[p0 + 1:p1], src[k + 1:e]
    # definitions like `static int name(...) {` on one line
    for m in re.finditer(r"\b%s\s*\(" % re.escape(name), src):
        p0 = src.index("(", m.start())
        try:
            p1 = match_brace(src, p0, "(", ")")
        except ParseError:
            continue
        k = p1 + 1
        while k < len(src) and src[k] in " \t\n":
            k += 1
        if k < len(src) and src[k] == "{":
            # make sure this is a definition: preceded by a type on the same or previous line
            pre = src[max(0, m.start() - 80):m.start()]
            if re.search(r"[;{}]\s*$", pre.strip()[-1:] or ";") and not re.search(r"\b(static|int|void|char|widechar|unsigned|const|\*)\s*$", pre):
                continue
            e = match_brace(src, k)
            return src[p0 + 1:p1], src[k + 1:e]
    raise ParseError("function %s not found" % name)


def list_functions(src):
    """[(name, body_text)] for every function definition at top level."""
    out = []
    i, n = 0, len(src)
    depth = 0
    while i < n:
        c = src[i]
        if c == '"' or c == "'":
            j = i + 1
            while j < n and src[j] != c:
                if src[j] == "\\":
                    j += 1
                j += 1
            i = j + 1
            continue
        if c == "{":
            # is this the body of a function?  look back for `name ( ... )`
            k = i - 1
            while k >= 0 and src[k] in " \t\n":
                k -= 1
            if k >= 0 and src[k] == ")":
                d = 0
                j = k
                while j >= 0:
                    if src[j] == ")":
                        d += 1
                    elif src[j] == "(":
                        d -= 1
                        if d == 0:
                            break
                    j -= 1
                m = re.search(r"(\w+)\s*$", src[:j])
                e = match_brace(src, i)
                if m and m.group(1) not in ("if", "while", "for", "switch"):
                    out.append((m.group(1), src[i + 1:e]))
                i = e + 1
                continue
            else:
                i = match_brace(src, i) + 1
                continue
        i += 1
    return out


# ------------------------------------------------------------------ tokens

TOK = re.compile(r"""
    (?P<ws>\s+) |
    (?P<num>0[xX][0-9a-fA-F]+[uUlL]*|\d+[uUlL]*) |
    (?P<chr>'(?:\\.|[^'\\])+') |
    (?P<str>"(?:\\.|[^"\\])*") |
    (?P<id>[A-Za-z_]\w*) |
    (?P<op><<=|>>=|\+\+|--|->|<<|>>|<=|>=|==|!=|&&|\|\||\+=|-=|\*=|/=|%=|&=|\|=|\^=|[-+*/%<>=!~&|^?:;,.(){}\[\]])
""", re.X)

TYPEWORDS = {"int", "unsigned", "long", "short", "char", "widechar", "formtype", "const", "size_t",
             "void", "signed", "TranslationTableOffset", "TranslationTableCharacterAttributes",
             "TranslationTableOpcode", "static", "struct", "register", "volatile", "float", "double"}


def tokenize(text):
    toks = []
    i = 0
    while i < len(text):
        m = TOK.match(text, i)
        if not m:
            raise ParseError("cannot tokenize at %r" % text[i:i + 30])
        i = m.end()
        k = m.lastgroup
        if k == "ws":
            continue
        toks.append((k, m.group(k)))
    return toks


def char_value(lit):
    body = lit[1:-1]
    if body[0] != "\\":
        return ord(body[0])
    esc = {"n": 10, "t": 9, "r": 13, "0": 0, "\\": 92, "'": 39, '"': 34, "a": 7, "b": 8, "f": 12, "v": 11, "e": 27}
    if body[1] == "x":
        return int(body[2:], 16)
    if body[1] in esc and len(body) == 2:
        return esc[body[1]]
    if body[1].isdigit():
        return int(body[1:], 8)
    raise ParseError("char literal " + lit)


BINPREC = [
    ("||",), ("&&",), ("|",), ("^",), ("&",), ("==", "!="), ("<", ">", "<=", ">="),
    ("<<", ">>"), ("+", "-"), ("*", "/", "%"),
]
ASSIGN = {"=", "+=", "-=", "*=", "/=", "%=", "&=", "|=", "^=", "<<=", ">>="}


class Parser:
    def __init__(self, toks, typenames=()):
        self.t = toks
        self.i = 0
        self.types = set(TYPEWORDS) | set(typenames)

    def peek(self, k=0):
        return self.t[self.i + k] if self.i + k < len(self.t) else ("eof", "")

    def next(self):
        x = self.peek()
        self.i += 1
        return x

    def accept(self, v):
        if self.peek()[1] == v and self.peek()[0] in ("op", "id"):
            self.i += 1
            return True
        return False

    def expect(self, v):
        if not self.accept(v):
            raise ParseError("expected %r, got %r" % (v, self.peek()))

    # ---- expressions
    def expr(self):
        e = self.assign()
        while self.accept(","):
            e = ("comma", e, self.assign())
        return e

    def assign(self):
        lhs = self.cond()
        k, v = self.peek()
        if k == "op" and v in ASSIGN:
            self.next()
            rhs = self.assign()
            return ("assign", v, lhs, rhs)
        return lhs

    def cond(self):
        c = self.binary(0)
        if self.accept("?"):
            a = self.expr()
            self.expect(":")
            b = self.cond()
            return ("cond", c, a, b)
        return c

    def binary(self, lvl):
        if lvl == len(BINPREC):
            return self.unary()
        e = self.binary(lvl + 1)
        while self.peek()[0] == "op" and self.peek()[1] in BINPREC[lvl]:
            op = self.next()[1]
            r = self.binary(lvl + 1)
            e = ("bin", op, e, r)
        return e

    def is_type_start(self, k=0):
        kind, v = self.peek(k)
        return kind == "id" and v in self.types

    def unary(self):
        kind, v = self.peek()
        if kind == "op" and v in ("!", "-", "~", "+", "*", "&"):
            self.next()
            return ("un", v, self.unary())
        if kind == "op" and v in ("++", "--"):
            self.next()
            return ("preinc", v, self.unary())
        if kind == "id" and v == "sizeof":
            self.next()
            if self.peek()[1] == "(":
                j = self._match_paren()
                inner = self.t[self.i + 1:j]
                self.i = j + 1
                return ("sizeof", " ".join(x[1] for x in inner))
            return ("sizeof", self.unary())
        if kind == "op" and v == "(" and (self.is_type_start(1) or self._ptr_cast_ahead()):
            # cast
            j = self._match_paren()
            ty = " ".join(x[1] for x in self.t[self.i + 1:j])
            self.i = j + 1
            if self.peek()[1] == "{":
                # compound literal
                e = self.i
                depth = 0
                while True:
                    if self.t[e][1] == "{":
                        depth += 1
                    elif self.t[e][1] == "}":
                        depth -= 1
                        if depth == 0:
                            break
                    e += 1
                self.i = e + 1
                return ("compound", ty)
            return ("cast", ty, self.unary())
        return self.postfix()

    def _ptr_cast_ahead(self):
        # ( Ident * ... ) : a cast to a pointer of a type we do not know by name
        if self.peek(1)[0] != "id" or self.peek(2) != ("op", "*"):
            return False
        k = 2
        while self.peek(k) == ("op", "*"):
            k += 1
        return self.peek(k) == ("op", ")")

    def _match_paren(self):
        depth = 0
        j = self.i
        while j < len(self.t):
            if self.t[j][1] == "(" and self.t[j][0] == "op":
                depth += 1
            elif self.t[j][1] == ")" and self.t[j][0] == "op":
                depth -= 1
                if depth == 0:
                    return j
            j += 1
        raise ParseError("unbalanced paren")

    def postfix(self):
        kind, v = self.next()
        if kind == "num":
            e = ("num", int(re.sub(r"[uUlL]+$", "", v), 0))
        elif kind == "chr":
            e = ("num", char_value(v))
        elif kind == "str":
            e = ("str", v)
            while self.peek()[0] == "str":
                e = ("str", e[1][:-1] + self.next()[1][1:])
        elif kind == "id":
            e = ("var", v)
        elif kind == "op" and v == "(":
            e = self.expr()
            self.expect(")")
        else:
            raise ParseError("unexpected token %r" % ((kind, v),))
        while True:
            kind, v = self.peek()
            if kind != "op":
                break
            if v == "(":
                self.next()
                args = []
                if not self.accept(")"):
                    args.append(self.assign())
                    while self.accept(","):
                        args.append(self.assign())
                    self.expect(")")
                e = ("call", e, args)
            elif v == "[":
                self.next()
                ix = self.expr()
                self.expect("]")
                e = ("index", e, ix)
            elif v in (".", "->"):
                self.next()
                e = ("member", e, self.next()[1], v)
            elif v in ("++", "--"):
                self.next()
                e = ("postinc", v, e)
            else:
                break
        return e

    # ---- statements
    def block_items(self):
        items = []
        while self.peek()[0] != "eof" and self.peek()[1] != "}":
            items.append(self.stmt())
        return items

    def stmt(self):
        kind, v = self.peek()
        if kind == "op" and v == "{":
            self.next()
            items = self.block_items()
            self.expect("}")
            return ("block", items)
        if kind == "op" and v == ";":
            self.next()
            return ("empty",)
        if kind == "id":
            if v == "if":
                self.next()
                self.expect("(")
                c = self.expr()
                self.expect(")")
                a = self.stmt()
                b = None
                if self.accept("else"):
                    b = self.stmt()
                return ("if", c, a, b)
            if v == "while":
                self.next()
                self.expect("(")
                c = self.expr()
                self.expect(")")
                return ("while", c, self.stmt())
            if v == "do":
                self.next()
                body = self.stmt()
                self.expect("while")
                self.expect("(")
                c = self.expr()
                self.expect(")")
                self.expect(";")
                return ("dowhile", c, body)
            if v == "for":
                self.next()
                self.expect("(")
                init = None
                if not self.accept(";"):
                    init = self.decl_or_expr()
                    self.expect(";")
                c = None
                if not self.accept(";"):
                    c = self.expr()
                    self.expect(";")
                step = None
                if self.peek()[1] != ")":
                    step = self.expr()
                self.expect(")")
                return ("for", init, c, step, self.stmt())
            if v == "return":
                self.next()
                e = None
                if self.peek()[1] != ";":
                    e = self.expr()
                self.expect(";")
                return ("return", e)
            if v in ("break", "continue"):
                self.next()
                self.expect(";")
                return (v,)
            if v == "goto":
                self.next()
                lab = self.next()[1]
                self.expect(";")
                return ("goto", lab)
            if v == "switch":
                self.next()
                self.expect("(")
                e = self.expr()
                self.expect(")")
                self.expect("{")
                arms = []
                cur = None
                while self.peek()[1] != "}":
                    if self.peek() == ("id", "case"):
                        self.next()
                        lab = self.cond()
                        self.expect(":")
                        if cur is None or cur[1]:
                            cur = ([lab], [])
                            arms.append(cur)
                        else:
                            cur[0].append(lab)
                    elif self.peek() == ("id", "default"):
                        self.next()
                        self.expect(":")
                        if cur is None or cur[1]:
                            cur = (["default"], [])
                            arms.append(cur)
                        else:
                            cur[0].append("default")
                    else:
                        if cur is None:
                            raise ParseError("statement before case")
                        cur[1].append(self.stmt())
                self.expect("}")
                return ("switch", e, arms)
            if self.peek(1) == ("op", ":") and v not in ("default",):
                self.next()
                self.next()
                return ("label", v)
        e = self.decl_or_expr()
        self.expect(";")
        return e

    def decl_or_expr(self):
        # declaration: starts with a type word, or `Ident Ident` / `Ident *Ident`
        if self.is_type_start() or (self.peek()[0] == "id" and self.peek(1)[0] == "id") or \
                (self.peek()[0] == "id" and self.peek(1) == ("op", "*") and self.peek(2)[0] == "id"
                 and self.peek(3)[1] in ("=", ";", ",", "[")):
            ty = []
            while self.peek()[0] == "id" and (self.peek(1)[0] == "id" or self.peek(1) == ("op", "*")):
                ty.append(self.next()[1])
                while self.peek() == ("op", "*") and (self.peek(1)[0] == "id" or self.peek(1) == ("op", "*")):
                    ty.append(self.next()[1])
                    if self.peek(1)[0] != "id" and self.peek(1) != ("op", "*"):
                        break
            decls = []
            while True:
                while self.accept("*"):
                    pass
                while self.accept("const"):
                    pass
                if self.peek()[0] != "id":
                    raise ParseError("declarator expected, got %r" % (self.peek(),))
                name = self.next()[1]
                dims = []
                while self.accept("["):
                    if self.peek()[1] != "]":
                        dims.append(self.expr())
                    self.expect("]")
                init = None
                if self.accept("="):
                    if self.peek()[1] == "{":
                        e = self.i
                        depth = 0
                        while True:
                            if self.t[e][1] == "{":
                                depth += 1
                            elif self.t[e][1] == "}":
                                depth -= 1
                                if depth == 0:
                                    break
                            e += 1
                        self.i = e + 1
                        init = ("initlist",)
                    else:
                        init = self.assign()
                decls.append((name, dims, init))
                if not self.accept(","):
                    break
            return ("decl", " ".join(ty), decls)
        return ("expr", self.expr())


def parse_body(body_text, typenames=()):
    p = Parser(tokenize(body_text), typenames)
    items = p.block_items()
    if p.peek()[0] != "eof":
        raise ParseError("trailing tokens: %r" % (p.peek(),))
    return items


def parse_expr(text, typenames=()):
    p = Parser(tokenize(text), typenames)
    e = p.expr()
    if p.peek()[0] != "eof":
        raise ParseError("trailing tokens in expression")
    return e


# ------------------------------------------------------------------ printing to Gallina (Z)

def show_c(e):
    """Normalised C text of an expression (used as site keys)."""
    k = e[0]
    if k == "num":
        return str(e[1])
    if k == "var":
        return e[1]
    if k == "str":
        return e[1]
    if k == "bin":
        return "(%s %s %s)" % (show_c(e[2]), e[1], show_c(e[3]))
    if k == "un":
        return "%s%s" % (e[1], show_c(e[2]))
    if k == "call":
        return "%s(%s)" % (show_c(e[1]), ", ".join(show_c(a) for a in e[2]))
    if k == "index":
        return "%s[%s]" % (show_c(e[1]), show_c(e[2]))
    if k == "member":
        return "%s%s%s" % (show_c(e[1]), e[3], e[2])
    if k == "cond":
        return "(%s ? %s : %s)" % (show_c(e[1]), show_c(e[2]), show_c(e[3]))
    if k == "cast":
        return show_c(e[2])
    if k == "assign":
        return "%s %s %s" % (show_c(e[2]), e[1], show_c(e[3]))
    if k in ("postinc", "preinc"):
        return show_c(e[2]) + e[1]
    if k == "sizeof":
        return "sizeof(%s)" % (e[1] if isinstance(e[1], str) else show_c(e[1]))
    if k == "comma":
        return show_c(e[1]) + ", " + show_c(e[2])
    if k == "compound":
        return "(%s){...}" % e[1]
    return str(e)


class ToZ:
    """Prints an integer-valued C expression as a Gallina Z term and a condition as a bool.
    `env` maps normalised C sub-expressions (show_c) or variable names to Gallina names."""

    def __init__(self, env, consts=None):
        self.env = env
        self.consts = consts or {}

    def z(self, e):
        key = show_c(e)
        if key in self.env:
            return self.env[key]
        if key.replace(" ", "") in self.env:
            return self.env[key.replace(" ", "")]
        k = e[0]
        if k == "num":
            return "%d" % e[1] if e[1] >= 0 else "(%d)" % e[1]
        if k == "var":
            if e[1] in self.consts:
                return "%d" % self.consts[e[1]]
            raise ParseError("unknown variable %s" % e[1])
        if k == "cast":
            return self.z(e[2])
        if k == "bin":
            a, b = e[2], e[3]
            op = e[1]
            if op in ("+", "-", "*"):
                return "(%s %s %s)" % (self.z(a), op, self.z(b))
            if op == "/":
                return "(Z.quot %s %s)" % (self.z(a), self.z(b))
            if op == "%":
                return "(Z.rem %s %s)" % (self.z(a), self.z(b))
            if op == "<<":
                return "(Z.shiftl %s %s)" % (self.z(a), self.z(b))
            if op == ">>":
                return "(Z.shiftr %s %s)" % (self.z(a), self.z(b))
            if op == "&":
                return "(Z.land %s %s)" % (self.z(a), self.z(b))
            if op == "|":
                return "(Z.lor %s %s)" % (self.z(a), self.z(b))
            if op == "^":
                return "(Z.lxor %s %s)" % (self.z(a), self.z(b))
            return "(if %s then 1 else 0)" % self.b(e)
        if k == "un":
            if e[1] == "-":
                return "(- %s)" % self.z(e[2])
            if e[1] == "+":
                return self.z(e[2])
            if e[1] == "!":
                return "(if %s then 1 else 0)" % self.b(e)
        if k == "cond":
            return "(if %s then %s else %s)" % (self.b(e[1]), self.z(e[2]), self.z(e[3]))
        raise ParseError("cannot print as Z: %s" % key)

    def b(self, e):
        k = e[0]
        if k == "bin":
            op = e[1]
            cmpop = {"<": "<?", "<=": "<=?", ">": ">?", ">=": ">=?", "==": "=?"}
            if op in cmpop:
                return "(%s %s %s)" % (self.z(e[2]), cmpop[op], self.z(e[3]))
            if op == "!=":
                return "(negb (%s =? %s))" % (self.z(e[2]), self.z(e[3]))
            if op == "&&":
                return "(%s && %s)" % (self.b(e[2]), self.b(e[3]))
            if op == "||":
                return "(%s || %s)" % (self.b(e[2]), self.b(e[3]))
        if k == "un" and e[1] == "!":
            return "(negb %s)" % self.b(e[2])
        return "(negb (%s =? 0))" % self.z(e)
