(* C12 — a compiled table image is internally consistent.  Statements only.
   (a) the executable checker applied to the dumped image of every table is sound: what it
       accepts satisfies the declarative consistency conditions;
   (b) the bump allocator: offsets never change when the image grows, offset 0 stays reserved,
       allocations never overlap - for EVERY sequence of allocation sizes.                    *)
From Coq Require Import ZArith Bool FMapPositive.
From Coq Require Import List.
From Lou Require Import Gen.GConst Gen.GChain Model.Image Proofs.ImageProofs.
Import ListNotations.
Local Open Scope Z_scope.

(* allocations accepted by the checker: offset 0 is never handed out, every allocation lies inside
   the used part, and in allocation order each starts at or after the end of the previous one *)
Theorem allocations_sound : forall i, check_image i = true ->
  (forall a, In a (i_allocs i) -> 1 <= a_off a /\ 0 <= a_size a /\ a_off a * 8 + a_size a <= i_used i) /\
  (forall k1 k2 a b, (k1 < k2)%nat -> nth_error (i_allocs i) k1 = Some a -> nth_error (i_allocs i) k2 = Some b ->
                     a_off a + units (a_size a) <= a_off b).
Proof. exact ImageProofs.allocs_sound_l. Qed.
Print Assumptions allocations_sound.

(* every stored reference is null where null is allowed, or designates the START of an allocation
   large enough for the object it is supposed to hold *)
Theorem references_sound : forall i r, check_image i = true -> In r (i_refs i) ->
  (r_target r = 0 /\ r_nullok r = true) \/
  (exists a, In a (i_allocs i) /\ a_off a = r_target r /\ r_need r <= a_size a).
Proof. exact ImageProofs.refs_sound_l. Qed.
Print Assumptions references_sound.

(* forward rule chains: finite (no member twice), every member a complete allocated object, sitting
   in the bucket of its first two characters (case-folded for context rules), and ordered longest
   first with `always' rules last among equals (the REGENERATED insertion condition never holds
   between a later and an earlier member) *)
Theorem forward_chains_sound : forall i h l, check_image i = true -> In (h, l) (i_fwd i) ->
  NoDup (map c_off l) /\
  (forall x, In x l -> exists a, In a (i_allocs i) /\ a_off a = c_off x) /\
  (forall x, In x l -> (if c_op x =? CTO_Context then c_low x else c_raw x) = h) /\
  (forall k1 k2 x y, (k1 < k2)%nat -> nth_error l k1 = Some x -> nth_error l k2 = Some y ->
     c_len y <= c_len x /\ (c_len y = c_len x -> c_op x = CTO_Always -> c_op y = CTO_Always)).
Proof. exact ImageProofs.fwd_sound_l. Qed.
Print Assumptions forward_chains_sound.

(* character records sit in the bucket of their value and their rule chains are finite, allocated
   and ordered (translation rules before definitions) *)
Theorem character_records_sound : forall i v b l, check_image i = true -> In (v, b, l) (i_chars i) ->
  b = char_hash v /\ NoDup (map c_off l) /\
  (forall x, In x l -> exists a, In a (i_allocs i) /\ a_off a = c_off x) /\
  (forall k1 k2 x y, (k1 < k2)%nat -> nth_error l k1 = Some x -> nth_error l k2 = Some y ->
     is_def_op (c_op x) = true -> is_def_op (c_op y) = true).
Proof. exact ImageProofs.chars_sound_l. Qed.
Print Assumptions character_records_sound.

(* completeness: every rule object that the compiler created (reported by the rule hook, read back from the
   image) is a member of the chains in which lookups search for it - the forward bucket / character record for
   its characters unless it is `nofor', the backward bucket / cell record for its cells unless it is `noback', the
   pass chains for multipass rules.  Together with forward_chains_sound: it sits in THE bucket of its first two
   characters.  (exp_* mirror the dispatch at the end of addRule.) *)
Theorem every_rule_is_linked : forall i rules r, rules_linked i rules = true -> In r rules ->
  (exp_fwd r = true -> exists h l, In (h, l) (i_fwd i) /\ In (ri_off r) (map c_off l)) /\
  (exp_back r = true -> exists h l, In (h, l) (i_back i) /\ In (ri_off r) (map c_off l)) /\
  (exp_char r = true -> exists vb l, In (vb, l) (i_chars i) /\ In (ri_off r) (map c_off l)) /\
  (exp_cell r = true -> exists vb l, In (vb, l) (i_cells i) /\ In (ri_off r) (map c_off l)) /\
  (exp_fpass r = true -> exists n l, In (n, l) (i_fpass i) /\ In (ri_off r) (map c_off l)) /\
  (exp_bpass r = true -> exists n l, In (n, l) (i_bpass i) /\ In (ri_off r) (map c_off l)).
Proof. exact ImageProofs.rules_linked_l. Qed.
Print Assumptions every_rule_is_linked.

(* multipass programs: the walker steps through the byte code of every context / correct / pass2-4 rule as the
   interpreters do; every rule reference embedded in a program is a reference like any other (references_sound), and
   every bound it reports holds: instructions end inside their part of the rule, variable numbers are below NUMVAR,
   the test part is terminated *)
Theorem program_bounds_sound : forall l v b, bounds_ok l = true -> In (v, b) l -> 0 <= v < b.
Proof. exact ImageProofs.bounds_ok_l. Qed.
Print Assumptions program_bounds_sound.

(* the other place that links rules into forward chains: finalizeTable moves context rules to the bucket of their
   case-folded characters with its own loop; its REGENERATED condition agrees with the insertion condition the
   checker orders forward chains by *)
Theorem rebucketing_uses_the_insertion_order : forall nl rl rop,
  rebucket_before nl CTO_Context rl rop = fwd_multi_before nl CTO_Context rl rop.
Proof. exact ImageProofs.rebucket_is_insertion_l. Qed.
Print Assumptions rebucketing_uses_the_insertion_order.

(* ---- the allocator, for every sequence of sizes *)
Definition arena_run (hdr : Z) (sizes : list Z) : arena :=
  fold_left (fun ar n => fst (arena_alloc hdr ar n)) sizes (arena_init hdr).

(* growing never moves or resizes what was allocated before: relocation is the identity on offsets *)
Theorem growth_preserves_allocations : forall hdr sizes n,
  exists a, ar_allocs (arena_run hdr (sizes ++ [n])) = a :: ar_allocs (arena_run hdr sizes) /\ a_size a = n.
Proof. exact ImageProofs.grow_preserves_l. Qed.

(* what the allocator produces always passes the checker's allocation test: offset 0 reserved, no overlap *)
Theorem allocator_output_is_consistent : forall hdr sizes, 0 <= hdr -> hdr mod 8 = 0 -> Forall (fun n => 0 <= n) sizes ->
  allocs_ok (ar_used (arena_run hdr sizes) - hdr) 1 (rev (ar_allocs (arena_run hdr sizes))) = true.
Proof. exact ImageProofs.arena_ok_l. Qed.
Print Assumptions allocator_output_is_consistent.

Example checker_rejects_an_overlap :
  allocs_ok 100 1 [mkA 1 16; mkA 2 8] = false /\ allocs_ok 100 1 [mkA 1 16; mkA 3 8] = true.
Proof. vm_compute. split; reflexivity. Qed.
